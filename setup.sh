#!/usr/bin/env bash
# Idempotent, offline: overlay venv on top of /venv (which holds /repo's editable install + deps)
# with crosshair-tool, z3-solver and cvc5 from the local wheelhouse.
set -euo pipefail
V=/verif/.venv
WH=/opt/veriftools/wheels
if [ -x "$V/bin/python" ] && "$V/bin/python" -c "import z3, crosshair, pennylane" >/dev/null 2>&1; then
  exit 0
fi
rm -rf "$V"
/venv/bin/python -m venv "$V"
SP=$("$V/bin/python" -c "import sysconfig; print(sysconfig.get_paths()['purelib'])")
echo "import site; site.addsitedir('/venv/lib/python3.12/site-packages')" > "$SP/_overlay.pth"
PIP_NO_INDEX=1 "$V/bin/pip" install --quiet --no-index --find-links "$WH" crosshair-tool z3-solver cvc5 >/dev/null
"$V/bin/python" -c "import z3, crosshair, pennylane; print('verif venv ok: z3', z3.get_version_string(), 'pennylane', pennylane.__version__)"
