#!/usr/bin/env python3
"""Create a scratch worktree for a seeding sub-agent and print its prompt.  usage: seed_prompt.py C07 [tag]"""
import json, subprocess, sys, os
pid = sys.argv[1]
tag = sys.argv[2] if len(sys.argv) > 2 else "a"
wt = f"/tmp/seed/{pid}{tag}"
if not os.path.isdir(wt):
    subprocess.run(["git", "-C", "/repo", "worktree", "add", "--detach", "-q", wt, "HEAD"], check=True)
os.makedirs(wt + "/_out", exist_ok=True)
prop = [json.loads(l) for l in open("/verif/properties.jsonl") if json.loads(l)["id"] == pid][0]
print(f"""You are helping to evaluate a verification effort for the PennyLane quantum-computing library. Your job is to act as a realistic "bug author": write changes to PennyLane that BREAK one stated semantic property while the code still imports/compiles and the repository's existing (pinned) test suite still passes.

## Your sandbox
- Your own scratch git worktree of PennyLane is at `{wt}` (detached HEAD). Work ONLY inside it. Never read or write `/repo` or `/verif` (do not look at /verif at all - your work must be independent of it). Do not commit; leave your changes to be extracted with `git diff`.
- Python: `/venv/bin/python` (has all deps; pennylane there is an editable install of another tree, so ALWAYS run with `cd {wt} && PYTHONPATH={wt} /venv/bin/python ...` and confirm `pennylane.__file__` starts with `{wt}`).
- No network. Wrap every exploratory script in `timeout 300`.
- The pinned test suite (≈2-4 min): `cd {wt} && PYTHONPATH={wt} /venv/bin/python -m pytest -ra -q -p no:cacheprovider --timeout=900 --continue-on-collection-errors --junitxml={wt}/_out/run.xml > {wt}/_out/run.log 2>&1` then `/venv/bin/python /tmp/seedtools/baseline_cmp.py {wt}/_out/run.xml` must print `missing=0` (many tests fail at baseline already; only the 257 stable passes matter, and that script compares exactly those). These are doc tests (Sybil) over `doc/` - unit tests under `tests/` are NOT part of the pinned suite.

## The property to break
```json
{json.dumps(prop, indent=1)}
```

## What to produce
Produce TWO independent changes (different code sites / different mechanisms), each of which:
1. is a small, realistic source change under `{wt}/pennylane/` (the kind of slip a maintainer could make in a refactor or "optimisation": wrong sign/index/period/condition, off-by-one, missing case, two sites that each look fine alone, etc.);
2. makes the property FALSE for some inputs, but needs something specific to manifest - a particular parameter value or range, an unusual but valid input, a specific wire order / option combination, a multi-step sequence, a broadcast batch, etc. - NOT something any ordinary use would expose immediately;
3. still imports fine and keeps the pinned suite green (`missing=0` as above) - verify this yourself for each change separately;
4. comes with a demonstration: a small self-contained Python program that uses only the public/real PennyLane API, exits with status 1 (printing what is wrong) when run against the changed tree and exits 0 against the unchanged tree. Verify both directions yourself. NEVER use `git stash` (the stash is shared between all worktrees of this repository and other people are working in sibling worktrees): to switch, save your change with `git diff > _out/tmp.diff`, `git checkout -- .`, and re-apply with `git apply _out/tmp.diff`.

Write into `{wt}/_out/`:
- `patch1.diff`, `patch2.diff` (each the output of `git diff` for that change alone, applicable with `git apply` to a clean tree),
- `demo1.py`, `demo2.py`,
- `notes.md`: for each change - which file/function, why it breaks the property, exactly what is needed for it to manifest, and the commands you ran with their results (suite result line and both demo runs).
When finished leave the worktree CLEAN (`git checkout -- .`; the `_out` directory is untracked and stays). Your final message should be a 5-10 line summary of the two changes.""")
