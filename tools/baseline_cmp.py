#!/usr/bin/env python3
"""Compare a junit xml of the pinned suite with /root/.vp/BASELINE.json stable_pass.
usage: baseline_cmp.py run.xml   -> prints missing stable passes; exit 0 iff none missing."""
import json, sys
import xml.etree.ElementTree as ET

base = json.load(open('/root/.vp/BASELINE.json'))
stable = set(base['stable_pass'])
root = ET.parse(sys.argv[1]).getroot()
passed = set()
for tc in root.iter('testcase'):
    bad = any(ch.tag in ('failure', 'error', 'skipped') for ch in tc)
    tid = f"{tc.get('classname','')}::{tc.get('name','')}"
    if not bad:
        passed.add(tid)
missing = sorted(stable - passed)
print(f"stable={len(stable)} passed_now={len(passed)} missing={len(missing)}")
for m in missing[:40]:
    print("  MISSING", m)
sys.exit(1 if missing else 0)
