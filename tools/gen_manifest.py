#!/usr/bin/env python3
"""Regenerates /verif/MANIFEST.json from tools/manifest_src.py (claimed checks + not_applicable)."""
import json, sys, os
sys.path.insert(0, os.path.dirname(__file__))
from manifest_src import CHECKS, NOT_APPLICABLE, NOTES

props = [json.loads(l) for l in open('/verif/properties.jsonl')]
ids = [p['id'] for p in props]
claimed = {c['property_id'] for c in CHECKS}
na = {n['property_id'] for n in NOT_APPLICABLE}
assert claimed.isdisjoint(na), claimed & na
missing = [i for i in ids if i not in claimed and i not in na]
assert not missing, missing
checks = []
for c in CHECKS:
    pid = c['property_id']
    d = {
        "property_id": pid,
        "quick_cmd": f"/verif/bin/check {pid} --tier quick",
        "thorough_cmd": f"/verif/bin/check {pid} --tier thorough",
        "evidence_file": f"/verif/evidence/{pid}.json",
        "replay_cmd_template": f"/verif/bin/check {pid} --replay {{path}}",
        "engine": c.get("engine", "E1 symx + z3"),
        "level_claimed": {"category": c["category"], "text": c["text"], "design_ref": c.get("design_ref", f"DESIGN.md §4 {pid}")},
        "level_note": c["note"],
        "technique": c["technique"],
    }
    checks.append(d)
m = {
    "version": 1,
    "setup_cmd": "bash /verif/setup.sh",
    "hooks": {"guard": "PENNYLANE_VERIF", "enable": "none needed: all instrumentation is monkeypatching inside the check process",
              "baseline_off_cmd": "cd /repo && /venv/bin/python -m pytest -ra -q -p no:cacheprovider --timeout=900 --continue-on-collection-errors --junitxml=/tmp/verif_baseline.junit.xml",
              "source_commits": [], "add_only": True},
    "engines": [
        {"name": "E1 symx", "path": "/verif/vf/symx.py", "kind_free_text": "lifted execution of the real qp.math code over polynomial terms; identities/inequalities decided by z3 QF_NRA", "serves_properties": sorted(c['property_id'] for c in CHECKS if c.get('engine','E1').startswith('E1'))},
        {"name": "E2 crosshair", "path": "/verif/vf/chrun.py", "kind_free_text": "CrossHair (z3) symbolic execution of pure-Python integer/structural code against reference contracts", "serves_properties": sorted(c['property_id'] for c in CHECKS if c.get('engine','').startswith('E2'))},
        {"name": "E3 rev", "path": "/verif/vf/rev.py", "kind_free_text": "reversible-circuit to SMT (Bool/bit-vector) translation of real decompositions", "serves_properties": sorted(c['property_id'] for c in CHECKS if c.get('engine','').startswith('E3'))},
        {"name": "E5 symbit", "path": "/verif/vf/symbit.py", "kind_free_text": "lifted execution of integer/bit code over z3 Bool/Int terms in numpy object arrays, fork-on-bool through the solver", "serves_properties": sorted(c['property_id'] for c in CHECKS if c.get('engine','').startswith('E5'))},
        {"name": "E4 mcm", "path": "/verif/vf/mcm.py", "kind_free_text": "measurement-branch interpreter on E1 values", "serves_properties": sorted(c['property_id'] for c in CHECKS if c.get('engine','').startswith('E4'))},
    ],
    "checks": checks,
    "notes": NOTES,
    "not_applicable": NOT_APPLICABLE,
}
json.dump(m, open('/verif/MANIFEST.json', 'w'), indent=1)
print("claimed", len(checks), "not_applicable", len(NOT_APPLICABLE))
