#!/usr/bin/env bash
# run every registered check (quick by default) sequentially; summary on stdout
TIER=${1:-quick}
cd /verif
for c in $(/venv/bin/python -c "import json; print(' '.join(x['property_id'] for x in json.load(open('/verif/MANIFEST.json'))['checks']))"); do
  s=$(date +%s); out=$(timeout 7200 bin/check $c --tier $TIER 2>&1); rc=$?
  echo "$c rc=$rc $(($(date +%s)-s))s :: $(echo "$out" | grep '^\[' | tail -1)"; echo "$out" | grep '^VIOLATION\|^KNOWN' | head -5
done
