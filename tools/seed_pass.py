#!/usr/bin/env python3
"""Run the registered quick checks against every seeded change and write /verif/seeded/<id>/meta.json.

usage: seed_pass.py [--mode repo|worktree] [--jobs N] [seed ids...]
  repo      apply the patch to /repo (git -C /repo apply), run demo + checks, undo with `git -C /repo checkout -- .` (sequential;
            nothing else may use /repo meanwhile)
  worktree  same steps in a scratch worktree /tmp/seedwt/<id> of /repo HEAD (removed afterwards), checks pointed at it with VERIF_REPO
"""
import json, os, subprocess, sys, time
from concurrent.futures import ThreadPoolExecutor

sys.path.insert(0, "/verif/tools")
from seed_table import SEEDS

ROOT = "/verif/seeded"
EXTRA_CHECKS = {"C17": ["C17", "C18"], "C18": ["C18", "C17"], "C33": ["C33", "C22"]}


def sh(cmd, **kw):
    return subprocess.run(cmd, shell=True, capture_output=True, text=True, **kw)


def head():
    return sh("git -C /repo rev-parse --short HEAD").stdout.strip()


def one(sid, mode):
    prop = sid.split("-")[0]
    d = f"{ROOT}/{sid}"
    info = SEEDS.get(sid, {})
    meta = {"seed": sid, "breaks_property": prop, "needs_to_manifest": info.get("needs", ""), "repo_head": head(), "mode": mode}
    prev = f"/verif/.work/seedeval/{sid}/result.json"
    if os.path.exists(prev):
        try:
            p = json.load(open(prev))
            meta["confirmed_when_filed"] = {"demo_exit_unchanged_tree": p.get("demo_exit_unchanged"), "demo_exit_changed_tree": p.get("demo_exit_patched"), "pinned_suite_with_change": p.get("pinned_suite_with_patch")}
        except Exception:
            pass
    tree = "/repo" if mode == "repo" else f"/tmp/seedwt/{sid}"
    if mode == "worktree":
        sh(f"git -C /repo worktree remove --force {tree}")
        r = sh(f"mkdir -p /tmp/seedwt && git -C /repo worktree add --detach -q {tree} HEAD")
        if r.returncode:
            meta["error"] = "worktree: " + r.stderr[-200:]
            return meta
    try:
        chk = sh(f"git -C {tree} apply --check {d}/patch.diff")
        if chk.returncode:
            meta["applies_to_current_tree"] = False
            meta["note"] = "patch no longer applies to the current tree (the lines were changed by a later fix: commit): " + chk.stderr.strip()[-200:]
            if info.get("miss"):
                meta["not_caught_because"] = info["miss"]
            return meta
        meta["applies_to_current_tree"] = True
        env = dict(os.environ, PYTHONPATH=tree)
        r0 = sh(f"timeout 900 /venv/bin/python {d}/demo.py", env=env, cwd=tree)
        sh(f"git -C {tree} apply {d}/patch.diff")
        try:
            r1 = sh(f"timeout 900 /venv/bin/python {d}/demo.py", env=env, cwd=tree)
            meta["demo"] = {"exit_unchanged_tree": r0.returncode, "exit_changed_tree": r1.returncode, "last_line_changed_tree": (r1.stdout.strip().splitlines() or [""])[-1][:300]}
            res = {}
            for c in EXTRA_CHECKS.get(prop, [prop]):
                if not os.path.exists(f"/verif/checks/{c.lower()}.py"):
                    res[c] = {"status": "no check registered for this property"}
                    continue
                out = f"/verif/.work/seedpass/{sid}/{c}"
                os.makedirs(out, exist_ok=True)
                envc = dict(os.environ, VERIF_OUT=out)
                if mode == "worktree":
                    envc["VERIF_REPO"] = tree
                t0 = time.time()
                rc = sh(f"timeout 3000 /verif/bin/check {c} --tier quick", env=envc)
                lines = [l for l in rc.stdout.splitlines() if l.startswith("VIOLATION")]
                res[c] = {"cmd": f"/verif/bin/check {c} --tier quick", "exit": rc.returncode, "violation_lines": len(lines), "summary": ([l for l in rc.stdout.splitlines() if l.startswith("[")] or [""])[-1], "wall_s": round(time.time() - t0, 1)}
            meta["checks_against_changed_tree"] = res
            caught = [c for c, v in res.items() if v.get("exit") == 1 and v.get("violation_lines", 0) > 0]
            meta["caught_by"] = caught
            if not caught and info.get("miss"):
                meta["not_caught_because"] = info["miss"]
        finally:
            sh(f"git -C {tree} checkout -- .")
        meta["ran"] = [f"git -C {tree} apply {d}/patch.diff", f"PYTHONPATH={tree} /venv/bin/python {d}/demo.py (before and after)"] + [v.get("cmd", "") for v in meta.get("checks_against_changed_tree", {}).values()] + [f"git -C {tree} checkout -- ."]
    finally:
        if mode == "worktree":
            sh(f"git -C /repo worktree remove --force {tree}")
    return meta


def table():
    rows = ["| seed | property | needs to manifest | caught by (quick) | if not caught: why |", "|---|---|---|---|---|"]
    for sid in sorted(x for x in os.listdir(ROOT) if os.path.isdir(f"{ROOT}/{x}")):
        try:
            m = json.load(open(f"{ROOT}/{sid}/meta.json"))
        except Exception:
            continue
        caught = ", ".join(m.get("caught_by") or []) or ("-" if m.get("applies_to_current_tree", True) else "n/a")
        why = m.get("not_caught_because", "") if not m.get("caught_by") else ""
        if not m.get("applies_to_current_tree", True):
            why = (why + " " if why else "") + "(patch no longer applies: superseded by a fix: commit)"
        rows.append(f"| {sid} | {m.get('breaks_property')} | {m.get('needs_to_manifest', '')} | {caught} | {why} |")
    s = open("/verif/DESIGN.md").read()
    a, b = s.index("<!-- SEED-TABLE-BEGIN -->") + len("<!-- SEED-TABLE-BEGIN -->"), s.index("<!-- SEED-TABLE-END -->")
    open("/verif/DESIGN.md", "w").write(s[:a] + "\n" + "\n".join(rows) + "\n" + s[b:])
    print(f"{len(rows) - 2} seeds in the table")


def main():
    args = sys.argv[1:]
    if "--table" in args:
        return table()
    mode, jobs = "worktree", 2
    if "--mode" in args:
        i = args.index("--mode"); mode = args[i + 1]; del args[i:i + 2]
    if "--jobs" in args:
        i = args.index("--jobs"); jobs = int(args[i + 1]); del args[i:i + 2]
    ids = args or sorted(x for x in os.listdir(ROOT) if os.path.isdir(f"{ROOT}/{x}"))
    if mode == "repo":
        jobs = 1
        if sh("git -C /repo status --porcelain --untracked-files=no | grep -v '^ M doc/' ").stdout.strip():
            pass  # phantom-modified files are tolerated; patches touch pennylane/ only

    def run(sid):
        m = one(sid, mode)
        json.dump(m, open(f"{ROOT}/{sid}/meta.json", "w"), indent=1)
        print(sid, "caught by", m.get("caught_by"), m.get("note", "") or m.get("not_caught_because", "")[:80], flush=True)

    with ThreadPoolExecutor(jobs) as ex:
        list(ex.map(run, ids))


if __name__ == "__main__":
    main()
