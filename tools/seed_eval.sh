#!/usr/bin/env bash
# seed_eval.sh <worktree> <n> <seed-id> <property> <check-ids...>
#   verifies patch<n>.diff/demo<n>.py from <worktree>/_out myself (demo fails with / passes without the change, pinned
#   suite keeps its 257 stable passes), runs the named checks (quick) against the patched worktree, and files the
#   seed under /verif/seeded/<seed-id>/ (patch.diff, demo.py, meta.json).
set -uo pipefail
WT=$1; N=$2; SID=$3; PROP=$4; shift 4; CHECKS="$*"
OUT=$WT/_out; LOG=/verif/.work/seedeval/$SID; mkdir -p $LOG
cd $WT || exit 2
git checkout -q -- . ; git checkout -q --detach $(git -C /repo rev-parse HEAD) ; git status --short | grep -v '^??' && { echo "worktree not clean"; exit 2; }
git apply --check $OUT/patch$N.diff || { echo "patch does not apply"; exit 2; }
git -C /repo apply --check $OUT/patch$N.diff || { echo "patch does not apply to /repo"; exit 2; }
PYTHONPATH=$WT timeout 600 /venv/bin/python $OUT/demo$N.py > $LOG/demo_clean.log 2>&1; D0=$?
git apply $OUT/patch$N.diff
PYTHONPATH=$WT timeout 600 /venv/bin/python $OUT/demo$N.py > $LOG/demo_patched.log 2>&1; D1=$?
PYTHONPATH=$WT timeout 1500 /venv/bin/python -m pytest -ra -q -p no:cacheprovider --timeout=900 --continue-on-collection-errors --junitxml=$LOG/suite.xml > $LOG/suite.log 2>&1
SUITE=$(/venv/bin/python /tmp/seedtools/baseline_cmp.py $LOG/suite.xml | head -1)
declare -A RES
for c in $CHECKS; do
  VERIF_REPO=$WT VERIF_OUT=$LOG/out_$c timeout 3000 /verif/bin/check $c --tier quick > $LOG/check_$c.log 2>&1; RES[$c]=$?
done
git checkout -q -- .
mkdir -p /verif/seeded/$SID
cp $OUT/patch$N.diff /verif/seeded/$SID/patch.diff; cp $OUT/demo$N.py /verif/seeded/$SID/demo.py
{
 echo "{"
 echo " \"seed\": \"$SID\", \"property\": \"$PROP\","
 echo " \"demo_exit_unchanged\": $D0, \"demo_exit_patched\": $D1,"
 echo " \"pinned_suite_with_patch\": \"$SUITE\","
 echo " \"checks_quick_against_patched_tree\": {"
 first=1; for c in $CHECKS; do [ $first = 1 ] || echo ","; first=0; v=$(grep -c '^VIOLATION' $LOG/check_$c.log); echo -n "   \"$c\": {\"exit\": ${RES[$c]}, \"violation_lines\": $v}"; done; echo
 echo " }"
 echo "}"
} > $LOG/result.json
cat $LOG/result.json
