"""Source of MANIFEST.json: edit here, then run tools/gen_manifest.py."""

NOTES = ("Solver-based checking of the real PennyLane code: the library's own functions are executed on symbolic "
         "values (vf.symx polynomial terms / CrossHair symbolic ints / z3 Bools) and z3 decides each obligation for all "
         "values within the stated bounds; every sat model is replayed on the unmodified library before a VIOLATION is "
         "printed. See DESIGN.md.")

E1 = "E1 symx + z3"
PROOF_NOTE = ("Trusted base: z3, the vf.symx lifting (self-validated on every instance against the float execution of the "
              "same real function), the listed shims (casts as identity on object arrays, allclose as exact equality). "
              "Real-number semantics; IEEE rounding is outside the claim.")

CHECKS = [
    dict(property_id="C01", category="proof", engine=E1,
         text="For each registry instance (~75 operator instances: named gates + variable-wire gates) and for ALL real parameter "
              "values: matrix == product of decomposition() matrices; D.M.D^dagger == diag(eigvals) with D from "
              "diagonalizing_gates(); U(0)=I and dU/dtheta = i*coeff*G*U for the declared generator (hence U=exp(i theta G)); "
              "qp.matrix(op, wire_order) == independent re-indexing for permuted/extended/string wire orders; pauli_rep matrix "
              "== matrix; availability flags honoured. Each identity is decided by z3 (unsat of the negation).",
         note=PROOF_NOTE + " Outside: sparse matrices, fractional powers, numeric-eigvals fallbacks, templates.",
         technique="symbolic execution of matrix/decomposition/eigvals/generator code on polynomial terms; z3 QF_NRA identity proofs"),
    dict(property_id="C05", category="proof", engine=E1,
         text="Partial (cache-key canonicalisation): every (operator class, parameter, period T) that the real hash treats as "
              "equal (found at run time by probing the real __hash__) is proved to satisfy M_w(theta+T) == M_w(theta) for all "
              "theta, bare and under ctrl/adjoint/pow/prod wrappers, so equal cache keys imply equal matrices and therefore equal "
              "results. A sat model is replayed through qp.execute(cache=True) vs cache=False on default.qubit. Structural part: in a family of 42 structurally "
              "different circuits (operator class, wires, matrix data and its conjugate / transpose, wrappers, observable term multiplicities and order, measurement kind "
              "and wire order) every pair with equal tape.hash must give equal default.qubit results (structural comparison).",
         note=PROOF_NOTE + " Outside: trainable indices / shots in the key, LRU eviction, the round(.,10) slab, fractional powers, str() elision of arrays with more than 1000 elements.",
         technique="symbolic execution of operator matrices under wrappers at theta and theta+T; z3 QF_NRA periodicity proofs"),
    dict(property_id="C07", category="proof", engine=E1,
         text="Every member (read at run time) of the seven attribute sets in ops/qubit/attributes.py that has a closed-form "
              "matrix is instantiated and its claim proved for ALL parameter values: self-inverse M.M=I, wire-permutation "
              "symmetry for generating transpositions, zero off-diagonals, U(a)U(b)=U(a+b), unitary generator, broadcast == "
              "stack of per-element matrices.",
         note=PROOF_NOTE + " Members without closed-form symbolic matrix (embeddings, StatePrep, QubitUnitary...) are listed unsupported. Rot in composable_rotations is checked for closure only (its docstring says angles do not add).",
         technique="symbolic execution of compute_matrix/generator on polynomial terms; z3 QF_NRA identity proofs"),
    dict(property_id="C10", category="proof", engine=E1,
         text="Rules are read from the real registry (qp.list_decomps) for each registry instance and its Adjoint/Pow/Controlled "
              "wrappers, executed with the library's own calling convention under a real AnnotatedQueue on symbolic parameters; "
              "the product of emitted matrices (global phase included; work wires resolved by resolve_dynamic_wires and required "
              "to return to |0>) is proved equal to the operator's matrix for ALL parameter values.",
         note=PROOF_NOTE + " Unsupported (listed in evidence, not claimed): rules computing angles with arctan2/arccos/linalg, rules with mid-circuit measurements, >8 wires. TemporaryAND compared on its documented domain.",
         technique="symbolic execution of registered decomposition rules on polynomial terms; z3 QF_NRA identity proofs"),
    dict(property_id="C02", category="proof", engine=E1,
         text="For each of ~70 named-gate instances the real op matrix is proved equal, entry by entry and for ALL real "
              "parameter values (no bound on angles; circle-atom encoding decided by z3 QF_NRA), to a reference table "
              "transcribed from the documented formulas; unitarity and the broadcast path (2 independent symbolic batch "
              "elements) are proved the same way. Bounded only in the variable-wire gates' sizes (stated in evidence).",
         note=PROOF_NOTE + " Reference table in checks/c02.py.",
         technique="symbolic execution of compute_matrix on z3-decided polynomial terms (QF_NRA identity proofs)"),
]

E2 = "E2 crosshair"
E2_NOTE = ("Trusted base: CrossHair 0.0.110 + z3 (symbolic execution of the real Python code; 'Confirmed over all paths' means every "
           "path within the pre: bounds was explored), the reference models in /verif/contracts. Conditions marked 'mode: search' "
           "(hash(), error-message formatting, float products and dict.fromkeys realise symbolic values) are bounded counterexample "
           "searches reported under coverage.bounded_search_only and are not counted as proof obligations. Every counterexample is "
           "re-evaluated in plain CPython on the real code before it is reported.")
CHECKS += [
    dict(property_id="C44", category="proof", engine=E2,
         text="The real Shots class is executed by CrossHair on symbolic specifications (lists of <=4 ints / (shots, copies) pairs, "
              "values 1..6, copies 1..3): total_shots, iteration order, shot_vector (= run-length encoding), bins (= prefix sums), "
              "num_copies, has_partitioned_shots, +, int scaling, ==, rejection of non-positive entries are each confirmed over ALL "
              "paths within those bounds against the expanded list of shot counts.",
         note=E2_NOTE + " Float scaling (0.5, 1.5, 2.5) and hash consistency are search-mode only.",
         technique="CrossHair symbolic execution (z3) of Shots against a list reference model, confirmed over all paths within stated bounds"),
    dict(property_id="C45", category="proof", engine=E2,
         text="The real Wires class is executed by CrossHair on symbolic label lists (<=4 symbolic int labels; symbolic selections from a "
              "pool of int/str/tuple labels): construction, | & - ^ (also reflected), shared_wires, unique_wires, index/indices, map, "
              "subset (incl. periodic), ==/!=, contains_wires are confirmed over ALL paths within the bounds against Python set/list "
              "semantics.",
         note=E2_NOTE + " all_wires/+ (dict.fromkeys), duplicate rejection and missing-label errors (message formatting), hash: search-mode only.",
         technique="CrossHair symbolic execution (z3) of Wires against set/list reference semantics, confirmed over all paths within stated bounds"),
    dict(property_id="C50", category="proof", engine="E5 symbit + z3",
         text="binary_finite_reduced_row_echelon, binary_matrix_rank, binary_solve_linear_system, binary_is_independent and "
              "binary_select_basis are executed on numpy object arrays whose entries are free z3 Booleans; every data-dependent branch "
              "forks through the solver, and on every feasible path z3 proves: RREF form + same kernel, rank = c - log2|ker|, Ax=b / "
              "LinAlgError iff singular, independence iff not in span, selected basis independent+spanning. One proof covers all "
              "2^(r*c) matrices of a shape (quick: up to 3x4; thorough: up to 5x6).",
         note="Trusted base: z3, the vf.symbit lifting (sat models are replayed on int arrays through the real functions). Outside: larger shapes, numpy's typed ^= kernels, the callers in qchem.tapering / intermediate_reps.",
         technique="lifted execution of the real GF(2) code on z3 Booleans with solver-pruned path forking; per-path Boolean validity queries"),
]

E5 = "E5 symbit + z3"
E5_NOTE = ("Trusted base: z3, the vf.symbit lifting (the real Python code runs on z3-backed integers/bits; every data-dependent branch forks "
           "through the solver; every sat model is replayed concretely on the real code before it is reported). ")
CHECKS += [
    dict(property_id="C22", category="proof", engine=E5,
         text="Inductive step: from an ARBITRARY valid state of the real _WireManager (registers and loan table of 0..2 symbolic integer labels, "
              "pairwise distinct, min_int None or above all labels, all flags free) one real get_wire / return_wire keeps labels distinct and "
              "conserved, hands out only free wires, serves |0> requests only from zeroed/fresh wires or reset any-state wires, books a loan as "
              "ZERO only if the wire held |0> and restoration was promised, and raises AllocationError exactly when nothing can be provided - "
              "proved by z3 on every feasible path, so it covers allocation histories of any length. Plus bounded histories (<=4 opcodes + gate; "
              "thorough <=6) through the real resolve_dynamic_wires with symbolic register labels / static label / min_int against an independent "
              "lifetime model (no aliasing of live wires, never on the static wire, |0> when requested); the same histories through "
              "devices.preprocess.device_resolve_dynamic_wires without device wires (1-3 static integer wires with symbolic labels in arbitrary tape order) "
              "and with device wire lists mixing free and static symbolic labels, including wires that only a measurement reads.",
         note=E5_NOTE + "Stub: measure(w, reset=True) replaced by a marker op. restored=True is honoured as the user's promise. Outside: equality of simulation results with fresh wires, magic-state allocation.",
         technique="lifted execution of the real wire manager/transform on z3 integers; inductive-step and bounded-history validity queries"),
    dict(property_id="C47", category="proof", engine=E5,
         text="The real estimator runs on SYMBOLIC repetition counts and budgets: estimate(Resources{A: n, B: m}) gate counts are proved equal to "
              "n*counts(A)+m*counts(B) for all n,m>=0 over pairs from 10 (thorough 20) estimator operators incl. Adjoint/Controlled/Pow and "
              "allocating templates; n*A and (A add_series A).multiply_series(n); Pow(A,z) and Pow(Pow(A,z0),z) with symbolic exponents 1..9 for "
              "bases using the default power rule; wire accounting any_final = any0 + n*net(A) + m*net(B), no negative counters. Inductive "
              "step on WireResourceManager.grab_zeroed/free_wires from arbitrary non-negative state (exact conservation / shortfall / errors).",
         note=E5_NOTE + "Oracle for counts(A): estimate(A) alone. Outside: non-default gate sets, custom decompositions, qfunc workflows, operators with their own power rule.",
         technique="lifted execution of the real estimator on z3 integers (symbolic counts, exponents, budgets); linear/nonlinear integer validity queries"),
]

CHECKS += [
    dict(property_id="C43", category="proof", engine=E2,
         text="qp.for_loop / qp.while_loop / qp.cond (capture disabled) are executed by CrossHair with symbolic start/stop/step (-4..4, step != 0), "
              "carried values, loop bounds and predicates; visited indices, carried results, branch taken and return values are confirmed over ALL "
              "paths equal to the same loop / if-elif-else in plain Python (incl. the three for_loop signatures, nesting, loop inside cond, the "
              "index-only-must-not-return rule).",
         note=E2_NOTE + " Bodies record through Python callbacks (AnnotatedQueue does not record under CrossHair's tracer). Outside: program capture, qp.cond on measurement values (state-level: C21).",
         technique="CrossHair symbolic execution (z3) of the real control-flow callables against plain Python loops, confirmed over all paths within stated bounds"),
    dict(property_id="C16", category="other", engine=E5,
         text="The real ZSqrtTwo and ZOmega methods run on z3 integers: commutativity, associativity, distributivity, identities, negation, integer "
              "scalars, conj/adj2 as involutive automorphisms, norm multiplicativity, powers, exact division, to_omega/from_sqrt_pair homomorphisms, "
              "== semantics, sqrt() (via the exact isqrt specification), ZOmega.normalize are proved as polynomial integer identities for ALL "
              "coefficient values (no bound, except |coeff|<=6 for normalize). CrossHair: _primality_test == trial division confirmed for 0..300; "
              "bounded counterexample search for DyadicMatrix +/@ exactness/associativity/distributivity, % congruence, primality up to 12000. "
              "Category 'other': on this machine every obligation of both tiers is discharged, but the CrossHair part runs under per-condition time budgets and one condition came back "
              "inconclusive on a slower machine (check request 5); a timeout is reported as inconclusive, never as success. "
              "(The real tail of _solve_diophantine with its factoring subroutines stubbed by arbitrary ring elements was tried in the thorough tier with 10 and 40 minute budgets; its path "
              "exploration does not finish and it is stated as outside.)",
         note=E5_NOTE + "Shims: `int` and `math` in the rings module namespace (int(x) keeps symbols; isqrt by specification). Outside: float code paths for coefficients >= 2^53, ZSqrtTwo.__mod__ neighbour search, SO3Matrix, Pollard/Miller-Rabin loops beyond the bounds.",
         technique="lifted execution of the real ring classes on z3 integers (NIA identity proofs, unbounded); CrossHair for bounded number-theoretic parts"),
]

CHECKS += [
    dict(property_id="C03", category="other", engine=E1,
         text="~550 (thorough ~4700) nested expression skeletons over adjoint / integer pow / ctrl (1-2 controls, mixed control values) / prod (incl. "
              "interleaved operand groups) / sum / s_prod are built as real PennyLane operators with symbolic leaf parameters and symbolic complex "
              "scalars; z3 proves for ALL values: qp.matrix == the same arithmetic on the leaf matrices (own embed/dagger/power/block-control/product/"
              "sum oracle), relabelling wires leaves the matrix unchanged, product of decomposition() == matrix, and qp.simplify preserves the matrix "
              "on every explored path (forking mode). Category 'other' only because one recorded known finding (F4) keeps discharged < obligations.",
         note=PROOF_NOTE + " Unsupported and listed: negative powers through numpy.linalg.inv, simplifications calling round/% on symbols. Outside: fractional powers, qp.exp, change_op_basis, depth > 3.",
         technique="symbolic execution of operator-arithmetic matrices/simplify on polynomial terms vs an independent matrix-arithmetic oracle; z3 QF_NRA"),
]

CHECKS += [
    dict(property_id="C08", category="proof", engine=E1,
         text="For every ordered pair of 36 (thorough 50) operator kinds (Paulis, rotations, controlled gates, SWAP family, Ising gates, MultiRZ, "
              "MultiControlledX, ctrl(...) wrappers, Permute, Pauli products and weighted Pauli sums) and every overlap pattern of their wires on "
              "<= 4 wires, the real qp.is_commuting is asked for its verdict; whenever it says True, A.B == B.A on the joint wires is proved by z3 "
              "for ALL parameter values and Pauli-sum coefficients. For Pauli-word operators a False verdict is checked as well (exactness).",
         note=PROOF_NOTE + " The verdict is read at generic concrete parameters. Outside: documented unsupported operators, value-dependent verdicts of two non-simplified Rot/U2/U3/CRot, completeness for non-Pauli operators.",
         technique="symbolic execution of operator matrices on polynomial terms; z3 QF_NRA commutator identity proofs for every pair reported commuting"),
]

CHECKS += [
    dict(property_id="C26", category="proof", engine=E1,
         text="Kernel-covering circuit family: for each specialised apply_operation registration and the generic einsum/tensordot paths (40 kernels incl. "
              "operator arithmetic, controlled with mixed control values, broadcast parameters, StatePrep/BasisState prefixes, string labels) one circuit per "
              "target-wire placement on 1-4 wires behind an entangling symbolic prefix; the REAL get_final_state/measure_final_state run on symbolic terms and z3 "
              "proves for ALL angles: state == own matrix-route state, and expval (Pauli words, sums, Hermitian, Projector) / var / probs (subsets, permuted) / "
              "density_matrix / purity == own formulas on that vector.",
         note=PROOF_NOTE + " Outside: entropies/mutual information (log), kernels behind the >=13-axis / >=9-wire thresholds, other interfaces, finite shots, mid-circuit measurements.",
         technique="symbolic execution of default.qubit apply_operation/measure kernels on polynomial terms vs an independent matrix-route oracle; z3 QF_NRA"),
    dict(property_id="C17", category="proof", engine=E1,
         text="Circuit skeletons (<=6 gates, <=3 wires, symbolic angles) are pushed through the REAL cancel_inverses, merge_rotations, commute_controlled (both "
              "directions), undo_swaps, combine_global_phases, remove_barrier and qp.compile pipelines in forking mode (zero-angle shortcuts explored through the "
              "solver; an angle equality a+b=0 is linked to the circle atoms); on every explored path z3 proves U_out == U_in (or proportional) for ALL angles, "
              "for undo_swaps equality of expval/probs/var results; the pass must return without raising.",
         note=PROOF_NOTE + " Unsupported and listed: paths through `% 2*pi` on half-angle atoms. Outside: single_qubit_fusion/unitary_to_rot (arctan2), pattern_matching, ZX/rowcol passes, Rot fusion.",
         technique="forking symbolic execution of the optimisation passes on polynomial terms; z3 QF_NRA unitary-equality proofs per path"),
    dict(property_id="C18", category="proof", engine=E1,
         text="Monitor on the C17 harness: on every solver-selected path of every (skeleton, pass/pipeline) run the input tape is compared with a snapshot taken "
              "before the call - identity and order of operations and measurements, identity and values of all data entries, wires, trainable_params, shots - "
              "after the transform returned and again after its post-processing ran (the cached tape.hash is not trusted).",
         note=PROOF_NOTE + " The comparison itself is structural; the solver's role is selecting all value-dependent paths of the passes from symbolic angles. Outside: transforms not driven by this harness.",
         technique="forking symbolic execution of the passes with a structural input-snapshot monitor on every solver-selected path"),
]

CHECKS += [
    dict(property_id="C72", category="proof", engine="z3 over Pauli-word actions",
         text="For every graph of a stated family (all graphs on <=3 nodes, a subset on 4-5; digraphs on 2-3(4) nodes; networkx and rustworkx) the REAL qaoa "
              "functions are called and the returned Hamiltonian's Pauli representation is turned into its action on |b> with one z3 Bool per wire; z3 "
              "proves for ALL bitstrings at once: bit_driver, edge_driver (6 reward sets), maxcut == -#cut edges, max_independent_set / min_vertex_cover / "
              "max_clique (constrained+unconstrained) == the documented building-block objective, recommended mixers == x / bit-flip mixers, xy_mixer and "
              "bit_flip_mixer amplitudes, out_flow / net_flow constraints == documented closed forms == 4*violation penalties, loss_hamiltonian.",
         note="Trusted base: z3; the Pauli-word action encoding (validated against qp.matrix on every replay); objectives written from the documented building blocks. Outside: max_weight_cycle/cycle_mixer as a whole, symbolic weights, larger graphs.",
         technique="z3 validity queries over symbolic bitstrings on the Pauli representation returned by the real functions"),
    dict(property_id="C28", category="proof", engine=E1,
         text="Every closed-form Channel of ops/channel.py (amplitude/generalized/phase damping, depolarizing, bit/phase flip, reset error, PauliError on 10 "
              "words incl. even-Y words) with symbolic strengths on the documented domain: sum K^dagger K == I (1e-7). Seven noisy circuits (incl. an idle "
              "measured wire, a middle-wire channel on 3 wires, string labels) plus broadcast variants through the REAL default.mixed get_final_state/"
              "measure_final_state on symbolic angles and strengths: rho == independent Kraus-sum evolution, Hermitian, trace 1, expval/probs == tr(rho O)/diagonal.",
         note=PROOF_NOTE + " sqrt introduced by defining equations. Outside: positive semidefiniteness, QubitChannel, ThermalRelaxationError (exp, eigendecomposition), finite shots.",
         technique="symbolic execution of Kraus operators and the default.mixed kernels on polynomial terms with sqrt atoms; z3 QF_NRA with 1e-7 tolerance"),
]

CHECKS += [
    dict(property_id="C20", category="proof", engine=E1,
         text="27 measurement lists (non-commuting Pauli words, Sums/Hamiltonians with SYMBOLIC coefficients and identity offsets, repeated measurements, var incl. "
              "var(Identity), probs, Hadamard, Hermitian, Projector, duplicate terms) on an entangling 3-wire circuit with symbolic angles go through the REAL "
              "split_non_commuting (4 grouping strategies), split_to_single_terms, diagonalize_measurements (default / supported bases / to_eigvals) and "
              "broadcast_expand; results of the produced tapes come from the independent matrix-route oracle, the REAL post-processing is applied, and z3 "
              "proves equality with the direct results for ALL angles and coefficients. Rejection with the documented error is accepted, a wrong number is not.",
         note=PROOF_NOTE + " Unsupported and listed: paths through numpy eigh (Hermitian eigvals) and typed complex buffers. Outside: sign_expand, batch_input/batch_params, sample/counts.",
         technique="symbolic execution of measurement-splitting transforms and their post-processing on polynomial terms vs direct results; z3 QF_NRA"),
]

CHECKS += [
    dict(property_id="C34", category="proof", engine=E1,
         text="Partial (parameter-shift family + device adjoint): 12 circuits (2-term, 4-term, Rot/CRot/U3, Ising, excitation, Toffoli, shared and non-trainable "
              "parameters) x 8 measurement lists (expval of Pauli words / sums / Hermitian, probs, var incl. var of a Sum) go through the REAL param_shift "
              "(default, broadcast, custom exact shifts incl. a two-shift rule for the 4-term gate, argnum), hadamard_grad and the device-level "
              "adjoint_jacobian / adjoint_vjp / adjoint_jvp; generated tapes are evaluated by the matrix-route oracle, the REAL post-processing assembles the "
              "Jacobian, and z3 proves equality with d/d(theta) from the symbolic differentiator for ALL parameter values.",
         note=PROOF_NOTE + " Shims: object work buffers in devices.qubit.adjoint_jacobian and PauliSentence.dot. Outside: backprop (autodiff frameworks cannot trace solver terms), finite_diff, SPSA, QNode interface plumbing, operators with numeric generators.",
         technique="symbolic execution of gradient transforms / adjoint differentiation on polynomial terms vs symbolic differentiation of the circuit result; z3 QF_NRA"),
]

CHECKS += [
    dict(property_id="C35", category="proof", engine="z3 over the rule's output",
         text="Thin by construction: the rule generator runs concretely for 64 (frequency set, shifts, order) configurations (all subsets of {1..4} scaled by 1, 1/2, 3; "
              "non-equidistant sets with default and user shifts; orders 1-2, thorough 3-4; two-parameter rules); z3 then proves that the returned coefficients/"
              "shifts differentiate EVERY function with that spectrum (symbolic Fourier coefficients, by linearity one query per frequency / product basis function) at "
              "EVERY point (symbolic circle points) up to 1e-7. The configuration space is enumerated; the universally quantified function and point are the solver's.",
         note="Trusted base: z3; floats of the rule read as exact rationals; cos/sin(frequency*shift) evaluated in floating point. Configurations for which the generator warns about a near-singular system are listed unsupported (documented limitation).",
         technique="z3 QF_NRA validity queries over symbolic trigonometric polynomials applied to the real generator's output"),
    dict(property_id="C36", category="proof", engine="z3 over the coefficient tables",
         text="For every (n <= 3, approx_order <= 4, strategy) accepted by the real finite_diff_coeffs (thorough: n <= 4, order <= 6) z3 proves that the returned "
              "coefficients/shifts reproduce h^n p^(n)(x) for EVERY polynomial of degree n+approx_order-1 (one query per monomial, by linearity), every x in [-1,1] and "
              "h in (0,1], up to 1e-9 - i.e. the stated truncation order.",
         note="Trusted base: z3; floats read as exact rationals. Outside: the finite_diff transform's tape generation/post-processing, truncation constants for non-polynomial functions.",
         technique="z3 polynomial validity queries (symbolic x, h) over the real coefficient tables"),
    dict(property_id="C37", category="other", engine=E1,
         text="8 circuits (2-term, 4-term, multi-parameter gates, shared wires) x 6 measurement lists go through the REAL param_shift_hessian (default and custom "
              "diagonal/off-diagonal shifts); generated tapes are evaluated by the matrix-route oracle, the REAL post-processing assembles the Hessian, and z3 proves "
              "H[i][j] (and its transpose) == the second derivative from the symbolic differentiator for ALL parameter values. Products of two 4-term rule "
              "coefficients are floats: those entries are proved up to 1e-7, and two of them time out (reported inconclusive), hence category 'other'.",
         note=PROOF_NOTE + " Outside: nested autodiff of QNodes, numeric generators, finite shots.",
         technique="symbolic execution of the Hessian transform's tapes/post-processing on polynomial terms vs symbolic second derivatives; z3 QF_NRA"),
]

CHECKS += [
    dict(property_id="C61", category="proof", engine=E1,
         text="The REAL step_and_cost / apply_grad / compute_grad of GradientDescent, Momentum, NesterovMomentum, Adagrad, RMSProp and Adam run for 2-3 steps on symbolic "
              "parameters, a quadratic objective with symbolic coefficients and (also) symbolic hyper-parameters in (0,1), over four argument layouts incl. non-trainable "
              "positional arguments before/between trainable ones; z3 proves: iterates == documented update rule, gradient evaluated at the documented point "
              "(look-ahead for Nesterov), step_and_cost returns the objective at the parameters before the step.",
         note=PROOF_NOTE + " Stub: module-level get_gradient replaced by an oracle with autograd's gradient/forward semantics. sqrt by defining equations; adaptive methods proved up to 1e-9. Outside: QNG, Rotosolve/Rotoselect, SPSA, ShotAdaptive, Riemannian.",
         technique="symbolic execution of optimizer steps on polynomial terms with sqrt atoms vs documented update formulas; z3 QF_NRA"),
]

CHECKS += [
    dict(property_id="C38", category="other", engine=E1,
         text="10 layered circuits (single rotations, controlled rotations, Ising, fixed S/T/SX gates between layers, repeated entanglers) go through the REAL "
              "qp.metric_tensor transform (approx None / block-diag / diag, allow_nonunitary False) and adjoint_metric_tensor; tapes are evaluated by the matrix-route "
              "oracle, the REAL post-processing assembles the tensor, and z3 proves every claimed entry equal to Re(<d_i psi|d_j psi> - <d_i psi|psi><psi|d_j psi>) "
              "from the symbolic differentiator (entries outside an approximation must be exactly 0), for ALL parameter values. Category 'other' because of the recorded "
              "known finding F10 (controlled rotations).",
         note=PROOF_NOTE + " Shim: object accumulators in gradients.adjoint_metric_tensor (several adjoint cases still unsupported and listed). Outside: QNode-level classical Jacobian contraction, quantum_fisher plumbing, shots, circuits that the transform must decompose first.",
         technique="symbolic execution of metric-tensor tapes/post-processing on polynomial terms vs symbolic state derivatives; z3 QF_NRA"),
]

CHECKS += [
    dict(property_id="C09", category="proof", engine=E1,
         text="For 63 (operator instance, parameter) pairs - all parametrised registry gates, PauliRot/MultiRZ/PCPhase families, controlled versions (ControlledOp path "
              "through generator eigenvalues, incl. ctrl(DoubleExcitationPlus/Minus) with sparse generators) and custom operations whose frequencies the library "
              "derives from unequally spaced generator spectra - the declared set F is read from the REAL qp.gradients.parameter_frequencies and z3 proves that the "
              "differential operator d/dtheta * prod_{f in F}(d^2/dtheta^2 + f^2) annihilates every product conj(U_ab)*U_cd of symbolic matrix entries, i.e. the true "
              "spectrum of every expectation value lies in F u {0}, for ALL parameter values.",
         note=PROOF_NOTE + " Up to 10 distinct symbolic entries per instance. Outside: operators needing expm/numeric eigendecomposition (generic qp.evolve, SpecialUnitary), the tape/QNode-level spectrum transform.",
         technique="symbolic differentiation of executed gate matrices; z3 QF_NRA proofs that a frequency annihilator vanishes identically"),
]

CHECKS += [
    dict(property_id="C56", category="other", engine="E3 rev + z3",
         text="Partial (classical reversible rules): for SemiAdder, Incrementer, IntegerComparator, TemporaryAND, QubitSum, QubitCarry, OutSquare, SignedOutSquare, "
              "SignedOutMultiplier, OutMultiplier and Adder (classical rules) at register sizes up to 8 bits (thorough: up to 32) EVERY registered decomposition rule "
              "that expands to the classical alphabet is run on symbolic bits; z3 proves for ALL basis inputs of the documented domain at once the documented function "
              "(bit-vector arithmetic), unchanged inputs, work wires restored, and every TemporaryAND / un-compute precondition. Category 'other' because of the recorded "
              "known finding F16 (negative zero of SignedOutMultiplier).",
         note="Trusted base: z3 (QF_BV), the vf.rev translator (validated against qp.matrix on instances with <= 7 wires; every sat model is replayed on default.qubit). Outside: QFT/phase based rules (Adder/PhaseAdder/OutAdder/Multiplier/OutMultiplier QFT rules, ModExp, OutPoly), non-power-of-two moduli.",
         technique="translation of the real decomposition rules to z3 Boolean/bit-vector terms; one validity query per claim covering all basis inputs"),
]

CHECKS += [
    dict(property_id="C23", category="proof", engine="E5 symbit + z3",
         text="(a) Routing: stacks of up to 3 (thorough 4) synthetic transforms in a REAL CompilePipeline applied to batches of up to 3 tagged circuits; each transform "
              "call splits its circuit into 0..2 circuits chosen by the solver (all fan-out patterns: into many, into none, uneven) and post-processes with SYMBOLIC integer "
              "weights; executed results are symbolic. z3 proves that the real post-processing stack returns, per input circuit and in input order, the value of composing "
              "the transforms by hand along the tag tree. (b) List API: every history of up to 2 (thorough 3) operations insert / insert of a transform carrying an expand "
              "transform / pop / append / add_marker / remove_marker with solver-chosen indices -4..4, followed by all slices, indexing, + and *, agrees with a Python list "
              "model; markers follow a boundary model (level = number of transforms before the marker).",
         note="Trusted base: z3, vf.symbit. Outside: cotransform cache / classical Jacobians of gradient transforms, qnode-level application, final (informative) transforms.",
         technique="lifted execution of the real CompilePipeline on z3 integer terms (path forks decided by the solver); z3 validity queries per routed result"),
]

CHECKS += [
    dict(property_id="C27", category="other", engine=E1,
         text="10 circuits x 7 measurement lists with SYMBOLIC gate angles run through the real simulation code of default.qubit, default.mixed (density-matrix kernels) and "
              "reference.qubit (its whole preprocessing pipeline - split_non_commuting, diagonalize_measurements, decompose to the native gate set - then simulate and the "
              "pipeline post-processing); z3 proves every analytic result of default.mixed / reference.qubit equal to the default.qubit result for ALL angles (state: "
              "rho == |psi><psi|). null.qubit: result shapes. Category 'other' because of the recorded known finding F19 (reference.qubit + Hermitian observables).",
         note=PROOF_NOTE + " Outside: default.tensor (quimb) and default.clifford (stim) execute in external numeric libraries that cannot carry solver terms; finite shots.",
         technique="lifted execution of three device simulators on z3 circle-polynomial terms; z3 QF_NRA equality proofs between device results"),
]

CHECKS += [
    dict(property_id="C71", category="proof", engine=E1,
         text="7 circuits with symbolic angles and snapshots at the start, between gates, consecutive and at the end (state / expval / probs / density_matrix, tagged and "
              "untagged) through (A) the REAL qp.snapshots tape transform (prefix tapes run on the lifted default.qubit, real post-processing) and (B) default.qubit and "
              "default.mixed with an active snapshot debugger (apply_operation's Snapshot branch). z3 proves for ALL angles that every tag holds the requested measurement "
              "of the gate prefix (matrix-route oracle) and that the final results equal those of the circuit without snapshots; keys and their order are compared structurally.",
         note=PROOF_NOTE + " Plus one structural obligation (concrete arguments, no solver): the same qp.snapshots(qnode) wrapper called four times, with a tag that depends on the arguments, behaves like a fresh "
              "wrapper on every call and never alters results it returned earlier. Outside: snapshots with shots, duplicate string tags, legacy / gaussian devices.",
         technique="lifted execution of the snapshot transform and device snapshot branch on z3 circle-polynomial terms; z3 QF_NRA equality proofs"),
]

CHECKS += [
    dict(property_id="C39", category="proof", engine=E1,
         text="compute_vjp_single/multi, compute_jvp_single/multi, vjp, jvp, batch_vjp (append/extend) and batch_jvp run on Jacobians, cotangents and tangents whose entries are "
              "SYMBOLIC reals, for 7 measurement layouts (scalar / vector / mixed, up to 3 measurements) x 1-3 parameters, two-copy shot vectors and two-tape batches; the "
              "gradient transform is an environment stub returning an arbitrary Jacobian in the documented nested layout. The zero-cotangent / zero-tangent shortcuts fork on "
              "the symbolic entries. z3 proves every returned component equal to the explicit contraction and the result structure (entries per parameter / output / shot copy).",
         note=PROOF_NOTE + " Outside: classical_jacobian (needs an autodiff framework), tensor-valued tape parameters, torch/jax/tensorflow code paths.",
         technique="lifted execution of the contraction utilities on z3 real terms with solver-decided zero shortcuts; z3 QF_NRA equality proofs"),
]

CHECKS += [
    dict(property_id="C49", category="other", engine=E1,
         text="Partial (algebraic functions): qp.math.reduce_dm, partial_trace, reduce_statevector, dm_from_state_vector (every index subset and order of 2- and 3-qubit "
              "systems, batched and unbatched), purity, fidelity_statevector (value and symmetry), expectation_value, marginal_prob, expand_matrix and expand_vector (every wire "
              "subset/order into 3-wire orders) run on vectors / Hermitian matrices with SYMBOLIC entries; z3 proves equality with explicit index contractions for all entries.",
         note=PROOF_NOTE + " Outside (category 'other': partial): mixed-state fidelity, trace_distance, entropies, mutual information, relative entropy, sqrt_matrix - defined through "
              "eigen-decompositions / matrix functions that cannot be carried on solver terms - and the inequality bounds stated in the property.",
         technique="lifted execution of qp.math tensor manipulations on z3 complex-polynomial terms; z3 QF_NRA equality proofs"),
]

CHECKS += [
    dict(property_id="C21", category="other", engine=E1,
         text="Partial (analytic mode): 8 dynamic circuits with SYMBOLIC gate angles (1-2 mid-circuit measurements with reset, postselection, cond with else-branch, "
              "&, +, ==, ~, ^ arithmetic on measurement values, a wire measured twice) x 5 measurement lists (observables, MCM statistics, joint MCM probabilities, "
              "MCM arithmetic, variances) are evaluated by the REAL defer_measurements transform + lifted default.qubit and by the REAL tree-traversal simulator "
              "(simulate_tree_mcm; its pruning comparisons fork on the symbolic branch probabilities). z3 proves for ALL angles that every result times the total branch "
              "weight equals the exact branch sum of the vf.dynsim oracle (explicit projection per outcome assignment).",
         note=PROOF_NOTE + " Category 'other': the statistical part of the property (one-shot / tree-traversal sampling with shots, hw-like vs fill-shots postselection) is outside "
              "solver-based checking; paths with zero postselection probability are excluded (results are nan by design).",
         technique="lifted execution of defer_measurements / default.qubit / tree-traversal on z3 circle-polynomial terms with solver-decided pruning branches; z3 QF_NRA equality proofs against a branch-enumeration oracle"),
]

CHECKS += [
    dict(property_id="C51", category="other", engine=E1,
         text="Partial (dense matrices): Pauli sentences with SYMBOLIC complex coefficients (6 sentences over a pool of 9 words on up to 3 wires, identity word included) go "
              "through the REAL PauliWord/PauliSentence product, sum, difference, scalar multiple, commutator, map_wires, simplify, trace, operation(), dense to_mat in "
              "permuted wire orders, pauli_sentence(op) and pauli_decompose(matrix); z3 proves for all coefficient values that the dense matrix of each result equals the "
              "same operation on Kronecker-product matrices built by the check, and that the conversions round-trip (zero-coefficient tests fork).",
         note=PROOF_NOTE + " Category 'other' (partial): sparse matrices (csr formats, buffer sizes, sparse pauli_decompose) cannot hold solver terms and are outside.",
         technique="lifted execution of the Pauli arithmetic on z3 complex-polynomial coefficients; z3 QF_NRA equality proofs against Kronecker-product matrices"),
]

CHECKS += [
    dict(property_id="C41", category="other", engine="E5 symbit + z3",
         text="Every program of 3 (thorough 4) steps over 16 step kinds - plain operator, adjoint / ctrl / pow / s_prod / prod / @ / sum wrappers of freshly created operands, "
              "measurements, creation under stop_recording, nested recording contexts (also with an inner stop_recording and with an exception raised inside), qp.apply of an "
              "operator created while not recording - is run on the REAL AnnotatedQueue / QueuingManager; the step kinds are solver variables and every sequence is a "
              "solver-decided path. Compared with a list model of the program: outer queue = top-level objects in program order (operands only through their wrapper), inner "
              "queues = their own objects, nothing from stop_recording, context stack restored after every step and after exceptions, QuantumScript.from_queue splits alike.",
         note="Category 'other': bounded exhaustive exploration through solver-decided forks; the compared data are object identities (no symbolic values). Trusted base: z3, vf.symbit. "
              "Outside: qfunc transforms, templates queuing in compute_decomposition, program capture, threads.",
         technique="lifted execution with solver-chosen step kinds (z3-decided forks) against a list model of the program"),
]

CHECKS += [
    dict(property_id="C40", category="other", engine="E5 symbit + z3",
         text="Circuit structure (3 operator slots over 9 operator kinds with 0-3 scalar or a matrix parameter, 3 measurement lists with parametrised observables), the trainable "
              "index set (every subset of the first 4 indices, one past the end included), the indices given to bind_new_parameters and THEIR ORDER are solver variables; every "
              "choice is a solver-decided path of the REAL QuantumScript code, compared with a flat list model: get_parameters (all / trainable / operations_only), par_info, "
              "get_operation, acceptance of index sets, bind_new_parameters (right value at each index for any index order, others unchanged, original untouched, identity "
              "rebinding gives an equal circuit), independence of copies, trainability through qp.transforms.decompose.",
         note="Category 'other': bounded exhaustive exploration through solver-decided forks on tagged concrete parameter values; known finding F25 (decompose resets "
              "trainable_params to all parameters, by design of QuantumScript.copy) is recorded. Outside: batched parameters, torch/jax tensors, program capture.",
         technique="lifted execution with solver-chosen structure, trainable masks and index orders (z3-decided forks) against a flat parameter-list model"),
]

CHECKS += [
    dict(property_id="C46", category="other", engine="E5 symbit + z3",
         text="(a) circuits of 4 gate slots over 17 gate kinds (1-3 qubit gates, qp.ctrl with 1-2 controls, adjoints, rotations that merge / inverses that cancel) with the gate "
              "kinds as solver variables, x 4 measurement lists (idle measured wire included), through the REAL resources_from_tape / tape.specs and qp.specs(qnode, level=0..2) "
              "with a [cancel_inverses, merge_rotations] program, against a direct count (documented gate names, wires, longest-path depth) of the manually transformed circuit; "
              "(b) resource.Expression arithmetic with SYMBOLIC integer coefficients substituted with SYMBOLIC integers: z3 proves the ring-homomorphism, commutativity and "
              "distributivity laws and field-wise Resources.subs.",
         note="Category 'other': (a) is bounded exhaustive exploration through solver-decided forks on concrete circuits; (b) is proof-level (z3 validity over integers, coefficients "
              "in [-6,6], arbitrary substituted values). Outside: qjit/catalyst specs, PBC resources, level='device', pretty printing.",
         technique="lifted execution with solver-chosen gate kinds (z3-decided forks) against a direct count; z3 integer-arithmetic validity proofs for the expression algebra"),
]

CHECKS += [
    dict(property_id="C30", category="other", engine="E5 symbit + E1 symx",
         text="The sample array (3 shots x 3 device wires; 4 shots for bin_size) is a matrix of solver bits: all 512 arrays are solver-decided paths of the REAL process_samples of "
              "ExpectationMP, VarianceMP, ProbabilityMP, CountsMP (all_outcomes on/off), SampleMP for wire subsets in arbitrary order, shot ranges and bin sizes; observables are "
              "given by EIGENVALUES THAT ARE SYMBOLIC REALS (z3 proves expval/var/sample equal to direct arithmetic on the samples for all spectra), by Pauli words and by plain "
              "wires (counts / probs compared with a direct count).",
         note="Category 'other': exhaustive over sample arrays through solver-decided forks; proof-level only in the eigenvalues. Outside: mid-circuit measurement values, broadcasting, "
              "process_counts, shot vectors.",
         technique="lifted execution with solver-enumerated sample bits; z3 QF_NRA validity queries over symbolic eigenvalues per sample array"),
]

CHECKS += [
    dict(property_id="C69", category="other", engine=E1,
         text="Partial (Cartesian lattices, spin models): (a) generate_lattice for chain / square / rectangle / cubic over sizes up to 5x5 and 3x3x3, open / periodic / mixed "
              "boundaries and neighbour orders 1-2 against an independent minimal-image neighbour relation (row-major numbering) - structural comparison; (b) transverse_ising "
              "and heisenberg with SYMBOLIC couplings (per-order lists and full coupling matrices): z3 proves every Pauli-word coefficient of the returned operator equal to the "
              "textbook sum over the independent neighbour pairs, and Hermiticity, for all coupling values > 1e-3.",
         note=PROOF_NOTE + " Category 'other' (partial): non-Cartesian lattices, fermionic models (fermi_hubbard, emery, haldane), kitaev, custom nodes and non-orthogonal lattice vectors are outside; the lattice "
              "comparison itself involves no solver. (c) Lattice(custom_edges=...) + spin_hamiltonian with one symbolic coefficient per custom edge on 10 lattices (1-3 dimensions, 1-2 sites per cell, "
              "open / periodic / mixed boundaries, forward and backward edges): every Pauli-word coefficient equals the sum over the translated copies of the edge.",
         technique="lifted execution of the Hamiltonian builders on z3 real coupling terms; z3 QF_NRA coefficient-wise equality proofs; structural comparison of lattices"),
]

CHECKS += [
    dict(property_id="C53", category="other", engine=E1,
         text="Fermionic sentences with SYMBOLIC complex coefficients (10 words over 3 orbitals: ladder, hopping, number operators, repeated orbitals, identity) are mapped by the "
              "REAL jordan_wigner, parity_transform and bravyi_kitaev (3 and 4 qubits, ps=True); z3 proves Pauli word by Pauli word, for all coefficient values, linearity, "
              "multiplicativity M(s1*s2) == M(s1)@M(s2) (fermionic product of the library vs Pauli product of the images), M(adjoint) == adjoint(M) and invariance under "
              "shift_operator (the anticommutation step of normal ordering); the canonical anticommutation relations are checked on the images for all orbital pairs.",
         note=PROOF_NOTE + " Unitary equivalence of the mappings is implied by the CAR on 2^n dimensions and not checked separately. Outside: wire_map / tol options, operator output, > 3 orbitals. "
              "Category 'other': in the quick tier every obligation is discharged; the thorough tier takes all 64 operand pairs and 47 of its 17051 obligations stay undecided by z3 within 60 s (reported as inconclusive, never as success).",
         technique="lifted execution of the fermionic arithmetic and mappings on z3 complex-polynomial coefficients; z3 QF_NRA coefficient-wise equality proofs"),
]

CHECKS += [
    dict(property_id="C12", category="other", engine=E1,
         text="10 circuits with SYMBOLIC angles (parametrised gates, nested controlled/adjoint/power wrappers such as C(Adjoint(S)) and Pow(Adjoint(S)), multi-controlled gates, "
              "nested work-wire users) through the REAL qp.transforms.decompose for 4 target gate sets, graph system disabled and enabled, work-wire budgets 0-2. Per run: a "
              "decomposition error is accepted; otherwise every returned operator is a member of the gate set (conditionals count as their base), at most num_work_wires wires "
              "are allocated simultaneously, z3 proves U_out == U_in for ALL angles with work wires restored to |0> (measurement-based results: every outcome branch is "
              "proportional to U_in and the weights add up to 1), and with the graph enabled the per-operator resource estimate equals the emitted gate counts when every "
              "selected rule declares exact resources.",
         note=PROOF_NOTE + " Instances whose symbolic execution hits the library's recursion guard or exceeds 160 operators / 4 circuit wires keep the structural obligations only (listed as unsupported); category 'other' because two 100-gate instances stay inconclusive (z3 timeout). "
              "Outside: gridsynth / Clifford+T approximation, max_expansion, fixed_decomps / alt_decomps, device preprocessing.",
         technique="lifted execution of the decompose transform on z3 circle-polynomial terms; z3 QF_NRA equality proofs of circuit unitaries; structural gate-set / budget / estimate comparison"),
]

CHECKS += [
    dict(property_id="C13", category="proof", engine=E1,
         text="Every registered decomposition rule (qp.list_decomps over 22 candidate operators incl. control-value and wire-order variants) whose emitted circuit contains a "
              "mid-circuit or Pauli-product measurement is collected automatically (currently: adjoint TemporaryAND by measurement, Hadamard PPM, CNOT / CZ / CY lattice-surgery "
              "PPM). The emitted circuit runs in the branch interpreter with the measurement OUTCOMES AS SOLVER VARIABLES (m*(m-1)=0; conditions fork through the solver); z3 "
              "proves for ALL outcome vectors that the applied map equals the operator's unitary (x) a work-wire vector, that the work wires end in one outcome-independent "
              "state, and that every outcome pattern has weight 2^-k, on the operator's documented input domain.",
         note=PROOF_NOTE + " Global phases per branch are not compared (the property allows them). Outside: measurement-based uncomputation inside templates (QROM / QRAM / QFT), parametrised measurement bases (C74).",
         technique="symbolic-outcome branch interpretation of the real rules' circuits on z3 polynomial terms; z3 QF_NRA validity queries over all outcome vectors"),
]

CHECKS += [
    dict(property_id="C25", category="other", engine=E1,
         text="Partial: (a) fold_global on 3 circuits with SYMBOLIC angles for scale factors 1, 2, 3, 1.5, 2.5, 3.4, 5: z3 proves the folded circuit has the same unitary for all "
              "angles, the operation count equals the documented formula; (b) insert with 6 position specifications and add_noise with a condition-based noise model: the result "
              "contains the original operations in order plus the channel exactly at the selected positions (positional model), and with a SYMBOLIC strength the lifted "
              "default.mixed results equal the noiseless default.qubit results at zero strength for all angles; (c) richardson_extrapolate / poly_extrapolate return the constant "
              "term of SYMBOLIC polynomial data (|c_k| <= 10) up to 1e-6.",
         note=PROOF_NOTE + " Category 'other' (partial): exponential_extrapolate (log / exp of solver terms) and mitigate_with_zne on QNodes are outside; positions are compared structurally.",
         technique="lifted execution of fold_global / insert / the extrapolation fits on z3 terms; z3 QF_NRA equality proofs; structural position comparison"),
]

CHECKS += [
    dict(property_id="C60", category="other", engine=E1,
         text="Partial (exact unbiasedness; device sampling is statistical): for a density matrix with SYMBOLIC entries on 1 and 2 qubits, the REAL ClassicalShadow "
              "local_snapshots / global_snapshots / expval are evaluated on every (recipe, outcome) pair and averaged with the Born probabilities of the documented X/Y/Z "
              "measurements; z3 proves for all states that the average snapshot equals rho and the average estimate of every Pauli word equals tr(rho P); each local factor is "
              "compared with 3 * eigenprojector - identity.",
         note=PROOF_NOTE + " Category 'other' (partial): generation of bits / recipes on the device, median-of-means over several snapshots and entropies are outside; identities hold up to "
              "1e-6 because the library passes snapshot factors through complex64.",
         technique="lifted weighting of real shadow snapshots with z3 state entries; z3 QF_NRA equality proofs (tolerance 1e-6)"),
]

CHECKS += [
    dict(property_id="C68", category="other", engine=E1,
         text="Partial (kernel matrices and cost functions): with an UNINTERPRETED kernel (a fresh symbolic real per pair of data points; symmetric / unit diagonal as the function's "
              "contract states) the REAL kernel_matrix, square_kernel_matrix, polarity and target_alignment run on 1-4 data points and 4 label vectors, with and without "
              "normalisation and class-label rescaling; z3 proves every entry / value equal to the definition for ALL kernels (alignment after cross-multiplying its square roots "
              "plus a sign obligation) and the kernel is called exactly on the required pairs.",
         note=PROOF_NOTE + " Spectral post-processing: threshold_matrix, displace_matrix and flip_matrix run on ALL real symmetric 2x2 and 3x3 matrices, written K = V diag(w) V^T with "
              "symbolic Givens angles and ascending symbolic eigenvalues; numpy.linalg.eigh / eigvalsh (LAPACK) are replaced by their contract (they return this w, V). Per sign pattern of "
              "the eigenvalues z3 proves result == V diag(f(w)) V^T with f the documented spectral map and f(w) >= 0 (a PSD certificate), y^T (V^T result V) y >= 0 for all y directly, "
              "and no effect on matrices without negative eigenvalues. Category 'other' (partial): closest_psd_matrix (cvxpy), mitigate_depolarizing_noise and matrices larger than 3x3 "
              "are outside; the 4-point alignments stay inconclusive (z3 timeout).",
         technique="lifted execution of the kernel utilities on an uninterpreted symbolic kernel and on symbolically diagonalised matrices; z3 QF_NRA equality / inequality proofs"),
]

CHECKS += [
    dict(property_id="C74", category="proof", engine=E1,
         text="(A) 16 circuits over the MBQC gate set (H, S, RZ, RotXZX, CNOT, physical Paulis; single gates, sequences, wires appearing in non-sorted order, sequences long "
              "enough to recycle released qubits) through the REAL convert_to_mbqc_formalism (diagonalize_mcms=True; False followed by the REAL diagonalize_mcms transform). "
              "The resulting dynamic circuit runs in the active-set interpreter vf.mbqc with EVERY measurement outcome a solver bit (4 per single-qubit gate, 13 per CNOT), an "
              "arbitrary symbolic input state and symbolic angles; z3 proves for all outcomes, inputs and angles that the output wires carry U|psi> up to a scalar, every other "
              "wire is back in |0>, and every outcome pattern has weight 2^-k. (B) The online corrections and the circuit's own Pauli gates are removed (Pauli-frame semantics) and replaced by the frame of the REAL offline Pauli tracker "
              "(_parse_mid_measurements, _get_xz_record, commute_clifford_op run on the symbolic outcome bits): the same proportionality is proved, i.e. the recorded frame is "
              "exactly what separates the uncorrected run from U|psi>; commute_clifford_op is compared with matrix conjugation for every Pauli frame of H, S, CNOT.",
         note=PROOF_NOTE + " Quick tier: circuits without CNOT (seconds to 2 minutes); the CNOT pattern (13 symbolic outcomes, 8192 branches proved at once, ~5 minutes per instance) and the heaviest "
              "sequences run in the thorough tier. For the two wire-recycling sequences the first 4 outcomes are symbolic and the later ones all 0 / all 1. Outside: finite-shot "
              "sampling, non-integer wire labels in the tracker, more than 2 logical wires; S.Y.RotXZX and H(1).CNOT(0,1) were tried and dropped (undecided weight obligation / more than 40 minutes and 12 GB per item).",
         technique="symbolic-outcome active-set interpretation of the real MBQC conversion and Pauli tracker on z3 polynomial terms (multilinear normal form in the outcome bits); z3 QF_NRA validity queries"),
]

CHECKS += [
    dict(property_id="C54", category="other", engine=E1,
         text="Partial (words enumerated, coefficients symbolic): bosonic sentences over 2 modes with SYMBOLIC complex coefficients (10 words: ladder, number, b b^dag, squares, hopping, "
              "mixed products, identity) through the REAL binary_mapping (n_states 2-5), unary_mapping (2-4) and christiansen_mapping (ps=True). The image is turned into matrix columns by "
              "an independent Pauli-string routine; z3 proves for all coefficients in the unit box: every entry between encoded basis states equals sum_k c_k * product of the truncated "
              "ladder matrices of word k in word order (each mapping's documented encoding), no amplitude leaves the encoded subspace, M(s1 + s2) == M(s1) + M(s2) and "
              "M(adjoint(s)) == adjoint(M(s)) Pauli word by Pauli word.",
         note=PROOF_NOTE + " Matrix identities up to 1e-9 (floating square roots). Each obligation is first tried as a linear relaxation over the unit box (monomials as independent variables in "
              "[-1, 1], QF_LRA), then as the exact non-linear query under the path condition. Category 'other' (partial): the words are a fixed list, not symbolic; more than 2 modes, higher "
              "truncations, wire_map / tol options and the bosonic arithmetic (normal ordering) are outside.",
         technique="lifted execution of the boson mappings on z3 complex coefficient terms; z3 QF_LRA relaxation / QF_NRA entry-wise proofs against truncated ladder matrices"),
]

CHECKS += [
    dict(property_id="C04", category="other", engine=E1,
         text="Partial (symbolic parameters, tolerances read as exact): 39 operator builders and 34 operator / measurement-process pairs (26 + 3 self pairs + 5 measurement pairs) with SYMBOLIC angles, coefficients and exponents through the REAL "
              "qp.equal; its parameter comparisons fork the execution. Per pair and feasible path: qp.equal(X, Y) == qp.equal(Y, X); on every path where it is True z3 proves "
              "matrix(X) == matrix(Y) for all parameter values admitted by the path (pairs are single-field mutations: a parameter, a wire, control values and their order, exponents, "
              "coefficients, operand order, wrappers added / removed; measurement processes also need equal types). Per builder: X equals itself, its copy, deep copy, "
              "flatten/unflatten reconstruction and an independent construction on every path.",
         note=PROOF_NOTE + " Category 'other' (partial): the lifting decides a tolerance comparison (allclose) as exact equality, so the numeric size of rtol / atol is abstracted; Python hashes "
              "(hash() realises solver terms), check_interface / check_trainability, batched parameters and operators outside the listed builders are outside. A hand-made mutant that compares "
              "control values only by their sum is reported (soundness of ctrl(RZ) with control values (1,0) vs (0,1)).",
         technique="lifted execution of qp.equal on z3 parameter terms with solver-decided forks; z3 QF_NRA matrix-identity proofs under the path condition"),
]

CHECKS += [
    dict(property_id="C57", category="other", engine=E1,
         text="Partial (device primitives, symbolic amplitudes): StatePrep, AmplitudeEmbedding (pad_with, normalize) and BasisState / BasisEmbedding at the start of a circuit on 13 wire "
              "subsets of a 3-wire register (sorted and non-sorted order), followed by gates with symbolic angles, through the REAL (lifted) default.qubit. The target amplitudes are "
              "SYMBOLIC complex numbers (unit norm by a solver constraint, or arbitrary with normalize=True); z3 proves entry by entry that the final state equals the gates applied to "
              "the embedding of the amplitudes by bit positions in the listed wire order, with padding and normalisation (state * ||x|| == x). Basis states: all bit patterns enumerated.",
         note=PROOF_NOTE + " Category 'other' (partial): the decompositions (MottonenStatePreparation etc. compute angles with arccos / arctan2 of the amplitudes), MPSPrep, Superposition, "
              "QROMStatePreparation, SumOfSlatersPrep, MultiplexerStatePreparation, CosineWindow, PartialUnaryStatePreparation, mid-circuit preparation and default.mixed are outside. "
              "A hand-made mutant (inverse permutation in StatePrep.state_vector) is reported by 37 obligations.",
         technique="lifted execution of default.qubit state preparation on z3 amplitude terms; z3 QF_NRA entry-wise equality proofs"),
]

CHECKS += [
    dict(property_id="C06", category="other", engine=E1,
         text="Partial (symbolic parameters): for 38 operator builders (parametrised gates, controlled / adjoint / power wrappers, scalar products, products, sums, linear combinations) with "
              "SYMBOLIC parameters: bind_new_parameters(builder(p), builder(p').parameters) with p' the rotated symbols has exactly the new parameters (term by term), unchanged wires / type / "
              "hyperparameter keys / control values, and z3 proves its matrix equal to builder(p')'s for all values, the original left unchanged; copy.copy, copy.deepcopy, _flatten/_unflatten and "
              "pennylane.pytrees round trips keep the matrix for all parameter values and the structure, deep copies share no parameter arrays; the same through expval / var of the Hermitian builders.",
         note=PROOF_NOTE + " Category 'other' (partial): pickle (C-level), JAX pytrees and capture primitives (JAX tracing), batched parameters and operators outside the listed builders are outside. "
              "A hand-made mutant (composite operands bound from the wrong end of the parameter list) is reported by 14 obligations.",
         technique="lifted execution of bind_new_parameters / copies / pytree round trips on z3 parameter terms; z3 QF_NRA matrix-identity proofs plus structural comparisons per path"),
]

CHECKS += [
    dict(property_id="C52", category="other", engine=E1,
         text="Partial (symbolic coefficients, enumerated observable lists): 8 lists of Pauli words on 1-4 wires (repeated words, single-wire words, the identity, near-identical pairs), all three "
              "grouping types and the colouring methods lf / rlf / dsatur / gis through the REAL group_observables with one SYMBOLIC coefficient per observable: every observable lands in exactly one "
              "group, group members pairwise satisfy the relation (independent symplectic test), and z3 proves sum_groups coeff*word == sum_i c_i*word_i Pauli word by Pauli word for all coefficients; "
              "compute_partition_indices returns a partition of the indices with the same relation; for every qwc group diagonalize_qwc_pauli_words gives U and Z/I-only words D_k with "
              "U (sum c_k O_k) U^dagger == sum c_k D_k for all coefficients.",
         note=PROOF_NOTE + " Category 'other' (partial): the observable lists are enumerated, the graph libraries' algorithms are not encoded (their output is checked), optimality of the colouring, "
              "non-Pauli observables and more than 4 wires are outside. A hand-made mutant (coefficient index list not kept in step with the observable list) is reported by 72 obligations.",
         technique="lifted execution of the grouping utilities on z3 coefficient terms; z3 linear-identity proofs over all coefficients plus structural partition / relation checks"),
]

CHECKS += [
    dict(property_id="C59", category="other", engine=E1,
         text="Partial (circuit_spectrum): 7 circuits whose input-encoding gates are marked with qp.fourier.mark (RX/RY/RZ, CRX, IsingXX, PauliRot, controlled RZ, PhaseShift, MultiRZ; repeated and "
              "multiple markers) go through the REAL circuit_spectrum; the same circuits run on the lifted default.qubit with the inputs and all other angles SYMBOLIC. With F the positive reported "
              "frequencies of a marker, z3 proves for all angle values that L_F = d/dx prod_f (d^2/dx^2 + f^2) annihilates every expectation value and probability, i.e. the reported spectrum "
              "contains every frequency present; spectra are symmetric and contain 0. Non-vacuity twins: for 3 tight circuits the operator without the largest frequency leaves a residue (z3 sat).",
         note=PROOF_NOTE + " Category 'other' (partial): qnode_spectrum (autodiff Jacobian of classical preprocessing), fourier.coefficients / reconstruct (FFT, numerical fitting) and classically "
              "preprocessed inputs are outside. A hand-made mutant of join_spectra (max instead of sum of two frequencies) is reported by 6 obligations; counterexamples are replayed by an FFT over "
              "one common period.",
         technique="lifted execution of default.qubit on z3 angle terms; symbolic differentiation on the circle atoms; z3 QF_NRA validity of the annihilation identity"),
]

CHECKS += [
    dict(property_id="C19", category="other", engine=E1,
         text="Partial (symbolic angles; circuits and coupling maps enumerated): 4 circuits with long-range two-wire gates (CNOT, CZ, CRX/CRY/CRZ, IsingXX) and SYMBOLIC angles are transpiled by the "
              "REAL qp.transforms.transpile onto every matching coupling map among two lines, a ring, a star and a T shape; every two-wire gate of the result acts on an edge (structural), and the "
              "original and transpiled circuits run on the lifted default.qubit: z3 proves all measurement results (one-wire expectation values, variances, probabilities on wire subsets, through "
              "the returned post-processing) equal for all angles.",
         note=PROOF_NOTE + " Category 'other' (partial): routing optimality, gates on more than two wires and tensor-product observables (rejected by transpile), the networkx shortest-path routine "
              "itself (its output is checked) and more than 5 wires are outside. A hand-made mutant (measurements not re-mapped after an odd-length swap path) is reported by 7 obligations.",
         technique="lifted execution of default.qubit on z3 angle terms for the original and the transpiled circuit; z3 QF_NRA equality proofs; structural connectivity check"),
]

CHECKS += [
    dict(property_id="C33", category="other", engine=E1,
         text="Partial (symbolic angles; circuits enumerated): 4 circuits with templates (QFT, AngleEmbedding, BasicEntanglerLayers), symbolic wrappers (Adjoint, Pow, Controlled with control "
              "values, nested), a mid-circuit state preparation and 3 measurement sets (Hermitian, tensor-product and Sum observables, probabilities) with SYMBOLIC gate angles go through the REAL "
              "preprocessing programs of default.qubit, default.mixed and reference.qubit. Every returned operation must be executable by the device under an independent criterion (matrix / "
              "leading state preparation / declared operation set) and act on device wires; every returned circuit is evaluated by the matrix-route oracle (not the device simulator), the "
              "program's post-processing is applied and z3 proves all results equal to the oracle's results for the original circuit for all angles; an operation without matrix and "
              "decomposition must raise DeviceError, and default.mixed must reject observables outside its declared set also as scalar multiples or nested in products / sums.",
         note=PROOF_NOTE + " Category 'other' (partial): execution by the device simulators (C26-C28), sampling programs, mid-circuit measurements (C21), gradient-specific programs and compiled / "
              "external devices are outside; reference.qubit on the QFT circuit is decided in the thorough tier only. This check found F27 (default.mixed kept a non-leading StatePrep; fixed).",
         technique="lifted execution of the devices' preprocessing programs on z3 angle terms; matrix-route oracle; z3 QF_NRA equality proofs plus structural support checks"),
]

CHECKS += [
    dict(property_id="C24", category="other", engine=E1,
         text="Partial (manual cuts, symbolic angles): 5 circuits with SYMBOLIC gate angles and qp.WireCut markers (one cut, two cuts on different wires, two cuts on the same wire, a cut next to a "
              "measured wire, a chain of three fragments; every cut wire carries an X / S type rotation before the cut so that all four channels of the cut contribute) go through the REAL "
              "qp.cut_circuit (graph, fragments, configuration expansion, tensor post-processing); every fragment circuit is evaluated by the matrix-route oracle with symbolic angles, the REAL "
              "post-processing contracts the symbolic results, and z3 proves the recombined value equal to the uncut circuit's expectation value for all angles; fragments fit the device.",
         note=PROOF_NOTE + " Category 'other' (partial): automatic cut placement, cut_circuit_mc (sampling), shots, opt_einsum paths and more than 4 wires are outside. Hand-made mutants: a wrong Y row of "
              "the change-of-basis matrix is reported (2 obligations) - it was NOT reported by a first version of the circuits whose amplitudes before the cuts were real (the Y channel vanished "
              "identically); a normalisation mutant exchanging prepare and measure counts is an equivalent mutant (the totals agree).",
         technique="matrix-route oracle on z3 angle terms for every fragment circuit; the real tensor contraction on symbolic results; z3 QF_NRA equality proofs"),
]

_NOT_BUILT = "claimed in DESIGN.md §4 but its solver-based check is not built yet in this tree"
NOT_APPLICABLE_REASONS = {
    "C11": "declared resources depend only on discrete configurations that must each be run concretely; no symbolic dimension",
    "C14": "unitary synthesis runs through eig/svd/det and arctan2/arccos on arbitrary unitaries (LAPACK, inverse transcendental functions)",
    "C15": "Clifford+T approximation: float/mpmath grid search with input-dependent loops; epsilon-bound on a numerically produced word",
    "C29": "finite-shot sampling: statistical property",
    "C31": "parallel/seeded execution: OS scheduling, processes, threads",
    "C32": "result structure across devices/interfaces/diff methods: configuration matrix of torch/jax/autograd",
    "C42": "program capture requires JAX tracing",
    "C48": "interface agnosticism: torch/jax/autograd kernels cannot carry solver terms",
    "C55": "Lie-algebra tools: rank/independence via SVD/least squares",
    "C58": "block-encoding/oracle templates: QSVT/GQSP angle solvers, sqrtm/svd; no closed-form symbolic matrices",
    "C62": "quantum chemistry: integrals, SCF, PySCF",
    "C63": "pulse evolution: ODE integration in JAX",
    "C64": "datasets: HDF5 I/O",
    "C65": "executors: OS process/thread pools",
    "C66": "local decomposition contexts: quantifier is over thread interleavings",
    "C67": "OpenQASM: string formatting of concrete floats and an external parser",
    "C70": "default.clifford: stim (compiled)",
    "C73": "tracker: counts over histories of QNode executions through autodiff interfaces",
}

import json as _json
_ids = [_json.loads(l)["id"] for l in open("/verif/properties.jsonl")]
_claimed = {c["property_id"] for c in CHECKS}
NOT_APPLICABLE = [{"property_id": i, "reason": NOT_APPLICABLE_REASONS.get(i, _NOT_BUILT)} for i in _ids if i not in _claimed]
