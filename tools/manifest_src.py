"""Source of MANIFEST.json: edit here, then run tools/gen_manifest.py."""

NOTES = ("Solver-based checking of the real PennyLane code: the library's own functions are executed on symbolic "
         "values (vf.symx polynomial terms / CrossHair symbolic ints / z3 Bools) and z3 decides each obligation for all "
         "values within the stated bounds; every sat model is replayed on the unmodified library before a VIOLATION is "
         "printed. See DESIGN.md.")

E1 = "E1 symx + z3"
PROOF_NOTE = ("Trusted base: z3, the vf.symx lifting (self-validated on every instance against the float execution of the "
              "same real function), the listed shims (casts as identity on object arrays, allclose as exact equality). "
              "Real-number semantics; IEEE rounding is outside the claim.")

CHECKS = [
    dict(property_id="C02", category="proof", engine=E1,
         text="For each of ~70 named-gate instances the real op matrix is proved equal, entry by entry and for ALL real "
              "parameter values (no bound on angles; circle-atom encoding decided by z3 QF_NRA), to a reference table "
              "transcribed from the documented formulas; unitarity and the broadcast path (2 independent symbolic batch "
              "elements) are proved the same way. Bounded only in the variable-wire gates' sizes (stated in evidence).",
         note=PROOF_NOTE + " Reference table in checks/c02.py.",
         technique="symbolic execution of compute_matrix on z3-decided polynomial terms (QF_NRA identity proofs)"),
]

_NOT_BUILT = "claimed in DESIGN.md §4 but its solver-based check is not built yet in this tree"
NOT_APPLICABLE_REASONS = {
    "C04": "equality/hash: Python hash() of concrete payloads and tolerance-based allclose relations; no exact relation a solver can decide",
    "C06": "copy/pickle/pytree round-trips: object-graph identity and C-level (un)pickling; no symbolic dimension",
    "C11": "declared resources depend only on discrete configurations that must each be run concretely; no symbolic dimension",
    "C14": "unitary synthesis runs through eig/svd/det and arctan2/arccos on arbitrary unitaries (LAPACK, inverse transcendental functions)",
    "C15": "Clifford+T approximation: float/mpmath grid search with input-dependent loops; epsilon-bound on a numerically produced word",
    "C19": "transpile: networkx routing over enumerated graphs; nothing numeric to symbolise",
    "C24": "circuit cutting: graph partitioning + opt_einsum contraction on typed arrays",
    "C29": "finite-shot sampling: statistical property",
    "C31": "parallel/seeded execution: OS scheduling, processes, threads",
    "C32": "result structure across devices/interfaces/diff methods: configuration matrix of torch/jax/autograd",
    "C33": "device preprocessing: capability tables over discrete programs; the symbolic part (equivalence) is C12's",
    "C42": "program capture requires JAX tracing",
    "C48": "interface agnosticism: torch/jax/autograd kernels cannot carry solver terms",
    "C52": "observable grouping: rustworkx/networkx colouring over discrete sets",
    "C54": "boson mappings: discrete words with floating sqrt(n) coefficients; no symbolic dimension",
    "C55": "Lie-algebra tools: rank/independence via SVD/least squares",
    "C57": "state preparation: angles from arccos/arctan2 of amplitudes",
    "C58": "block-encoding/oracle templates: QSVT/GQSP angle solvers, sqrtm/svd; no closed-form symbolic matrices",
    "C59": "Fourier tools: FFT and autodiff Jacobians",
    "C62": "quantum chemistry: integrals, SCF, PySCF",
    "C63": "pulse evolution: ODE integration in JAX",
    "C64": "datasets: HDF5 I/O",
    "C65": "executors: OS process/thread pools",
    "C66": "local decomposition contexts: quantifier is over thread interleavings",
    "C67": "OpenQASM: string formatting of concrete floats and an external parser",
    "C70": "default.clifford: stim (compiled)",
    "C73": "tracker: counts over histories of QNode executions through autodiff interfaces",
}

import json as _json
_ids = [_json.loads(l)["id"] for l in open("/verif/properties.jsonl")]
_claimed = {c["property_id"] for c in CHECKS}
NOT_APPLICABLE = [{"property_id": i, "reason": NOT_APPLICABLE_REASONS.get(i, _NOT_BUILT)} for i in _ids if i not in _claimed]
