#!/usr/bin/env bash
# seed_check.sh <seed-id> <check-ids...> : run quick checks against a scratch worktree with /verif/seeded/<seed-id>/patch.diff applied
set -uo pipefail
SID=$1; shift
WT=/tmp/seedwt/$SID; LOG=/verif/.work/seedeval/$SID; mkdir -p $LOG /tmp/seedwt
[ -d $WT ] || git -C /repo worktree add --detach -q $WT HEAD
git -C $WT checkout -q -- . ; git -C $WT apply /verif/seeded/$SID/patch.diff || { echo "apply failed"; exit 2; }
for c in "$@"; do
  VERIF_REPO=$WT VERIF_OUT=$LOG/out_$c timeout 3000 /verif/bin/check $c --tier ${TIER:-quick} > $LOG/check_$c.log 2>&1; rc=$?
  echo "$SID $c exit=$rc violations=$(grep -c '^VIOLATION' $LOG/check_$c.log) :: $(tail -1 $LOG/check_$c.log)"
done
git -C /repo worktree remove --force $WT
