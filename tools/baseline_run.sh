#!/bin/bash
# run the pinned suite on /repo's working tree (no VERIF guard) and compare with the stable-pass list.  usage: baseline_run.sh <n>
n=$1
mkdir -p /verif/.work/baseline
cd /repo && /venv/bin/python -m pytest -ra -q -p no:cacheprovider --timeout=900 --continue-on-collection-errors --junitxml=/verif/.work/baseline/run$n.xml > /verif/.work/baseline/run$n.log 2>&1
python3 /verif/tools/baseline_cmp.py /verif/.work/baseline/run$n.xml > /verif/.work/baseline/run$n.cmp 2>&1
