"""C43 contracts: qp.for_loop / qp.while_loop / qp.cond with program capture disabled record the same
operations, in the same order and with the same carried values, as the equivalent Python loops and ifs."""
from typing import List, Tuple

import pennylane as qp

GATES = [qp.PauliX, qp.PauliY, qp.PauliZ, qp.Hadamard]


def for_index_sequence(start: int, stop: int, step: int) -> bool:
    """
    pre: -4 <= start <= 4 and -4 <= stop <= 4 and -4 <= step <= 4 and step != 0
    post: _
    """
    rec = []

    @qp.for_loop(start, stop, step)
    def body(i):
        rec.append(i)

    out = body()
    return rec == list(range(start, stop, step)) and out is None


def for_signatures(start: int, stop: int) -> bool:
    """
    pre: -3 <= start <= 4 and -3 <= stop <= 5
    post: _
    """
    a, b = [], []

    @qp.for_loop(stop)
    def f1(i):
        a.append(i)

    @qp.for_loop(start, stop)
    def f2(i):
        b.append(i)

    f1()
    f2()
    return a == list(range(stop)) and b == list(range(start, stop))


def for_carried_state(start: int, stop: int, step: int, x0: int, y0: int) -> bool:
    """
    pre: -3 <= start <= 3 and -3 <= stop <= 3 and -3 <= step <= 3 and step != 0
    pre: -5 <= x0 <= 5 and -5 <= y0 <= 5
    post: _
    """
    @qp.for_loop(start, stop, step)
    def one(i, x):
        return x + 2 * i + 1

    @qp.for_loop(start, stop, step)
    def two(i, x, y):
        return y - i, x + y

    x, (u, v) = x0, (x0, y0)
    for i in range(start, stop, step):
        x = x + 2 * i + 1
        u, v = v - i, u + v
    r2 = two(x0, y0)
    return one(x0) == x and tuple(r2) == (u, v)


def for_nested(n: int, m: int, step: int) -> bool:
    """
    pre: 0 <= n <= 3 and 0 <= m <= 3 and 1 <= step <= 2
    post: _
    """
    rec = []

    @qp.for_loop(0, n, 1)
    def outer(i):
        @qp.for_loop(i, m, step)
        def inner(j):
            rec.append((i, j))

        inner()

    outer()
    return rec == [(i, j) for i in range(0, n, 1) for j in range(i, m, step)]


def for_index_only_must_not_return(n: int) -> bool:
    """
    pre: 1 <= n <= 3
    post: _
    """
    @qp.for_loop(n)
    def bad(i):
        return i + 1

    try:
        bad()
    except ValueError:
        return True
    return False


def while_matches_python(x0: int, bound: int, step: int) -> bool:
    """
    pre: -4 <= x0 <= 4 and -4 <= bound <= 6 and 1 <= step <= 3
    post: _
    """
    rec = []

    @qp.while_loop(lambda x: x < bound)
    def body(x):
        rec.append(x)
        return x + step

    exp, x = [], x0
    while x < bound:
        exp.append(x)
        x = x + step
    return body(x0) == x and rec == exp


def while_two_args(a0: int, b0: int) -> bool:
    """
    pre: 0 <= a0 <= 6 and 0 <= b0 <= 6
    post: _
    """
    @qp.while_loop(lambda a, b: a != b and a > 0 and b > 0)
    def step_(a, b):
        return (a - b, b) if a > b else (a, b - a)

    a, b = a0, b0
    n = 0
    while a != b and a > 0 and b > 0:
        a, b = (a - b, b) if a > b else (a, b - a)
        n += 1
    return tuple(step_(a0, b0)) == (a, b)


def cond_if_elif_else(p0: bool, p1: bool, p2: bool, has_else: bool, y: int) -> bool:
    """
    pre: -3 <= y <= 3
    post: _
    """
    rec = []

    def t(v):
        rec.append("t")
        return v + 1

    def e1(v):
        rec.append("e1")
        return v + 2

    def e2(v):
        rec.append("e2")
        return v + 3

    def f(v):
        rec.append("f")
        return v + 4

    got = qp.cond(p0, t, f if has_else else None, elifs=[(p1, e1), (p2, e2)])(y)
    if p0:
        exp, er = y + 1, ["t"]
    elif p1:
        exp, er = y + 2, ["e1"]
    elif p2:
        exp, er = y + 3, ["e2"]
    elif has_else:
        exp, er = y + 4, ["f"]
    else:
        exp, er = None, []
    return got == exp and rec == er


def cond_decorator_form(x: int, y: int) -> bool:
    """
    pre: -5 <= x <= 5 and -3 <= y <= 3
    post: _
    """
    @qp.cond(x > 2)
    def c(v):
        return v * 2

    @c.else_if(x < -2)
    def c2(v):
        return v

    @c.otherwise
    def c3(v):
        return -v

    exp = y * 2 if x > 2 else (y if x < -2 else -y)
    return c(y) == exp


def loop_inside_cond(p: bool, n: int) -> bool:
    """
    pre: 0 <= n <= 3
    post: _
    """
    rec = []

    def loop():
        @qp.for_loop(n)
        def body(i):
            rec.append(i)

        body()

    qp.cond(p, loop)()
    return rec == (list(range(n)) if p else [])
