"""C44 contracts: the real pennylane.measurements.Shots against the expanded list of shot counts.
Bounds are the pre: lines.  Oracle: `expand` (plain list arithmetic)."""
from typing import List, Tuple, Union, Optional

from pennylane.measurements import Shots


def expand(spec):
    out = []
    for s in spec:
        if isinstance(s, tuple):
            out += [s[0]] * s[1]
        else:
            out.append(s)
    return out


def rle(ex):
    """canonical run-length encoding of a list (adjacent equal values merged)"""
    out = []
    for v in ex:
        if out and out[-1][0] == v:
            out[-1] = (v, out[-1][1] + 1)
        else:
            out.append((v, 1))
    return out


def _sem(sh, ex):
    pref = [0]
    for v in ex:
        pref.append(pref[-1] + v)
    return (sh.total_shots == sum(ex)
            and list(sh) == ex
            and [(sc.shots, sc.copies) for sc in sh.shot_vector] == rle(ex)
            and list(sh.bins()) == [(pref[i], pref[i + 1]) for i in range(len(ex))]
            and sh.num_copies == len(ex)
            and sh.has_partitioned_shots == (len(ex) > 1)
            and bool(sh))


def sem_pairs(a: List[Tuple[int, int]]) -> bool:
    """
    pre: 1 <= len(a) <= 3
    pre: all(1 <= s <= 6 and 1 <= c <= 3 for s, c in a)
    post: _
    """
    return _sem(Shots(a), expand(a))


def sem_ints(a: List[int]) -> bool:
    """
    pre: 1 <= len(a) <= 4
    pre: all(1 <= s <= 6 for s in a)
    post: _
    """
    return _sem(Shots(a), list(a)) and _sem(Shots(tuple(a)), list(a))


def sem_mixed(a: int, b: Tuple[int, int], c: int, d: Tuple[int, int]) -> bool:
    """
    pre: 1 <= a <= 4 and 1 <= c <= 4
    pre: 1 <= b[0] <= 4 and 1 <= b[1] <= 3 and 1 <= d[0] <= 4 and 1 <= d[1] <= 3
    post: _
    """
    return (_sem(Shots([a, b, c, d]), expand([a, b, c, d])) and _sem(Shots([b, a, d, c]), expand([b, a, d, c]))
            and _sem(Shots((b, d, a)), expand([b, d, a])))


def sem_int(n: int) -> bool:
    """
    pre: -3 <= n <= 50
    post: _
    """
    try:
        sh = Shots(n)
    except ValueError:
        return n < 1
    return n >= 1 and _sem(sh, [n]) and sh.shot_vector == ((n, 1),) and Shots(sh) is sh


def invalid_rejected(a: List[int]) -> bool:
    """
    pre: 1 <= len(a) <= 3
    pre: all(-2 <= s <= 3 for s in a)
    post: _
    """
    try:
        sh = Shots(a)
    except ValueError:
        return any(s < 1 for s in a)
    return all(s >= 1 for s in a) and list(sh) == a


def add_ints(a: List[int], b: List[int]) -> bool:
    """
    pre: 1 <= len(a) <= 2 and 1 <= len(b) <= 2
    pre: all(1 <= s <= 4 for s in a) and all(1 <= s <= 4 for s in b)
    post: _
    """
    sa, sb, none = Shots(a), Shots(b), Shots(None)
    return (_sem(sa + sb, list(a) + list(b)) and (sa + none) == sa and (none + sb) == sb
            and (none + none).total_shots is None)


def add_pairs(a: Tuple[int, int], b: Tuple[int, int], c: int) -> bool:
    """
    pre: 1 <= a[0] <= 3 and 1 <= a[1] <= 3 and 1 <= b[0] <= 3 and 1 <= b[1] <= 3 and 1 <= c <= 3
    post: _
    """
    return (_sem(Shots([a]) + Shots([b, c]), expand([a, b, c])) and _sem(Shots([c, a]) + Shots([b]), expand([c, a, b])))


def add_sem_big(a: List[Tuple[int, int]], b: List[int]) -> bool:
    """
    tier: thorough
    budget: 300
    pre: 1 <= len(a) <= 2 and 1 <= len(b) <= 3
    pre: all(1 <= s <= 5 and 1 <= c <= 3 for s, c in a) and all(1 <= s <= 5 for s in b)
    post: _
    """
    sa, sb = Shots(a), Shots(b)
    return _sem(sa + sb, expand(a) + list(b)) and _sem(sb + sa, list(b) + expand(a))


def mul_int(a: List[Tuple[int, int]], k: int) -> bool:
    """
    pre: 1 <= len(a) <= 2
    pre: all(1 <= s <= 5 and 1 <= c <= 3 for s, c in a)
    pre: 1 <= k <= 4
    post: _
    """
    ex = expand(a)
    return _sem(Shots(a) * k, [x * k for x in ex]) and _sem(k * Shots(a), [x * k for x in ex])


def mul_int_big(a: List[Tuple[int, int]], k: int) -> bool:
    """
    tier: thorough
    budget: 200
    pre: 1 <= len(a) <= 3
    pre: all(1 <= s <= 5 and 1 <= c <= 3 for s, c in a)
    pre: 1 <= k <= 4
    post: _
    """
    ex = expand(a)
    return _sem(Shots(a) * k, [x * k for x in ex]) and _sem(k * Shots(a), [x * k for x in ex])


def mul_1p5(a: List[int]) -> bool:
    """
    mode: search
    pre: 1 <= len(a) <= 2
    pre: all(1 <= s <= 9 for s in a)
    post: _
    """
    return _sem(Shots(a) * 1.5, [(3 * x) // 2 for x in a])


def mul_0p5(a: List[int]) -> bool:
    """
    mode: search
    pre: 1 <= len(a) <= 2
    pre: all(2 <= s <= 9 for s in a)
    post: _
    """
    return _sem(0.5 * Shots(a), [x // 2 for x in a])


def mul_2p5_pair(s: int, c: int) -> bool:
    """
    mode: search
    pre: 1 <= s <= 9 and 1 <= c <= 3
    post: _
    """
    return _sem(Shots([(s, c)]) * 2.5, [(5 * s) // 2] * c)


def eq_ints(a: List[int], b: List[int]) -> bool:
    """
    pre: 1 <= len(a) <= 3 and 1 <= len(b) <= 3
    pre: all(1 <= s <= 2 for s in a) and all(1 <= s <= 2 for s in b)
    post: _
    """
    sa, sb = Shots(a), Shots(b)
    same = list(a) == list(b)
    return (sa == sb) == same and sa != Shots(None)


def eq_merge_canonical(s: int, c: int, t: int) -> bool:
    """
    pre: 1 <= s <= 4 and 1 <= c <= 4 and 1 <= t <= 4
    post: _
    """
    lhs, rhs = Shots([(s, c), t]), Shots([s] * c + [t])
    return lhs == rhs and (Shots([(s, c)]) == Shots([(t, c)])) == (s == t)


def eq_implies_hash(s: int, c: int, t: int) -> bool:
    """
    mode: search
    pre: 1 <= s <= 4 and 1 <= c <= 4 and 1 <= t <= 4
    post: _
    """
    lhs, rhs = Shots([(s, c), t]), Shots([s] * c + [t])
    return hash(lhs) == hash(rhs)
