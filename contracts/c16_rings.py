"""C16 contracts (bounded, CrossHair): the parts of the exact-arithmetic layer that go through float / numpy /
number-theoretic loops and therefore cannot be proved for unbounded coefficients."""
from fractions import Fraction
from typing import Tuple

import importlib

RI = importlib.import_module("pennylane.ops.op_math.decompositions.rings")
NS = importlib.import_module("pennylane.ops.op_math.decompositions.norm_solver")
ZSqrtTwo, ZOmega, DyadicMatrix = RI.ZSqrtTwo, RI.ZOmega, RI.DyadicMatrix


def _is_prime(n: int) -> bool:
    if n < 2:
        return False
    i = 2
    while i * i <= n:
        if n % i == 0:
            return False
        i += 1
    return True


def primality_small(n: int) -> bool:
    """
    pre: 0 <= n <= 300
    post: _
    """
    return NS._primality_test(n) == _is_prime(n)


def primality_medium(n: int) -> bool:
    """
    mode: search
    pre: 300 < n <= 12000
    post: _
    """
    return NS._primality_test(n) == _is_prime(n)


def primality_beyond_table(n: int) -> bool:
    """
    mode: search
    tier: thorough
    budget: 200
    pre: 10201 <= n <= 2000000
    post: _
    """
    return NS._primality_test(n) == _is_prime(n)


def zsqrt2_mod_congruent(a: int, b: int, c: int, d: int) -> bool:
    """
    mode: search
    pre: -6 <= a <= 6 and -6 <= b <= 6 and -6 <= c <= 6 and -6 <= d <= 6
    pre: c * c - 2 * d * d != 0
    post: _
    """
    x, y = ZSqrtTwo(a, b), ZSqrtTwo(c, d)
    r = x % y
    # r is congruent to +-x modulo y: (x - r) or (x + r) is divisible by y in Z[sqrt2]
    n = c * c - 2 * d * d

    def divisible(z):
        q = z * y.adj2()
        return q.a % n == 0 and q.b % n == 0

    return divisible(x - r) or divisible(x + r)


def zomega_mod_congruent(a: int, b: int, c: int, d: int, e: int, f: int) -> bool:
    """
    mode: search
    pre: -4 <= a <= 4 and -4 <= b <= 4 and -4 <= c <= 4 and -4 <= d <= 4 and -3 <= e <= 3 and -3 <= f <= 3
    pre: (e, f) != (0, 0)
    post: _
    """
    x, y = ZOmega(a, b, c, d), ZOmega(0, e, 0, f)
    r = x % y
    n = abs(y)

    def divisible(z):
        q = z * y.conj() * (y * y.conj()).adj2()
        return all(t % n == 0 for t in q.flatten)

    return divisible(x - r) or divisible(x + r)


def _val(m):
    """exact value of a DyadicMatrix entrywise as (coefficients of omega^3..1) scaled: returns k and entry tuples"""
    return m.k, [tuple(e.flatten) for e in m.flatten]


def _scaled(m, K):
    """entries of m multiplied by sqrt2^(K - m.k), K >= m.k, as ZOmega"""
    s2 = ZOmega(-1, 0, 1, 0)
    out = []
    for e in m.flatten:
        z = e
        for _ in range(K - m.k):
            z = z * s2
        out.append(tuple(z.flatten))
    return out


def dyadic_add_exact(a0: int, a1: int, b0: int, b1: int, ka: int, kb: int) -> bool:
    """
    mode: search
    pre: -3 <= a0 <= 3 and -3 <= a1 <= 3 and -3 <= b0 <= 3 and -3 <= b1 <= 3
    pre: 0 <= ka <= 3 and 0 <= kb <= 3
    post: _
    """
    A = DyadicMatrix(ZOmega(a0, 0, a1, 1), ZOmega(0, a1, 0, a0), ZOmega(a1, a0, 1, 0), ZOmega(1, 0, a0, a1), ka)
    B = DyadicMatrix(ZOmega(b0, b1, 0, 1), ZOmega(1, 0, b1, b0), ZOmega(0, b0, b1, 0), ZOmega(b1, 1, 0, b0), kb)
    C = A + B
    K = max(A.k, B.k, C.k)
    sa, sb_, sc = _scaled(A, K), _scaled(B, K), _scaled(C, K)
    return all(tuple(x + y for x, y in zip(p, q)) == r for p, q, r in zip(sa, sb_, sc)) and (B + A) == C


def dyadic_matmul_exact(a0: int, a1: int, b0: int, b1: int, ka: int, kb: int) -> bool:
    """
    mode: search
    pre: -3 <= a0 <= 3 and -3 <= a1 <= 3 and -3 <= b0 <= 3 and -3 <= b1 <= 3
    pre: 0 <= ka <= 3 and 0 <= kb <= 3
    post: _
    """
    A = DyadicMatrix(ZOmega(a0, 0, a1, 1), ZOmega(0, a1, 0, a0), ZOmega(a1, a0, 1, 0), ZOmega(1, 0, a0, a1), ka)
    B = DyadicMatrix(ZOmega(b0, b1, 0, 1), ZOmega(1, 0, b1, b0), ZOmega(0, b0, b1, 0), ZOmega(b1, 1, 0, b0), kb)
    C = A @ B
    K = A.k + B.k
    if C.k > K:
        return False
    ea, eb = A.flatten, B.flatten
    prod = [ea[0] * eb[0] + ea[1] * eb[2], ea[0] * eb[1] + ea[1] * eb[3], ea[2] * eb[0] + ea[3] * eb[2], ea[2] * eb[1] + ea[3] * eb[3]]
    sc = _scaled(C, K)
    return all(tuple(p.flatten) == r for p, r in zip(prod, sc)) and (A @ B).conj() == A.conj() @ B.conj() and (A @ B).adj2() == A.adj2() @ B.adj2()


def dyadic_distributive(a0: int, a1: int, b0: int, c0: int, ka: int, kb: int, kc: int) -> bool:
    """
    mode: search
    pre: -2 <= a0 <= 2 and -2 <= a1 <= 2 and -2 <= b0 <= 2 and -2 <= c0 <= 2
    pre: 0 <= ka <= 2 and 0 <= kb <= 3 and 0 <= kc <= 3
    post: _
    """
    A = DyadicMatrix(ZOmega(a0, 0, a1, 1), ZOmega(0, a1, 0, a0), ZOmega(a1, a0, 1, 0), ZOmega(1, 0, a0, a1), ka)
    B = DyadicMatrix(ZOmega(b0, 1, 0, 1), ZOmega(1, 0, 1, b0), ZOmega(0, b0, 1, 0), ZOmega(1, 1, 0, b0), kb)
    C = DyadicMatrix(ZOmega(0, c0, 1, 0), ZOmega(c0, 0, 0, 1), ZOmega(1, 1, c0, 0), ZOmega(0, 1, 0, c0), kc)
    return A @ (B + C) == (A @ B) + (A @ C) and (A + B) + C == A + (B + C) and (A @ B) @ C == A @ (B @ C)
