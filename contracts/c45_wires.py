"""C45 contracts: the real pennylane.wires.Wires against Python set/list semantics on labels."""
from typing import List, Tuple, Dict

from pennylane.wires import Wires
from pennylane.exceptions import WireError

POOL = [0, "a", (1, "b"), "0", (0,)]


def dedupe(xs):
    out = []
    for x in xs:
        if x not in out:
            out.append(x)
    return out


def distinct(a):
    return len(set(a)) == len(a)


def construct(a: List[int]) -> bool:
    """
    pre: len(a) <= 4
    pre: len(set(a)) == len(a)
    post: _
    """
    a = [x for x in a]
    w = Wires(a)
    return (w.labels == tuple(a) and len(w) == len(a) and list(w) == a and w.tolist() == a
            and w.toset() == set(a) and all(x in w for x in a) and all(w[i] == a[i] for i in range(len(a)))
            and Wires(w) == w and Wires(tuple(a)) == w)


def construct_duplicates_rejected(a: List[int]) -> bool:
    """
    mode: search
    pre: 2 <= len(a) <= 4
    pre: len(set(a)) < len(a)
    post: _
    """
    a = [x for x in a]
    try:
        Wires(a)
    except WireError:
        return True
    return False


def construct_mixed(i: List[int]) -> bool:
    """
    pre: len(i) <= 4 and all(0 <= k < 5 for k in i)
    pre: len(set(i)) == len(i)
    post: _
    """
    i = [x for x in i]
    a = [POOL[k] for k in i]
    w = Wires(a)
    return w.labels == tuple(a) and [w.index(x) for x in a] == list(range(len(a)))


def setops(a: List[int], b: List[int]) -> bool:
    """
    pre: len(a) <= 3 and len(b) <= 3
    pre: len(set(a)) == len(a) and len(set(b)) == len(b)
    post: _
    """
    a = [x for x in a]
    b = [x for x in b]
    A, B = Wires(a), Wires(b)
    sa, sb = set(a), set(b)

    def ok(w, s):
        return isinstance(w, Wires) and w.toset() == s and len(w) == len(s)

    return (ok(A | B, sa | sb) and ok(A & B, sa & sb) and ok(A - B, sa - sb) and ok(A ^ B, sa ^ sb)
            and ok(A.union(B), sa | sb) and ok(A.intersection(B), sa & sb) and ok(A.difference(B), sa - sb)
            and ok(A.symmetric_difference(B), sa ^ sb))


def setops_reflected(a: List[int], b: List[int]) -> bool:
    """
    pre: len(a) <= 3 and len(b) <= 3
    pre: len(set(a)) == len(a) and len(set(b)) == len(b)
    post: _
    """
    a = [x for x in a]
    b = [x for x in b]
    A = Wires(a)
    sa, sb = set(a), set(b)

    def ok(w, s):
        return isinstance(w, Wires) and w.toset() == s and len(w) == len(s)

    return (ok(A | b, sa | sb) and ok(b | A, sa | sb) and ok(b & A, sa & sb) and ok(b - A, sb - sa) and ok(A - b, sa - sb)
            and ok(b ^ A, sa ^ sb))


def setops_mixed(i: List[int], j: List[int]) -> bool:
    """
    pre: len(i) <= 2 and len(j) <= 1 and all(0 <= k < 5 for k in i) and all(0 <= k < 5 for k in j)
    pre: len(set(i)) == len(i) and len(set(j)) == len(j)
    post: _
    """
    i = [x for x in i]
    j = [x for x in j]
    a, b = [POOL[k] for k in i], [POOL[k] for k in j]
    A, B = Wires(a), Wires(b)
    sa, sb = set(a), set(b)
    return ((A | B).toset() == sa | sb and (A & B).toset() == sa & sb and (A - B).toset() == sa - sb
            and (A ^ B).toset() == sa ^ sb and len(A ^ B) == len(sa ^ sb))


def all_wires_sem(a: List[int], b: List[int], c: List[int]) -> bool:
    """
    mode: search
    pre: len(a) <= 2 and len(b) <= 2 and len(c) <= 1
    pre: len(set(a)) == len(a) and len(set(b)) == len(b) and len(set(c)) == len(c)
    post: _
    """
    a = [x for x in a]
    b = [x for x in b]
    c = [x for x in c]
    ws = [Wires(a), Wires(b), Wires(c)]
    exp = dedupe(a + b + c)
    return Wires.all_wires(ws).labels == tuple(exp) and Wires.all_wires(ws, sort=True).labels == tuple(sorted(exp))


def add_sem(a: List[int], b: List[int]) -> bool:
    """
    mode: search
    pre: len(a) <= 3 and len(b) <= 2
    pre: len(set(a)) == len(a) and len(set(b)) == len(b)
    post: _
    """
    a = [x for x in a]
    b = [x for x in b]
    return (Wires(a) + Wires(b)).labels == tuple(dedupe(a + b)) and (a + Wires(b)).labels == tuple(dedupe(a + b))


def all_wires_sem_big(a: List[int], b: List[int], c: List[int]) -> bool:
    """
    mode: search
    tier: thorough
    budget: 300
    pre: len(a) <= 3 and len(b) <= 2 and len(c) <= 2
    pre: len(set(a)) == len(a) and len(set(b)) == len(b) and len(set(c)) == len(c)
    post: _
    """
    a = [x for x in a]
    b = [x for x in b]
    c = [x for x in c]
    ws = [Wires(a), Wires(b), Wires(c)]
    exp = dedupe(a + b + c)
    return (Wires.all_wires(ws).labels == tuple(exp) and Wires.all_wires(ws, sort=True).labels == tuple(sorted(exp))
            and (Wires(a) + Wires(b)).labels == tuple(dedupe(a + b)) and (a + Wires(b)).labels == tuple(dedupe(a + b)))


def shared_wires_sem(a: List[int], b: List[int], c: List[int]) -> bool:
    """
    pre: len(a) <= 2 and len(b) <= 2 and len(c) <= 1
    pre: len(set(a)) == len(a) and len(set(b)) == len(b) and len(set(c)) == len(c)
    post: _
    """
    a = [x for x in a]
    b = [x for x in b]
    c = [x for x in c]
    return (Wires.shared_wires([Wires(a), Wires(b)]).labels == tuple(x for x in a if x in b)
            and Wires.shared_wires([Wires(a), Wires(b), Wires(c)]).labels == tuple(x for x in a if x in b and x in c))


def shared_wires_sem_big(a: List[int], b: List[int], c: List[int]) -> bool:
    """
    tier: thorough
    budget: 300
    pre: len(a) <= 3 and len(b) <= 3 and len(c) <= 2
    pre: len(set(a)) == len(a) and len(set(b)) == len(b) and len(set(c)) == len(c)
    post: _
    """
    a = [x for x in a]
    b = [x for x in b]
    c = [x for x in c]
    return (Wires.shared_wires([Wires(a), Wires(b)]).labels == tuple(x for x in a if x in b)
            and Wires.shared_wires([Wires(a), Wires(b), Wires(c)]).labels == tuple(x for x in a if x in b and x in c))


def unique_wires_sem(a: List[int], b: List[int], c: List[int]) -> bool:
    """
    pre: len(a) <= 2 and len(b) <= 2 and len(c) <= 1
    pre: len(set(a)) == len(a) and len(set(b)) == len(b) and len(set(c)) == len(c)
    post: _
    """
    a = [x for x in a]
    b = [x for x in b]
    c = [x for x in c]
    cat = a + b + c
    return Wires.unique_wires([Wires(a), Wires(b), Wires(c)]).labels == tuple(x for x in cat if cat.count(x) == 1)


def unique_wires_sem_big(a: List[int], b: List[int], c: List[int]) -> bool:
    """
    tier: thorough
    budget: 300
    pre: len(a) <= 3 and len(b) <= 2 and len(c) <= 2
    pre: len(set(a)) == len(a) and len(set(b)) == len(b) and len(set(c)) == len(c)
    post: _
    """
    a = [x for x in a]
    b = [x for x in b]
    c = [x for x in c]
    cat = a + b + c
    return Wires.unique_wires([Wires(a), Wires(b), Wires(c)]).labels == tuple(x for x in cat if cat.count(x) == 1)


def index_sem(a: List[int], i: int) -> bool:
    """
    pre: 0 <= i < len(a) <= 4
    pre: len(set(a)) == len(a)
    post: _
    """
    a = [x for x in a]
    w = Wires(a)
    return (w.index(a[i]) == i and w.index(Wires([a[i]])) == i and w.indices([a[i], a[0]]) == [i, 0] and w.indices(a[i]) == [i]
            and w.indices(Wires(a[::-1])) == list(range(len(a)))[::-1])


def index_missing(a: List[int], x: int) -> bool:
    """
    mode: search
    pre: len(a) <= 3 and x not in a
    pre: len(set(a)) == len(a)
    post: _
    """
    a = [y for y in a]
    try:
        Wires(a).index(x)
    except WireError:
        return True
    return False


def map_sem(a: List[int], b: List[int]) -> bool:
    """
    pre: 1 <= len(a) <= 3 and len(b) == len(a)
    pre: len(set(a)) == len(a) and len(set(b)) == len(b)
    post: _
    """
    a = [x for x in a]
    b = [x for x in b]
    wm = dict(zip(a, b))
    wm[max(a) + 1] = 2000  # an unused extra key must be harmless
    return Wires(a).map(wm).labels == tuple(b)


def map_non_unique_rejected(a: List[int], b: List[int]) -> bool:
    """
    mode: search
    pre: 2 <= len(a) <= 3 and len(b) == len(a)
    pre: len(set(a)) == len(a) and len(set(b)) < len(b)
    post: _
    """
    a = [x for x in a]
    b = [x for x in b]
    try:
        Wires(a).map(dict(zip(a, b)))
    except WireError:
        return True
    return False


def map_missing_key(a: List[int], skip: int) -> bool:
    """
    mode: search
    pre: 1 <= len(a) <= 3 and 0 <= skip < len(a)
    pre: len(set(a)) == len(a)
    post: _
    """
    a = [x for x in a]
    wm = {x: x + 50 for k, x in enumerate(a) if k != skip}
    try:
        Wires(a).map(wm)
    except WireError:
        return True
    return False


def subset_sem(a: List[int], idx: List[int]) -> bool:
    """
    pre: 1 <= len(a) <= 4 and len(idx) <= 3
    pre: len(set(a)) == len(a) and len(set(idx)) == len(idx) and all(0 <= k < len(a) for k in idx)
    post: _
    """
    a = [x for x in a]
    idx = [x for x in idx]
    w = Wires(a)
    return (w.subset(idx).labels == tuple(a[k] for k in idx) and (len(idx) == 0 or w.subset(idx[0]).labels == (a[idx[0]],))
            and isinstance(w.subset(idx), Wires))


def subset_periodic(a: List[int], idx: List[int]) -> bool:
    """
    pre: 1 <= len(a) <= 3 and len(idx) <= 2
    pre: len(set(a)) == len(a) and all(-7 <= k <= 7 for k in idx)
    pre: len(set(k % len(a) for k in idx)) == len(idx)
    post: _
    """
    a = [x for x in a]
    idx = [x for x in idx]
    w = Wires(a)
    return w.subset(idx, periodic_boundary=True).labels == tuple(a[k % len(a)] for k in idx)


def eq_hash(a: List[int], b: List[int]) -> bool:
    """
    pre: len(a) <= 3 and len(b) <= 3
    pre: len(set(a)) == len(a) and len(set(b)) == len(b)
    post: _
    """
    a = [x for x in a]
    b = [x for x in b]
    A, B = Wires(a), Wires(b)
    same = a == b
    return ((A == B) == same and (A != B) == (not same)
            and (A == Wires(a[::-1])) == (a == a[::-1]) and (A == tuple(b)) == same)


def eq_implies_hash(a: List[int], b: List[int]) -> bool:
    """
    mode: search
    pre: len(a) <= 3 and len(b) <= 3
    pre: len(set(a)) == len(a) and len(set(b)) == len(b)
    post: _
    """
    a, b = [x for x in a], [x for x in b]
    A, B = Wires(a), Wires(b)
    return (A != B or hash(A) == hash(B)) and hash(A) == hash(Wires(tuple(a))) and (a == a[::-1] or len(a) > 2 or hash(A) != hash(Wires(a[::-1])))


def contains_sem(a: List[int], b: List[int]) -> bool:
    """
    pre: len(a) <= 3 and len(b) <= 3
    pre: len(set(a)) == len(a) and len(set(b)) == len(b)
    post: _
    """
    a = [x for x in a]
    b = [x for x in b]
    return Wires(a).contains_wires(Wires(b)) == set(b).issubset(set(a))
