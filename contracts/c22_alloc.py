"""C22 contracts: the real _WireManager (one inductive step from an arbitrary valid pre-state) and bounded
allocate/deallocate histories through the real resolve_dynamic_wires transform.

Stub (listed as an assumption): `measure(w, reset=True)` inside resolve_dynamic_wires is replaced by a marker
object -- the reset operation is irrelevant to the bookkeeping and dominates symbolic path time."""
from typing import List, Optional
import uuid

import pennylane as qp
from pennylane.allocation import AllocateState, Allocate, Deallocate, DynamicWire
from pennylane.exceptions import AllocationError
import importlib

R = importlib.import_module("pennylane.transforms.resolve_dynamic_wires")


class _Reset:
    name = "RESET"

    def __init__(self, w):
        self.wires = qp.wires.Wires([w])
        self.w = w

    def map_wires(self, m):
        return self


class _M:
    def __init__(self, w):
        self.measurements = [_Reset(w)]


R.measure = lambda w, reset=False: _M(w)
_WireManager = R._WireManager
Z, A = AllocateState.ZERO, AllocateState.ANY


def _mk(zeroed, any_state, loaned, kinds, min_int, allow_resets):
    m = _WireManager(zeroed=zeroed, any_state=any_state, min_int=min_int, allow_resets=allow_resets)
    m._loaned = {w: (Z if k else A) for w, k in zip(loaned, kinds)}
    return m


def _valid(zeroed, any_state, loaned, kinds, min_int):
    allw = zeroed + any_state + loaned
    return len(set(allw)) == len(allw) and len(kinds) == len(loaned) and (min_int is None or all(w < min_int for w in allw))


def _step_get(z0, z1, a0, a1, l0, l1, nz, na, nl, k0, k1, min_int, allow_resets, want_zero, restored) -> bool:
    zeroed, any_state, loaned, kinds = [z0, z1][:nz], [a0, a1][:na], [l0, l1][:nl], [k0, k1][:nl]
    m = _mk(zeroed, any_state, loaned, kinds, min_int, allow_resets)
    try:
        w, ops = m.get_wire(Z if want_zero else A, restored)
    except AllocationError:
        # documented: only when no wire can be provided and no new integer wire may be created
        if min_int is not None:
            return False
        if want_zero:
            return not zeroed and (not any_state or not allow_resets)
        return not zeroed and not any_state
    fresh = min_int is not None and w == min_int
    from_zero, from_any = w in zeroed, w in any_state
    nzr, nar, nlo = list(m._zeroed), list(m._any_state), dict(m._loaned)
    allnow = nzr + nar + list(nlo)
    ok_distinct = len(set(allnow)) == len(allnow)
    ok_conserved = set(allnow) == set(zeroed + any_state + loaned) | ({min_int} if fresh else set())
    ok_source = (from_zero or from_any or fresh) and w not in loaned
    ok_loaned = w in nlo and w not in nzr and w not in nar and all(nlo[x] == (Z if k else A) for x, k in zip(loaned, kinds))
    reset_emitted = len(ops) > 0
    if want_zero:
        ok_state = ((from_zero or fresh) and not reset_emitted) or (from_any and reset_emitted and allow_resets and ops[0].w == w)
    else:
        ok_state = not reset_emitted
    # a wire goes back to the zeroed register only if it held |0> when handed out and the user promised restoration
    ok_kind = nlo[w] == A or (restored and (from_zero or fresh or reset_emitted))
    ok_minint = m.min_int == (min_int + 1 if fresh else min_int)
    # prefer existing free wires over creating new ones when a suitable one exists
    ok_pref = not fresh or (not zeroed and (not any_state or (want_zero and not allow_resets)))
    return ok_distinct and ok_conserved and ok_source and ok_loaned and ok_state and ok_kind and ok_minint and ok_pref


def step_return(z0: int, z1: int, a0: int, a1: int, l0: int, l1: int, l2: int, nz: int, na: int, nl: int,
                k0: bool, k1: bool, k2: bool, i: int) -> bool:
    """
    pre: z0 < z1 < a0 < a1 < l0 < l1 < l2
    pre: 0 <= nz <= 2 and 0 <= na <= 2 and 1 <= nl <= 3 and 0 <= i < nl
    post: _
    """
    zeroed, any_state, loaned, kinds = [z0, z1][:nz], [a0, a1][:na], [l0, l1, l2][:nl], [k0, k1, k2][:nl]
    m = _mk(zeroed, any_state, loaned, kinds, None, True)
    w = loaned[i]
    m.return_wire(w)
    nzr, nar, nlo = list(m._zeroed), list(m._any_state), dict(m._loaned)
    allnow = nzr + nar + list(nlo)
    return (len(set(allnow)) == len(allnow) and set(allnow) == set(zeroed + any_state + loaned) and w not in nlo
            and (w in nzr) == kinds[i] and (w in nar) == (not kinds[i])
            and nzr[:len(zeroed)] == zeroed and nar[:len(any_state)] == any_state
            and (nzr[-1] == w if kinds[i] else nar[-1] == w))


_STEP_DOC = """
    pre: z0 < z1 < a0 < a1 < l0 < l1
    pre: 0 <= nz <= 2 and 0 <= na <= 2 and 0 <= nl <= 2
    pre: min_int is None or l1 < min_int
    post: _
"""


def step_get_zero_resets(z0: int, z1: int, a0: int, a1: int, l0: int, l1: int, nz: int, na: int, nl: int, k0: bool, k1: bool,
                         min_int: Optional[int], restored: bool) -> bool:
    """
    pre: z0 < z1 < a0 < a1 < l0 < l1
    pre: 0 <= nz <= 2 and 0 <= na <= 2 and 0 <= nl <= 2
    pre: min_int is None or l1 < min_int
    post: _
    """
    return _step_get(z0, z1, a0, a1, l0, l1, nz, na, nl, k0, k1, min_int, True, True, restored)


def step_get_zero_noresets(z0: int, z1: int, a0: int, a1: int, l0: int, l1: int, nz: int, na: int, nl: int, k0: bool, k1: bool,
                           min_int: Optional[int], restored: bool) -> bool:
    """
    pre: z0 < z1 < a0 < a1 < l0 < l1
    pre: 0 <= nz <= 2 and 0 <= na <= 2 and 0 <= nl <= 2
    pre: min_int is None or l1 < min_int
    post: _
    """
    return _step_get(z0, z1, a0, a1, l0, l1, nz, na, nl, k0, k1, min_int, False, True, restored)


def step_get_any(z0: int, z1: int, a0: int, a1: int, l0: int, l1: int, nz: int, na: int, nl: int, k0: bool, k1: bool,
                 min_int: Optional[int], allow_resets: bool, restored: bool) -> bool:
    """
    pre: z0 < z1 < a0 < a1 < l0 < l1
    pre: 0 <= nz <= 2 and 0 <= na <= 2 and 0 <= nl <= 1
    pre: min_int is None or l1 < min_int
    post: _
    """
    return _step_get(z0, z1, a0, a1, l0, l1, nz, na, nl, k0, k1, min_int, allow_resets, False, restored)


# ------------------------------------------------------------------ bounded histories through the real transform
# (plain-Python helpers, label-generic: used by checks/c22.py with symbolic labels on the vf.symbit engine)
def build_history(codes, static):
    """interpret opcodes -> (tape ops, meta) or None if the program is ill-formed"""
    ops, live, meta = [], [], {}
    for c in codes:
        if c in (0, 1, 2, 3):  # allocate: 0 zero/not restored, 1 zero/restored, 2 any/not restored, 3 any/restored
            d = DynamicWire(key=uuid.UUID(int=len(meta) + 1))
            st, rest = (Z if c < 2 else A), bool(c % 2)
            ops.append(Allocate([d], state=st, restored=rest))
            live.append(d)
            meta[d] = (st, rest)
        elif c == 4:  # deallocate most recent
            if not live:
                return None
            ops.append(Deallocate([live.pop()]))
        elif c == 5:  # deallocate oldest
            if not live:
                return None
            ops.append(Deallocate([live.pop(0)]))
        elif c == 6:  # gate on every live dynamic wire and the static wire
            ops.append(qp.MultiRZ(0.5, wires=list(live) + [static]))
        else:
            return None
    return ops, meta


def check_history(codes, zeroed, any_state, min_int, allow_resets, static, is_reset=lambda o: getattr(o, "name", "") == "RESET",
                  reset_wire=lambda o: o.w, device=None, other_static=(), measured_only=()):
    """run the real transform on the opcode program and replay its output against an independent lifetime model.
    Returns (ok, reason).  Labels may be any objects supporting ==/hash (ints, strings, symbolic integers).

    device = ("none",) | ("wires", [labels]): go through devices.preprocess.device_resolve_dynamic_wires instead; the registers the
    DOCUMENTED rule gives (device wires not present in the tape / integers above every integer wire of the tape) are the model's
    `zeroed` / `min_int`.  other_static: further static wires; one gate on each comes first in the tape, IN THIS ORDER.
    measured_only: further static wires that only a measurement reads."""
    h = build_history(codes, static)
    if h is None:
        return True, "ill-formed program (skipped)"
    ops, meta = h
    prefix = [qp.PauliX(w) for w in other_static]
    # measured_only: wires that no operation touches but a measurement reads - they belong to the circuit just the same
    statics = list(other_static) + [static] + list(measured_only)
    tape = qp.tape.QuantumScript(prefix + ops, [qp.expval(qp.Z(static))] + [qp.expval(qp.Z(w)) for w in measured_only])
    try:
        if device is None:
            (out,), _ = R.resolve_dynamic_wires(tape, zeroed=list(zeroed), any_state=list(any_state), min_int=min_int, allow_resets=allow_resets)
        else:
            from pennylane.devices.preprocess import device_resolve_dynamic_wires

            if device[0] == "none":
                zeroed, any_state, min_int = [], [], None
                for w in statics:  # documented: "the smallest integer that is larger than all integer wires present in the tape"
                    if isinstance(w, int) and (min_int is None or w + 1 > min_int):
                        min_int = w + 1
                min_int = 0 if min_int is None else min_int
                (out,), _ = device_resolve_dynamic_wires(tape, None, allow_resets=allow_resets)
            else:
                dev_wires = list(device[1])
                zeroed, any_state, min_int = [w for w in dev_wires if not any(w == t for t in statics)], [], None
                (out,), _ = device_resolve_dynamic_wires(tape, qp.wires.Wires(dev_wires), allow_resets=allow_resets)
    except AllocationError:
        return (min_int is None), "AllocationError" + ("" if min_int is None else " although new integer wires may be created")
    min0 = min_int
    got_prefix = list(out.operations)[: len(prefix)]
    if len(got_prefix) != len(prefix) or any(not (a.name == b.name and len(a.wires) == 1 and a.wires[0] == b.wires[0]) for a, b in zip(got_prefix, prefix)):
        return False, "static operations changed"
    handed = list(zeroed) + list(any_state)
    clean = {}
    for w in zeroed:
        clean[w] = True
    for w in any_state:
        clean[w] = False
    live_dyn, assigned = [], {}
    out_ops = list(out.operations)[len(prefix):]
    k = 0
    for op in ops:
        if op.name == "Allocate":
            d = op.wires[0]
            st, rest = meta[d]
            while k < len(out_ops) and is_reset(out_ops[k]):
                rw = reset_wire(out_ops[k])
                if any(v[0] is not None and v[0] == rw for v in assigned.values()):
                    # Deallocate emits nothing, so a reset that follows several allocations / deallocations without a gate in between
                    # may belong to a LATER allocation (after the wire's holder was released): leave it for that one.  If no later
                    # allocation can take it, the next gate finds a reset in its place and the history is rejected there.
                    break
                if not allow_resets:
                    return False, "reset emitted although allow_resets=False"
                clean[rw] = True
                k += 1
            live_dyn.append(d)
            assigned[d] = [None, st, rest, None]
        elif op.name == "Deallocate":
            d = op.wires[0]
            live_dyn.remove(d)
            w, st, rest, was_clean = assigned.pop(d)
            if w is not None:
                clean[w] = was_clean if rest else False
        else:
            if k >= len(out_ops):
                return False, "gate missing from the output"
            if is_reset(out_ops[k]):
                return False, "reset applied to a wire that is currently loaned out"
            g = out_ops[k]
            k += 1
            ws = list(g.wires)
            if len(ws) != len(live_dyn) + 1 or not (ws[-1] == static):
                return False, "gate wires do not match the live dynamic wires + static wire"
            dyn_ws = ws[:-1]
            for i in range(len(dyn_ws)):
                if any(dyn_ws[i] == t for t in statics):
                    return False, "a dynamic wire landed on a static circuit wire"
                for j in range(i):
                    if dyn_ws[i] == dyn_ws[j]:
                        return False, "two simultaneously live dynamic wires share a concrete wire"
            for d, w in zip(live_dyn, dyn_ws):
                info = assigned[d]
                if info[0] is None:
                    is_handed = any(w == hw for hw in handed)
                    if not is_handed and not (min0 is not None and w >= min0):
                        return False, "dynamic wire mapped to a label that was neither handed in nor created from min_int"
                    was_clean = clean[w] if is_handed or w in clean else True
                    if info[1] == Z and not was_clean:
                        return False, "wire requested in |0> is dirty when allocated"
                    info[0] = w
                    info[3] = was_clean
                elif not (info[0] == w):
                    return False, "a live dynamic wire changed its concrete wire"
                clean[w] = False
    if k != len(out_ops):
        return False, "unexpected extra operations in the output"
    return True, "ok"
