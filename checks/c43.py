"""C43 Tape-mode control flow equals plain Python control flow (E2: CrossHair over the real for_loop/while_loop/cond)."""
from vf.e2check import make

run, replay = make(
    ["c43_control_flow.py"],
    encode=["pennylane.control_flow.for_loop:ForLoopCallable._call_capture_disabled", "pennylane.control_flow.while_loop:WhileLoopCallable._call_capture_disabled",
            "pennylane.ops.op_math.condition:CondCallable.__call__", "pennylane.ops.op_math.condition:cond"],
    bounds=dict(loop_bounds="start, stop, step symbolic in -4..4 (step != 0), carried integers -5..5, nesting depth 2",
                while_loops="initial value / bound / step symbolic, at most ~10 iterations",
                cond="all predicates symbolic booleans, if / 2 x elif / optional else, functional and decorator forms",
                outside="real operator queuing inside the bodies (AnnotatedQueue does not record under CrossHair's tracer; bodies record through Python callbacks instead - queue order itself is C41), program capture (jax), qp.cond on mid-circuit measurement values (the equivalence with deferral is a state-level property: see C21)"),
    assumptions=["oracle: the same loop / if written in plain Python"],
    quick_timeout=120,
)
