"""C18 Transforms never modify their input circuit (E1 monitor riding on the C17 harness).  See checks/_passes.py."""
from checks import _passes as P
from vf import symx as sx
import pennylane as qp

replay = P.replay


def imm_only(it):
    return [r for r in P.work(it) if r["name"].startswith("[immutability]") or r["status"] in ("unsupported", "harness_error")]


def run(ctx):
    ctx.level = "proof"
    items = P.items_for(ctx)
    ctx.shapes = len(items)
    ctx.encode(qp.transforms.cancel_inverses, qp.transforms.merge_rotations, qp.transforms.commute_controlled, qp.transforms.undo_swaps,
               qp.transforms.combine_global_phases, qp.transforms.remove_barrier, qp.compile)
    ctx.bound(parameters="all real angles (symbolic, so that every value-dependent branch of a pass is explored by forking)", circuits="same skeleton family as C17",
              monitor="identity and order of operations/measurements, identity and values of every data entry, wires, names, trainable_params, shots - compared with a snapshot "
                      "after the transform returned AND after its post-processing ran; the cached tape.hash is not trusted",
              passes=list(P.PASSES), outside="transforms not driven by this harness (cutting, noise insertion, ZX, gradient transforms: their own checks carry the same monitor where built)")
    ctx.assume(*sx.SHIM_NOTES)
    ctx.rule = "one obligation per (circuit, pass, explored path): the [immutability] record; non-trivial = the path was selected by the solver from symbolic angles"

    ctx.pmap(imm_only, items, timeout_each=300)
