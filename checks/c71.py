"""C71 Snapshots report the state of the circuit prefix (E1).

Circuits with symbolic gate angles and snapshots at solver-independent positions (start, between gates, consecutive, end; default
state / expval / probs / density_matrix measurements, tagged and untagged) are pushed through
  (A) the REAL qp.snapshots tape transform: the generated prefix tapes are executed by the lifted default.qubit simulator and the
      REAL post-processing builds the dictionary, and
  (B) the REAL device route: default.qubit's get_final_state / measure_final_state with an active snapshot debugger
      (apply_operation's Snapshot branch records into debugger.snapshots).
z3 proves for ALL angles that the value under each tag equals the requested measurement of the state |psi_k> = U_k ... U_1 |0>
computed by the matrix-route oracle from the gates before the snapshot, and that the final results equal those of the same
circuit with the snapshots removed.
"""
from __future__ import annotations

import numpy as np
import pennylane as qp

from vf import symx as sx, obl, simx

PN = ["a", "b", "g"]

SNAPS = {
    "S": lambda w: qp.Snapshot(),
    "S:tagA": lambda w: qp.Snapshot("tagA"),
    "S:expvalZ0": lambda w: qp.Snapshot(measurement=qp.expval(qp.PauliZ(w(0)))),
    "S:tagB:probs": lambda w: qp.Snapshot("tagB", measurement=qp.probs(wires=[w(1), w(0)])),
    "S:expvalX1Y0": lambda w: qp.Snapshot("xy", measurement=qp.expval(qp.PauliX(w(1)) @ qp.PauliY(w(0)))),
    "S:dm1": lambda w: qp.Snapshot("dm", measurement=qp.density_matrix(wires=[w(1)])),
}
GATES = {
    "RX(a)0": lambda p, w: qp.RX(p[0], w(0)), "RY(b)1": lambda p, w: qp.RY(p[1], w(1)), "CNOT01": lambda p, w: qp.CNOT([w(0), w(1)]), "H0": lambda p, w: qp.Hadamard(w(0)),
    "CRZ(g)10": lambda p, w: qp.CRZ(p[2], [w(1), w(0)]), "RZ(g)1": lambda p, w: qp.RZ(p[2], w(1)), "X1": lambda p, w: qp.PauliX(w(1)), "IsingXY(a)01": lambda p, w: qp.IsingXY(p[0], [w(0), w(1)]),
    "RY(g)2": lambda p, w: qp.RY(p[2], w(2)), "CNOT12": lambda p, w: qp.CNOT([w(1), w(2)]), "S0": lambda p, w: qp.S(w(0)),
}
# wire labelings: logical index -> label.  Non-contiguous / non-integer labels make map_to_standard_wires (and with it
# Snapshot.map_wires) do real work in the device routes.
LABELS = {"": lambda i: i, " @wires(1,2,4)": lambda i: (1, 2, 4)[i], " @wires(b,a,c)": lambda i: ("b", "a", "c")[i]}
CIRCUITS = {
    "snap first/middle/last": ["S", "RX(a)0", "RY(b)1", "S:tagA", "CNOT01", "S"],
    "consecutive snapshots": ["H0", "RY(b)1", "S", "S:expvalZ0", "CRZ(g)10", "S:tagB:probs", "RX(a)0"],
    "expval and probs snapshots": ["RX(a)0", "RY(b)1", "S:expvalX1Y0", "CNOT01", "S:tagB:probs", "RZ(g)1", "S:expvalZ0"],
    "density matrix snapshot": ["RX(a)0", "RY(b)1", "CNOT01", "S:dm1", "X1", "S:dm1x"],
    "three wires, late wire": ["RX(a)0", "S", "RY(b)1", "CNOT01", "S:tagA", "RY(g)2", "CNOT12", "S"],
    "snapshot before any gate on wire 1": ["H0", "S:tagB:probs", "IsingXY(a)01", "S0", "S:expvalX1Y0"],
    "only snapshots at the end": ["RX(a)0", "CNOT01", "RY(b)1", "S:tagA", "S"],
}
SNAPS["S:dm1x"] = lambda w: qp.Snapshot("dm after X", measurement=qp.density_matrix(wires=[w(1)]))
FINALS = {
    "expval Z0, probs[1]": lambda w: [qp.expval(qp.PauliZ(w(0))), qp.probs(wires=[w(1)])],
    "expval X0@Z1": lambda w: [qp.expval(qp.PauliX(w(0)) @ qp.PauliZ(w(1)))],
}


def split_name(cname):
    for lab in LABELS:
        if lab and cname.endswith(lab):
            return cname[: -len(lab)], LABELS[lab]
    return cname, LABELS[""]


def build(cname, p):
    base, w = split_name(cname)
    return [SNAPS[k](w) if k.startswith("S") and k in SNAPS else GATES[k](p, w) for k in CIRCUITS[base]]


def finals(cname, fname):
    return FINALS[fname](split_name(cname)[1])


def oracle_dm(psi, wires, W):
    """reduced density matrix of |psi> on `wires` (order respected) by explicit index contraction"""
    n = len(W)
    pos = [W.index(w) for w in wires]
    rest = [q for q in range(n) if q not in pos]
    d = 2 ** len(pos)
    rho = np.zeros((d, d), dtype=object)
    conj = [x.conjugate() if isinstance(x, sx.SymC) else np.conj(x) for x in psi]
    for i in range(2 ** n):
        bi = [(i >> (n - 1 - q)) & 1 for q in range(n)]
        for j in range(2 ** n):
            bj = [(j >> (n - 1 - q)) & 1 for q in range(n)]
            if any(bi[q] != bj[q] for q in rest):
                continue
            r = sum(bi[q] << (len(pos) - 1 - t) for t, q in enumerate(pos))
            c = sum(bj[q] << (len(pos) - 1 - t) for t, q in enumerate(pos))
            rho[r, c] = rho[r, c] + psi[i] * conj[j]
    return rho


def oracle_value(prefix_ops, mp, W):
    psi = simx.oracle_state(prefix_ops, W)
    if type(mp).__name__ == "DensityMatrixMP":
        return oracle_dm(psi, list(mp.wires), W)
    return simx.oracle_measure(psi, mp, W)


def expected_snapshots(ops, W_of):
    """[(tag, prefix ops, measurement)] in program order; W_of(prefix, mp) gives the wire order of the comparison"""
    out, prefix, n = [], [], 0
    for op in ops:
        if isinstance(op, qp.Snapshot):
            out.append((op.tag if op.tag is not None else n, list(prefix), op.hyperparameters["measurement"]))
            n += 1
        else:
            prefix.append(op)
    return out, prefix


def _flat(x):
    return [v for v in sx.arr(np.asarray(x, dtype=object)).ravel()]


def _num(cname, fname, params, route):
    ops = build(cname, list(params))
    tape = qp.tape.QuantumScript(ops, finals(cname, fname))
    exp, gates_only = expected_snapshots(ops, None)
    dev = qp.device("default.qubit")
    clean = qp.tape.QuantumScript(gates_only, finals(cname, fname))
    ref_final = dev.execute(clean)
    worst, where = 0.0, None
    if route == "transform":
        tapes, fn = qp.snapshots(tape)
        got = fn(tuple(dev.execute(t) for t in tapes))
        wire_orders = [list(t.wires) for t in tapes]
    else:
        from pennylane.debugging.snapshot import _SnapshotDebugger

        if route == "default.mixed debugger":
            from pennylane.devices.qubit_mixed.simulate import get_final_state, measure_final_state
        else:
            from pennylane.devices.qubit import get_final_state, measure_final_state

        with _SnapshotDebugger(dev) as dbg:
            t2 = tape.map_to_standard_wires()
            st, b = get_final_state(t2, debugger=dbg)
            fin = measure_final_state(t2, st, b)
        got = dict(dbg.snapshots)
        got["execution_results"] = fin
        wire_orders = [list(tape.wires)] * (len(exp) + 1)
    keys = list(got.keys())
    want_keys = [t for t, _, _ in exp] + ["execution_results"]
    if keys != want_keys:
        return True, f"snapshots({route}) on {cname}: tags {keys}, expected {want_keys}"
    for (tag, prefix, mp), W in zip(exp, wire_orders):
        if mp.wires and any(w not in W for w in mp.wires):
            W = W + [w for w in mp.wires if w not in W]
        sub = qp.tape.QuantumScript(prefix + [qp.Identity(w) for w in W], [mp])
        r = qp.device("default.qubit", wires=W).execute(sub)
        if route == "default.mixed debugger" and type(mp).__name__ == "StateMP":
            r = np.outer(r, np.conj(r))
        d = float(np.max(np.abs(np.asarray(got[tag], dtype=complex).ravel() - np.asarray(r, dtype=complex).ravel()))) if np.size(got[tag]) == np.size(r) else 9.9
        if d > worst:
            worst, where = d, tag
    fin = got["execution_results"]
    fin = fin if isinstance(fin, tuple) else (fin,)
    ref_final = ref_final if isinstance(ref_final, tuple) else (ref_final,)
    for g, r in zip(fin, ref_final):
        d = float(np.max(np.abs(np.asarray(g, dtype=complex).ravel() - np.asarray(r, dtype=complex).ravel())))
        if d > worst:
            worst, where = d, "execution_results"
    return worst > 1e-7, f"snapshots({route}) on {cname} [{fname}] at {list(params)}: max deviation {worst:.3g} under tag {where!r}"


def replay(p):
    if p.get("kind") == "wrapper":
        pr = wrapper_problem()
        return bool(pr), pr or "agree"
    return _num(p["circuit"], p["final"], p["params"], p["route"])


def work(item):
    cname, fname, route = item
    name = f"snapshots via {route} on {cname} [{fname}]"

    def b(S):
        ps = [S.param(x) for x in PN]
        ops = build(cname, ps)
        tape = qp.tape.QuantumScript(ops, finals(cname, fname))
        exp, gates_only = expected_snapshots(ops, None)
        if route == "transform":
            tapes, fn = qp.snapshots(tape)
            results = []
            for t in tapes:
                _, res = simx.run_tape(t)
                results.append(res if len(t.measurements) > 1 else res[0])
            got = fn(tuple(results))
            worders = [list(t.wires) for t in tapes]
        else:
            from pennylane.debugging.snapshot import _SnapshotDebugger
            from pennylane.devices.qubit import get_final_state, measure_final_state

            sx.install_shims()
            dev = qp.device("default.qubit")
            if route == "default.mixed debugger":
                import importlib

                MIX = importlib.import_module("pennylane.devices.qubit_mixed.simulate")
                orig = MIX.create_initial_state
                MIX.create_initial_state = lambda *a, **k: np.asarray(orig(*a, **k)).astype(object)
                try:
                    with _SnapshotDebugger(dev) as dbg:
                        t2 = tape.map_to_standard_wires()
                        st, bt = MIX.get_final_state(t2, debugger=dbg)
                        fin = MIX.measure_final_state(t2, st, bt)
                finally:
                    MIX.create_initial_state = orig
            else:
                with _SnapshotDebugger(dev) as dbg:
                    t2 = tape.map_to_standard_wires()
                    st, bt = get_final_state(t2, debugger=dbg)
                    fin = measure_final_state(t2, st, bt)
            got = dict(dbg.snapshots)
            got["execution_results"] = fin
            worders = [list(tape.wires)] * (len(exp) + 1)
        return tape, exp, gates_only, got, worders

    def consume(S, v, i):
        tape, exp, gates_only, got, worders = v

        def rp(model):
            p = [model["params"].get(x, 0.0) for x in PN]
            ok, obs = _num(cname, fname, p, route)
            return ok, {"circuit": cname, "final": fname, "params": p, "route": route, "observed": obs}

        sig = f"{route}:{cname}"
        keys = list(got.keys())
        want = [t for t, _, _ in exp] + ["execution_results"]
        if keys != want:
            ok, obs = _num(cname, fname, [0.3, -0.8, 1.9], route)
            return [{"name": f"{name}: one entry per snapshot, keyed by its tag (or its index), plus execution_results", "status": "violated" if ok else "inconclusive", "symbols": PN, "nontrivial": True,
                     "queries": 0, "signature": sig, "detail": f"keys {keys}, expected {want}; {obs}", "replay": {"circuit": cname, "final": fname, "params": [0.3, -0.8, 1.9], "route": route, "observed": obs}}]
        out = []
        for (tag, prefix, mp), W in zip(exp, worders):
            W = list(W) + [w for w in mp.wires if w not in W]
            expv = oracle_value(prefix, mp, W) if W else np.array([1], dtype=object)  # the state of zero wires is the scalar 1
            if route == "default.mixed debugger" and type(mp).__name__ == "StateMP":
                v = _flat(expv)
                expv = np.outer(np.array(v, dtype=object), np.array([x.conjugate() if isinstance(x, sx.SymC) else np.conj(x) for x in v], dtype=object))
            lhs, rhs = _flat(got[tag]), _flat(expv)
            if len(lhs) != len(rhs):
                ok, obs = _num(cname, fname, [0.3, -0.8, 1.9], route)
                out.append({"name": f"{name}: snapshot {tag!r} has the shape of its measurement", "status": "violated" if ok else "inconclusive", "symbols": PN, "nontrivial": True, "queries": 0, "signature": sig,
                            "detail": f"{len(lhs)} entries, expected {len(rhs)}; {obs}", "replay": {"circuit": cname, "final": fname, "params": [0.3, -0.8, 1.9], "route": route, "observed": obs}})
                continue
            out.append(obl.prove(S, f"{name} (path {i}): snapshot {tag!r} == {type(mp).__name__} of the {len(prefix)}-gate prefix", lhs, rhs, replay=rp, signature=sig, timeout=90))
        fin = got["execution_results"]
        fin = fin if isinstance(fin, tuple) else (fin,)
        Wf = list(tape.wires)
        psi = simx.oracle_state(gates_only, Wf)
        for k, (g, mp) in enumerate(zip(fin, tape.measurements)):
            out.append(obl.prove(S, f"{name} (path {i}): final result {k} unchanged by the snapshots", _flat(g), _flat(simx.oracle_measure(psi, mp, Wf)), replay=rp, signature=sig, timeout=90))
        return out

    try:
        return obl.run_instance(name, b, consume)
    except (TypeError, AttributeError, IndexError, KeyError, ValueError) as e:
        import traceback

        tb = traceback.format_exc(limit=6)[-600:]
        try:
            ok, obs = _num(cname, fname, [0.3, -0.8, 1.9], route)
        except Exception as e2:
            return [{"name": name + ": executes", "status": "violated", "symbols": PN, "nontrivial": True, "queries": 0, "signature": f"{route}:{cname}:raises",
                     "detail": f"the library raised {e2!r} on plain float parameters", "replay": {"circuit": cname, "final": fname, "params": [0.3, -0.8, 1.9], "route": route, "observed": repr(e2)}}]
        return [{"name": name, "status": "unsupported", "detail": f"{e!r} {tb}"}]


def wrapper_problem():
    """qp.snapshots(qnode): the SAME wrapper called repeatedly must behave like a fresh wrapper on every call (results of one call are
    not altered by the next, no tag survives from an earlier call, values are those of the current arguments)"""
    dev = qp.device("default.qubit")

    @qp.qnode(dev)
    def circ(a, b):
        qp.RX(a, 0)
        qp.Snapshot("s0")
        if a > 1:
            qp.Snapshot("only for large a", measurement=qp.probs(wires=[0]))
        qp.CNOT([0, 1])
        qp.RY(b, 1)
        qp.Snapshot("s1", measurement=qp.expval(qp.Z(1)))
        return qp.expval(qp.Z(0) @ qp.Z(1))

    def same(x, y):
        return np.shape(x) == np.shape(y) and bool(np.allclose(np.asarray(x, dtype=complex), np.asarray(y, dtype=complex), atol=1e-9))

    f = qp.snapshots(circ)
    calls = [(1.3, 0.7), (0.3, -0.4), (1.3, 0.7), (2.1, 0.2)]
    kept = []
    for k, args in enumerate(calls):
        r = f(*args)
        fresh = qp.snapshots(circ)(*args)
        if list(r) != list(fresh):
            return f"call {k + 1} of the same qp.snapshots(qnode) wrapper with arguments {args}: tags {list(r)}, a fresh wrapper gives {list(fresh)}"
        for tag in fresh:
            if not same(r[tag], fresh[tag]):
                return f"call {k + 1} of the same qp.snapshots(qnode) wrapper with arguments {args}: snapshot {tag!r} = {r[tag]}, a fresh wrapper gives {fresh[tag]}"
        for (k0, args0, r0, copy0) in kept:
            if list(r0) != list(copy0) or any(not same(r0[t], copy0[t]) for t in copy0):
                return f"the result returned by call {k0 + 1} ({args0}) was altered by call {k + 1} ({args})"
        kept.append((k, args, r, {t: np.array(v, copy=True) for t, v in r.items()}))
    return None


def wrapper_work(_):
    try:
        pr = wrapper_problem()
    except Exception as e:  # noqa: BLE001
        pr = f"raised {e!r}"
    rec = {"name": "qp.snapshots(qnode): one wrapper called four times (tags depending on the arguments) behaves like a fresh wrapper each time", "status": "violated" if pr else "discharged", "symbols": [], "nontrivial": False,
           "queries": 0, "detail": pr or "agree"}
    if pr:
        rec.update(signature="qnode-wrapper", replay={"kind": "wrapper", "observed": pr})
    return [rec]


def _dispatch(it):
    return wrapper_work(it) if it[0] == "qnode-wrapper" else work(it)


def run(ctx):
    ctx.level = "proof"
    items = [(c, f, r) for c in CIRCUITS for f in FINALS for r in ("transform", "device debugger", "default.mixed debugger")]
    for lab in LABELS:
        if lab:
            for c in ("expval and probs snapshots", "density matrix snapshot", "snapshot before any gate on wire 1", "three wires, late wire"):
                items += [(c + lab, "expval Z0, probs[1]", r) for r in ("transform", "device debugger", "default.mixed debugger")]
    items.append(("qnode-wrapper", "-", "repeated calls"))
    if ctx.only:
        items = [it for it in items if ctx.only in f"snapshots via {it[2]} on {it[0]} [{it[1]}]"]
    ctx.shapes = len(items)
    from pennylane.devices.qubit import get_final_state, measure_final_state
    from pennylane.devices.qubit.apply_operation import apply_snapshot

    ctx.encode(qp.snapshots, apply_snapshot, get_final_state, measure_final_state)
    ctx.bound(parameters="all real gate angles (3 symbols)", circuits=list(CIRCUITS), wire_labelings=["0,1,2", "1,2,4 (non-contiguous)", "b,a,c (strings)"], snapshot_kinds=list(SNAPS), routes=["qp.snapshots tape transform + lifted default.qubit", "default.qubit with an active snapshot debugger", "default.mixed with an active snapshot debugger"],
              qnode_wrapper="one structural obligation: repeated calls of the same qp.snapshots(qnode) wrapper (concrete arguments, no solver)",
              outside="snapshots with shots (sampling), default.gaussian / legacy devices, duplicate string tags")
    ctx.assume(*sx.SHIM_NOTES, "prefix tapes of the transform are compared in the wire order of the generated tape (the transform keeps only the wires used so far)")
    ctx.rule = "one obligation per (circuit, final measurements, route, snapshot or final result); non-trivial = mentions a symbolic angle"
    ctx.pmap(_dispatch, items, timeout_each=900)
