"""C06 Copies, pytrees and rebinding reproduce operators (E1, partial: symbolic parameters).

For the operator builders of C04 (parametrised gates, controlled / adjoint / power wrappers, scalar products, products, sums, linear
combinations) with SYMBOLIC parameters p = (a, b, c) and the rotated parameters p' = (b, c, a):
    rebinding   X' = bind_new_parameters(builder(p), builder(p').parameters)  has  parameters exactly those of builder(p') (term by
                term), the wires / name / hyperparameter keys / control values of builder(p), and z3 proves
                matrix(X') == matrix(builder(p')) for all parameter values; builder(p) itself is not altered (its matrix is unchanged),
    copies      copy.copy, copy.deepcopy and the PennyLane pytree round trip (flatten / unflatten, and
                pennylane.pytrees.flatten / unflatten) give operators with the same matrix for all parameter values, the same wires,
                and - for deepcopy - no shared parameter containers (structural).
Measurement processes expval / var of the Hermitian builders: same claims through their observables.
Outside: pickle (C-level (un)pickling of solver terms), JAX pytrees and capture primitives (JAX tracing), batched parameters.
"""
from __future__ import annotations

import copy

import numpy as np
import pennylane as qp
from pennylane.ops.functions import bind_new_parameters

from vf import symx as sx, obl
from checks import c04

PN = c04.PN
W3 = c04.W3
SKIP = {"pow(RX(a,0),b)"}  # symbolic exponent: float() of a solver term inside Pow.matrix
HERMITIAN = ["a*X(0)", "a*X(0)+b*Z(1)", "LC([a,b],[X0,Z1])"]


def mat(op, symbolic):
    M = qp.matrix(op, wire_order=W3)
    return sx.arr(M) if symbolic else np.asarray(M, dtype=complex)


def rot(p):
    return [p[1], p[2], p[0]]


def pytree_roundtrip(op):
    from pennylane import pytrees

    leaves, struct = pytrees.flatten(op)
    return pytrees.unflatten(leaves, struct)


VARIANTS = {
    "copy.copy": copy.copy, "copy.deepcopy": copy.deepcopy, "_flatten / _unflatten": lambda op: type(op)._unflatten(*op._flatten()), "pytrees.flatten / unflatten": pytree_roundtrip,
}


def same_poly(x, y):
    xs = sx.arr(np.asarray(x, dtype=object)).ravel()
    ys = sx.arr(np.asarray(y, dtype=object)).ravel()
    if len(xs) != len(ys):
        return False
    return all(not sx.P.sub(u.p, v.p) for u, v in zip(xs, ys))


def structural_problem(X, Xn, what):
    if list(X.wires) != list(Xn.wires):
        return f"{what}: wires {list(Xn.wires)} instead of {list(X.wires)}"
    if type(X) is not type(Xn) or X.name != Xn.name:
        return f"{what}: type / name changed ({type(Xn).__name__} {Xn.name})"
    if sorted(map(str, X.hyperparameters)) != sorted(map(str, Xn.hyperparameters)):
        return f"{what}: hyperparameter keys changed"
    cv = lambda o: None if getattr(o, "control_values", None) is None else [bool(v) for v in o.control_values]  # noqa: E731
    if cv(X) != cv(Xn):
        return f"{what}: control values changed"
    return None


def _num(name, what, params, mp=None):
    p = [float(v) for v in params]
    wrap = (lambda o: o) if mp is None else c04.MPS[mp]
    unwrap = (lambda o: o) if mp is None else (lambda m: m.obs)
    X = wrap(c04.OPS[name](p))
    M0 = mat(unwrap(X), False)
    try:
        if what == "rebinding":
            Y = wrap(c04.OPS[name](rot(p)))
            Xn = bind_new_parameters(X, unwrap(Y).parameters if mp is None else Y.obs.parameters) if mp is None else None
            if mp is not None:
                return False, "not applicable"
            d = float(np.max(np.abs(mat(Xn, False) - mat(Y, False))))
            d0 = float(np.max(np.abs(mat(X, False) - M0)))
            pr = structural_problem(X, Xn, "bind_new_parameters")
            same = len(Xn.parameters) == len(Y.parameters) and all(np.allclose(u, v) for u, v in zip(Xn.parameters, Y.parameters))
            bad = d > 1e-9 or d0 > 1e-12 or bool(pr) or not same
            return bad, f"bind_new_parameters({name} at {dict(zip(PN, p))}, parameters of the builder at {rot(p)}): matrix differs from the builder's by {d:.3g}, original changed by {d0:.3g}, parameters identical: {same}, structure: {pr or 'unchanged'}"
        Xn = VARIANTS[what](X)
        d = float(np.max(np.abs(mat(unwrap(Xn), False) - M0)))
        pr = structural_problem(unwrap(X), unwrap(Xn), what)
        return (d > 1e-9 or bool(pr)), f"{what} of {name if mp is None else mp + '(' + name + ')'} at {dict(zip(PN, p))}: matrix differs by {d:.3g}, structure: {pr or 'unchanged'}"
    except Exception as e:  # noqa: BLE001
        return True, f"{what} of {name}: raised {e!r}"


def replay(pl):
    return _num(pl["op"], pl["what"], pl["params"], pl.get("mp"))


def work(item):
    name, what, mp = item
    label = f"{what} of {name if mp is None else mp + '(' + name + ')'}"
    sx.install_shims()
    wrap = (lambda o: o) if mp is None else c04.MPS[mp]
    unwrap = (lambda o: o) if mp is None else (lambda m: m.obs)

    def b(S):
        p = [S.param(x) for x in PN]
        X = wrap(c04.OPS[name](p))
        M0 = mat(unwrap(X), True)
        if what == "rebinding":
            Y = c04.OPS[name](rot(p))
            MY = mat(Y, True)
            Xn = bind_new_parameters(X, Y.parameters)
            return dict(M0=M0, M0_after=mat(X, True), Mn=mat(Xn, True), MY=MY, params_ok=len(Xn.parameters) == len(Y.parameters) and all(same_poly(u, v) for u, v in zip(Xn.parameters, Y.parameters)),
                        structure=structural_problem(X, Xn, "bind_new_parameters"))
        Xn = VARIANTS[what](X)
        shared = None
        if what == "copy.deepcopy":
            base, cp = unwrap(X), unwrap(Xn)
            if any(u is v for u, v in zip(getattr(base, "data", ()), getattr(cp, "data", ())) if isinstance(u, np.ndarray)):
                shared = "parameter arrays are shared with the original"
        return dict(M0=M0, Mn=mat(unwrap(Xn), True), structure=structural_problem(unwrap(X), unwrap(Xn), what) or shared)

    def consume(S, v, i):
        def rp(model):
            params = [model["params"].get(x, 0.0) for x in PN]
            ok, obs = _num(name, what, params, mp)
            return ok, {"op": name, "what": what, "mp": mp, "params": params, "observed": obs}

        out = []
        st = v["structure"]
        rec = {"name": f"{label} (path {i}): wires, type, hyperparameter keys and control values unchanged" + ("; no shared parameter containers" if what == "copy.deepcopy" else ""), "status": "discharged" if not st else "violated",
               "symbols": PN, "nontrivial": True, "queries": 1, "detail": st or "unchanged"}
        if st:
            ok, obs = _num(name, what, [0.3, -0.8, 1.9], mp)
            rec.update(signature=f"{what}:{name}:structure", replay={"op": name, "what": what, "mp": mp, "params": [0.3, -0.8, 1.9], "observed": obs})
        out.append(rec)
        if what == "rebinding":
            ok_p = v["params_ok"]
            rec = {"name": f"{label} (path {i}): the new operator's parameters are exactly the new ones (term by term)", "status": "discharged" if ok_p else "violated", "symbols": PN, "nontrivial": True, "queries": 1,
                   "detail": "identical polynomials" if ok_p else "parameters differ from the ones passed in"}
            if not ok_p:
                ok, obs = _num(name, what, [0.3, -0.8, 1.9], mp)
                rec.update(signature=f"{what}:{name}:parameters", replay={"op": name, "what": what, "mp": mp, "params": [0.3, -0.8, 1.9], "observed": obs})
            out.append(rec)
            out.append(obl.prove(S, f"{label} (path {i}): matrix == matrix of the builder at the new parameters, for all values", v["Mn"], v["MY"], replay=rp, signature=f"{what}:{name}", timeout=60, over=list(v["MY"].ravel())))
            out.append(obl.prove(S, f"{label} (path {i}): the original operator is unchanged", v["M0_after"], v["M0"], replay=rp, signature=f"{what}:{name}:original", timeout=60, over=list(v["M0"].ravel())))
        else:
            out.append(obl.prove(S, f"{label} (path {i}): same matrix for all parameter values", v["Mn"], v["M0"], replay=rp, signature=f"{what}:{name}", timeout=60, over=list(v["M0"].ravel())))
        return out

    try:
        return obl.run_instance(label, b, consume, max_paths=16)
    except (TypeError, AttributeError, IndexError, KeyError, ValueError, NotImplementedError) as e:
        import traceback

        tb = traceback.format_exc(limit=6)[-500:]
        ok, obs = _num(name, what, [0.3, -0.8, 1.9], mp)
        if ok:
            return [{"name": label, "status": "violated", "symbols": PN, "nontrivial": True, "queries": 1, "signature": f"{what}:{name}", "detail": obs, "replay": {"op": name, "what": what, "mp": mp, "params": [0.3, -0.8, 1.9], "observed": obs}}]
        return [{"name": label, "status": "unsupported", "detail": f"{e!r} {tb}"}]


def run(ctx):
    ctx.level = "other"
    names = [n for n in c04.OPS if n not in SKIP]
    items = [(n, "rebinding", None) for n in names] + [(n, w, None) for n in names for w in VARIANTS]
    items += [(n, w, m) for n in HERMITIAN for w in VARIANTS for m in c04.MPS]
    if ctx.only:
        items = [it for it in items if ctx.only in str(it)]
    ctx.shapes = len(items)
    ctx.encode(bind_new_parameters, qp.pytrees.flatten, qp.pytrees.unflatten)
    ctx.bound(parameters="all real values of 3 symbols", operators=names, rebinding="parameters of the same builder at the rotated symbols (b, c, a)", copies=list(VARIANTS), measurement_processes=[f"{m}({n})" for n in HERMITIAN for m in c04.MPS],
              outside="pickle, JAX pytrees, capture primitives, batched parameters, operators outside the listed builders")
    ctx.assume(*sx.SHIM_NOTES[:3])
    ctx.rule = "per (operator, operation, path): structural obligations on the explored path and z3 matrix identities over all parameter values"
    ctx.pmap(work, items, timeout_each=600)
