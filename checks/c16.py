"""C16 Exact ring arithmetic behind gridsynth is lawful.

Part A (vf.symbit, z3 nonlinear integer arithmetic, UNBOUNDED coefficients): the real ZSqrtTwo / ZOmega methods run on
z3 integers (module-level `int` and `math.isqrt` are shimmed so that int(x) keeps symbols symbolic and isqrt is
introduced by its exact specification r>=0, r*r <= x < (r+1)^2).  Each ring law is a polynomial identity between the
coefficient tuples of both sides, proved for all integers.
Part B (CrossHair, bounded): DyadicMatrix / SO3Matrix laws against exact rational-complex semantics, `%` congruence,
sqrt(), the primality test against trial division, solutions of the norm equation.
"""
from __future__ import annotations

import importlib
import math

import z3

from vf import symbit as sb, chrun
from vf.common import DISCHARGED, VIOLATED, INCONCLUSIVE, HARNESS_ERROR

RI = importlib.import_module("pennylane.ops.op_math.decompositions.rings")
NS = importlib.import_module("pennylane.ops.op_math.decompositions.norm_solver")
ZSqrtTwo, ZOmega = RI.ZSqrtTwo, RI.ZOmega


class _MathShim:
    def __init__(self):
        self._S = None

    def __getattr__(self, k):
        return getattr(math, k)

    def isqrt(self, x):
        if isinstance(x, sb.SInt):
            S = x.S
            S._isqrt_n = getattr(S, "_isqrt_n", 0) + 1
            r = S.int(f"isqrt{S._isqrt_n}", 0)
            S.assume(z3.And(r.z * r.z <= x.z, x.z < (r.z + 1) * (r.z + 1)))
            return r
        return math.isqrt(x)


def install_shims():
    RI.int = sb.int_shim
    RI.math = _MathShim()


def zs(S, n):
    return ZSqrtTwo(S.int(n + "_a"), S.int(n + "_b"))


def zo(S, n):
    return ZOmega(S.int(n + "_a"), S.int(n + "_b"), S.int(n + "_c"), S.int(n + "_d"))


def flat(x):
    if isinstance(x, (ZSqrtTwo, ZOmega)):
        return list(x.flatten)
    if isinstance(x, (list, tuple)):
        out = []
        for e in x:
            out += flat(e)
        return out
    return [x]


def eqz(l, r):
    fl, fr = flat(l), flat(r)
    if len(fl) != len(fr):
        return z3.BoolVal(False)
    return sb.zand([sb.zi(a) == sb.zi(b) for a, b in zip(fl, fr)])


# law name -> (ring constructor, number of elements, fn(elements, k) -> (lhs, rhs))   k: a symbolic plain integer
def _laws():
    L = {}
    for rn, mk, one, zero in (("ZSqrtTwo", zs, lambda: ZSqrtTwo(1, 0), lambda: ZSqrtTwo(0, 0)), ("ZOmega", zo, lambda: ZOmega(0, 0, 0, 1), lambda: ZOmega())):
        L[f"{rn}: x+y == y+x"] = (mk, 2, lambda e, k: (e[0] + e[1], e[1] + e[0]))
        L[f"{rn}: (x+y)+z == x+(y+z)"] = (mk, 3, lambda e, k: ((e[0] + e[1]) + e[2], e[0] + (e[1] + e[2])))
        L[f"{rn}: x*y == y*x"] = (mk, 2, lambda e, k: (e[0] * e[1], e[1] * e[0]))
        L[f"{rn}: (x*y)*z == x*(y*z)"] = (mk, 3, lambda e, k: ((e[0] * e[1]) * e[2], e[0] * (e[1] * e[2])))
        L[f"{rn}: x*(y+z) == x*y + x*z"] = (mk, 3, lambda e, k: (e[0] * (e[1] + e[2]), e[0] * e[1] + e[0] * e[2]))
        L[f"{rn}: x*1 == x, x+0 == x, 1*x == x"] = (mk, 1, lambda e, k, one=one, zero=zero: ([e[0] * one(), e[0] + zero(), one() * e[0]], [e[0], e[0], e[0]]))
        L[f"{rn}: x + (-x) == 0, x - y == x + (-y), -(-x) == x"] = (mk, 2, lambda e, k, zero=zero: ([e[0] + (-e[0]), e[0] - e[1], -(-e[0])], [zero(), e[0] + (-e[1]), e[0]]))
        L[f"{rn}: integer scalars  k*x == x*k == sum, x+k, k-x"] = (mk, 1, lambda e, k, one=one: ([k * e[0], e[0] * k, e[0] + k, k - e[0], k + e[0]],
                                                                                                   [e[0] * (one() * k), e[0] * (one() * k), e[0] + one() * k, one() * k + (-e[0]), one() * k + e[0]]))
        L[f"{rn}: conj is an involutive ring automorphism"] = (mk, 2, lambda e, k: ([e[0].conj().conj(), (e[0] * e[1]).conj(), (e[0] + e[1]).conj()],
                                                                                    [e[0], e[0].conj() * e[1].conj(), e[0].conj() + e[1].conj()]))
        L[f"{rn}: adj2 is an involutive ring automorphism"] = (mk, 2, lambda e, k: ([e[0].adj2().adj2(), (e[0] * e[1]).adj2(), (e[0] + e[1]).adj2()],
                                                                                    [e[0], e[0].adj2() * e[1].adj2(), e[0].adj2() + e[1].adj2()]))
        L[f"{rn}: norm multiplicative  abs(x*y) == abs(x)*abs(y)"] = (mk, 2, lambda e, k: (abs(e[0] * e[1]), abs(e[0]) * abs(e[1])))
        L[f"{rn}: x**0, x**1, x**2, x**3 by repeated multiplication"] = (mk, 1, lambda e, k, one=one: ([e[0] ** 0, e[0] ** 1, e[0] ** 2, e[0] ** 3], [one(), e[0], e[0] * e[0], e[0] * e[0] * e[0]]))
        L[f"{rn}: (x*k)//k == x for k != 0 (exact division by an integer)"] = (mk, 1, lambda e, k: ((e[0] * k) // k, e[0]))
    L["ZSqrtTwo: abs(x) == x * adj2(x)  (norm a^2 - 2b^2)"] = (zs, 1, lambda e, k: ([abs(e[0]), 0], (e[0] * e[0].adj2())))
    L["ZSqrtTwo: to_omega is a ring homomorphism commuting with conj/adj2"] = (zs, 2, lambda e, k: (
        [(e[0] * e[1]).to_omega(), (e[0] + e[1]).to_omega(), e[0].adj2().to_omega(), e[0].conj().to_omega(), e[0].to_omega().to_sqrt_two()],
        [e[0].to_omega() * e[1].to_omega(), e[0].to_omega() + e[1].to_omega(), e[0].to_omega().adj2(), e[0].to_omega().conj(), e[0]]))
    L["ZSqrtTwo: (x*y)/y == x for abs(y) != 0 (exact division)"] = (zs, 2, lambda e, k: ((e[0] * e[1]) / e[1], e[0]))
    L["ZOmega: norm() == x*conj(x) is self-conjugate and lies in Z[sqrt2] (a+c == 0, b == 0)"] = (zo, 1, lambda e, k: (
        [e[0].norm(), e[0].norm().conj(), e[0].norm().a + e[0].norm().c, e[0].norm().b], [e[0] * e[0].conj(), e[0].norm(), 0, 0]))
    L["ZOmega: abs(x) == Z[sqrt2]-norm of x*conj(x):  with x*conj(x) = d + b'*sqrt2, abs(x) == d^2 - 2*b'^2"] = (zo, 1, lambda e, k: (
        [abs(e[0]), 2 * 0], [e[0].norm().d * e[0].norm().d - 2 * e[0].norm().c * e[0].norm().c, 0]))
    L["ZOmega: norm multiplicative  (x*y).norm() == x.norm()*y.norm()"] = (zo, 2, lambda e, k: ((e[0] * e[1]).norm(), e[0].norm() * e[1].norm()))
    L["ZOmega: omega^8 == 1, omega^4 == -1, omega*conj(omega) == 1"] = (zo, 1, lambda e, k: (
        [e[0] * ZOmega(c=1) ** 8, e[0] * ZOmega(c=1) ** 4, e[0] * (ZOmega(c=1) * ZOmega(c=1).conj())], [e[0], -e[0], e[0]]))
    L["ZOmega: from_sqrt_pair(alpha, beta, shift) == alpha + i*beta + shift"] = (zo, 1, lambda e, k: (
        ZOmega.from_sqrt_pair(ZSqrtTwo(k, e[0].a), ZSqrtTwo(e[0].b, e[0].c), e[0]),
        ZSqrtTwo(k, e[0].a).to_omega() + ZOmega(b=1) * ZSqrtTwo(e[0].b, e[0].c).to_omega() + e[0]))
    L["ZOmega: parity is additive mod 2"] = (zo, 2, lambda e, k: ((e[0] + e[1]).parity(), (e[0].parity() + e[1].parity()) % 2))
    return L


LAWS = None


def law_work(lname):
    install_shims()
    mk, n, fn = _laws()[lname]

    def build(S):
        es = [mk(S, "xyz"[i]) for i in range(n)]
        k = S.int("k")
        if "k != 0" in lname:
            S.assume(k.z != 0)
        if "abs(y) != 0" in lname:
            y = es[1]
            S.assume(y.a.z * y.a.z - 2 * y.b.z * y.b.z != 0)
        try:
            lhs, rhs = fn(es, k)
        except ZeroDivisionError:
            return None
        return lhs, rhs

    return _prove(lname, build, lambda S, v: [] if v is None else [("identity", eqz(v[0], v[1]))], {"kind": "law", "law": lname})


def eq_work(rn):
    """__eq__ decides equality of coefficient tuples (forking mode)"""
    install_shims()
    mk = zs if rn == "ZSqrtTwo" else zo
    name = f"{rn}: (x == y) is True exactly when all coefficients agree; x == k for integer k"

    def build(S):
        x, y = mk(S, "x"), mk(S, "y")
        k = S.int("k")
        return x, y, k, bool(x == y), bool(x == k)

    def claims(S, v):
        x, y, k, r1, r2 = v
        fx = flat(x)
        kk = [sb.zi(fx[0]) == sb.zi(k), sb.zi(fx[1]) == 0] if rn == "ZSqrtTwo" else [sb.zi(fx[0]) == 0, sb.zi(fx[1]) == 0, sb.zi(fx[2]) == 0, sb.zi(fx[3]) == sb.zi(k)]
        return [("== on ring elements", z3.BoolVal(r1) == eqz(x, y)), ("== on integers", z3.BoolVal(r2) == z3.And(*kk))]

    return _prove(name, build, claims, {"kind": "eq", "ring": rn})


def sqrt_work(_):
    install_shims()
    name = "ZSqrtTwo.sqrt(): a returned root squares to the element"

    def build(S):
        x = zs(S, "x")
        r = x.sqrt()
        return x, r

    def claims(S, v):
        x, r = v
        if r is None:
            return []
        return [("r*r == x", eqz(r * r, x))]

    return _prove(name, build, claims, {"kind": "sqrt"})


def normalize_work(_):
    install_shims()
    name = "ZOmega.normalize(): x == (sqrt2)^ix * res and res is not divisible by sqrt2 (|coeff| <= 6)"

    def build(S):
        x = zo(S, "x")
        for c in flat(x):
            S.assume(z3.And(c.z >= -6, c.z <= 6))
        S.assume(z3.Not(z3.And(*[c.z == 0 for c in flat(x)])))
        res, ix = x.normalize()
        return x, res, ix

    def claims(S, v):
        x, res, ix = v
        s2 = ZOmega(-1, 0, 1, 0)  # sqrt(2) = omega - omega^3
        back = res
        for _ in range(int(ix)):
            back = back * s2
        return [("x == sqrt2^ix * res", eqz(back, x)),
                ("res not divisible by sqrt2", z3.Not(z3.And((sb.zi(res.a) + sb.zi(res.c)) % 2 == 0, (sb.zi(res.b) + sb.zi(res.d)) % 2 == 0)))]

    return _prove(name, build, claims, {"kind": "normalize"}, max_paths=400)


def diophantine_tail_work(_):
    """_solve_diophantine with the factoring subroutines replaced by ARBITRARY ring elements (over-approximation): whatever
    the real tail returns must satisfy t^dagger t == xi."""
    install_shims()
    NS_int, NS_math = getattr(NS, "int", None), None
    name = "_solve_diophantine: any returned t satisfies conj(t)*t == xi (factoring subroutines stubbed by arbitrary ring elements)"

    def build(S):
        xi = zs(S, "xi")
        cnt = [0]

        def fresh_zs():
            cnt[0] += 1
            return zs(S, f"eta{cnt[0]}")

        def fresh_zo():
            cnt[0] += 1
            return zo(S, f"t{cnt[0]}")

        orig = (NS._prime_factorize, NS._factorize_prime_zsqrt_two, NS._factorize_prime_zomega)
        NS._prime_factorize = lambda p, max_trials=1000, z_sqrt_two=True: [S.int("p1", 2)]
        NS._factorize_prime_zsqrt_two = lambda p: [fresh_zs()]
        NS._factorize_prime_zomega = lambda x, p: fresh_zo()
        try:
            t = NS._solve_diophantine(xi)
        except (ZeroDivisionError, AttributeError, ValueError):
            t = "rejected"  # the real tail rejects/crashes on this (arbitrary) factorisation: no solution is returned, nothing to claim
        finally:
            NS._prime_factorize, NS._factorize_prime_zsqrt_two, NS._factorize_prime_zomega = orig
        return xi, t

    def claims(S, v):
        xi, t = v
        if t is None or isinstance(t, str):
            return []
        return [("conj(t)*t == xi", eqz(t.conj() * t, xi.to_omega()))]

    return _prove(name, build, claims, {"kind": "dioph"}, max_paths=400, timeout_ms=600000)


def _prove(name, build, claims, meta, max_paths=64, timeout_ms=30000):
    try:
        paths = sb.explore(build, max_paths=max_paths)
    except sb.PathLimit as e:
        return [{"name": name, "status": INCONCLUSIVE, "detail": str(e), "symbols": ["coefficients"]}]
    except (TypeError, AttributeError, ValueError) as e:
        import traceback

        return [{"name": name, "status": "unsupported", "detail": f"real code not executable on symbolic integers: {e!r} {traceback.format_exc(limit=3)[-300:]}"}]
    q, ts = 0, 0.0
    for S, v in paths:
        ts += S.solver_s
        for label, claim in claims(S, v):
            st, model, dt = S.prove(claim, timeout_ms=timeout_ms)
            q += 1
            ts += dt
            if st == "sat":
                vals = S.model_values(model)
                payload = dict(meta, values=vals, claim=label)
                ok, obs = replay(payload)
                payload["observed"] = obs
                if ok:
                    return [{"name": name, "status": VIOLATED, "signature": f"{meta['kind']}:{name}", "symbols": sorted(vals), "queries": q, "solver": "z3:sat",
                             "replay": payload, "detail": f"{label}: reproduces concretely: {obs}"}]
                return [{"name": name, "status": INCONCLUSIVE, "symbols": sorted(vals), "queries": q, "solver": "z3:sat",
                         "detail": f"{label}: model {vals} does not reproduce concretely ({obs})"}]
            if st != "unsat":
                return [{"name": name, "status": INCONCLUSIVE, "symbols": ["coefficients"], "queries": q, "detail": f"{label}: z3 unknown within {timeout_ms} ms"}]
    return [{"name": name, "status": DISCHARGED, "queries": q, "solver": "z3:unsat", "solver_s": round(ts, 3), "time_s": round(ts, 3),
             "symbols": ["all integer coefficients (unbounded)"], "detail": f"{len(paths)} path(s) of the real methods, {q} z3 queries (nonlinear integer identities), all unsat"}]


def replay(p):
    """re-evaluate with concrete python ints on the unshimmed classes"""
    if "contract" in p:
        return chrun.replay(p)
    RI.int, RI.math = int, math
    v = p["values"]

    class FakeS:
        def int(self, name, lo=None, hi=None):
            return v.get(name, 0)

        def assume(self, z):
            pass

    S = FakeS()
    kind = p["kind"]
    try:
        if kind == "law":
            mk, n, fn = _laws()[p["law"]]
            es = [mk(S, "xyz"[i]) for i in range(n)]
            lhs, rhs = fn(es, v.get("k", 0))
            fl, fr = flat(lhs), flat(rhs)
            return fl != fr, f"{p['law']} at {[flat(e) for e in es]}, k={v.get('k', 0)}: lhs={fl} rhs={fr}"
        if kind == "eq":
            mk = zs if p["ring"] == "ZSqrtTwo" else zo
            x, y = mk(S, "x"), mk(S, "y")
            k = v.get("k", 0)
            exp2 = flat(x) == ([k, 0] if p["ring"] == "ZSqrtTwo" else [0, 0, 0, k])
            return (bool(x == y) != (flat(x) == flat(y))) or (bool(x == k) != exp2), f"x={flat(x)} y={flat(y)} k={k}: x==y -> {x == y}, x==k -> {x == k}"
        if kind == "sqrt":
            x = zs(S, "x")
            r = x.sqrt()
            return (r is not None and flat(r * r) != flat(x)), f"sqrt({flat(x)}) = {None if r is None else flat(r)}"
        if kind == "normalize":
            x = zo(S, "x")
            res, ix = x.normalize()
            back = res
            for _ in range(ix):
                back = back * ZOmega(-1, 0, 1, 0)
            bad = flat(back) != flat(x) or ((res.a + res.c) % 2 == 0 and (res.b + res.d) % 2 == 0)
            return bad, f"normalize({flat(x)}) = ({flat(res)}, {ix})"
        if kind == "dioph":
            return False, "stubbed factorisation: a model of the over-approximation cannot be replayed on the real subroutines"
    finally:
        install_shims()
    raise KeyError(kind)


def _dispatch(item):
    k, a = item
    return {"law": law_work, "eq": eq_work, "sqrt": sqrt_work, "normalize": normalize_work, "dioph": diophantine_tail_work}[k](a)


def run(ctx):
    ctx.level = "other"
    install_shims()
    items = [("law", n) for n in _laws()] + [("eq", "ZSqrtTwo"), ("eq", "ZOmega"), ("sqrt", None), ("normalize", None)]
    # the tail of _solve_diophantine with its factoring subroutines stubbed by arbitrary ring elements ("dioph") was tried in the thorough tier
    # with budgets of 10 and 40 minutes: the path exploration does not finish - stated as outside (run it with --only dioph)
    if ctx.only and "dioph" in ctx.only:
        items.append(("dioph", None))
    if ctx.only and "dioph" not in ctx.only:
        items = [it for it in items if ctx.only in f"{it[0]}:{it[1]}"]
    elif ctx.only:
        items = [it for it in items if it[0] == "dioph"]
    ctx.shapes = len(items)
    ctx.encode(ZSqrtTwo, ZOmega, NS._solve_diophantine, NS._primality_test, RI.DyadicMatrix, RI.SO3Matrix)
    ctx.bound(ring_laws="ALL integer coefficients (z3 nonlinear integer arithmetic; no bound)", normalize="|coefficients| <= 6 (loop forks)",
              crosshair="bounds in the pre: lines of contracts/c16_rings.py",
              outside="float code paths (int(a/k), math.pow) for coefficients >= 2^53, __mod__ neighbour search (round of a float quotient), SO3Matrix beyond the bounded search")
    ctx.assume("shim: the names `int` and `math` in the rings module namespace are rebound so that int(x) keeps a symbolic integer symbolic and math.isqrt is introduced by its exact specification",
               "floor division / modulo follow Python semantics (encoded through z3's Euclidean div with a sign case split)",
               "_solve_diophantine: the three factoring subroutines are replaced by arbitrary ring elements (over-approximation); only the real tail is executed")
    ctx.trust("z3 5.1.0 (NIA)", "vf.symbit lifting (sat models replayed on Python ints)", "CrossHair 0.0.110 for the bounded contracts")
    ctx.rule = "one obligation per ring law / method contract; non-trivial = mentions symbolic coefficients"
    ctx.pmap(_dispatch, items, timeout_each=600 if ctx.tier == "quick" else 2400)
    if not ctx.only or "ch" in ctx.only:
        chrun.run_contracts(ctx, ["c16_rings.py"], timeout=120 if ctx.tier == "quick" else 600, only=None)
    ctx.extra["contract_bounds"] = {r["name"]: r.get("bounds") for r in ctx.records if r.get("bounds")}
