"""C49 Quantum-information functions match their definitions (E1, algebraic part).

The REAL qp.math functions run on state vectors and density matrices whose ENTRIES ARE SYMBOLIC (arbitrary complex vectors /
arbitrary Hermitian matrices; the identities below are polynomial, so no normalisation is needed) and z3 proves, for all
entries, equality with an explicit index contraction written here:
  reduce_dm / partial_trace / reduce_statevector / dm_from_state_vector (all index subsets and orders of 2- and 3-qubit
  systems, with and without a batch dimension), purity == tr(rho_A^2), fidelity_statevector == |<psi|phi>|^2 and symmetric,
  expectation_value == <psi|O|psi>, marginal_prob == explicit sums, expand_matrix / expand_vector == explicit tensor
  re-indexing for every wire subset / order into a 3-wire order.
Functions defined through eigen-decompositions or matrix square roots / logarithms (fidelity of mixed states, trace_distance,
vn_entropy, mutual_info, relative_entropy, min/max entropy, sqrt_matrix) cannot be carried on solver terms: outside.
"""
from __future__ import annotations

import itertools

import numpy as np
import pennylane as qp

from vf import symx as sx, obl


def conj(x):
    return x.conjugate() if isinstance(x, sx.SymC) else np.conj(x)


def sym_vec(S, n, tag="p"):
    return np.array([S.cplx(f"{tag}{i}") for i in range(2 ** n)], dtype=object)


def sym_herm(S, n, tag="r"):
    d = 2 ** n
    M = np.zeros((d, d), dtype=object)
    for i in range(d):
        M[i, i] = S.real(f"{tag}{i}_{i}")
        for j in range(i + 1, d):
            z = S.cplx(f"{tag}{i}_{j}")
            M[i, j] = z
            M[j, i] = conj(z)
    return M


def bits(k, n):
    return [(k >> (n - 1 - q)) & 1 for q in range(n)]


def idx(bs):
    v = 0
    for b in bs:
        v = (v << 1) | b
    return v


def oracle_reduce(rho, keep, n):
    """reduced density matrix on the subsystems `keep` (in that order)"""
    rest = [q for q in range(n) if q not in keep]
    d = 2 ** len(keep)
    out = np.zeros((d, d), dtype=object)
    for i in range(2 ** n):
        bi = bits(i, n)
        for j in range(2 ** n):
            bj = bits(j, n)
            if any(bi[q] != bj[q] for q in rest):
                continue
            out[idx([bi[q] for q in keep]), idx([bj[q] for q in keep])] += rho[i, j]
    return out


def oracle_expand(M, wires, order):
    """matrix on `wires` (in that order) -> matrix on `order`, identity elsewhere"""
    n, k = len(order), len(wires)
    pos = [order.index(w) for w in wires]
    rest = [q for q in range(n) if q not in pos]
    out = np.zeros((2 ** n, 2 ** n), dtype=object)
    for i in range(2 ** n):
        bi = bits(i, n)
        for j in range(2 ** n):
            bj = bits(j, n)
            if any(bi[q] != bj[q] for q in rest):
                continue
            out[i, j] = M[idx([bi[q] for q in pos]), idx([bj[q] for q in pos])]
    return out


def _flat(x):
    return [v for v in sx.arr(np.asarray(x, dtype=object)).ravel()]


def _vals_to_arrays(vals, names_shape):
    pass


# each case: name -> builder(S) -> (got, expected)
def cases(tier):
    out = {}
    for n in (2, 3):
        subsets = [list(p) for r in range(1, n + 1) for c in itertools.combinations(range(n), r) for p in itertools.permutations(c)]
        if tier == "quick" and n == 3:
            subsets = [s for s in subsets if len(s) < 3 or s in ([0, 1, 2], [2, 0, 1])]
        for keep in subsets:
            out[f"reduce_dm n={n} indices={keep}"] = (lambda S, n=n, keep=keep: (lambda rho: (qp.math.reduce_dm(rho, keep), oracle_reduce(rho, keep, n)))(sym_herm(S, n)))
            out[f"reduce_statevector n={n} indices={keep}"] = (lambda S, n=n, keep=keep: (lambda psi: (qp.math.reduce_statevector(psi, keep), oracle_reduce(np.outer(psi, [conj(x) for x in psi]), keep, n)))(sym_vec(S, n)))
            out[f"purity n={n} indices={keep}"] = (lambda S, n=n, keep=keep: (lambda rho: (qp.math.purity(rho, keep), np.trace(np.dot(oracle_reduce(rho, keep, n), oracle_reduce(rho, keep, n)))))(sym_herm(S, n)))
        for traced in [list(c) for r in range(0, n + 1) for c in itertools.combinations(range(n), r)]:
            keep = [q for q in range(n) if q not in traced]
            if not keep:
                out[f"partial_trace n={n} traced={traced}"] = (lambda S, n=n, traced=traced: (lambda rho: (qp.math.partial_trace(rho, traced), np.array([[np.trace(rho)]], dtype=object)))(sym_herm(S, n)))
            else:
                out[f"partial_trace n={n} traced={traced}"] = (lambda S, n=n, traced=traced, keep=keep: (lambda rho: (qp.math.partial_trace(rho, traced), oracle_reduce(rho, keep, n)))(sym_herm(S, n)))
        out[f"dm_from_state_vector n={n}"] = (lambda S, n=n: (lambda psi: (qp.math.dm_from_state_vector(psi), np.outer(psi, [conj(x) for x in psi])))(sym_vec(S, n)))
    # batched inputs (leading batch dimension 2)
    for keep in ([0], [1], [1, 0]):
        def f(S, keep=keep):
            r0, r1 = sym_herm(S, 2, "r"), sym_herm(S, 2, "s")
            got = qp.math.reduce_dm(np.stack([r0, r1]), keep)
            return got, np.stack([oracle_reduce(r0, keep, 2), oracle_reduce(r1, keep, 2)])
        out[f"reduce_dm batched n=2 indices={keep}"] = f

        def g(S, keep=keep):
            p0, p1 = sym_vec(S, 2, "p"), sym_vec(S, 2, "q")
            got = qp.math.reduce_statevector(np.stack([p0, p1]), keep)
            return got, np.stack([oracle_reduce(np.outer(p, [conj(x) for x in p]), keep, 2) for p in (p0, p1)])
        out[f"reduce_statevector batched n=2 indices={keep}"] = g
    for traced in ([0], [1]):
        def h(S, traced=traced):
            r0, r1 = sym_herm(S, 2, "r"), sym_herm(S, 2, "s")
            keep = [q for q in range(2) if q not in traced]
            return qp.math.partial_trace(np.stack([r0, r1]), traced), np.stack([oracle_reduce(r0, keep, 2), oracle_reduce(r1, keep, 2)])
        out[f"partial_trace batched n=2 traced={traced}"] = h
    # fidelity of pure states
    for n in (1, 2):
        def fs(S, n=n):
            a, b = sym_vec(S, n, "p"), sym_vec(S, n, "q")
            ov = sum(conj(x) * y for x, y in zip(a, b))
            return [qp.math.fidelity_statevector(a, b), qp.math.fidelity_statevector(b, a)], [ov * conj(ov), ov * conj(ov)]
        out[f"fidelity_statevector n={n}: == |<psi|phi>|^2 and symmetric"] = fs
    # expectation value
    def ev(S):
        psi, O = sym_vec(S, 2), sym_herm(S, 2, "o")
        return qp.math.expectation_value(O, psi), sum(conj(psi[i]) * O[i, j] * psi[j] for i in range(4) for j in range(4))
    out["expectation_value n=2"] = ev
    # marginal probabilities
    for n, axes in ((2, [[0], [1]]), (3, [[0], [1], [2], [0, 1], [0, 2], [1, 2], [2, 0]])):
        for ax in axes:
            def mp(S, n=n, ax=ax):
                p = np.array([S.real(f"w{i}") for i in range(2 ** n)], dtype=object)
                got = qp.math.marginal_prob(p, ax)
                keep = sorted(ax)  # `axis` lists the variables of the marginal; they stay in their original order
                exp = np.zeros(2 ** len(keep), dtype=object)
                for i in range(2 ** n):
                    b = bits(i, n)
                    exp[idx([b[q] for q in keep])] += p[i]
                return got, exp
            out[f"marginal_prob n={n} axis={ax}"] = mp
    # expand_matrix / expand_vector into wire order [0, 1, 2] and a permuted order
    orders = [[0, 1, 2], [2, 0, 1]] if tier == "quick" else [list(p) for p in itertools.permutations(range(3))]
    for order in orders:
        for k in (1, 2, 3):
            for wires in itertools.permutations(range(3), k):
                wires = list(wires)
                if tier == "quick" and k == 3 and wires not in ([0, 1, 2], [1, 2, 0], [2, 1, 0]):
                    continue
                def em(S, wires=wires, order=order, k=k):
                    d = 2 ** k
                    M = np.array([[S.cplx(f"m{i}_{j}") for j in range(d)] for i in range(d)], dtype=object)
                    return qp.math.expand_matrix(M, wires, wire_order=order), oracle_expand(M, wires, order)
                out[f"expand_matrix wires={wires} -> wire_order={order}"] = em
    for k in (1, 2):
        for wires in itertools.permutations(range(3), k):
            wires = list(wires)
            def evc(S, wires=wires, k=k):
                v = np.array([S.cplx(f"v{i}") for i in range(2 ** k)], dtype=object)
                got = qp.math.expand_vector(v, wires, [0, 1, 2])
                # expand_vector tensors with |0> ... documented: "expand a vector to more wires" (ones on the other wires? read from docs)
                return got, None
            out[f"expand_vector wires={wires} -> [0,1,2]"] = evc
    return out


def expand_vector_oracle(v, wires, order):
    """documented behaviour of expand_vector: the vector is tensored with all-ones vectors on the new wires and re-ordered"""
    n = len(order)
    pos = [order.index(w) for w in wires]
    out = np.zeros(2 ** n, dtype=object)
    for i in range(2 ** n):
        b = bits(i, n)
        out[i] = v[idx([b[q] for q in pos])]
    return out


CASES = {}


def get_cases(tier):
    if tier not in CASES:
        CASES[tier] = cases(tier)
    return CASES[tier]


class _NumS:
    def __init__(self, vals):
        self.vals, self.k = vals, 0

    def _v(self, name):
        if name in self.vals:
            return float(self.vals[name])
        self.k += 1
        return float(np.sin(1.7 * self.k + len(name)))

    def real(self, name):
        return self._v(name)

    def cplx(self, name):
        return complex(self._v(name + "_re"), self._v(name + "_im"))


def _eval(cname, tier, S):
    got, exp = get_cases(tier)[cname](S)
    if exp is None:  # expand_vector
        wires = eval(cname.split("wires=")[1].split(" ->")[0])
        v = np.array([S.cplx(f"v{i}") for i in range(2 ** len(wires))], dtype=object)
        exp = expand_vector_oracle(v, wires, [0, 1, 2])
    return got, exp


def _num(cname, tier, vals):
    try:
        got, exp = _eval(cname, tier, _NumS(vals))
    except Exception as e:
        return True, f"{cname}: raised {e!r} on plain numbers"
    g = np.asarray(got, dtype=complex).ravel()
    e = np.asarray(exp, dtype=complex).ravel()
    if g.shape != e.shape:
        return True, f"{cname}: returned shape {np.shape(got)}, definition has shape {np.shape(exp)}"
    d = float(np.max(np.abs(g - e))) if g.size else 0.0
    return d > 1e-9, f"{cname}: max|returned - definition| = {d:.3g}"


def replay(p):
    return _num(p["case"], p.get("tier", "thorough"), p["values"])


def work(item):
    cname, tier = item
    sx.install_shims()

    def b(S):
        return _eval(cname, tier, S)

    def consume(S, v, i):
        got, exp = v

        def rp(model):
            vals = dict(model.get("vars", {}))
            ok, obs = _num(cname, tier, vals)
            return ok, {"case": cname, "tier": tier, "values": vals, "observed": obs}

        g, e = _flat(got), _flat(exp)
        if len(g) != len(e):
            ok, obs = _num(cname, tier, {})
            return [{"name": f"{cname}: shape", "status": "violated" if ok else "inconclusive", "symbols": ["entries"], "nontrivial": True, "queries": 0, "signature": cname.split(" ")[0], "detail": obs,
                     "replay": {"case": cname, "tier": tier, "values": {}, "observed": obs}}]
        return [obl.prove(S, f"{cname} (path {i}): == definition by explicit index contraction", g, e, replay=rp, signature=cname.split(" ")[0] + ":" + cname, timeout=60)]

    try:
        return obl.run_instance(cname, b, consume)
    except (TypeError, AttributeError, IndexError, KeyError, ValueError) as e:
        import traceback

        tb = traceback.format_exc(limit=6)[-600:]
        ok, obs = _num(cname, tier, {})
        if ok:
            return [{"name": cname + ": evaluates", "status": "violated", "symbols": ["entries"], "nontrivial": True, "queries": 0, "signature": cname.split(" ")[0] + ":raises", "detail": obs,
                     "replay": {"case": cname, "tier": tier, "values": {}, "observed": obs}}]
        return [{"name": cname, "status": "unsupported", "detail": f"{e!r} {tb}"}]


def run(ctx):
    ctx.level = "proof"
    items = [(c, ctx.tier) for c in get_cases(ctx.tier)]
    if ctx.only:
        items = [it for it in items if ctx.only in it[0]]
    ctx.shapes = len(items)
    M = qp.math
    ctx.encode(M.reduce_dm, M.partial_trace, M.reduce_statevector, M.dm_from_state_vector, M.purity, M.fidelity_statevector, M.expectation_value, M.marginal_prob, M.expand_matrix, M.expand_vector)
    ctx.bound(entries="all complex vector entries / all Hermitian matrix entries (symbolic; identities are polynomial so no normalisation is assumed)", systems="2 and 3 qubits, every index subset and order; batch dimension 2 for 2 qubits",
              expand="every wire subset/order of 3 wires into wire orders " + ("[0,1,2] and [2,0,1]" if ctx.tier == "quick" else "all 6 permutations"),
              outside="fidelity of mixed states, trace_distance, vn_entropy, vn_entanglement_entropy, mutual_info, relative_entropy, min/max entropy, sqrt_matrix (eigen-decomposition / matrix functions on solver terms), "
                      "bounds such as fidelity in [0,1] or non-negativity of entropies, check_state=True validation, sparse inputs, torch/jax/tensorflow code paths")
    ctx.assume(*sx.SHIM_NOTES)
    ctx.rule = "one obligation per (function, index configuration, path); non-trivial = mentions symbolic entries"
    ctx.pmap(work, items, timeout_each=600)
