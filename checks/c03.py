"""C03 Operator arithmetic agrees with matrix arithmetic (E1).

Expression skeletons from the grammar
   E ::= leaf | adjoint(E) | pow(E, k) | ctrl(E, controls, control_values) | prod(E, E[, E]) | sum(E, E) | s_prod(alpha, E)
are built twice from the same specification: as real PennyLane operators (qp.adjoint/pow/ctrl/prod/sum/s_prod) with symbolic
leaf parameters and symbolic complex scalars, and as an oracle matrix computed here by plain matrix arithmetic on the LEAF
matrices (own kron/embedding, dagger, matrix power, block-diagonal control, product, sum).  Obligations, for all parameter values:
   (m) qp.matrix(expr, wire_order) == oracle            (s) qp.matrix(qp.simplify(expr)) == qp.matrix(expr)   [forking mode]
   (w) qp.matrix(qp.map_wires(expr, m), wire_order=m(W)) == qp.matrix(expr, wire_order=W)
   (d) product of the matrices of expr.decomposition() == qp.matrix(expr)   (where a decomposition exists)
"""
from __future__ import annotations

import itertools

import numpy as np
import pennylane as qp

from vf import symx as sx, obl

PN = ["a", "b", "g"]
# leaf kinds: name -> (n params, n wires)
LEAVES = {"RX": (1, 1), "RY": (1, 1), "RZ": (1, 1), "PauliX": (0, 1), "PauliZ": (0, 1), "Hadamard": (0, 1), "T": (0, 1), "S": (0, 1),
          "PhaseShift": (1, 1), "CNOT": (0, 2), "CRZ": (1, 2), "IsingXX": (1, 2), "SWAP": (0, 2), "CRX": (1, 2), "Rot": (3, 1), "GlobalPhase": (1, 1)}
NW = 3  # circuit wires 0..2, controls use fresh wires 3,4
LABELS = {0: "q0", 1: 7, 2: "b", 3: "c1", 4: -2}


# ------------------------------------------------------------------ specifications
def leaf(name, *wires):
    return ("leaf", name, tuple(wires))


def spec_wires(sp):
    k = sp[0]
    if k == "leaf":
        return list(sp[2])
    if k in ("adj",):
        return spec_wires(sp[1])
    if k == "pow":
        return spec_wires(sp[2])
    if k == "sprod":
        return spec_wires(sp[1])
    if k == "ctrl":
        return list(sp[1]) + spec_wires(sp[3])
    out = []
    for s in sp[1:]:
        for w in spec_wires(s):
            if w not in out:
                out.append(w)
    return out


def nparams(sp):
    k = sp[0]
    if k == "leaf":
        return LEAVES[sp[1]][0]
    if k == "pow":
        return nparams(sp[2])
    if k == "ctrl":
        return nparams(sp[3])
    return sum(nparams(s) for s in sp[1:] if isinstance(s, tuple))


def n_scalars(sp):
    k = sp[0]
    if k == "leaf":
        return 0
    if k == "pow":
        return n_scalars(sp[2])
    if k == "ctrl":
        return n_scalars(sp[3])
    return (1 if k == "sprod" else 0) + sum(n_scalars(s) for s in sp[1:] if isinstance(s, tuple))


def show(sp):
    k = sp[0]
    if k == "leaf":
        return f"{sp[1]}{list(sp[2])}"
    if k == "adj":
        return f"adjoint({show(sp[1])})"
    if k == "pow":
        return f"pow({show(sp[2])},{sp[1]})"
    if k == "sprod":
        return f"s_prod(alpha,{show(sp[1])})"
    if k == "ctrl":
        return f"ctrl({show(sp[3])},{list(sp[1])},cv={list(sp[2])})"
    return f"{k}(" + ",".join(show(s) for s in sp[1:]) + ")"


class Env:
    """hands out parameters/scalars in a fixed order so that the real and the oracle build see the same symbols"""

    def __init__(self, params, scalars, wmap=None):
        self.params, self.scalars, self.ip, self.isc = list(params), list(scalars), 0, 0
        self.wmap = wmap or (lambda w: w)

    def take(self, n):
        out = [self.params[(self.ip + i) % len(self.params)] if self.params else None for i in range(n)]
        self.ip += n
        return out

    def scalar(self):
        s = self.scalars[self.isc % len(self.scalars)]
        self.isc += 1
        return s


def build_real(sp, env):
    k = sp[0]
    if k == "leaf":
        ps = env.take(LEAVES[sp[1]][0])
        ws = [env.wmap(w) for w in sp[2]]
        return getattr(qp, sp[1])(*ps, wires=ws if len(ws) > 1 else ws[0])
    if k == "adj":
        return qp.adjoint(build_real(sp[1], env), lazy=True)
    if k == "pow":
        return qp.pow(build_real(sp[2], env), sp[1], lazy=True)
    if k == "sprod":
        al = env.scalar()
        return qp.s_prod(al, build_real(sp[1], env), lazy=True)
    if k == "ctrl":
        return qp.ctrl(build_real(sp[3], env), control=[env.wmap(w) for w in sp[1]], control_values=list(sp[2]))
    ops = [build_real(s, env) for s in sp[1:]]
    return qp.prod(*ops, lazy=True) if k == "prod" else qp.sum(*ops, lazy=True)


def mpow(M, k):
    M = np.asarray(M, dtype=object)
    if k < 0:
        return mpow(sx.dagger(M), -k)  # operands of negative powers are unitary here
    out = np.eye(M.shape[0], dtype=object)
    for _ in range(k):
        out = np.dot(out, M)
    return out


def oracle(sp, env, W):
    """matrix in wire order W by own arithmetic on leaf matrices"""
    k = sp[0]
    if k == "leaf":
        ps = env.take(LEAVES[sp[1]][0])
        ws = list(sp[2])
        op = getattr(qp, sp[1])(*ps, wires=ws if len(ws) > 1 else ws[0])
        return sx.embed(sx.arr(qp.matrix(op, wire_order=ws)), ws, W)
    if k == "adj":
        return sx.dagger(oracle(sp[1], env, W))
    if k == "pow":
        return mpow(oracle(sp[2], env, W), sp[1])
    if k == "sprod":
        al = env.scalar()
        return oracle(sp[1], env, W) * al
    if k == "ctrl":
        cw, cv = list(sp[1]), list(sp[2])
        bw = spec_wires(sp[3])
        B = oracle(sp[3], env, bw)
        d = B.shape[0]
        N = (2 ** len(cw)) * d
        M = np.zeros((N, N), dtype=object)
        hit = int("".join(str(int(v)) for v in cv), 2)
        for blk in range(2 ** len(cw)):
            M[blk * d:(blk + 1) * d, blk * d:(blk + 1) * d] = B if blk == hit else np.eye(d, dtype=object)
        return sx.embed(M, cw + bw, W)
    mats = [oracle(s, env, W) for s in sp[1:]]
    if k == "prod":
        out = mats[0]
        for m in mats[1:]:
            out = np.dot(out, m)
        return out
    out = mats[0]
    for m in mats[1:]:
        out = out + m
    return out


def is_unitary_spec(sp):
    k = sp[0]
    if k == "leaf":
        return True
    if k in ("adj",):
        return is_unitary_spec(sp[1])
    if k == "pow":
        return is_unitary_spec(sp[2])
    if k == "ctrl":
        return is_unitary_spec(sp[3])
    if k == "prod":
        return all(is_unitary_spec(s) for s in sp[1:])
    return False


def valid(sp):
    """negative powers and controls only on unitary operands; no repeated control/target wires"""
    k = sp[0]
    if k == "leaf":
        return True
    if k == "pow":
        return valid(sp[2]) and (sp[1] >= 0 or is_unitary_spec(sp[2]))
    if k == "ctrl":
        return valid(sp[3]) and is_unitary_spec(sp[3]) and not set(sp[1]) & set(spec_wires(sp[3]))
    if k == "adj":
        return valid(sp[1])
    if k == "sprod":
        return valid(sp[1])
    return all(valid(s) for s in sp[1:])


# ------------------------------------------------------------------ skeleton family
def family(tier):
    L1 = [leaf("RX", 0), leaf("RY", 1), leaf("RZ", 2), leaf("PauliX", 1), leaf("Hadamard", 0), leaf("T", 1), leaf("S", 2), leaf("PhaseShift", 0),
          leaf("PauliZ", 2), leaf("GlobalPhase", 1)]
    L2 = [leaf("CNOT", 0, 1), leaf("CNOT", 0, 2), leaf("CNOT", 2, 1), leaf("CRZ", 1, 2), leaf("IsingXX", 0, 2), leaf("SWAP", 1, 2), leaf("CRX", 2, 0),
          leaf("IsingXX", 1, 0)]
    L3 = [leaf("Rot", 1)]
    leaves = L1 + L2 + L3
    out = []
    un = []
    for e in leaves:
        un += [("adj", e), ("pow", 2, e), ("pow", 3, e), ("pow", -1, e), ("pow", -2, e), ("sprod", e), ("ctrl", (3,), (1,), e), ("ctrl", (3,), (0,), e),
               ("ctrl", (3, 4), (1, 0), e), ("ctrl", (4, 3), (0, 1), e)]
    out += leaves + un
    # binary / ternary composites of leaves (all wire-overlap patterns, incl. interleaved groups)
    bins = []
    for a, b in itertools.product(leaves, repeat=2):
        if a is b:
            continue
        bins.append(("prod", a, b))
        bins.append(("sum", a, b))
    tern = []
    for a, b, c in itertools.product(L1[:6] + L2, repeat=3):
        if len({id(a), id(b), id(c)}) < 3:
            continue
        ws = [spec_wires(x) for x in (a, b, c)]
        if any(len(w) == 2 for w in ws) and len(set(sum(ws, []))) == 3:
            tern.append(("prod", a, b, c))
    out += bins + tern
    # wrappers of composites
    wrapped = []
    for e in bins[:: 7] + tern[:: 11]:
        wrapped += [("adj", e), ("pow", 2, e), ("sprod", e), ("ctrl", (3,), (1,), e), ("ctrl", (4, 3), (0, 1), e), ("pow", -1, e)]
    # composites of wrapped things
    comp2 = []
    for i, (u, v) in enumerate(itertools.product(un[:: 5], leaves[:: 2])):
        comp2.append(("prod", u, v) if i % 2 == 0 else ("sum", u, v))
        comp2.append(("prod", v, u))
    nested = []
    for e in un[:: 9]:
        nested += [("adj", e), ("pow", 2, e), ("ctrl", (4,), (0,), e) if 4 not in spec_wires(e) else ("adj", e), ("sprod", e)]
    out += wrapped + comp2 + nested
    out = [sp for sp in out if valid(sp) and nparams(sp) <= 4 and len(spec_wires(sp)) <= 5]
    # de-duplicate
    seen, uniq = set(), []
    for sp in out:
        if sp not in seen:
            seen.add(sp)
            uniq.append(sp)
    if tier == "quick":
        core = [sp for sp in uniq if sp[0] in ("leaf", "adj", "pow", "sprod", "ctrl") and (sp[0] == "leaf" or (sp[-1][0] == "leaf"))][:: 3]
        rest = [sp for sp in uniq if sp not in core]
        return core + rest[:: 12] + [sp for sp in tern[:: 17] if valid(sp)]
    return uniq


SPECS = None


def specs(tier):
    global SPECS
    if SPECS is None or SPECS[0] != tier:
        SPECS = (tier, family(tier))
    return SPECS[1]


# ------------------------------------------------------------------ numeric replay
def _num(idx_tier, params, scal, what):
    tier, idx = idx_tier
    sp = specs(tier)[idx]
    W = spec_wires(sp)
    scal = [complex(*s) for s in scal] or [1.0]
    op = build_real(sp, Env(params, scal))
    M = np.asarray(qp.matrix(op, wire_order=W), dtype=complex)
    if what == "m":
        R = np.asarray(sx.evalf(sx.session(), oracle(sp, Env(params, scal), W), {}), dtype=complex) if False else np.asarray(_oracle_float(sp, params, scal, W), dtype=complex)
        d = float(np.max(np.abs(M - R)))
        return d > 1e-6, f"{show(sp)} at params={params} scalars={scal}: max|qp.matrix - matrix arithmetic| = {d:.3g}"
    if what == "s":
        sop = qp.simplify(op)
        Ms = np.asarray(qp.matrix(sop, wire_order=W), dtype=complex)
        d = float(np.max(np.abs(M - Ms)))
        return d > 1e-6, f"simplify({show(sp)}) = {sop} at params={params}: max|matrix difference| = {d:.3g}"
    if what == "w":
        m = LABELS
        op2 = build_real(sp, Env(params, scal, wmap=lambda w: m[w]))
        M2 = np.asarray(qp.matrix(op2, wire_order=[m[w] for w in W]), dtype=complex)
        d = float(np.max(np.abs(M - M2)))
        return d > 1e-6, f"relabelled {show(sp)} at params={params}: max|matrix difference| = {d:.3g}"
    if what == "d":
        with qp.QueuingManager.stop_recording():
            dec = op.decomposition()
        D = np.asarray(obl.mat_of_ops(dec, W), dtype=complex)
        d = float(np.max(np.abs(M - D)))
        return d > 1e-6, f"decomposition of {show(sp)} at params={params}: max|matrix difference| = {d:.3g}"
    raise KeyError(what)


def _oracle_float(sp, params, scal, W):
    return np.asarray(oracle(sp, Env(params, scal), W), dtype=complex)


def replay(p):
    return _num((p["tier"], p["idx"]), p["params"], p["scalars"], p["what"])


# ------------------------------------------------------------------ symbolic work
def work(item):
    tier, idx = item
    sp = specs(tier)[idx]
    name = show(sp)
    W = spec_wires(sp)
    npar, nsc = min(nparams(sp), 3), n_scalars(sp)
    names = PN[:npar]

    def mk(S):
        return [S.param(x) for x in names], [S.cplx(f"alpha{i}", wrap=False) for i in range(max(nsc, 1))]

    def rp(what):
        def f(model):
            ps = [model["params"].get(x, 0.0) for x in names]
            fr = model.get("vars", {})
            sc = [(fr.get(f"alpha{i}_re", 1.0), fr.get(f"alpha{i}_im", 0.0)) for i in range(max(nsc, 1))]
            ok, obs = _num((tier, idx), ps, sc, what)
            return ok, {"tier": tier, "idx": idx, "spec": name, "params": ps, "scalars": sc, "what": what, "observed": obs}
        return f

    recs = []

    # (m), (w), (d): no value-dependent control flow expected -> single path, abstract mode off
    def build(S):
        ps, sc = mk(S)
        op = build_real(sp, Env(ps, sc))
        M = sx.arr(qp.matrix(op, wire_order=W))
        R = sx.arr(oracle(sp, Env(ps, sc), W))
        op2 = build_real(sp, Env(ps, sc, wmap=lambda w: LABELS[w]))
        M2 = sx.arr(qp.matrix(op2, wire_order=[LABELS[w] for w in W]))
        D = None
        if op.has_decomposition:
            try:
                with qp.QueuingManager.stop_recording():
                    dec = op.decomposition()
                if len(set(qp.wires.Wires.all_wires([o.wires for o in dec]).labels) - set(W)) == 0:
                    D = sx.arr(obl.mat_of_ops(dec, W))
            except sx.Granularity:
                raise
            except (sx.Unsupported, TypeError, ValueError, AttributeError, qp.operation.DecompositionUndefinedError):
                D = None
        return M, R, M2, D

    def consume(S, v, i):
        M, R, M2, D = v
        out = [obl.prove(S, f"{name}: qp.matrix == matrix arithmetic on the operands", M, R, replay=rp("m"), signature=f"m:{name}"),
               obl.prove(S, f"{name}: relabelling wires (map_wires/wire_order) leaves the matrix unchanged", M2, M, replay=rp("w"), signature=f"w:{name}")]
        if D is not None:
            out.append(obl.prove(S, f"{name}: product of decomposition == matrix", D, M, replay=rp("d"), signature=f"d:{name}"))
        return out

    try:
        recs += obl.run_instance(name, build, consume)
    except (TypeError, np.linalg.LinAlgError) as e:  # numpy.linalg on symbolic matrices (negative matrix powers via inv)
        recs.append(obl.unsupported(name, e))

    # (s) simplify, forking mode
    def build_s(S):
        ps, sc = mk(S)
        op = build_real(sp, Env(ps, sc))
        M = sx.arr(qp.matrix(op, wire_order=W))
        via = []
        orig_simplify = qp.Rot.simplify

        def traced(self_):  # call-site marker for the known finding F4: did Rot.simplify take its "-> Hadamard" branch on this path?
            out = orig_simplify(self_)
            if isinstance(out, qp.Hadamard):
                via.append(1)
            return out

        qp.Rot.simplify = traced
        try:
            sop = qp.simplify(op)
        finally:
            qp.Rot.simplify = orig_simplify
        Ms = sx.arr(qp.matrix(sop, wire_order=W))
        return M, Ms, repr(sop)[:80] + (" [via Rot.simplify -> Hadamard]" if via else "")

    def consume_s(S, v, i):
        M, Ms, r = v
        rec = obl.prove(S, f"{name}: simplify (path {i}: {r}) preserves the matrix", Ms, M, replay=rp("s"), signature=f"s:{name}->{r}")
        if rec["status"] == "inconclusive" and "does not reproduce" in rec.get("detail", ""):
            # paths guarded by a tolerance INEQUALITY (e.g. |coefficient| <= 1e-8 drops a term): exact equality is not what the code
            # promises there; prove closeness instead
            rec2 = obl.prove(S, f"{name}: simplify (path {i}: {r}) preserves the matrix up to 1e-6 (tolerance-guarded path)", Ms, M, replay=rp("s"),
                             signature=f"s:{name}->{r}", tol=1e-6)
            rec2["queries"] = rec2.get("queries", 1) + 1
            return [rec2]
        return [rec]

    try:
        recs += obl.run_instance(name + " [simplify]", build_s, consume_s, max_paths=24)
    except (TypeError, ValueError, AttributeError, NotImplementedError, np.linalg.LinAlgError) as e:
        recs.append(obl.unsupported(name + " [simplify]", e))
    return recs


def run(ctx):
    ctx.level = "proof"
    sps = specs(ctx.tier)
    items = [(ctx.tier, i) for i in range(len(sps))]
    if ctx.only:
        items = [it for it in items if ctx.only in show(sps[it[1]])]
    ctx.shapes = len(items)
    from pennylane.ops.op_math import Prod, Sum, SProd, Adjoint, Pow, Controlled

    ctx.encode(Prod.matrix, Sum.matrix, SProd.matrix, Adjoint.matrix, Pow.matrix, qp.ctrl, qp.simplify, qp.matrix, qp.map_wires)
    ctx.bound(parameters="all real leaf parameters; s_prod scalars arbitrary complex numbers", skeletons=f"{len(items)} expression skeletons, grammar depth <= 3, <= 5 wires",
              powers="integers -2..3 (negative powers on unitary operands)", controls="1-2 control wires, mixed control values",
              outside="fractional powers, qp.exp/Exp, change_op_basis, depth > 3, simplifications that call %/round on symbols (listed unsupported)")
    ctx.assume(*sx.SHIM_NOTES, "simplify is explored in forking mode: tolerance comparisons are modelled as exact equalities")
    ctx.trust("oracle: own matrix arithmetic (embed, dagger, power, block-diagonal control, product, sum) on the leaf matrices; leaf matrices themselves are C02's subject")
    ctx.rule = "one obligation per (skeleton, {matrix, relabelling, decomposition, simplify path}); non-trivial = mentions a symbolic variable"
    ctx.pmap(work, items, timeout_each=300 if ctx.tier == "quick" else 1200)
