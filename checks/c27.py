"""C27 Simulator devices agree with each other (E1).

The SAME circuit with symbolic gate angles is pushed through the real simulation code of three devices:
  * default.qubit      -- devices.qubit get_final_state / measure_final_state,
  * default.mixed      -- devices.qubit_mixed get_final_state / measure_final_state (density-matrix kernels),
  * reference.qubit    -- the device's own preprocessing pipeline (split_non_commuting, diagonalize_measurements, decompose to its
                          native gate set ...) followed by its `simulate`, and the pipeline's post-processing,
and z3 proves that every analytic result of default.mixed / reference.qubit equals the default.qubit result for ALL angles
(for `state`: rho == |psi><psi|).  null.qubit is compared for result shapes.  default.tensor (quimb) and default.clifford (stim)
execute inside compiled / external libraries that cannot be lifted to solver terms: outside (see DESIGN.md).
"""
from __future__ import annotations

import numpy as np
import pennylane as qp

from vf import symx as sx, obl, simx
from checks import c28

PN = ["a", "b", "g"]
W = [0, 1, 2]

CIRCUITS = {
    "RX.RY.CNOT": lambda p: [qp.RX(p[0], 0), qp.RY(p[1], 1), qp.CNOT([0, 1])],
    "H.CRX.RZ": lambda p: [qp.Hadamard(0), qp.CRX(p[0], [0, 1]), qp.RZ(p[1], 1)],
    "RY.CZ.RX.CNOT(2,0)": lambda p: [qp.RY(p[0], 0), qp.RY(p[1], 2), qp.CZ([0, 2]), qp.RX(p[2], 1), qp.CNOT([2, 0])],
    "IsingXX.PhaseShift": lambda p: [qp.Hadamard(1), qp.IsingXX(p[0], [0, 1]), qp.PhaseShift(p[1], 1)],
    "Rot.CNOT.Y": lambda p: [qp.Rot(p[0], p[1], p[2], 0), qp.CNOT([0, 1]), qp.PauliY(1)],
    "X.Toffoli.RY": lambda p: [qp.PauliX(0), qp.RY(p[0], 1), qp.Toffoli([0, 1, 2]), qp.RY(p[1], 2)],
    "SWAP.S.T.RX": lambda p: [qp.RX(p[0], 0), qp.SWAP([0, 1]), qp.S(1), qp.T(0), qp.RX(p[1], 1)],
    "CRY.CRZ": lambda p: [qp.RY(p[2], 0), qp.CRY(p[0], [0, 1]), qp.CRZ(p[1], [1, 0])],
    "GlobalPhase.RZ.H": lambda p: [qp.Hadamard(0), qp.GlobalPhase(p[0], wires=0), qp.RZ(p[1], 0), qp.Hadamard(0), qp.RY(p[2], 1)],
    "string wires": lambda p: [qp.RX(p[0], "b"), qp.RY(p[1], "a"), qp.CNOT(["b", "a"])],
    # parameter broadcasting (a batch of two angles) and wires that only occur in measurements
    "batched RX.CNOT": lambda p: [qp.RX(np.array([p[0].item() if hasattr(p[0], "item") else p[0], p[1].item() if hasattr(p[1], "item") else p[1]], dtype=object if sx.is_symbolic(p[0]) else float), 0), qp.RY(p[2], 1), qp.CNOT([0, 1])],
    "RX.CNOT": lambda p: [qp.RX(p[0], 0), qp.RY(p[2], 1), qp.CNOT([0, 1])],
}
IDLE_MEAS = {
    "probs[1,2] (wire 2 idle), expval Z2": lambda w: [qp.probs(wires=[1, 2]), qp.expval(qp.PauliZ(2))],
    "expval Z1@X0, probs[2,0] (wire 2 idle)": lambda w: [qp.expval(qp.PauliZ(1) @ qp.PauliX(0)), qp.probs(wires=[2, 0])],
    "var Y1, expval Z3@Z1 (wires 2,3 idle)": lambda w: [qp.var(qp.PauliY(1)), qp.expval(qp.PauliZ(3) @ qp.PauliZ(1))],
}
MEAS = {
    "expval Z0": lambda w: [qp.expval(qp.PauliZ(w[0]))],
    "expval Z0@X1, var Y1": lambda w: [qp.expval(qp.PauliZ(w[0]) @ qp.PauliX(w[1])), qp.var(qp.PauliY(w[1]))],
    "probs all, probs[1,0]": lambda w: [qp.probs(wires=w), qp.probs(wires=[w[1], w[0]])],
    "expval 0.5*Z0 + 1.5*X1@Y0": lambda w: [qp.expval(0.5 * qp.PauliZ(w[0]) + 1.5 * (qp.PauliX(w[1]) @ qp.PauliY(w[0])))],
    "var Z0@Z1, expval X0, probs[1]": lambda w: [qp.var(qp.PauliZ(w[0]) @ qp.PauliZ(w[1])), qp.expval(qp.PauliX(w[0])), qp.probs(wires=[w[1]])],
    "expval Hermitian": lambda w: [qp.expval(qp.Hermitian(np.array([[1.0, 0.5 - 0.5j], [0.5 + 0.5j, -2.0]]), wires=w[1]))],
    "state": lambda w: [qp.state()],
}


def build_tape(cname, mname, p):
    ops = CIRCUITS[cname](p)
    ws = list(qp.tape.QuantumScript(ops).wires)
    return qp.tape.QuantumScript(ops, {**MEAS, **IDLE_MEAS}[mname](ws))


def device_wires(tape):
    """the wire order in which default.qubit lays out a tape when the device has no wires: labels 0..n-1 keep their numeric order,
    other labels are taken in order of appearance.  All devices are given exactly this order."""
    ws = list(tape.wires)
    return sorted(ws) if set(ws) == set(range(len(ws))) else ws


def run_reference(tape):
    """the real reference.qubit: preprocessing pipeline, simulate, post-processing"""
    from pennylane.devices import reference_qubit as RQ

    dev = qp.device("reference.qubit", wires=device_wires(tape))
    prog, _ = dev.preprocess()
    tapes, fn = prog((tape,))
    for t in tapes:
        if not all(RQ.supports_operation(op) for op in t.operations):
            raise AssertionError(f"reference.qubit preprocessing left an unsupported operation: {[op.name for op in t.operations]}")
    res = fn(tuple(RQ.simulate(t) for t in tapes))
    res = res[0]
    return res if isinstance(res, tuple) else (res,), sum(len(t.operations) for t in tapes)


def _flat(x):
    return [v for v in sx.arr(np.asarray(x, dtype=object)).ravel()]


def _num(cname, mname, params, dev):
    tape = build_tape(cname, mname, list(params))
    ref = qp.execute([tape], qp.device("default.qubit", wires=device_wires(tape)))[0]
    ref = ref if isinstance(ref, tuple) else (ref,)
    if dev == "null.qubit":
        got = qp.execute([tape], qp.device("null.qubit", wires=device_wires(tape)))[0]
        got = got if isinstance(got, tuple) else (got,)
        bad = [(np.shape(g), np.shape(r)) for g, r in zip(got, ref) if np.shape(g) != np.shape(r)]
        return bool(bad) or len(got) != len(ref), f"null.qubit result shapes {[np.shape(g) for g in got]} vs default.qubit {[np.shape(r) for r in ref]}"
    d = qp.device(dev, wires=device_wires(tape))
    got = qp.execute([tape], d)[0]
    got = got if isinstance(got, tuple) else (got,)
    worst = 0.0
    for g, r, mp in zip(got, ref, tape.measurements):
        g, r = np.asarray(g, dtype=complex), np.asarray(r, dtype=complex)
        if type(mp).__name__ == "StateMP" and dev == "default.mixed":
            r = np.outer(r, np.conj(r))
        elif type(mp).__name__ == "StateMP":
            # global phase convention must agree as well: compare directly
            pass
        worst = max(worst, float(np.max(np.abs(g.reshape(r.shape) - r))))
    return worst > 1e-7, f"{dev} vs default.qubit on {cname} [{mname}] at {list(params)}: max|difference| = {worst:.3g}"


def replay(p):
    return _num(p["circuit"], p["meas"], p["params"], p["device"])


def work(item):
    cname, mname, dev = item
    name = f"{dev} == default.qubit on {cname} [{mname}]"
    if dev == "null.qubit":
        ok, obs = _num(cname, mname, [0.3, -0.8, 1.9], dev)
        return [{"name": name + ": result shapes", "status": "violated" if ok else "discharged", "symbols": [], "nontrivial": False, "queries": 0, "detail": obs, "signature": f"null:{cname}:{mname}",
                 "replay": {"circuit": cname, "meas": mname, "params": [0.3, -0.8, 1.9], "device": dev, "observed": obs}}]

    def b(S):
        ps = [S.param(x) for x in PN]
        tape = build_tape(cname, mname, ps)
        _, ref = simx.run_tape(tape)
        if dev == "default.mixed":
            _, _, got = c28.run_mixed(tape)
            nops = len(tape.operations)
        else:
            got, nops = run_reference(tape)
        return tape, ref, got, nops

    def consume(S, v, i):
        tape, ref, got, nops = v

        def rp(model):
            p = [model["params"].get(x, 0.0) for x in PN]
            ok, obs = _num(cname, mname, p, dev)
            return ok, {"circuit": cname, "meas": mname, "params": p, "device": dev, "observed": obs}

        out = []
        if len(got) != len(ref):
            ok, obs = _num(cname, mname, [0.3, -0.8, 1.9], dev)
            return [{"name": name + ": one result per measurement", "status": "violated" if ok else "inconclusive", "symbols": PN, "nontrivial": True, "queries": 0, "detail": obs, "signature": f"{dev}:{cname}:{mname}",
                     "replay": {"circuit": cname, "meas": mname, "params": [0.3, -0.8, 1.9], "device": dev, "observed": obs}}]
        for k, (g, r, mp) in enumerate(zip(got, ref, tape.measurements)):
            r = sx.arr(np.asarray(r, dtype=object))
            if type(mp).__name__ == "StateMP" and dev == "default.mixed":
                r = r.ravel()
                rc = np.array([x.conjugate() if isinstance(x, sx.SymC) else np.conj(x) for x in r], dtype=object)
                r = np.outer(r, rc)
            lhs, rhs = _flat(g), _flat(r)
            if len(lhs) != len(rhs):
                out.append({"name": f"{name}: result {k} has the same number of entries", "status": "inconclusive", "detail": f"{len(lhs)} vs {len(rhs)}", "symbols": PN})
                continue
            rec = obl.prove(S, f"{name} (path {i}, {nops} ops simulated): result {k} ({type(mp).__name__}) identical", lhs, rhs, replay=rp, signature=f"{dev}:{cname}:{mname}", timeout=60)
            if rec["status"] == "inconclusive" and "does not reproduce" in rec.get("detail", ""):
                # float constants of the pipelines (pi/2 diagonalising rotations, Hamiltonian coefficients) are read as exact rationals: equality up to 1e-9
                rec = obl.prove(S, f"{name} (path {i}, {nops} ops simulated): result {k} ({type(mp).__name__}) identical up to 1e-9 (float constants)", lhs, rhs, replay=rp,
                                signature=f"{dev}:{cname}:{mname}", timeout=120, tol=1e-9)
            out.append(rec)
        return out

    try:
        return obl.run_instance(name, b, consume)
    except (TypeError, AttributeError, IndexError, KeyError, ValueError, NotImplementedError, qp.exceptions.DeviceError) as e:
        import traceback

        tb = traceback.format_exc(limit=6)[-600:]
        try:
            ok, obs = _num(cname, mname, [0.3, -0.8, 1.9], dev)
        except Exception as e2:
            return [{"name": name + ": executes", "status": "violated", "symbols": PN, "nontrivial": True, "queries": 0, "signature": f"{dev}:{cname}:{mname}:raises",
                     "detail": f"the device raised {e2!r} on plain float parameters", "replay": {"circuit": cname, "meas": mname, "params": [0.3, -0.8, 1.9], "device": dev, "observed": repr(e2)}}]
        return [{"name": name, "status": "unsupported", "detail": f"{e!r} {tb}"}]


def run(ctx):
    ctx.level = "proof"
    items = []
    for c in ("batched RX.CNOT", "RX.CNOT"):
        for m in IDLE_MEAS:
            for dev in ("default.mixed",) + (("reference.qubit",) if c == "RX.CNOT" else ()):
                items.append((c, m, dev))
        if c == "batched RX.CNOT":
            for m in ("expval Z0@X1, var Y1", "probs all, probs[1,0]"):
                items.append((c, m, "default.mixed"))
    for c in CIRCUITS:
        if c in ("batched RX.CNOT", "RX.CNOT"):
            continue
        for m in MEAS:
            for dev in ("default.mixed", "reference.qubit", "null.qubit"):
                if m == "state" and dev == "reference.qubit" and False:
                    continue
                if ctx.tier == "quick" and dev == "null.qubit" and m not in ("probs all, probs[1,0]", "state"):
                    continue
                items.append((c, m, dev))
    if ctx.only:
        items = [it for it in items if ctx.only in f"{it[2]} == default.qubit on {it[0]} [{it[1]}]"]
    ctx.shapes = len(items)
    import importlib

    MIX = importlib.import_module("pennylane.devices.qubit_mixed.simulate")
    RQ = importlib.import_module("pennylane.devices.reference_qubit")
    from pennylane.devices.qubit import get_final_state, measure_final_state

    ctx.encode(get_final_state, measure_final_state, MIX.get_final_state, MIX.measure_final_state, RQ.simulate, RQ.ReferenceQubit.preprocess)
    ctx.bound(parameters="all real gate angles (3 symbols)", circuits=list(CIRCUITS), measurements=list(MEAS) + list(IDLE_MEAS), broadcasting="a batch of two symbolic RX angles on default.mixed, with wires that occur only in measurements", devices=["default.mixed", "reference.qubit (full preprocessing pipeline)", "null.qubit (shapes)"],
              outside="default.tensor (quimb tensor networks) and default.clifford (stim tableau simulator): execution happens inside external numeric libraries that cannot carry solver terms; finite shots; broadcasting on reference.qubit (broadcast_expand) and with batch sizes other than 2")
    ctx.assume(*sx.SHIM_NOTES, "default.mixed initial state created as an object array")
    ctx.rule = "one obligation per (circuit, measurement list, device, result); non-trivial = mentions a symbolic angle"
    ctx.pmap(work, items, timeout_each=900)
