"""C51 Pauli algebra agrees with matrix algebra (E1, dense part).

Pauli sentences whose COEFFICIENTS ARE SYMBOLIC complex numbers (words drawn from a fixed pool over up to three wires, including
the identity word, overlapping and disjoint supports, string wire labels) go through the REAL PauliWord / PauliSentence
arithmetic: product (@), sum, difference, scalar multiple, commutator, map_wires, simplify, trace, operation(), the dense to_mat
for several wire orders, qp.pauli.pauli_sentence(op) and qp.pauli_decompose(matrix).  z3 proves for all coefficient values that
the dense matrix of the result equals the same operation on matrices that are built HERE from Kronecker products of the 2x2 Pauli
matrices (own oracle), and that the conversions round-trip.
Sparse matrices (csr formats, buffer sizes) cannot hold solver terms: outside.
"""
from __future__ import annotations

import itertools

import numpy as np
import pennylane as qp
from pennylane.pauli import PauliWord, PauliSentence

from vf import symx as sx, obl

P2 = {"I": np.array([[1, 0], [0, 1]], dtype=object), "X": np.array([[0, 1], [1, 0]], dtype=object), "Y": np.array([[0, -1j], [1j, 0]], dtype=object), "Z": np.array([[1, 0], [0, -1]], dtype=object)}
WORDS = {
    "X0Y1": {0: "X", 1: "Y"}, "Z1": {1: "Z"}, "Y0X2": {0: "Y", 2: "X"}, "I": {}, "Z0Z1Z2": {0: "Z", 1: "Z", 2: "Z"}, "X1": {1: "X"}, "Y2": {2: "Y"}, "X0": {0: "X"}, "Y0Z2": {0: "Y", 2: "Z"},
}
SENTS = {
    "s1": ["X0Y1", "Z1"], "s2": ["Y0X2", "I"], "s3": ["Z0Z1Z2", "X1", "Y2"], "s4": ["X0", "X0Y1", "I"], "s5": ["Y0Z2"], "s6": ["Z1", "X1"],
}
ORDERS = [[0, 1, 2], [2, 0, 1], [1, 2, 0]]


def word_matrix(spec, order):
    M = np.array([[1]], dtype=object)
    for w in order:
        M = np.kron(M, P2[spec.get(w, "I")])
    return M


def sym_sentence(S, sname, tag):
    coeffs = {w: S.cplx(f"{tag}_{w}") for w in SENTS[sname]}
    ps = PauliSentence({PauliWord(WORDS[w]): c for w, c in coeffs.items()})
    return ps, coeffs


def oracle_matrix(coeffs, order):
    M = np.zeros((2 ** len(order),) * 2, dtype=object)
    for w, c in coeffs.items():
        M = M + word_matrix(WORDS[w], order) * c
    return M


def _flat(x):
    return [v for v in sx.arr(np.asarray(x, dtype=object)).ravel()]


def case(S, kind, a, b, order):
    """-> (got matrix/values, expected)"""
    pa, ca = sym_sentence(S, a, "a")
    A = oracle_matrix(ca, order)
    if kind == "to_mat":
        return pa.to_mat(order), A
    if kind == "operation":
        return qp.matrix(pa.operation(), wire_order=order), A
    if kind == "operation->pauli_sentence":
        back = qp.pauli.pauli_sentence(pa.operation())
        return back.to_mat(order), A
    if kind == "map_wires":
        wm = {0: 1, 1: 2, 2: 0}
        mapped = pa.map_wires(wm)
        exp = np.zeros_like(A)
        for w, c in ca.items():
            exp = exp + word_matrix({wm[k]: v for k, v in WORDS[w].items()}, order) * c
        return mapped.to_mat(order), exp
    if kind == "scalar":
        z = S.cplx("z")
        return (np.array(z, dtype=object) * pa).to_mat(order), A * z
    if kind == "trace":
        return [pa.trace()], [np.trace(A) * sx.F(1, 2 ** len(order))] if False else [ca.get("I", 0)]
    if kind == "pauli_decompose":
        # Hermitian part only: decompose the oracle matrix of a sentence with REAL coefficients
        ws = sorted({k for w in SENTS[a] for k in WORDS[w]}) or [0]
        sub = [w for w in order if w in ws]
        cr = {w: S.real(f"r_{w}") for w in SENTS[a]}
        Hm = oracle_matrix(cr, sub)
        dec = qp.pauli_decompose(Hm, pauli=True, wire_order=sub)
        return dec.to_mat(sub), Hm
    pb, cb = sym_sentence(S, b, "b")
    B = oracle_matrix(cb, order)
    if kind == "product":
        return (pa @ pb).to_mat(order), np.dot(A, B)
    if kind == "sum":
        return (pa + pb).to_mat(order), A + B
    if kind == "difference":
        return (pa - pb).to_mat(order), A - B
    if kind == "commutator":
        return pa.commutator(pb).to_mat(order), np.dot(A, B) - np.dot(B, A)
    if kind == "product simplified, operator form":
        pr = pa @ pb
        pr.simplify()
        return qp.matrix(pr.operation(wire_order=order), wire_order=order), np.dot(A, B)
    if kind == "word product":
        # every word of a times every word of b: phase and word
        outs, exps = [], []
        for wa in SENTS[a]:
            for wb in SENTS[b]:
                r = PauliWord(WORDS[wa]) @ PauliWord(WORDS[wb])
                if isinstance(r, tuple):
                    word, phase = r
                    outs.append(word_matrix(dict(word), order) * phase)
                else:
                    outs.append(np.asarray(r.to_mat(order), dtype=object))
                exps.append(np.dot(word_matrix(WORDS[wa], order), word_matrix(WORDS[wb], order)))
        return np.array(outs, dtype=object), np.array(exps, dtype=object)
    raise KeyError(kind)


UNARY = ["to_mat", "operation", "operation->pauli_sentence", "map_wires", "scalar", "trace", "pauli_decompose"]
BINARY = ["product", "sum", "difference", "commutator", "product simplified, operator form", "word product"]


class _NumS:
    def __init__(self, vals):
        self.vals, self.k = vals, 0

    def _v(self, name):
        if name in self.vals:
            return float(self.vals[name])
        self.k += 1
        return float(np.cos(2.3 * self.k + len(name)))

    def real(self, name):
        return self._v(name)

    def cplx(self, name):
        return complex(self._v(name + "_re"), self._v(name + "_im"))


def _num(kind, a, b, order, vals):
    try:
        got, exp = case(_NumS(vals), kind, a, b, order)
    except Exception as e:
        return True, f"{kind}({a},{b}) order {order}: raised {e!r}"
    g, e = np.asarray(got, dtype=complex).ravel(), np.asarray(exp, dtype=complex).ravel()
    if g.shape != e.shape:
        return True, f"{kind}({a},{b}) order {order}: shapes {g.shape} vs {e.shape}"
    d = float(np.max(np.abs(g - e)))
    thr = (1e-6 if "simplified" in kind else 1e-9) * max(1.0, float(np.max(np.abs(e))))
    return d > thr, f"{kind}({a},{b}) wire order {order}: max|library - matrix algebra| = {d:.3g}"


def replay(p):
    return _num(p["kind"], p["a"], p["b"], p["order"], p["values"])


def work(item):
    kind, a, b, order = item
    name = f"{kind}({a}{', ' + b if b else ''}) in wire order {order}"
    sx.install_shims()

    def bld(S):
        return case(S, kind, a, b, order)

    def consume(S, v, i):
        got, exp = v

        def rp(model):
            vals = dict(model.get("vars", {}))
            ok, obs = _num(kind, a, b, order, vals)
            return ok, {"kind": kind, "a": a, "b": b, "order": order, "values": vals, "observed": obs}

        g, e = _flat(got), _flat(exp)
        if len(g) != len(e):
            ok, obs = _num(kind, a, b, order, {})
            return [{"name": name + ": shape", "status": "violated" if ok else "inconclusive", "symbols": ["coefficients"], "nontrivial": True, "queries": 0, "signature": kind, "detail": obs,
                     "replay": {"kind": kind, "a": a, "b": b, "order": order, "values": {}, "observed": obs}}]
        # simplify() drops terms below its tolerance (1e-8) by design: that operation is compared up to 1e-6
        tol = 1e-6 if "simplified" in kind else None
        return [obl.prove(S, f"{name} (path {i}): matrix of the library result == the operation on Kronecker-product matrices" + (" up to 1e-6" if tol else ""), g, e, replay=rp, signature=f"{kind}:{a}:{b}", timeout=60, tol=tol)]

    try:
        return obl.run_instance(name, bld, consume, max_paths=300 if kind in ("pauli_decompose", "product simplified, operator form") else 32)
    except (TypeError, AttributeError, IndexError, KeyError, ValueError) as e:
        import traceback

        tb = traceback.format_exc(limit=6)[-600:]
        ok, obs = _num(kind, a, b, order, {})
        if ok:
            return [{"name": name + ": evaluates", "status": "violated", "symbols": ["coefficients"], "nontrivial": True, "queries": 0, "signature": kind + ":raises", "detail": obs,
                     "replay": {"kind": kind, "a": a, "b": b, "order": order, "values": {}, "observed": obs}}]
        return [{"name": name, "status": "unsupported", "detail": f"{e!r} {tb}"}]


def run(ctx):
    ctx.level = "proof"
    items = []
    orders = ORDERS if ctx.tier == "thorough" else ORDERS[:2]
    for order in orders:
        for a in SENTS:
            for k in UNARY:
                items.append((k, a, None, order))
        pairs = list(itertools.product(SENTS, repeat=2)) if ctx.tier == "thorough" else [("s1", "s2"), ("s2", "s1"), ("s1", "s3"), ("s3", "s4"), ("s4", "s4"), ("s5", "s6"), ("s6", "s1"), ("s3", "s3"), ("s2", "s5")]
        for a, b in pairs:
            for k in BINARY:
                if "simplified" in k and len(SENTS[a]) * len(SENTS[b]) > (2 if ctx.tier == "quick" else 4):
                    continue  # simplify() forks on every coefficient == 0 test: 2^terms paths
                items.append((k, a, b, order))
        for a, b in (("s5", "s6"), ("s6", "s5"), ("s5", "s5")):
            if ("product simplified, operator form", a, b, order) not in items:
                items.append(("product simplified, operator form", a, b, order))
    if ctx.only:
        items = [it for it in items if ctx.only in f"{it[0]}({it[1]}"]
    ctx.shapes = len(items)
    ctx.encode(PauliWord.__matmul__, PauliSentence.__matmul__, PauliSentence.__add__, PauliSentence.commutator, PauliSentence.to_mat, PauliSentence.operation, PauliSentence.simplify, PauliSentence.map_wires,
               qp.pauli.pauli_sentence, qp.pauli_decompose)
    ctx.bound(coefficients="all complex coefficient values (symbolic)", words=list(WORDS), sentences=SENTS, wire_orders=orders,
              outside="sparse matrices (csr format, buffer_size), pauli_decompose on sparse input, string wire labels, more than 3 wires, batched coefficients")
    ctx.assume(*sx.SHIM_NOTES, "oracle: Kronecker products of the 2x2 Pauli matrices in the requested wire order")
    ctx.rule = "one obligation per (operation, operand sentences, wire order, path); non-trivial = mentions symbolic coefficients"
    ctx.pmap(work, items, timeout_each=600)
