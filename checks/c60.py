"""C60 Classical-shadow estimators are exactly unbiased (E1).

The state is a density matrix with SYMBOLIC entries (an arbitrary Hermitian matrix on 1 and 2 qubits; the identities are linear
in rho so no normalisation is needed).  For every measurement recipe r in {X, Y, Z}^n and every outcome b the REAL
ClassicalShadow (local_snapshots / global_snapshots / expval) is evaluated on that single (bits, recipes) pair; the documented
sampling law is the Born rule for the single-qubit Pauli measurements named by the recipes (recipe 0, 1, 2 = X, Y, Z; bit b =
eigenvalue (-1)^b), written here with explicit eigenprojectors.  z3 proves for all rho:
    sum_r sum_b 3^-n * tr(rho P_{r,b}) * snapshot(b, r) == rho                         (local and global snapshots),
    sum_r sum_b 3^-n * tr(rho P_{r,b}) * expval_estimate(P_word; b, r) == tr(rho P_word)   for every Pauli word on the wires,
and that each local snapshot factor is 3 * (eigenprojector of the recipe's Pauli for the measured bit) - identity.
Device sampling of bits and recipes (random number generation) is statistical: outside.
"""
from __future__ import annotations

import itertools

import numpy as np
import pennylane as qp
from pennylane.shadows import ClassicalShadow

from vf import symx as sx, obl

PAULI = {0: np.array([[0, 1], [1, 0]], dtype=complex), 1: np.array([[0, -1j], [1j, 0]], dtype=complex), 2: np.array([[1, 0], [0, -1]], dtype=complex)}
NAMES = {0: "X", 1: "Y", 2: "Z"}


def projector(r, b):
    return (np.eye(2) + (1 - 2 * b) * PAULI[r]) / 2


def sym_herm(S, n):
    d = 2 ** n
    M = np.zeros((d, d), dtype=object)
    for i in range(d):
        M[i, i] = S.real(f"r{i}_{i}")
        for j in range(i + 1, d):
            z = S.cplx(f"r{i}_{j}")
            M[i, j] = z
            M[j, i] = z.conjugate() if isinstance(z, sx.SymC) else np.conj(z)
    return M


def kron_all(ms):
    out = np.array([[1]], dtype=complex)
    for m in ms:
        out = np.kron(out, m)
    return out


def cases(n):
    """[(recipes, bits, P_{r,b} (global projector))]"""
    out = []
    for rs in itertools.product(range(3), repeat=n):
        for bs in itertools.product(range(2), repeat=n):
            out.append((rs, bs, kron_all([projector(r, b) for r, b in zip(rs, bs)])))
    return out


def weight(rho, P):
    """tr(rho P) with symbolic rho"""
    d = rho.shape[0]
    return sum((rho[i, j] * P[j, i] for i in range(d) for j in range(d) if P[j, i] != 0), 0)


def build(n, kind, word, rho):
    """-> (lhs, rhs) flat lists"""
    acc = None
    target = None
    for rs, bs, P in cases(n):
        sh = ClassicalShadow(np.array([list(bs)]), np.array([list(rs)]))
        w = weight(rho, P) * (1.0 / 3 ** n)
        if kind == "local":
            loc = sh.local_snapshots()[0]
            snap = kron_all([loc[q] for q in range(n)])
        elif kind == "global":
            snap = np.asarray(sh.global_snapshots()[0], dtype=complex)
        else:
            H = qp.pauli.string_to_pauli_word(word) if False else None
            ob = None
            for q, c in enumerate(word):
                if c != "I":
                    o = {"X": qp.PauliX, "Y": qp.PauliY, "Z": qp.PauliZ}[c](q)
                    ob = o if ob is None else ob @ o
            est = sh.expval(ob, k=1)
            snap = np.array([[complex(np.asarray(est).item())]])
        term = np.asarray(snap, dtype=object) * w
        acc = term if acc is None else acc + term
    if kind in ("local", "global"):
        target = rho
    else:
        Pw = kron_all([np.eye(2) if c == "I" else PAULI["XYZ".index(c)] for c in word])
        target = np.array([[weight(rho, Pw)]], dtype=object)
    return [x for x in acc.ravel()], [x for x in np.asarray(target, dtype=object).ravel()]


class _NumS:
    def __init__(self, vals):
        self.vals, self.k = vals, 0

    def _v(self, name):
        if name in self.vals:
            return float(self.vals[name])
        self.k += 1
        return float(np.sin(1.3 * self.k + len(name)))

    def real(self, name):
        return self._v(name)

    def cplx(self, name):
        return complex(self._v(name + "_re"), self._v(name + "_im"))


def _num(n, kind, word, vals):
    try:
        lhs, rhs = build(n, kind, word, sym_herm(_NumS(vals), n))
    except Exception as e:  # noqa: BLE001
        return True, f"{kind} ({n} qubits, {word}): raised {e!r}"
    d = max(abs(complex(a) - complex(b)) for a, b in zip(lhs, rhs))
    return d > 1e-6, f"{kind} shadow average over all recipes and outcomes on {n} qubit(s){' for ' + word if word else ''}: max deviation from {'rho' if not word else 'tr(rho P)'} = {d:.3g}"


def replay(p):
    if p["kind"] == "factor":
        pr = factor_problem()
        return bool(pr), pr or "factors agree"
    if p["kind"] == "device":
        pr = device_problem()
        return bool(pr), pr or "documented form"
    return _num(p["n"], p["kind"], p.get("word"), p["values"])


def factor_problem():
    for r in range(3):
        for b in range(2):
            loc = ClassicalShadow(np.array([[b]]), np.array([[r]])).local_snapshots()[0][0]
            want = 3 * projector(r, b) - np.eye(2)
            if np.max(np.abs(np.asarray(loc, dtype=complex) - want)) > 1e-7:
                return f"local snapshot for recipe {NAMES[r]} and bit {b} is {np.round(loc, 3).tolist()}, expected 3*P - 1 = {np.round(want, 3).tolist()}"
    return None


def device_problem():
    """documented form of the device measurement, on probability-one facts of the product state |+>|1>|0>: column j of bits / recipes
    belongs to wires[j]; recipe 2 (Z) on the |1> wire gives bit 1, on the |0> wire bit 0; recipe 0 (X) on the |+> wire gives bit 0"""
    dev = qp.device("default.qubit", wires=3, seed=11)
    for ws in ([0, 1, 2], [1, 0], [2, 0, 1], [2, 1], [0], [2]):
        tape = qp.tape.QuantumScript([qp.Hadamard(0), qp.PauliX(1)], [qp.classical_shadow(wires=ws, seed=5)], shots=80)
        res = qp.execute([tape], dev)[0]
        res = np.asarray(res)
        if res.shape != (2, 80, len(ws)):
            return f"classical_shadow(wires={ws}): result shape {res.shape}, documented (2, shots, n) = (2, 80, {len(ws)})"
        bits, recipes = res[0], res[1]
        if not set(np.unique(bits)) <= {0, 1} or not set(np.unique(recipes)) <= {0, 1, 2}:
            return f"classical_shadow(wires={ws}): bits / recipes outside {{0,1}} / {{0,1,2}}"
        for j, w in enumerate(ws):
            for t in range(80):
                r, b = int(recipes[t, j]), int(bits[t, j])
                want = {(0, 0): 0, (1, 2): 1, (2, 2): 0}.get((w, r))
                if want is not None and b != want:
                    return f"classical_shadow(wires={ws}): shot {t}, column {j} (wire {w}) has recipe {NAMES[r]} and bit {b}; the state |+>|1>|0> gives bit {want} with probability one"
    return None


def work(item):
    n, kind, word = item
    if kind == "device":
        try:
            pr = device_problem()
        except Exception as e:  # noqa: BLE001
            pr = f"raised {e!r}"
        rec = {"name": "device classical_shadow: shape (2, shots, n), value ranges and column-to-wire assignment on probability-one facts", "status": "violated" if pr else "discharged", "symbols": [], "nontrivial": False, "queries": 0, "detail": pr or "documented form"}
        if pr:
            rec.update(signature="device", replay={"kind": "device", "observed": pr})
        return [rec]
    if kind == "factor":
        pr = factor_problem()
        rec = {"name": "local snapshot factor == 3 * eigenprojector(recipe, bit) - identity for all 6 (recipe, bit) pairs", "status": "violated" if pr else "discharged", "symbols": [], "nontrivial": False, "queries": 0, "detail": pr or "agree (up to the library's complex64 cast, 1e-7)"}
        if pr:
            rec.update(signature="factor", replay={"kind": "factor", "observed": pr})
        return [rec]
    name = f"{kind} shadow average, {n} qubit(s)" + (f", Pauli word {word}" if word else "")
    sx.install_shims()

    def b(S):
        return build(n, kind, word, sym_herm(S, n))

    def consume(S, v, i):
        lhs, rhs = v

        def rp(model):
            vals = dict(model.get("vars", {}))
            ok, obs = _num(n, kind, word, vals)
            return ok, {"kind": kind, "n": n, "word": word, "values": vals, "observed": obs}

        # local_snapshots casts through complex64: the identity is exact up to single-precision rounding of the factors (1e-6)
        return [obl.prove(S, f"{name}: sum over all {3 ** n * 2 ** n} (recipe, outcome) pairs weighted by their Born probabilities == {'rho' if not word else 'tr(rho P)'}", lhs, rhs, replay=rp, signature=f"{kind}:{n}", timeout=120, tol=1e-6,
                          extra=bound_entries(S))]

    try:
        return obl.run_instance(name, b, consume)
    except (TypeError, AttributeError, IndexError, KeyError, ValueError) as e:
        import traceback

        tb = traceback.format_exc(limit=6)[-600:]
        ok, obs = _num(n, kind, word, {})
        if ok:
            return [{"name": name, "status": "violated", "symbols": ["rho"], "nontrivial": True, "queries": 0, "signature": f"{kind}:{n}", "detail": obs, "replay": {"kind": kind, "n": n, "word": word, "values": {}, "observed": obs}}]
        return [{"name": name, "status": "unsupported", "detail": f"{e!r} {tb}"}]


def bound_entries(S):
    out = []
    import re as _re

    for nm, idx in S.V.index.items():
        if idx and _re.fullmatch(r"r\d+_\d+(_re|_im)?", nm):  # the state entries only (not the algebraic constants r2, r3, ...)
            v = S.zvar(idx)
            out += [v <= 1, v >= -1]
    return out


def run(ctx):
    ctx.level = "other"
    items = [(0, "device", None), (0, "factor", None), (1, "local", None), (1, "global", None), (2, "local", None), (2, "global", None)]
    items += [(1, "expval", w) for w in "XYZ"] + [(2, "expval", w) for w in ("XI", "IZ", "XY", "ZZ", "YX", "YY")]
    if ctx.only:
        items = [it for it in items if ctx.only in str(it)]
    ctx.shapes = len(items)
    ctx.encode(ClassicalShadow.local_snapshots, ClassicalShadow.global_snapshots, ClassicalShadow.expval)
    ctx.bound(states="all Hermitian matrices with entries in [-1, 1] (symbolic) on 1 and 2 qubits", recipes="all 3^n recipes and 2^n outcomes", observables="Pauli words on 1-2 qubits, k = 1",
              outside="device sampling of bits / recipes (random number generation: statistical), median-of-means with k > 1 on several snapshots, entropy (matrix logarithm), more than 2 qubits")
    ctx.assume(*sx.SHIM_NOTES[:3], "sampling law: Born rule with the eigenprojectors of X, Y, Z for recipes 0, 1, 2 and bit b = eigenvalue (-1)^b (documented form of the shadow measurement)",
               "identities proved up to 1e-6: local_snapshots passes its factors through complex64")
    ctx.rule = "one obligation per (estimator, number of qubits, observable); non-trivial = mentions the symbolic state"
    ctx.pmap(work, items, timeout_each=600)
