"""C69 Spin-model Hamiltonians match their textbook sums (E1 for the couplings; structural comparison for the lattices).

(a) Lattices: generate_lattice for the Cartesian shapes (chain, square, rectangle, cubic) over a range of sizes, open / periodic
    boundary conditions per axis and neighbour orders 1-2 is compared with an independent neighbour relation written here: sites
    are numbered row-major, two sites are k-th neighbours iff their minimal-image squared distance is the k-th smallest value
    (1, 2 resp. 1, 4 for the chain).  Number of sites, edge set and edge orders must agree.
(b) Hamiltonians: transverse_ising and heisenberg are called with SYMBOLIC coupling constants (positive reals J1, J2 / Jx, Jy, Jz / h,
    and full symbolic coupling matrices) on those lattices; the returned operator is converted to a Pauli sentence by the library
    and z3 proves, coefficient by coefficient and for all coupling values, equality with the textbook sum built from the
    independent neighbour relation:  H_TFIM = -sum_<ij> J Z_i Z_j - h sum_i X_i,  H_Heis = sum_<ij> (Jx XX + Jy YY + Jz ZZ).
    Hermiticity: every coefficient of the sentence is real for real couplings (proved).
(c) Custom edges: Lattice(custom_edges=[[(a, b), (operators, c_k)], ...]) followed by spin_hamiltonian, with one SYMBOLIC coefficient per
    custom edge: z3 proves every Pauli-word coefficient equal to the sum over the translated copies of each edge (every unit cell whose
    translate stays inside the lattice for open axes, wrapped for periodic ones), for edges pointing forwards and backwards.
Fermionic models (fermi_hubbard, emery, haldane) depend on the fermion-to-qubit mapping (C53) and kitaev / non-Cartesian shapes on
geometry conventions that were not re-derived independently: outside.
"""
from __future__ import annotations

import itertools

import numpy as np
import pennylane as qp

from vf import symx as sx, obl

SHAPES = {"chain": 1, "square": 2, "rectangle": 2, "cubic": 3}


def sites(n_cells):
    return list(itertools.product(*[range(n) for n in n_cells]))


def own_edges(n_cells, bc, order):
    """{(i, j): k} with i < j, k = neighbour order index (0 = nearest)"""
    pts = sites(n_cells)
    dim = len(n_cells)
    bc = [bc] * dim if isinstance(bc, bool) else list(bc)
    d2_levels = [1, 4] if dim == 1 else [1, 2]
    out = {}
    for a, b in itertools.combinations(range(len(pts)), 2):
        d2 = 0
        for ax in range(dim):
            d = abs(pts[a][ax] - pts[b][ax])
            if bc[ax]:
                d = min(d, n_cells[ax] - d)
            d2 += d * d
        for k in range(order):
            if d2 == d2_levels[k]:
                out[(a, b)] = k
    return out


LATTICE_CASES = []
for shape, dim in SHAPES.items():
    sizes = {1: [[2], [3], [5], [6]], 2: [[2, 2], [2, 3], [3, 3], [3, 5], [5, 5]], 3: [[2, 2, 2], [3, 2, 3], [3, 3, 3]]}[dim]
    for n in sizes:
        for bc in [False, True] + ([[True, False], [False, True]] if dim == 2 else ([[True, False, True]] if dim == 3 else [])):
            for order in (1, 2):
                bcl = [bc] * dim if isinstance(bc, bool) else bc
                # keep clear of degenerate wrap-arounds: a periodic axis needs more than 2*order sites
                if any(b and m <= 2 * order for b, m in zip(bcl, n)):
                    continue
                LATTICE_CASES.append((shape, n, bc, order))


def lattice_problem(shape, n, bc, order):
    lat = qp.spin.generate_lattice(shape, n, bc, order)
    exp = own_edges(n, bc, order)
    got = {}
    for e in lat.edges:
        i, j, k = e
        key = (min(i, j), max(i, j))
        if key in got and got[key] != k:
            return f"edge {key} listed with two different orders"
        got[key] = k
    if lat.n_sites != int(np.prod(n)):
        return f"n_sites {lat.n_sites} != {int(np.prod(n))}"
    if got != exp:
        missing = sorted(set(exp.items()) - set(got.items()))[:4]
        extra = sorted(set(got.items()) - set(exp.items()))[:4]
        return f"edges differ: missing {missing}, unexpected {extra}"
    if len(lat.edges) != len(exp):
        return f"{len(lat.edges)} edges listed, {len(exp)} distinct neighbour pairs"
    return None


def lattice_work(item):
    shape, n, bc, order = item
    name = f"lattice {shape} {n} boundary {bc} neighbour_order {order}"
    try:
        p = lattice_problem(shape, n, bc, order)
    except Exception as e:  # noqa: BLE001
        p = f"raised {e!r}"
    rec = {"name": name + ": sites and neighbour pairs", "status": "violated" if p else "discharged", "symbols": [], "nontrivial": False, "queries": 0, "detail": p or "equal to the independent minimal-image neighbour relation"}
    if p:
        rec.update(signature=f"lattice:{shape}", replay={"kind": "lattice", "shape": shape, "n": n, "bc": bc, "order": order, "observed": p})
    return [rec]


# ---------------------------------------------------------------- Hamiltonians
HAM_CASES = []
for shape, n, bc, order in [("chain", [3], False, 1), ("chain", [5], True, 2), ("square", [2, 2], False, 1), ("square", [3, 3], [True, False], 1), ("rectangle", [2, 3], False, 2), ("square", [3, 3], True, 1), ("cubic", [2, 2, 2], False, 1)]:
    for model in ("transverse_ising", "heisenberg"):
        HAM_CASES.append((model, shape, n, bc, order, "per-order couplings"))
for model in ("transverse_ising", "heisenberg"):
    HAM_CASES.append((model, "chain", [3], False, 1, "coupling matrix"))
    if model == "transverse_ising":  # heisenberg with a full 3x4x4 symbolic matrix exceeds the path budget of the zero tests in simplify()
        HAM_CASES.append((model, "square", [2, 2], False, 1, "coupling matrix"))


def build_ham(S, model, shape, n, bc, order, mode, concrete=None):
    """-> (library operator, expected {pauli word dict: coefficient})"""
    def R(name):
        if concrete is not None:
            return concrete[name]
        v = S.real(name)
        # couplings bounded away from zero: simplify() drops terms with |coefficient| <= 1e-8 (tolerance) by design
        S.constrain(">0", sx.P.sub(v.p, sx.P.const(sx.F(1, 1000))))
        return v

    edges = own_edges(n, bc, order)
    ns = int(np.prod(n))
    exp = {}

    def add(word, c):
        key = tuple(sorted(word.items()))
        exp[key] = exp.get(key, 0) + c

    if model == "transverse_ising":
        h = R("h")
        if mode == "per-order couplings":
            J = [R(f"J{k}") for k in range(order)]
            H = qp.spin.transverse_ising(shape, n, coupling=J, h=h, boundary_condition=bc, neighbour_order=order)
            for (i, j), k in edges.items():
                add({i: "Z", j: "Z"}, -J[k])
        else:
            M = [[R(f"J{min(i, j)}_{max(i, j)}") if i != j else 0.0 for j in range(ns)] for i in range(ns)]
            H = qp.spin.transverse_ising(shape, n, coupling=np.array(M, dtype=object if concrete is None else float), h=h, boundary_condition=bc, neighbour_order=order)
            for (i, j), k in edges.items():
                add({i: "Z", j: "Z"}, -M[i][j])
        for v in range(ns):
            add({v: "X"}, -h)
    else:
        if mode == "per-order couplings":
            J = [[R(f"J{k}{ax}") for ax in "xyz"] for k in range(order)]
            H = qp.spin.heisenberg(shape, n, coupling=J, boundary_condition=bc, neighbour_order=order)
            for (i, j), k in edges.items():
                for a, ax in enumerate("XYZ"):
                    add({i: ax, j: ax}, J[k][a])
        else:
            M = [[[R(f"J{ax}{min(i, j)}_{max(i, j)}") if i != j else 0.0 for j in range(ns)] for i in range(ns)] for ax in "xyz"]
            H = qp.spin.heisenberg(shape, n, coupling=np.array(M, dtype=object if concrete is None else float), boundary_condition=bc, neighbour_order=order)
            for (i, j), k in edges.items():
                for a, ax in enumerate("XYZ"):
                    add({i: ax, j: ax}, M[a][i][j])
    return H, exp


def sentence_of(H):
    ps = qp.pauli.pauli_sentence(H)
    out = {}
    for w, c in ps.items():
        out[tuple(sorted(dict(w).items()))] = c
    return out


def _num_ham(case, vals):
    model, shape, n, bc, order, mode = case
    class D(dict):
        def __missing__(self, k):
            return 0.37 + 0.11 * (sum(map(ord, k)) % 7)
    vals = {k: v for k, v in vals.items()}
    conc = D({k: float(v) for k, v in vals.items()})
    try:
        H, exp = build_ham(None, model, shape, n, bc, order, mode, concrete=conc)
        got = sentence_of(H)
    except Exception as e:  # noqa: BLE001
        return True, f"{model} on {shape} {n}: raised {e!r}"
    worst, where = 0.0, None
    for k in set(got) | set(exp):
        d = abs(complex(got.get(k, 0)) - complex(exp.get(k, 0)))
        if d > worst:
            worst, where = d, k
    return worst > 1e-9, f"{model} on {shape} {n} bc {bc} order {order} ({mode}): max coefficient deviation {worst:.3g} at word {where}"


# ---------------------------------------------------------------- custom edges (translated to every unit cell) through spin_hamiltonian
# (n_cells, sites per unit cell, boundary condition, [(site a, site b, operators)]): one symbolic coefficient per custom edge
CUSTOM_CASES = [
    ([3, 3], 1, False, [(0, 1, "XX"), (0, 3, "YY"), (0, 4, "XY")]),
    ([3, 3], 1, False, [(1, 0, "XZ"), (3, 1, "ZY"), (4, 0, "XX")]),          # edges stepping backwards along an axis
    ([3, 4], 1, [True, False], [(0, 1, "XX"), (1, 4, "ZZ"), (5, 0, "YZ")]),
    ([4, 3], 1, [False, True], [(3, 0, "XY"), (0, 2, "ZZ"), (0, 7, "YY")]),
    ([4], 1, False, [(0, 2, "XX"), (3, 2, "YZ")]),
    ([5], 1, True, [(0, 2, "ZZ"), (1, 0, "XY")]),
    ([2, 2], 2, False, [(0, 1, "XX"), (1, 2, "YY"), (1, 4, "ZZ"), (3, 0, "XZ")]),
    ([3, 2], 2, [True, False], [(0, 1, "XX"), (1, 2, "YY"), (0, 5, "ZX"), (6, 1, "YZ")]),
    ([2, 2, 3], 1, False, [(0, 1, "XX"), (0, 3, "YY"), (0, 6, "ZZ"), (7, 0, "XY"), (2, 0, "ZX")]),
    ([2, 3, 2], 1, [False, True, False], [(0, 2, "XX"), (1, 0, "YZ"), (6, 1, "ZZ")]),
]


def custom_expected(n_cells, n_sl, bc, edges, coeffs):
    """independent translation model: {pauli word: coefficient}; site = row-major cell index * n_sl + sublattice"""
    dim = len(n_cells)
    bcl = [bc] * dim if isinstance(bc, bool) else list(bc)

    def unravel(c):
        out = []
        for m in reversed(n_cells):
            out.append(c % m)
            c //= m
        return out[::-1]

    def ravel(cell):
        c = 0
        for x, m in zip(cell, n_cells):
            c = c * m + x
        return c

    exp = {}
    for (a, b, ops), co in zip(edges, coeffs):
        ca, sa = divmod(a, n_sl)
        cb, sb = divmod(b, n_sl)
        t = [y - x for x, y in zip(unravel(ca), unravel(cb))]
        for cell in itertools.product(*[range(m) for m in n_cells]):
            tgt = []
            for ax in range(dim):
                y = cell[ax] + t[ax]
                if bcl[ax]:
                    y %= n_cells[ax]
                elif not 0 <= y < n_cells[ax]:
                    tgt = None
                    break
                tgt.append(y)
            if tgt is None:
                continue
            i, j = ravel(cell) * n_sl + sa, ravel(tgt) * n_sl + sb
            key = tuple(sorted({i: ops[0], j: ops[1]}.items()))
            exp[key] = exp.get(key, 0) + co
    return exp


def custom_build(S, case, concrete=None):
    n_cells, n_sl, bc, edges = case
    dim = len(n_cells)
    co = []
    for k in range(len(edges)):
        if concrete is not None:
            co.append(concrete.get(f"c{k}", 0.3 + 0.2 * k))
        else:
            v = S.real(f"c{k}")
            S.constrain(">0", sx.P.sub(v.p, sx.P.const(sx.F(1, 1000))))
            co.append(v)
    positions = [[0.0] * dim] if n_sl == 1 else [[0.0] * dim, [0.3] + [0.4] * (dim - 1)]
    lat = qp.spin.Lattice(n_cells=n_cells, vectors=np.eye(dim).tolist(), positions=positions, boundary_condition=bc,
                          custom_edges=[[(a, b), (ops, c)] for (a, b, ops), c in zip(edges, co)])
    H = qp.spin.spin_hamiltonian(lat)
    return H, custom_expected(n_cells, n_sl, bc, edges, co)


def _num_custom(case, vals):
    try:
        H, exp = custom_build(None, case, concrete=vals)
        got = sentence_of(H)
    except Exception as e:  # noqa: BLE001
        return True, f"custom edges {case}: raised {e!r}"
    keys = set(got) | set(exp)
    bad = [(k, complex(got.get(k, 0)), complex(exp.get(k, 0))) for k in keys if abs(complex(got.get(k, 0)) - complex(exp.get(k, 0))) > 1e-9]
    return bool(bad), f"spin_hamiltonian on Lattice(n_cells={case[0]}, {case[1]} site(s) per cell, boundary {case[2]}, custom_edges={case[3]}): {len(bad)} Pauli words differ from the translated copies, e.g. {sorted(bad)[:3]}"


def custom_work(case):
    case = (list(case[0]), case[1], case[2], [tuple(e) for e in case[3]])
    name = f"custom edges {case[3]} on n_cells={case[0]}, {case[1]} site(s) per cell, boundary {case[2]}"
    sx.install_shims()

    def b(S):
        H, exp = custom_build(S, case)
        return sentence_of(H), exp

    def consume(S, v, i):
        got, exp = v

        def rp(model_):
            vals = dict(model_.get("vars", {}))
            ok, obs = _num_custom(case, vals)
            return ok, {"kind": "custom", "case": [case[0], case[1], case[2], [list(e) for e in case[3]]], "values": vals, "observed": obs}

        keys = sorted(set(got) | set(exp))
        return [obl.prove(S, f"{name} (path {i}): every Pauli-word coefficient ({len(keys)} words) == sum over the translated copies of each edge", [got.get(k, 0) for k in keys], [exp.get(k, 0) for k in keys],
                          replay=rp, signature="custom_edges", timeout=60)]

    try:
        return obl.run_instance(name, b, consume, max_paths=64)
    except (TypeError, AttributeError, IndexError, KeyError, ValueError) as e:
        import traceback

        tb = traceback.format_exc(limit=6)[-600:]
        ok, obs = _num_custom(case, {})
        if ok:
            return [{"name": name, "status": "violated", "symbols": ["coefficients"], "nontrivial": True, "queries": 0, "signature": "custom_edges", "detail": obs,
                     "replay": {"kind": "custom", "case": [case[0], case[1], case[2], [list(e) for e in case[3]]], "values": {}, "observed": obs}}]
        return [{"name": name, "status": "unsupported", "detail": f"{e!r} {tb}"}]


def replay(p):
    if p["kind"] == "lattice":
        pr = lattice_problem(p["shape"], p["n"], p["bc"], p["order"])
        return bool(pr), pr or "lattice agrees"
    if p["kind"] == "custom":
        c = p["case"]
        return _num_custom((c[0], c[1], c[2], [tuple(e) for e in c[3]]), p["values"])
    return _num_ham(tuple(p["case"]), p["values"])


def ham_work(case):
    model, shape, n, bc, order, mode = case
    name = f"{model} on {shape} {n} boundary {bc} neighbour_order {order}, {mode}"
    sx.install_shims()

    def b(S):
        H, exp = build_ham(S, model, shape, n, bc, order, mode)
        return sentence_of(H), exp

    def consume(S, v, i):
        got, exp = v

        def rp(model_):
            vals = dict(model_.get("vars", {}))
            ok, obs = _num_ham(case, vals)
            return ok, {"kind": "ham", "case": list(case), "values": vals, "observed": obs}

        keys = sorted(set(got) | set(exp))
        lhs = [got.get(k, 0) for k in keys]
        rhs = [exp.get(k, 0) for k in keys]
        recs = [obl.prove(S, f"{name} (path {i}): every Pauli-word coefficient ({len(keys)} words) == textbook sum over the independent neighbour pairs", lhs, rhs, replay=rp, signature=f"{model}:{shape}", timeout=60)]
        im = [sx.arr(np.asarray(c, dtype=object)).item().imag if isinstance(sx.arr(np.asarray(c, dtype=object)).item(), sx.SymC) else complex(c).imag for c in lhs]
        recs.append(obl.prove(S, f"{name} (path {i}): Hermitian (all coefficients real for real couplings)", im, [0] * len(im), replay=rp, signature=f"{model}:{shape}:hermitian", timeout=30))
        return recs

    try:
        return obl.run_instance(name, b, consume, max_paths=160)
    except (TypeError, AttributeError, IndexError, KeyError, ValueError) as e:
        import traceback

        tb = traceback.format_exc(limit=6)[-600:]
        ok, obs = _num_ham(case, {})
        if ok:
            return [{"name": name, "status": "violated", "symbols": ["couplings"], "nontrivial": True, "queries": 0, "signature": f"{model}:{shape}", "detail": obs, "replay": {"kind": "ham", "case": list(case), "values": {}, "observed": obs}}]
        return [{"name": name, "status": "unsupported", "detail": f"{e!r} {tb}"}]


def _dispatch(it):
    if it[0] == "custom":
        return custom_work(it[1])
    return lattice_work(it[1]) if it[0] == "lattice" else ham_work(it[1])


def run(ctx):
    ctx.level = "other"
    items = [("lattice", c) for c in LATTICE_CASES] + [("ham", c) for c in HAM_CASES] + [("custom", c) for c in CUSTOM_CASES]
    if ctx.only:
        items = [it for it in items if ctx.only in str(it)]
    ctx.shapes = len(items)
    ctx.encode(qp.spin.generate_lattice, qp.spin.transverse_ising, qp.spin.heisenberg)
    ctx.bound(lattices=f"{len(LATTICE_CASES)} Cartesian lattices (chain, square, rectangle, cubic; sizes up to 5x5 / 3x3x3; open, periodic and mixed boundaries; neighbour orders 1-2; periodic axes longer than 2*order)",
              hamiltonians=f"{len(HAM_CASES)} (model, lattice) pairs with symbolic positive couplings (per-order lists and full coupling matrices)",
              custom_edges=f"{len(CUSTOM_CASES)} lattices (1-3 dimensions, 1-2 sites per unit cell, open / periodic / mixed boundaries) with 2-5 custom edges each, incl. edges stepping backwards along an axis; one symbolic coefficient per edge, through spin_hamiltonian",
              outside="triangle, honeycomb, kagome, lieb, bcc, fcc, diamond lattices; custom nodes; non-orthogonal lattice vectors; fermi_hubbard, emery, haldane (fermion mapping), kitaev, spin_hamiltonian; negative or zero couplings (terms vanish)")
    ctx.assume(*sx.SHIM_NOTES[:3], "couplings are symbolic reals > 1e-3, so that no term of the sum falls under the 1e-8 tolerance of simplify()", "oracle: row-major site numbering and minimal-image distances")
    ctx.rule = "lattices: one structural obligation per lattice; Hamiltonians: z3 obligations per (model, lattice, coupling form) over all coupling values"
    ctx.pmap(_dispatch, items, timeout_each=900)
