"""C04 Operator equality is an equivalence compatible with matrices (E1, partial: symbolic parameters; tolerances read as exact).

Pairs of operators / measurement processes are built with SYMBOLIC parameters (angles, coefficients, exponents) by the builders
below; the REAL qp.equal runs on them.  Its numeric comparisons (allclose on parameters) fork the execution - the lifting reads a
tolerance comparison as exact equality, so "equal" below means "equal with all tolerance comparisons decided exactly".  For every
pair (X, Y) and every feasible path z3 proves / the path shows:
    symmetry      qp.equal(X, Y) and qp.equal(Y, X) give the same answer (on every path),
    soundness     on a path where qp.equal(X, Y) is True, matrix(X) == matrix(Y) for all parameter values admitted by the path
                  (measurement processes: same type, and their observables' matrices / wires agree),
    reflexivity   qp.equal(X, X), qp.equal(X, copy(X)), qp.equal(X, reconstruction of X from its data and metadata) are True on every path,
    congruence    two independent constructions with the same builder and the same symbolic arguments are equal on every path.
Pairs include single-field mutations (one parameter, one wire, a control value, an exponent, a coefficient, the operand order,
adjoint / power / controlled wrappers added or removed): for them soundness is the claim that matters - whenever qp.equal says
True the linear maps coincide.
Outside: the numeric size of rtol / atol (abstracted), Python hashes (hash() realises solver terms), interface-specific branches.
"""
from __future__ import annotations

import copy

import numpy as np
import pennylane as qp

from vf import symx as sx, obl

PN = ["a", "b", "c"]
W3 = [0, 1, 2]

# name -> builder(p) with p = [a, b, c] symbolic (or numeric on replay)
OPS = {
    "RX(a,0)": lambda p: qp.RX(p[0], 0), "RX(b,0)": lambda p: qp.RX(p[1], 0), "RX(a,1)": lambda p: qp.RX(p[0], 1), "RY(a,0)": lambda p: qp.RY(p[0], 0),
    "Rot(a,b,c,0)": lambda p: qp.Rot(p[0], p[1], p[2], 0), "Rot(a,c,b,0)": lambda p: qp.Rot(p[0], p[2], p[1], 0),
    "CRX(a,[0,1])": lambda p: qp.CRX(p[0], [0, 1]), "CRX(a,[1,0])": lambda p: qp.CRX(p[0], [1, 0]), "ctrl(RX(a,1),0)": lambda p: qp.ctrl(qp.RX(p[0], 1), control=0),
    "ctrl(RX(a,1),0,cv=0)": lambda p: qp.ctrl(qp.RX(p[0], 1), control=0, control_values=[0]),
    "ctrl(RZ(a,2),[0,1],cv=(1,0))": lambda p: qp.ctrl(qp.RZ(p[0], 2), control=[0, 1], control_values=[1, 0]), "ctrl(RZ(a,2),[0,1],cv=(0,1))": lambda p: qp.ctrl(qp.RZ(p[0], 2), control=[0, 1], control_values=[0, 1]),
    "ctrl(RZ(a,2),[1,0],cv=(0,1))": lambda p: qp.ctrl(qp.RZ(p[0], 2), control=[1, 0], control_values=[0, 1]),
    "adjoint(RX(a,0))": lambda p: qp.adjoint(qp.RX(p[0], 0)), "adjoint(adjoint(RX(a,0)))": lambda p: qp.adjoint(qp.adjoint(qp.RX(p[0], 0), lazy=True), lazy=True), "RX(-a,0)": lambda p: qp.RX(-p[0], 0),
    "pow(RX(a,0),2)": lambda p: qp.pow(qp.RX(p[0], 0), 2), "pow(RX(a,0),3)": lambda p: qp.pow(qp.RX(p[0], 0), 3), "pow(RX(a,0),b)": lambda p: qp.pow(qp.RX(p[0], 0), p[1]),
    "a*X(0)": lambda p: qp.s_prod(p[0], qp.PauliX(0)), "b*X(0)": lambda p: qp.s_prod(p[1], qp.PauliX(0)), "a*Y(0)": lambda p: qp.s_prod(p[0], qp.PauliY(0)),
    "RX(a,0)@RY(b,1)": lambda p: qp.prod(qp.RX(p[0], 0), qp.RY(p[1], 1)), "RY(b,1)@RX(a,0)": lambda p: qp.prod(qp.RY(p[1], 1), qp.RX(p[0], 0)),
    "RX(a,0)@RY(b,0)": lambda p: qp.prod(qp.RX(p[0], 0), qp.RY(p[1], 0)), "RY(b,0)@RX(a,0)": lambda p: qp.prod(qp.RY(p[1], 0), qp.RX(p[0], 0)),
    "a*X(0)+b*Z(1)": lambda p: qp.sum(qp.s_prod(p[0], qp.PauliX(0)), qp.s_prod(p[1], qp.PauliZ(1))), "b*Z(1)+a*X(0)": lambda p: qp.sum(qp.s_prod(p[1], qp.PauliZ(1)), qp.s_prod(p[0], qp.PauliX(0))),
    "b*X(0)+a*Z(1)": lambda p: qp.sum(qp.s_prod(p[1], qp.PauliX(0)), qp.s_prod(p[0], qp.PauliZ(1))),
    "LC([a,b],[X0,Z1])": lambda p: qp.ops.LinearCombination([p[0], p[1]], [qp.PauliX(0), qp.PauliZ(1)]), "LC([b,a],[Z1,X0])": lambda p: qp.ops.LinearCombination([p[1], p[0]], [qp.PauliZ(1), qp.PauliX(0)]),
    "LC([a,b],[Z1,X0])": lambda p: qp.ops.LinearCombination([p[0], p[1]], [qp.PauliZ(1), qp.PauliX(0)]),
    "IsingXX(a,[0,1])": lambda p: qp.IsingXX(p[0], [0, 1]), "IsingXX(a,[1,0])": lambda p: qp.IsingXX(p[0], [1, 0]), "PauliRot(a,XY,[0,1])": lambda p: qp.PauliRot(p[0], "XY", [0, 1]), "PauliRot(a,YX,[0,1])": lambda p: qp.PauliRot(p[0], "YX", [0, 1]),
    "PauliRot(a,YX,[1,0])": lambda p: qp.PauliRot(p[0], "YX", [1, 0]),
    "MultiRZ(a,[0,1,2])": lambda p: qp.MultiRZ(p[0], [0, 1, 2]), "MultiRZ(a,[2,0,1])": lambda p: qp.MultiRZ(p[0], [2, 0, 1]),
}
MPS = {
    "expval": lambda o: qp.expval(o), "var": lambda o: qp.var(o),
}
PAIRS = [
    ("RX(a,0)", "RX(b,0)"), ("RX(a,0)", "RX(a,1)"), ("RX(a,0)", "RY(a,0)"), ("Rot(a,b,c,0)", "Rot(a,c,b,0)"), ("CRX(a,[0,1])", "CRX(a,[1,0])"), ("CRX(a,[0,1])", "ctrl(RX(a,1),0)"),
    ("ctrl(RX(a,1),0)", "ctrl(RX(a,1),0,cv=0)"), ("ctrl(RZ(a,2),[0,1],cv=(1,0))", "ctrl(RZ(a,2),[0,1],cv=(0,1))"), ("ctrl(RZ(a,2),[0,1],cv=(1,0))", "ctrl(RZ(a,2),[1,0],cv=(0,1))"),
    ("adjoint(RX(a,0))", "RX(-a,0)"), ("adjoint(RX(a,0))", "RX(a,0)"), ("adjoint(adjoint(RX(a,0)))", "RX(a,0)"), ("pow(RX(a,0),2)", "pow(RX(a,0),3)"),
    ("a*X(0)", "b*X(0)"), ("a*X(0)", "a*Y(0)"), ("RX(a,0)@RY(b,1)", "RY(b,1)@RX(a,0)"), ("RX(a,0)@RY(b,0)", "RY(b,0)@RX(a,0)"), ("a*X(0)+b*Z(1)", "b*Z(1)+a*X(0)"), ("a*X(0)+b*Z(1)", "b*X(0)+a*Z(1)"),
    ("LC([a,b],[X0,Z1])", "LC([b,a],[Z1,X0])"), ("LC([a,b],[X0,Z1])", "LC([a,b],[Z1,X0])"), ("LC([a,b],[X0,Z1])", "a*X(0)+b*Z(1)"), ("IsingXX(a,[0,1])", "IsingXX(a,[1,0])"),
    ("PauliRot(a,XY,[0,1])", "PauliRot(a,YX,[0,1])"), ("PauliRot(a,XY,[0,1])", "PauliRot(a,YX,[1,0])"), ("MultiRZ(a,[0,1,2])", "MultiRZ(a,[2,0,1])"),
]
MP_PAIRS = [("expval", "a*X(0)+b*Z(1)", "expval", "b*Z(1)+a*X(0)"), ("expval", "a*X(0)", "var", "a*X(0)"), ("expval", "a*X(0)", "expval", "b*X(0)"), ("var", "LC([a,b],[X0,Z1])", "var", "LC([a,b],[Z1,X0])"),
            ("expval", "a*X(0)", "expval", "a*Y(0)")]


def mat(op, p_symbolic):
    M = qp.matrix(op, wire_order=W3)
    return sx.arr(M) if p_symbolic else np.asarray(M, dtype=complex)


def reconstruct(op):
    """rebuild an operator from its pytree data and metadata (the documented flatten / unflatten round trip)"""
    data, meta = op._flatten()
    return type(op)._unflatten(data, meta)


def eq(x, y):
    r = qp.equal(x, y)
    return bool(r)


def run_pair(p, nx, ny):
    X, Y = OPS[nx](p), OPS[ny](p)
    return X, Y, eq(X, Y), eq(Y, X)


def _num_pair(kind, nx, ny, params, mx=None, my=None):
    p = [float(v) for v in params]
    try:
        if kind == "mp":
            X, Y = MPS[mx](OPS[nx](p)), MPS[my](OPS[ny](p))
            e1, e2 = eq(X, Y), eq(Y, X)
            if e1 != e2:
                return True, f"qp.equal({mx}({nx}), {my}({ny})) = {e1} but with the arguments swapped {e2} at {dict(zip(PN, p))}"
            if e1:
                d = float(np.max(np.abs(mat(X.obs, False) - mat(Y.obs, False))))
                if type(X) is not type(Y) or d > 1e-6:
                    return True, f"qp.equal({mx}({nx}), {my}({ny})) is True at {dict(zip(PN, p))} although the processes differ (types {type(X).__name__}/{type(Y).__name__}, observable matrices differ by {d:.3g})"
            return False, "consistent"
        X, Y, e1, e2 = run_pair(p, nx, ny)
    except Exception as e:  # noqa: BLE001
        return True, f"qp.equal on ({nx}, {ny}) at {dict(zip(PN, p))}: raised {e!r}"
    if e1 != e2:
        return True, f"qp.equal({nx}, {ny}) = {e1} but qp.equal({ny}, {nx}) = {e2} at {dict(zip(PN, p))}"
    if e1:
        d = float(np.max(np.abs(mat(X, False) - mat(Y, False))))
        if d > 1e-6:
            return True, f"qp.equal({nx}, {ny}) is True at {dict(zip(PN, p))} although the matrices differ by {d:.3g}"
    return False, "consistent"


def _num_self(nx, params):
    p = [float(v) for v in params]
    X = OPS[nx](p)
    for what, Z in (("itself", X), ("its copy", copy.copy(X)), ("its deep copy", copy.deepcopy(X)), ("its reconstruction from data and metadata", reconstruct(X)), ("an independent construction", OPS[nx](p))):
        try:
            if not (eq(X, Z) and eq(Z, X)):
                return True, f"qp.equal({nx}, {what}) is False at {dict(zip(PN, p))}"
        except Exception as e:  # noqa: BLE001
            return True, f"qp.equal({nx}, {what}) raised {e!r}"
    return False, "reflexive"


def replay(pl):
    if pl["kind"] == "self":
        return _num_self(pl["x"], pl["params"])
    return _num_pair(pl["kind"], pl["x"], pl["y"], pl["params"], pl.get("mx"), pl.get("my"))


def work(item):
    kind = item[0]
    sx.install_shims()
    if kind == "self":
        nx = item[1]
        name = f"reflexivity / copies / reconstruction of {nx}"

        def b(S):
            p = [S.param(x) for x in PN]
            X = OPS[nx](p)
            out = {}
            for what, Z in (("itself", X), ("copy", copy.copy(X)), ("deepcopy", copy.deepcopy(X)), ("reconstruction", reconstruct(X)), ("independent construction", OPS[nx](p))):
                out[what] = (eq(X, Z), eq(Z, X))
            return out

        def consume(S, v, i):
            bad = [k for k, (e1, e2) in v.items() if not (e1 and e2)]
            rec = {"name": f"{name} (path {i})", "status": "discharged" if not bad else "violated", "symbols": PN, "nontrivial": True, "queries": 1,
                   "detail": "qp.equal is True for itself, copy, deepcopy, flatten/unflatten reconstruction and an independent construction, for all parameter values of this path" if not bad else f"qp.equal is False for {bad}"}
            if bad:
                ok, obs = _num_self(nx, [0.3, -0.8, 1.9])
                rec.update(signature=f"self:{nx}", replay={"kind": "self", "x": nx, "params": [0.3, -0.8, 1.9], "observed": obs})
                if not ok:
                    rec["status"] = "inconclusive"
            return [rec]

        try:
            return obl.run_instance(name, b, consume, max_paths=32)
        except (TypeError, AttributeError, IndexError, KeyError, ValueError, NotImplementedError) as e:
            ok, obs = _num_self(nx, [0.3, -0.8, 1.9])
            if ok:
                return [{"name": name, "status": "violated", "symbols": PN, "nontrivial": True, "queries": 0, "signature": f"self:{nx}", "detail": obs, "replay": {"kind": "self", "x": nx, "params": [0.3, -0.8, 1.9], "observed": obs}}]
            return [{"name": name, "status": "unsupported", "detail": repr(e)[:300]}]

    if kind == "mp":
        _, mx, nx, my, ny = item
        name = f"qp.equal({mx}({nx}), {my}({ny}))"
    else:
        _, nx, ny = item
        mx = my = None
        name = f"qp.equal({nx}, {ny})"

    def b2(S):
        p = [S.param(x) for x in PN]
        # the matrices are formed first: the circle atoms of the angles then exist when qp.equal compares the raw parameters, and the lifting
        # ties "a == b" to "the atoms of a and b coincide" on the true branch
        if kind == "mp":
            X, Y = MPS[mx](OPS[nx](p)), MPS[my](OPS[ny](p))
            MX, MY = mat(X.obs, True), mat(Y.obs, True)
            e1, e2 = eq(X, Y), eq(Y, X)
            same_type = type(X) is type(Y)
            return MX, MY, e1, e2, same_type
        X, Y = OPS[nx](p), OPS[ny](p)
        MX, MY = mat(X, True), mat(Y, True)
        e1, e2 = eq(X, Y), eq(Y, X)
        return MX, MY, e1, e2, True

    def consume2(S, v, i):
        X, Y, e1, e2, same_type = v

        def rp(model):
            params = [model["params"].get(x, 0.0) for x in PN]
            ok, obs = _num_pair(kind, nx, ny, params, mx, my)
            return ok, {"kind": kind, "x": nx, "y": ny, "mx": mx, "my": my, "params": params, "observed": obs}

        out = []
        sym_ok = e1 == e2
        rec = {"name": f"{name} (path {i}): same answer in both argument orders ({e1})", "status": "discharged" if sym_ok else "violated", "symbols": PN, "nontrivial": True, "queries": 1,
               "detail": f"qp.equal = {e1} / swapped {e2} for all parameter values of this path"}
        if S.assumed:
            rec["path_assumptions"] = list(S.assumed)
        if not sym_ok:
            import z3

            sol = z3.Solver()
            sol.add(*S.z3constraints(None))
            sol.add(*S.pathcond)
            params = [0.3, -0.8, 1.9]
            if str(sol.check()) == "sat":
                mdl = sx.model_floats(S, sol.model())
                params = [mdl["params"].get(x, 0.0) for x in PN]
            ok, obs = _num_pair(kind, nx, ny, params, mx, my)
            rec.update(signature=f"symmetry:{name}", replay={"kind": kind, "x": nx, "y": ny, "mx": mx, "my": my, "params": params, "observed": obs})
            if not ok:
                rec["status"] = "inconclusive"
        out.append(rec)
        if e1:
            if not same_type:
                out.append({"name": f"{name} (path {i}): equal measurement processes have the same type", "status": "violated", "symbols": PN, "nontrivial": True, "queries": 0, "signature": f"soundness:{name}",
                            "detail": "equal although the process types differ", "replay": {"kind": kind, "x": nx, "y": ny, "mx": mx, "my": my, "params": [0.3, -0.8, 1.9], "observed": "types differ"}})
            out.append(obl.prove(S, f"{name} (path {i}): reported equal, hence the same matrix for all parameter values of this path", X, Y, replay=rp, signature=f"soundness:{name}", timeout=60))
        return out

    try:
        return obl.run_instance(name, b2, consume2, max_paths=64)
    except (TypeError, AttributeError, IndexError, KeyError, ValueError, NotImplementedError) as e:
        import traceback

        tb = traceback.format_exc(limit=6)[-500:]
        for params in ([0.3, -0.8, 1.9], [0.7, 0.7, 0.7], [0.0, 0.0, 0.0]):
            ok, obs = _num_pair(kind, nx, ny, params, mx, my)
            if ok:
                return [{"name": name, "status": "violated", "symbols": PN, "nontrivial": True, "queries": 0, "signature": f"pair:{name}", "detail": obs,
                         "replay": {"kind": kind, "x": nx, "y": ny, "mx": mx, "my": my, "params": params, "observed": obs}}]
        return [{"name": name, "status": "unsupported", "detail": f"{e!r} {tb}"}]


def run(ctx):
    ctx.level = "other"
    items = [("self", n) for n in OPS] + [("pair", x, y) for x, y in PAIRS] + [("pair", x, x) for x in ("Rot(a,b,c,0)", "a*X(0)+b*Z(1)", "ctrl(RZ(a,2),[0,1],cv=(1,0))")] + [("mp",) + t for t in MP_PAIRS]
    if ctx.only:
        items = [it for it in items if ctx.only in str(it)]
    ctx.shapes = len(items)
    from pennylane.ops.functions import equal as EQ

    ctx.encode(qp.equal, getattr(EQ, "_equal_dispatch", qp.equal))
    ctx.bound(parameters="all real values of 3 symbols (angles, coefficients, exponents)", operators=list(OPS), pairs=len(PAIRS), measurement_pairs=len(MP_PAIRS),
              outside="the numeric size of rtol / atol (a tolerance comparison is read as exact equality by the lifting), Python hashes, check_interface / check_trainability options, "
                      "operators outside the listed builders, batched parameters")
    ctx.assume(*sx.SHIM_NOTES[:3], "tolerance comparisons (allclose / isclose) of symbolic values are decided as exact equality (documented lifting rule)")
    ctx.rule = "per pair and path: symmetry (structural, per solver-decided path) and soundness (z3 validity of the matrix identity under the path condition); per operator: reflexivity on every path"
    ctx.pmap(work, items, timeout_each=600)
