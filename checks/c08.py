"""C08 Commutation checks are sound (E1).

qp.is_commuting decides by names / wire patterns (plus simplify and pauli_rep).  For every ordered pair of operator kinds and
every overlap pattern of their wires (<= 4 wires) the real function is asked for its verdict on an instance with generic
parameters; whenever it answers True, both operators are rebuilt with SYMBOLIC parameters (and symbolic coefficients for
Pauli sums) and  A.B == B.A  on the joint wires is proved by z3 for all parameter values.  A sat model is replayed through
is_commuting and a floating-point commutator.
Pauli-word exactness: for products/sums of Pauli words the verdict must be EXACTLY the truth (both directions) - checked
through the same machinery with the symplectic form as oracle on symbolic-coefficient sentences.
"""
from __future__ import annotations

import itertools

import numpy as np
import pennylane as qp

from vf import symx as sx, obl

GEN = [0.37, -1.21, 2.53]
PN1, PN2 = ["a", "b", "g"], ["u", "v", "w"]

# kind -> (n params, n wires, builder(params, wires))
K = {}


def _k(name, npar, nw, fn=None):
    K[name] = (npar, nw, fn or (lambda p, w, name=name: getattr(qp, name)(*p, wires=w if nw > 1 else w[0])))


for _n in ("PauliX", "PauliY", "PauliZ", "Hadamard", "S", "T", "SX"):
    _k(_n, 0, 1)
for _n in ("RX", "RY", "RZ", "PhaseShift", "U1"):
    _k(_n, 1, 1)
_k("Rot", 3, 1)
_k("U2", 2, 1)
for _n in ("CNOT", "CZ", "CY", "CH", "SWAP", "ISWAP", "SISWAP"):
    _k(_n, 0, 2)
for _n in ("CRX", "CRY", "CRZ", "ControlledPhaseShift", "IsingXX", "IsingYY", "IsingZZ", "IsingXY", "PSWAP", "CPhaseShift10"):
    _k(_n, 1, 2)
_k("CRot", 3, 2)
for _n in ("CSWAP", "Toffoli", "CCZ"):
    _k(_n, 0, 3)
_k("MultiRZ2", 1, 2, lambda p, w: qp.MultiRZ(p[0], wires=w))
_k("MultiRZ3", 1, 3, lambda p, w: qp.MultiRZ(p[0], wires=w))
_k("MCX[10]", 0, 3, lambda p, w: qp.MultiControlledX(wires=w, control_values=[1, 0]))
_k("ctrl(ISWAP)", 0, 3, lambda p, w: qp.ctrl(qp.ISWAP(wires=w[1:]), control=w[0]))
_k("ctrl(RX,cv0)", 1, 2, lambda p, w: qp.ctrl(qp.RX(p[0], wires=w[1]), control=w[0], control_values=[0]))
_k("ctrl(IsingXX)", 1, 3, lambda p, w: qp.ctrl(qp.IsingXX(p[0], wires=w[1:]), control=w[0]))
_k("ctrl(RY,2c)", 1, 3, lambda p, w: qp.ctrl(qp.RY(p[0], wires=w[2]), control=w[:2]))
_k("Permute3", 0, 3, lambda p, w: qp.Permute([w[1], w[2], w[0]], wires=w))
_k("X@Z", 0, 2, lambda p, w: qp.prod(qp.PauliX(w[0]), qp.PauliZ(w[1])))
_k("Y@Y", 0, 2, lambda p, w: qp.prod(qp.PauliY(w[0]), qp.PauliY(w[1])))
_k("aXX+bYY", 2, 2, lambda p, w: qp.sum(qp.s_prod(p[0], qp.prod(qp.PauliX(w[0]), qp.PauliX(w[1]))), qp.s_prod(p[1], qp.prod(qp.PauliY(w[0]), qp.PauliY(w[1])))))
_k("aZ+bZ'", 2, 2, lambda p, w: qp.sum(qp.s_prod(p[0], qp.PauliZ(w[0])), qp.s_prod(p[1], qp.PauliZ(w[1]))))
_k("aX+bZ", 2, 1, lambda p, w: qp.sum(qp.s_prod(p[0], qp.PauliX(w[0])), qp.s_prod(p[1], qp.PauliZ(w[0]))))
_k("aXZ+bZX", 2, 2, lambda p, w: qp.sum(qp.s_prod(p[0], qp.prod(qp.PauliX(w[0]), qp.PauliZ(w[1]))), qp.s_prod(p[1], qp.prod(qp.PauliZ(w[0]), qp.PauliX(w[1])))))

QUICK_KINDS = ["PauliX", "PauliZ", "Hadamard", "T", "RX", "RY", "RZ", "PhaseShift", "Rot", "CNOT", "CZ", "SWAP", "ISWAP", "CRX", "CRZ", "CRot", "IsingXX", "IsingZZ",
               "IsingXY", "CSWAP", "Toffoli", "MultiRZ3", "MCX[10]", "ctrl(ISWAP)", "ctrl(RX,cv0)", "ctrl(IsingXX)", "Permute3", "X@Z", "aXX+bYY", "aZ+bZ'", "aX+bZ", "aXZ+bZX",
               "SISWAP", "CY", "IsingYY", "PSWAP"]
UNSUPPORTED_BY_LIBRARY = {"PauliRot"}


def placements(nw1, nw2, nmax=4):
    """wire tuples for op2 (op1 sits on 0..nw1-1) that overlap op1; up to relabelling of the fresh wires"""
    out = []
    for ws in itertools.permutations(range(nmax), nw2):
        if not set(ws) & set(range(nw1)):
            continue
        fresh = [w for w in ws if w >= nw1]
        if fresh != sorted(fresh) or (fresh and fresh[0] != nw1) or any(b - a > 1 for a, b in zip(fresh, fresh[1:])):
            continue  # canonical choice of the wires outside op1
        out.append(ws)
    return out


def build(kind, params, wires):
    npar, nw, fn = K[kind]
    return fn(list(params[:npar]), list(wires))


def verdict(k1, k2, w2):
    op1 = build(k1, GEN, list(range(K[k1][1])))
    op2 = build(k2, [x * 1.3 + 0.11 for x in GEN], list(w2))
    try:
        return bool(qp.is_commuting(op1, op2)), None
    except Exception as e:  # documented: some operators are unsupported
        return None, repr(e)[:120]


def _num(k1, k2, w2, p1, p2):
    op1 = build(k1, p1, list(range(K[k1][1])))
    op2 = build(k2, p2, list(w2))
    W = sorted(set(op1.wires) | set(op2.wires))
    A = np.asarray(qp.matrix(op1, wire_order=W), dtype=complex)
    B = np.asarray(qp.matrix(op2, wire_order=W), dtype=complex)
    d = float(np.max(np.abs(A @ B - B @ A)))
    try:
        v = bool(qp.is_commuting(op1, op2))
    except Exception as e:
        return False, f"is_commuting raised {e!r}"
    return (v and d > 1e-6), f"is_commuting({op1}, {op2}) = {v} but max|AB-BA| = {d:.3g}"


def replay(p):
    return _num(p["k1"], p["k2"], tuple(p["w2"]), p["p1"], p["p2"])


def work(item):
    k1, k2, w2 = item
    name = f"{k1}{list(range(K[k1][1]))} vs {k2}{list(w2)}"
    v, err = verdict(k1, k2, w2)
    if v is None:
        return [{"name": name, "status": "unsupported", "detail": f"is_commuting raised: {err}"}]
    if not v:
        # exactness for pure Pauli-word operators: a False verdict must be right as well
        if not (_is_pauli(k1) and _is_pauli(k2)):
            return []
    n1, n2 = PN1[:K[k1][0]], PN2[:K[k2][0]]

    def b(S):
        p1 = [S.param(x) for x in n1]
        p2 = [S.param(x) for x in n2]
        op1 = build(k1, p1, list(range(K[k1][1])))
        op2 = build(k2, p2, list(w2))
        W = sorted(set(op1.wires) | set(op2.wires))
        A = sx.arr(qp.matrix(op1, wire_order=W))
        B = sx.arr(qp.matrix(op2, wire_order=W))
        return np.dot(A, B), np.dot(B, A)

    def consume(S, val, i):
        AB, BA = val

        def rp(model):
            p1 = [model["params"].get(x, 0.0) for x in n1]
            p2 = [model["params"].get(x, 0.0) for x in n2]
            ok, obs = _num(k1, k2, w2, p1, p2)
            return ok, {"k1": k1, "k2": k2, "w2": list(w2), "p1": p1, "p2": p2, "observed": obs}

        if v:
            return [obl.prove(S, f"{name}: reported commuting => AB == BA for all parameters", AB, BA, replay=rp, signature=f"{k1}|{k2}|{_pattern(k1, k2, w2)}")]
        # Pauli exactness: reported NOT commuting for generic coefficients -> the commutator must be non-zero generically,
        # i.e. AB == BA must be refutable
        r = sx.prove_zero(S, sx._collect_polys(S, AB, BA), timeout_s=20)
        st = "discharged" if r.status == "sat" else ("violated" if r.status == "unsat" else "inconclusive")
        rec = {"name": f"{name}: Pauli operators reported non-commuting really do not commute", "status": st, "symbols": n1 + n2, "solver": f"z3:{r.status}",
               "solver_s": r.time_s, "queries": 1, "nontrivial": bool(n1 + n2)}
        if st == "violated":
            rec["signature"] = f"pauli-exact:{k1}|{k2}|{list(w2)}"
            rec["replay"] = {"k1": k1, "k2": k2, "w2": list(w2), "p1": GEN, "p2": GEN, "exact": True, "observed": "is_commuting False although AB == BA for all coefficients"}
            rec["detail"] = "Pauli-word operators commute for all coefficients but is_commuting returned False"
        return [rec]

    return obl.run_instance(name, b, consume)


def _is_pauli(k):
    return k in ("PauliX", "PauliY", "PauliZ", "X@Z", "Y@Y", "aXX+bYY", "aZ+bZ'", "aX+bZ", "aXZ+bZX")


def _pattern(k1, k2, w2):
    n1 = K[k1][1]
    return "".join(str(w) if w < n1 else "n" for w in w2)


def run(ctx):
    ctx.level = "proof"
    kinds = QUICK_KINDS if ctx.tier == "quick" else list(K)
    items = []
    for k1, k2 in itertools.product(kinds, repeat=2):
        pl = placements(K[k1][1], K[k2][1])
        for j, w2 in enumerate(pl):
            items.append((k1, k2, w2))
    if ctx.tier == "quick":
        # keep every placement for pairs involving multi-wire targets (where overlap patterns matter), stride the rest
        multi = {"SWAP", "ISWAP", "SISWAP", "CSWAP", "Permute3", "ctrl(ISWAP)", "IsingXX", "IsingYY", "IsingZZ", "IsingXY", "MultiRZ3", "ctrl(IsingXX)", "PSWAP", "aXX+bYY", "aXZ+bZX", "aZ+bZ'"}
        items = [it for i, it in enumerate(items) if (it[0] in multi and it[1] in multi) or i % 3 == 0]
    if ctx.only:
        items = [it for it in items if ctx.only in f"{it[0]} vs {it[1]}"]
    ctx.shapes = len(items)
    import importlib

    IC = importlib.import_module("pennylane.ops.functions.is_commuting")
    ctx.encode(IC.is_commuting, IC._pword_is_commuting, IC._create_commute_function, IC.check_commutation_two_non_simplified_rotations, qp.matrix)
    ctx.extra["pairs_asked"] = len(items)
    ctx.bound(kinds=kinds, wires="all overlap patterns on <= 4 wires (op1 on 0..k-1, op2 on every overlapping placement, canonical fresh wires)",
              parameters="all real parameter values / Pauli-sum coefficients for pairs reported commuting",
              outside="the documented unsupported operators (PauliRot, QubitDensityMatrix, ApproxTimeEvolution, ArbitraryUnitary, CommutingEvolution, Exp); "
                      "verdicts that depend on parameter VALUES (two non-simplified Rot/U2/U3/CRot: read at generic values only); completeness (a False verdict) except for Pauli words")
    ctx.assume(*sx.SHIM_NOTES, "the verdict is read from the real is_commuting at generic concrete parameter values; the proof obligation quantifies over all values")
    ctx.rule = "one obligation per (ordered kind pair, overlap pattern) with verdict True (plus Pauli pairs with verdict False); non-trivial = mentions a symbolic parameter"
    ctx.pmap(work, items, timeout_each=300)
