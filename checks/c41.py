"""C41 Queuing records exactly the program's operations in order (vf.symbit).

A program is a sequence of steps whose kinds are chosen by the solver (every sequence up to the bound is a feasible path): create
a plain operator, wrap a freshly created operator (adjoint / ctrl / pow / s_prod / prod / sum / @ / measurement of an observable),
create under stop_recording, open a nested recording context and create inside it, qp.apply an operator created earlier under
stop_recording, raise an exception inside a nested context, create a measurement.  The REAL AnnotatedQueue / QueuingManager run
the program; the oracle is a list model of "what the program created, where": the outer queue must contain exactly the top-level
objects in program order (wrapped operands only through their wrapper), inner contexts only their own objects, nothing from
stop_recording blocks, re-queued objects where qp.apply was called, and the context stack must be restored after every step
(also after exceptions).  QuantumScript.from_queue must split the outer queue into the same operations and measurements.
"""
from __future__ import annotations

import pennylane as qp
from pennylane.queuing import AnnotatedQueue, QueuingManager

from vf import symbit as sb
from vf.common import DISCHARGED, VIOLATED, INCONCLUSIVE

STEPS = ["plain", "adjoint", "ctrl", "pow", "s_prod", "prod", "matmul", "sum", "expval", "stop_recording", "nested", "nested+exception", "apply", "probs", "adjoint(ctrl)", "nested stop_recording in nested", "pow eager, even power of X", "pow eager of RX", "QuantumTape with an operator after a measurement"]


class Boom(Exception):
    pass


def run_program(codes):
    """-> (outer queue objects, expected outer objects, [(inner queue, expected inner)], problems)"""
    problems = []
    expected = []
    inners = []
    hidden = []  # created under stop_recording
    k = 0

    def w():
        return k % 3

    with AnnotatedQueue() as q:
        for step, code in enumerate(codes):
            kind = STEPS[code]
            k = step
            depth_before = len(QueuingManager._active_contexts)
            if kind == "plain":
                expected.append(qp.PauliX(w()))
            elif kind == "adjoint":
                base = qp.RX(0.1 + step, w())
                expected.append(qp.adjoint(base))
            elif kind == "ctrl":
                base = qp.RY(0.2 + step, w())
                expected.append(qp.ctrl(base, control=(w() + 1) % 3))
            elif kind == "pow":
                base = qp.T(w())
                expected.append(qp.pow(base, 2, lazy=True))
            elif kind == "s_prod":
                base = qp.PauliZ(w())
                expected.append(qp.s_prod(2.0 + step, base))
            elif kind == "prod":
                a, b = qp.PauliX(w()), qp.PauliY((w() + 1) % 3)
                expected.append(qp.prod(a, b))
            elif kind == "matmul":
                a, b = qp.PauliZ(w()), qp.Hadamard((w() + 1) % 3)
                expected.append(a @ b)
            elif kind == "sum":
                a, b = qp.PauliX(w()), qp.PauliZ(w())
                expected.append(qp.sum(a, b))
            elif kind == "expval":
                obs = qp.PauliZ(w()) @ qp.PauliX((w() + 1) % 3)
                expected.append(qp.expval(obs))
            elif kind == "probs":
                expected.append(qp.probs(wires=[w()]))
            elif kind == "adjoint(ctrl)":
                base = qp.RZ(0.3 + step, w())
                c = qp.ctrl(base, control=(w() + 1) % 3)
                expected.append(qp.adjoint(c))
            elif kind == "pow eager, even power of X":
                base = qp.PauliX(w())
                expected.append(qp.pow(base, 2, lazy=False))  # X**2 simplifies to an Identity: only the result is recorded
            elif kind == "pow eager of RX":
                base = qp.RX(0.4 + step, w())
                expected.append(qp.pow(base, 3, lazy=False))
            elif kind == "QuantumTape with an operator after a measurement":
                try:
                    with qp.tape.QuantumTape() as bad:
                        qp.expval(qp.PauliZ(w()))
                        qp.PauliX(w())
                except ValueError:
                    pass  # invalid circuit: constructing it raises by design; the context stack must be restored all the same
                expected.append(bad)  # a QuantumTape opened inside a recording context is itself recorded in the parent
            elif kind == "stop_recording":
                with QueuingManager.stop_recording():
                    hidden.append(qp.CNOT([w(), (w() + 1) % 3]))
                    if QueuingManager.recording():
                        problems.append(f"step {step}: recording() is True inside stop_recording")
            elif kind == "nested":
                with AnnotatedQueue() as q2:
                    a = qp.S(w())
                    b = qp.adjoint(qp.T(w()))
                inners.append((list(q2.queue), [a, b]))
            elif kind == "nested stop_recording in nested":
                with AnnotatedQueue() as q2:
                    a = qp.S(w())
                    with QueuingManager.stop_recording():
                        hidden.append(qp.SX(w()))
                    b = qp.Hadamard(w())
                inners.append((list(q2.queue), [a, b]))
            elif kind == "nested+exception":
                try:
                    with AnnotatedQueue() as q3:
                        a = qp.SX(w())
                        raise Boom()
                except Boom:
                    pass
                inners.append((list(q3.queue), [a]))
            elif kind == "apply":
                if hidden:
                    op = hidden[-1]
                    queued = qp.apply(op)  # documented: queues (a copy of) the existing object and returns what was queued
                    if not qp.equal(queued, op):
                        problems.append(f"step {step}: qp.apply returned an operator different from its argument")
                    expected.append(queued)
                else:
                    op = qp.PauliY(w())
                    expected.append(op)
            if len(QueuingManager._active_contexts) != depth_before:
                problems.append(f"step {step} ({kind}): context stack depth {len(QueuingManager._active_contexts)} after the step, {depth_before} before")
            if QueuingManager.active_context() is not q:
                problems.append(f"step {step} ({kind}): the active context after the step is not the outer queue")
    if QueuingManager.recording():
        problems.append("recording() is still True after leaving the outer context")
    return list(q.queue), expected, inners, problems, q


def compare(codes):
    got, exp, inners, problems, q = run_program(codes)
    prog = [STEPS[c] for c in codes]
    if len(got) != len(exp) or any(g is not e for g, e in zip(got, exp)):
        problems.append(f"outer queue {[getattr(o, 'name', type(o).__name__) for o in got]} != program order {[getattr(o, 'name', type(o).__name__) for o in exp]}")
    for n, (ig, ie) in enumerate(inners):
        if len(ig) != len(ie) or any(g is not e for g, e in zip(ig, ie)):
            problems.append(f"nested context {n}: {[getattr(o, 'name', '?') for o in ig]} != {[getattr(o, 'name', '?') for o in ie]}")
    is_mp = [isinstance(o, qp.measurements.MeasurementProcess) for o in exp]
    if any(a and not b for a, b in zip(is_mp, is_mp[1:])):
        return prog, problems  # an operator after a measurement: not a valid circuit for from_queue (it raises by design)
    try:
        tape = qp.tape.QuantumScript.from_queue(q)
        ops = [o for o in exp if not isinstance(o, qp.measurements.MeasurementProcess)]
        mps = [o for o in exp if isinstance(o, qp.measurements.MeasurementProcess)]
        if len(tape.operations) != len(ops) or any(a is not b for a, b in zip(tape.operations, ops)):
            problems.append("QuantumScript.from_queue: operations differ from the program's top-level operators")
        if len(tape.measurements) != len(mps) or any(a is not b for a, b in zip(tape.measurements, mps)):
            problems.append("QuantumScript.from_queue: measurements differ from the program's measurements")
    except Exception as e:  # noqa: BLE001
        problems.append(f"QuantumScript.from_queue raised {e!r}")
    return prog, problems


def replay(p):
    prog, problems = compare(p["codes"])
    return bool(problems), f"program {prog}: " + ("; ".join(problems[:3]) or "queue agrees with the program")


def work(item):
    L, first = item
    name = f"programs of {L} steps, first step {STEPS[first]}"
    npaths = q = 0
    ts = 0.0
    try:
        def build(S):
            codes = []
            for i in range(L):
                v = S.int(f"s{i}", 0, len(STEPS) - 1)
                if i == 0:
                    S.assume(sb.zi(v) == first)
                codes.append(v.concretize(0, len(STEPS) - 1))
            return codes, compare(codes)

        for S, (codes, (prog, problems)) in sb.explore_iter(build, max_paths=200000):
            npaths += 1
            q += S.decisions
            ts += S.solver_s
            if problems:
                payload = {"codes": [int(c) for c in codes]}
                ok, obs = replay(payload)
                payload["observed"] = obs
                kinds = sorted(set(prog))
                return [{"name": name, "status": VIOLATED if ok else INCONCLUSIVE, "signature": "queue:" + "+".join(kinds)[:80], "symbols": ["step kinds"], "queries": q, "replay": payload, "detail": obs}]
    except sb.PathLimit as e:
        return [{"name": name, "status": INCONCLUSIVE, "detail": str(e), "symbols": ["step kinds"]}]
    return [{"name": name, "status": DISCHARGED, "queries": q, "solver": "z3 (path feasibility)", "symbols": ["step kinds"], "solver_s": round(ts, 3), "time_s": round(ts, 3),
             "detail": f"{npaths} solver-enumerated programs: outer queue, nested queues, context stack and from_queue agree with the program"}]


def run(ctx):
    ctx.level = "other"
    L = 3 if ctx.tier == "quick" else 4
    items = [(L, f) for f in range(len(STEPS))]
    if ctx.tier == "thorough":
        items += [(3, f) for f in range(len(STEPS))]
    if ctx.only:
        items = [it for it in items if ctx.only in STEPS[it[1]]]
    ctx.shapes = len(items)
    ctx.encode(AnnotatedQueue.append, AnnotatedQueue.remove, QueuingManager.add_active_queue, QueuingManager.remove_active_queue, QueuingManager.stop_recording, qp.apply, qp.tape.QuantumScript.from_queue)
    ctx.bound(programs=f"every sequence of {L} steps over {len(STEPS)} step kinds ({len(STEPS) ** L} programs), chosen by the solver", step_kinds=STEPS,
              outside="qfunc transforms re-queuing (qp.transforms), templates that queue inside compute_decomposition, program capture (plxpr), threads")
    ctx.assume("oracle: list model of the objects the program created at top level, in order; identity (`is`) comparison")
    ctx.trust("z3 5.1.0", "vf.symbit lifting")
    ctx.rule = "one obligation per (program length, first step kind): all continuations are solver-enumerated paths"
    ctx.pmap(work, items, timeout_each=1500)
