"""C38 Metric tensors equal the Fubini-Study metric (E1).

Layered circuits with symbolic trainable parameters go through the REAL qp.metric_tensor tape transform (approx = None /
"block-diag" / "diag", allow_nonunitary True/False, explicit aux_wire); the generated tapes are evaluated by the matrix-route
oracle, the REAL post-processing assembles the tensor, and z3 proves, for ALL parameter values,
     g_ij == Re( <d_i psi | d_j psi> - <d_i psi | psi><psi | d_j psi> )
with the derivatives of the symbolic state taken by the symbolic differentiator.  For the block-diagonal / diagonal
approximations only the entries inside a block / on the diagonal are compared, the others must be exactly zero.
adjoint_metric_tensor is run through the same comparison.
"""
from __future__ import annotations

import numpy as np
import pennylane as qp

from checks import c34
from vf import symx as sx, obl, simx

W = [0, 1, 2]
# circuit -> (builder(occurrence values) -> ops, layers: list of lists of tape-parameter indices forming the blocks)
CIRC = {
    "RX.RY | CNOT | RZ.RX": (lambda p: [qp.RX(p[0], 0), qp.RY(p[1], 1), qp.CNOT([0, 1]), qp.RZ(p[2], 0), qp.RX(p[3], 1)], [[0, 1], [2, 3]]),
    "RY | CNOT | RX | CNOT | RZ": (lambda p: [qp.RY(p[0], 0), qp.CNOT([0, 1]), qp.RX(p[1], 1), qp.CNOT([0, 1]), qp.RZ(p[2], 0)], [[0], [1], [2]]),
    "RY.RY | CZ | PhaseShift.RX": (lambda p: [qp.RY(p[0], 0), qp.RY(p[1], 1), qp.CZ([0, 1]), qp.PhaseShift(p[2], 0), qp.RX(p[3], 1)], [[0, 1], [2, 3]]),
    "RY | CRX": (lambda p: [qp.RY(p[0], 0), qp.CRX(p[1], [0, 1])], [[0], [1]]),
    "RZ.H | CRX | RY": (lambda p: [qp.Hadamard(0), qp.RZ(p[0], 0), qp.CRX(p[1], [0, 1]), qp.RY(p[2], 1)], [[0], [1], [2]]),
    "RY | CRZ | CRY": (lambda p: [qp.RY(p[0], 0), qp.Hadamard(1), qp.CRZ(p[1], [0, 1]), qp.CRY(p[2], [1, 0])], [[0], [1], [2]]),
    "IsingXX | RY.RZ": (lambda p: [qp.Hadamard(0), qp.IsingXX(p[0], [0, 1]), qp.RY(p[1], 0), qp.RZ(p[2], 1)], [[0], [1, 2]]),
    "RX | S.T | RY | SX | RZ": (lambda p: [qp.RX(p[0], 0), qp.S(0), qp.T(1), qp.RY(p[1], 0), qp.SX(1), qp.CNOT([0, 1]), qp.RZ(p[2], 1)], [[0], [1], [2]]),
    "RY | CNOT | RY | CNOT | RY | CNOT | RY": (lambda p: [qp.RY(p[0], 0), qp.CNOT([0, 1]), qp.RY(p[1], 1), qp.CNOT([0, 1]), qp.RY(p[2], 0), qp.CNOT([0, 1]), qp.RY(p[3], 1)], [[0], [1], [2], [3]]),
    "ControlledPhaseShift | RX": (lambda p: [qp.Hadamard(0), qp.Hadamard(1), qp.ControlledPhaseShift(p[0], [0, 1]), qp.RX(p[1], 0)], [[0], [1]]),
}
METHODS = {
    "metric_tensor(approx=None)": dict(approx=None),
    "metric_tensor(approx=None, allow_nonunitary=False)": dict(approx=None, allow_nonunitary=False),
    "metric_tensor(block-diag)": dict(approx="block-diag"),
    "metric_tensor(diag)": dict(approx="diag"),
}
_REJECT_OK = (ValueError, qp.exceptions.QuantumFunctionError, NotImplementedError, qp.wires.WireError if hasattr(qp.wires, "WireError") else ValueError)


def fubini_study(S, ops, npar, Wt):
    psi = simx.oracle_state(ops, Wt)
    psi = sx.arr(psi)
    conj = np.array([x.conjugate() if isinstance(x, sx.SymC) else np.conj(x) for x in psi], dtype=object)
    d = [sx.d_dparam(S, psi, f"t{k}") for k in range(npar)]
    dconj = [np.array([x.conjugate() if isinstance(x, sx.SymC) else np.conj(x) for x in dk], dtype=object) for dk in d]
    g = np.empty((npar, npar), dtype=object)
    for i in range(npar):
        for j in range(npar):
            a = np.dot(dconj[i], d[j])
            b = np.dot(dconj[i], psi) * np.dot(conj, d[j])
            v = sx.arr(a - b).item() if hasattr(sx.arr(a - b), "item") else (a - b)
            g[i, j] = v.real if isinstance(v, sx.SymC) else np.real(v)
    return g


def _fs_float(build, occ):
    h = 1e-5
    n = len(occ)

    def state(vals):
        return np.asarray(qp.devices.qubit.simulate(qp.tape.QuantumScript(build(list(vals)), [qp.state()])), dtype=complex).ravel()

    psi = state(occ)
    d = []
    for k in range(n):
        up, dn = list(occ), list(occ)
        up[k] += h
        dn[k] -= h
        d.append((state(up) - state(dn)) / (2 * h))
    g = np.zeros((n, n))
    for i in range(n):
        for j in range(n):
            g[i, j] = np.real(np.vdot(d[i], d[j]) - np.vdot(d[i], psi) * np.vdot(psi, d[j]))
    return g


def _mask(layers, approx, n):
    M = np.zeros((n, n), dtype=bool)
    if approx is None:
        M[:] = True
    elif approx == "block-diag":
        for L in layers:
            for i in L:
                for j in L:
                    M[i, j] = True
    else:
        for i in range(n):
            M[i, i] = True
    return M


def _num(cname, meth, occ):
    build, layers = CIRC[cname]
    ops = build(list(occ))
    tape = qp.tape.QuantumScript(ops, [qp.expval(qp.PauliZ(0))])
    n = len(occ)
    if meth == "adjoint_metric_tensor":
        _shim_amt(False)
        got = np.asarray(qp.adjoint_metric_tensor(tape), dtype=float)
        approx = None
    else:
        kw = METHODS[meth]
        try:
            tapes, fn = qp.metric_tensor(tape, aux_wire="aux", **kw)
        except _REJECT_OK as e:
            return False, f"rejected {e!r}"
        got = np.asarray(fn(tuple(qp.devices.qubit.simulate(t) for t in tapes)), dtype=float)
        approx = kw["approx"]
    ref = _fs_float(build, occ)
    M = _mask(layers, approx, n)
    d_in = float(np.max(np.abs((got - ref)[M])))
    d_out = float(np.max(np.abs(got[~M]))) if (~M).any() else 0.0
    return (d_in > 1e-5 or d_out > 1e-9), f"{meth} on {cname} at {list(occ)}: max|g - Fubini-Study| on claimed entries = {d_in:.3g}; max|entries outside the approximation| = {d_out:.3g}; g = {np.round(got, 4).tolist()}"


def replay(p):
    return _num(p["circuit"], p["method"], p["params"])


class _MathObjectBuffers:
    """stand-in for the name `math` inside pennylane.gradients.adjoint_metric_tensor: the real-valued accumulators L and T become
    object arrays (zeros / convert_like / scatter_element_add), everything else is pennylane.math"""

    def __getattr__(self, k):
        return getattr(qp.math, k)

    @staticmethod
    def zeros(shape, **k):
        return np.zeros(shape, dtype=object)

    @staticmethod
    def convert_like(x, like):
        return x

    @staticmethod
    def scatter_element_add(t, idx, v, **k):
        t = np.array(t, dtype=object, copy=True)
        idx = tuple(idx) if isinstance(idx, list) else idx  # pennylane convention: a list of per-axis index sequences
        t[idx] = t[idx] + v
        return t


def _shim_amt(on=True):
    import importlib

    AMT = importlib.import_module("pennylane.gradients.adjoint_metric_tensor")
    if on:
        AMT.math = _MathObjectBuffers()
        if not hasattr(AMT, "_orig_cis"):
            AMT._orig_cis = AMT.create_initial_state
        AMT.create_initial_state = lambda *a, **k: np.asarray(AMT._orig_cis(*a, **k)).astype(object)
    else:
        AMT.math = qp.math
        if hasattr(AMT, "_orig_cis"):
            AMT.create_initial_state = AMT._orig_cis


def results_of(tape):
    Wt = list(tape.wires)
    psi = simx.oracle_state(list(tape.operations), Wt)
    out = [sx.arr(simx.oracle_measure(psi, mp, Wt)) for mp in tape.measurements]
    return tuple(out) if len(out) != 1 else out[0]


def work(item):
    cname, meth = item
    build, layers = CIRC[cname]
    name = f"{meth} on {cname}"
    npar = sum(len(L) for L in layers)

    def b(S):
        occ = [S.param(f"t{k}") for k in range(npar)]
        ops = build(occ)
        tape = qp.tape.QuantumScript(ops, [qp.expval(qp.PauliZ(0))])
        tape.trainable_params = c34.trainable_positions(ops)
        if meth == "adjoint_metric_tensor":
            _shim_amt(True)
            got = qp.adjoint_metric_tensor(tape)
            approx = None
        else:
            kw = METHODS[meth]
            try:
                tapes, fn = qp.metric_tensor(tape, aux_wire="aux", **kw)
            except _REJECT_OK as e:
                return ("rejected", repr(e))
            got = fn(tuple(results_of(t) for t in tapes))
            approx = kw["approx"]
        ref = fubini_study(S, ops, npar, [0, 1])
        return ("ok", got, ref, approx)

    def consume(S, v, i):
        if v[0] == "rejected":
            return [{"name": f"{name}: rejected with a documented error", "status": "discharged", "symbols": [], "nontrivial": False, "queries": 0, "detail": v[1][:200]}]
        _, got, ref, approx = v
        G = sx.arr(np.asarray(got, dtype=object)).reshape(npar, npar)
        M = _mask(layers, approx, npar)

        def rp(model):
            occ = [model["params"].get(f"t{k}", 0.0) for k in range(npar)]
            ok, obs = _num(cname, meth, occ)
            return ok, {"circuit": cname, "method": meth, "params": occ, "observed": obs}

        out = []
        for a in range(npar):
            for c in range(npar):
                if M[a, c]:
                    out.append(obl.prove(S, f"{name}: g[{a}][{c}] == Fubini-Study", [G[a, c]], [ref[a, c]], replay=rp, signature=f"{meth}:{cname}:{a}{c}", timeout=120))
                else:
                    out.append(obl.prove(S, f"{name}: g[{a}][{c}] == 0 (outside the approximation)", [G[a, c]], [0], replay=rp, signature=f"{meth}:{cname}:zero", timeout=60))
        return out

    try:
        return obl.run_instance(name, b, consume)
    except (TypeError, AttributeError, IndexError, KeyError, ValueError, np.linalg.LinAlgError) as e:
        import traceback

        return [{"name": name, "status": "unsupported", "detail": f"{e!r} {traceback.format_exc(limit=6)[-600:]}"}]


def run(ctx):
    ctx.level = "proof"
    items = [(c, m) for c in CIRC for m in list(METHODS) + ["adjoint_metric_tensor"]]
    if ctx.only:
        items = [it for it in items if ctx.only in f"{it[1]} on {it[0]}"]
    ctx.shapes = len(items)
    import importlib

    MT = importlib.import_module("pennylane.gradients.metric_tensor")
    AMT = importlib.import_module("pennylane.gradients.adjoint_metric_tensor")
    ctx.encode(MT.metric_tensor, MT._metric_tensor_cov_matrix, MT._metric_tensor_hadamard, MT._get_first_term_tapes, AMT.adjoint_metric_tensor)
    ctx.bound(parameters="all real values; one symbol per trainable parameter (2-4)", circuits=list(CIRC), methods=list(METHODS) + ["adjoint_metric_tensor"],
              outside="QNode-level classical Jacobian contraction, quantum_fisher plumbing, finite shots, device wire inference (aux_wire given explicitly)")
    ctx.assume(*sx.SHIM_NOTES, "shim: the names `math` and `create_initial_state` inside pennylane.gradients.adjoint_metric_tensor are rebound so that the accumulators are object arrays",
               "generated tapes are evaluated by the matrix-route oracle; state derivatives come from the symbolic differentiator")
    ctx.rule = "one obligation per (circuit, method, tensor entry); non-trivial = mentions a symbolic parameter"
    ctx.pmap(work, items, timeout_each=900)
