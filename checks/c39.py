"""C39 Jacobian-product utilities contract Jacobians correctly (E1).

compute_vjp_single / compute_vjp_multi / compute_jvp_single / compute_jvp_multi and the tape-level vjp / jvp / batch_vjp /
batch_jvp run on Jacobians, cotangents and tangents whose ENTRIES ARE SYMBOLIC REALS.  The gradient transform is a stub (the
environment): it returns placeholder tapes and a post-processing function that yields an arbitrary (symbolic) Jacobian of the
documented nested-tuple layout for the tape's measurements, parameters and shot copies.  The zero-cotangent / zero-tangent
shortcut (`allclose(dy, 0)`) forks on the symbolic entries: the all-zero branch and the general branch are both explored.
z3 proves for all real entries that every returned component equals the explicit contraction
      vjp[k] = sum_{m,j} dy[m][j] * J[m][k][j]   (summed over shot copies for shot vectors),
      jvp[m][j] = sum_k J[m][k][j] * t[k].
"""
from __future__ import annotations

import itertools

import numpy as np
import pennylane as qp
import importlib

V = importlib.import_module("pennylane.gradients.vjp")
JV = importlib.import_module("pennylane.gradients.jvp")

from vf import symx as sx, obl

# measurement layouts: list of output dimensions (0 = scalar such as expval, d = vector such as probs over log2(d) wires)
LAYOUTS = {"expval": [0], "probs(2)": [2], "probs(4)": [4], "expval, expval": [0, 0], "expval, probs(2)": [0, 2], "probs(2), expval, probs(4)": [2, 0, 4], "probs(2), probs(2)": [2, 2]}
NPARAMS = [1, 2, 3]


def sym_jac(S, dims, P, tag="J"):
    """Jacobian in PennyLane's return layout: single measurement & single param -> array; several params -> tuple over params;
    several measurements -> tuple over measurements of the former"""
    def block(m, d):
        def entry(k):
            if d == 0:
                return np.array(S.real(f"{tag}{m}_{k}"), dtype=object)
            return np.array([S.real(f"{tag}{m}_{k}_{j}") for j in range(d)], dtype=object)

        return entry(0) if P == 1 else tuple(entry(k) for k in range(P))

    return block(0, dims[0]) if len(dims) == 1 else tuple(block(m, d) for m, d in enumerate(dims))


def jac_entry(J, dims, P, m, k, j):
    blk = J if len(dims) == 1 else J[m]
    e = blk if P == 1 else blk[k]
    e = np.asarray(e, dtype=object)
    return e.item() if dims[m] == 0 else e[j]


def sym_dy(S, dims, tag="dy", zero=False):
    def one(m, d):
        if d == 0:
            return np.array(0.0 if zero else S.real(f"{tag}{m}"), dtype=object)
        return np.array([0.0 if zero else S.real(f"{tag}{m}_{j}") for j in range(d)], dtype=object)

    return one(0, dims[0]) if len(dims) == 1 else tuple(one(m, d) for m, d in enumerate(dims))


def dy_entry(dy, dims, m, j):
    e = np.asarray(dy if len(dims) == 1 else dy[m], dtype=object)
    return e.item() if dims[m] == 0 else e[j]


def expected_vjp(J, dy, dims, P):
    out = []
    for k in range(P):
        tot = 0
        for m, d in enumerate(dims):
            for j in range(max(d, 1)):
                tot = tot + dy_entry(dy, dims, m, j) * jac_entry(J, dims, P, m, k, j)
        out.append(tot)
    return out


def expected_jvp(J, t, dims, P):
    out = []
    for m, d in enumerate(dims):
        for j in range(max(d, 1)):
            tot = 0
            for k in range(P):
                tot = tot + jac_entry(J, dims, P, m, k, j) * t[k]
            out.append(tot)
    return out


def _flat(x):
    if x is None:
        return None
    if isinstance(x, (tuple, list)):
        out = []
        for y in x:
            out += _flat(y)
        return out
    return [v for v in sx.arr(np.asarray(x, dtype=object)).ravel()]


def make_tape(dims, P, shots=None):
    ops = [qp.RX(0.1 * (k + 1), wires=k % 2) for k in range(P)] + [qp.CNOT([0, 1])]
    mps = []
    for i, d in enumerate(dims):
        mps.append(qp.expval(qp.PauliZ(i % 2)) if d == 0 else qp.probs(wires=list(range(int(np.log2(d))))))
    t = qp.tape.QuantumScript(ops, mps, shots=shots)
    t.trainable_params = list(range(P))
    return t


def stub_gradient(J_of):
    """environment stub for a gradient transform: returns placeholder tapes and a processing function yielding the Jacobian"""
    def gradient_fn(tape, **kw):
        return [tape, tape], lambda results: J_of(tape)

    return gradient_fn


# ---------------------------------------------------------------- numeric replay
def _concrete(model, names, default=0.0):
    return {n: model.get("vars", {}).get(n, default) for n in names}


class _NumS:
    """plain-float stand-in for the session: S.real(name) -> value from a dict"""

    def __init__(self, vals):
        self.vals = vals

    def real(self, name):
        return float(self.vals.get(name, 0.37))


def _run(kind, lname, P, S, extra):
    dims = LAYOUTS[lname]
    J = sym_jac(S, dims, P)
    if kind == "compute_vjp":
        dy = sym_dy(S, dims)
        fn = V.compute_vjp_multi if len(dims) > 1 else V.compute_vjp_single
        got = fn(dy, J, num=extra.get("num"))
        return _flat(got), expected_vjp(J, dy, dims, P)
    if kind == "compute_jvp":
        t = np.array([S.real(f"t{k}") for k in range(P)], dtype=object) if extra.get("tangent") != "list" else [np.array(S.real(f"t{k}"), dtype=object) for k in range(P)]
        fn = JV.compute_jvp_multi if len(dims) > 1 else JV.compute_jvp_single
        got = fn(t, J)
        tt = [np.asarray(x, dtype=object).item() for x in (t if isinstance(t, list) else list(t))]
        return _flat(got), expected_jvp(J, tt, dims, P)
    if kind in ("vjp", "vjp zero dy", "vjp partially zero dy"):
        tape = make_tape(dims, P)
        dy = sym_dy(S, dims, zero=(kind == "vjp zero dy"))
        if kind == "vjp partially zero dy" and len(dims) > 1:
            dy = tuple([np.zeros_like(np.asarray(dy[0], dtype=object))] + list(dy[1:]))
        tapes, fn = V.vjp(tape, dy, stub_gradient(lambda t: J))
        got = fn(tuple(0.0 for _ in tapes))
        return _flat(got), expected_vjp(J, dy, dims, P)
    if kind == "vjp shot vector":
        shots = tuple(extra.get("shots", (10, 20)))
        tape = make_tape(dims, P, shots=shots)
        Js = tuple(sym_jac(S, dims, P, f"J{c}x") for c in range(len(shots)))
        dys = tuple(sym_dy(S, dims, f"dy{c}x") for c in range(len(shots)))
        tapes, fn = V.vjp(tape, dys, stub_gradient(lambda t: Js))
        got = fn(tuple(0.0 for _ in tapes))
        es = [expected_vjp(J_, d_, dims, P) for J_, d_ in zip(Js, dys)]
        return _flat(got), [sum(col[1:], col[0]) for col in zip(*es)]
    if kind in ("jvp", "jvp zero tangent"):
        tape = make_tape(dims, P)
        t = np.array([0.0 if kind == "jvp zero tangent" else S.real(f"t{k}") for k in range(P)], dtype=object)
        tapes, fn = JV.jvp(tape, t, stub_gradient(lambda tp: J))
        got = fn(tuple(0.0 for _ in tapes))
        return _flat(got), expected_jvp(J, list(t), dims, P)
    if kind == "jvp shot vector":
        shots = tuple(extra.get("shots", (10, 20)))
        tape = make_tape(dims, P, shots=shots)
        Js = tuple(sym_jac(S, dims, P, f"J{c}x") for c in range(len(shots)))
        t = np.array([S.real(f"t{k}") for k in range(P)], dtype=object)
        tapes, fn = JV.jvp(tape, t, stub_gradient(lambda tp: Js))
        got = fn(tuple(0.0 for _ in tapes))
        exp = []
        for J_ in Js:
            exp += expected_jvp(J_, list(t), dims, P)
        return _flat(got), exp
    if kind in ("batch_vjp append", "batch_vjp extend", "batch_jvp append"):
        # two tapes with different layouts; the second uses the reversed layout
        dims2 = list(reversed(dims))
        tape1, tape2 = make_tape(dims, P), make_tape(dims2, P)
        J2 = sym_jac(S, dims2, P, "K")
        table = {id(tape1): J, id(tape2): J2}
        gf = stub_gradient(lambda tp: table[id(tp)])
        if kind.startswith("batch_vjp"):
            dy1, dy2 = sym_dy(S, dims, "dy"), sym_dy(S, dims2, "ey")
            tapes, fn = V.batch_vjp([tape1, tape2], [dy1, dy2], gf, reduction=kind.split()[1])
            got = fn(tuple(0.0 for _ in tapes))
            exp = expected_vjp(J, dy1, dims, P) + expected_vjp(J2, dy2, dims2, P)
            return _flat(got), exp
        t1 = np.array([S.real(f"t{k}") for k in range(P)], dtype=object)
        t2 = np.array([S.real(f"u{k}") for k in range(P)], dtype=object)
        tapes, fn = JV.batch_jvp([tape1, tape2], [t1, t2], gf)
        got = fn(tuple(0.0 for _ in tapes))
        return _flat(got), expected_jvp(J, list(t1), dims, P) + expected_jvp(J2, list(t2), dims2, P)
    raise KeyError(kind)


def _num(kind, lname, P, extra, vals):
    try:
        got, exp = _run(kind, lname, P, _NumS(vals), extra)
    except Exception as e:  # the library raised on plain floats
        return True, f"{kind} [{lname}, {P} parameters]: raised {e!r}"
    if got is None or len(got) != len(exp):
        return True, f"{kind} [{lname}, {P} parameters]: returned {0 if got is None else len(got)} entries, expected {len(exp)}"
    d = max(abs(complex(g) - complex(e)) for g, e in zip(got, exp)) if exp else 0.0
    return d > 1e-9, f"{kind} [{lname}, {P} parameters] at {dict(list(vals.items())[:8])}...: max|returned - explicit contraction| = {d:.3g}"


def replay(p):
    return _num(p["kind"], p["layout"], p["P"], p.get("extra", {}), p["values"])


def work(item):
    kind, lname, P, extra = item
    name = f"{kind} [{lname}; {P} parameter{'s' if P > 1 else ''}{'; ' + str(extra) if extra else ''}]"
    sx.install_shims()

    def b(S):
        return _run(kind, lname, P, S, extra)

    def consume(S, v, i):
        got, exp = v

        def rp(model):
            vals = dict(model.get("vars", {}))
            ok, obs = _num(kind, lname, P, extra, vals)
            return ok, {"kind": kind, "layout": lname, "P": P, "extra": extra, "values": vals, "observed": obs}

        sig = f"{kind}:{lname}:{P}"
        if got is None or len(got) != len(exp):
            import z3

            # structural mismatch on this path: take a model of the path condition and replay it on plain floats
            return [obl.prove_claim(S, f"{name} (path {i}): one entry per {'parameter' if 'vjp' in kind else 'output (per shot copy)'}; returned {None if got is None else len(got)}, expected {len(exp)}",
                                    z3.BoolVal(False), replay=rp, signature=sig, symbols=["J", "dy", "t"])]
        return [obl.prove(S, f"{name} (path {i}): every component == explicit contraction", got, exp, replay=rp, signature=sig, timeout=60)]

    try:
        return obl.run_instance(name, b, consume)
    except (TypeError, AttributeError, IndexError, KeyError, ValueError) as e:
        import traceback

        tb = traceback.format_exc(limit=6)[-600:]
        ok, obs = _num(kind, lname, P, extra, {})
        if ok:
            return [{"name": name + ": returns the contraction", "status": "violated", "symbols": ["J", "dy"], "nontrivial": True, "queries": 0, "signature": f"{kind}:{lname}:{P}", "detail": obs,
                     "replay": {"kind": kind, "layout": lname, "P": P, "extra": extra, "values": {}, "observed": obs}}]
        return [{"name": name, "status": "unsupported", "detail": f"{e!r} {tb}"}]


def run(ctx):
    ctx.level = "proof"
    items = []
    for l, P in itertools.product(LAYOUTS, NPARAMS):
        dims = LAYOUTS[l]
        items.append(("compute_vjp", l, P, {}))
        if len(dims) == 1:
            items.append(("compute_vjp", l, P, {"num": max(dims[0], 1)}))
        items.append(("compute_jvp", l, P, {}))
        if P > 1:
            items.append(("compute_jvp", l, P, {"tangent": "list"}))
        for kind in ("vjp", "vjp zero dy", "jvp", "jvp zero tangent", "vjp shot vector", "jvp shot vector", "batch_vjp append", "batch_vjp extend", "batch_jvp append"):
            if ctx.tier == "quick" and P == 3 and kind not in ("vjp", "jvp"):
                continue
            items.append((kind, l, P, {}))
        if len(dims) > 1:
            items.append(("vjp partially zero dy", l, P, {}))
        if P < 3 or ctx.tier != "quick":
            # repeated shot counts are stored run-length encoded in Shots.shot_vector: the number of copies is not its length
            for sh in ((10, 10), (5, 7, 7)):
                items.append(("vjp shot vector", l, P, {"shots": list(sh)}))
                items.append(("jvp shot vector", l, P, {"shots": list(sh)}))
    if ctx.only:
        items = [it for it in items if ctx.only in f"{it[0]} [{it[1]}"]
    ctx.shapes = len(items)
    ctx.encode(V.compute_vjp_single, V.compute_vjp_multi, V.vjp, V.batch_vjp, JV.compute_jvp_single, JV.compute_jvp_multi, JV.jvp, JV.batch_jvp)
    ctx.bound(entries="all real Jacobian / cotangent / tangent entries (symbolic)", layouts=list(LAYOUTS), parameters=NPARAMS, shot_vectors="2-3 shot copies, with and without repeated shot counts", batches="two tapes with different layouts",
              outside="classical_jacobian (needs an autodiff framework tracing the QNode's classical pre-processing), tensor-valued (non-scalar) tape parameters, torch/jax/tensorflow interfaces, broadcasting")
    ctx.assume(*sx.SHIM_NOTES, "stub: the gradient transform is replaced by an oracle returning placeholder tapes and an arbitrary symbolic Jacobian in the documented nested layout")
    ctx.rule = "one obligation per (function, measurement layout, number of parameters, path); non-trivial = mentions symbolic entries"
    ctx.pmap(work, items, timeout_each=600)
