"""C33 Device preprocessing yields executable, equivalent circuits (E1, partial: symbolic gate angles; circuits enumerated).

Circuits containing templates, symbolic operator wrappers (Adjoint, Pow, Controlled with control values), mid-circuit state
preparation and measurements some devices do not support natively (Hermitian observables, tensor products, sums) carry SYMBOLIC gate
angles and go through the REAL transform program that default.qubit, default.mixed and reference.qubit return from their
preprocessing.  For the returned batch of circuits:
    supported     every operation satisfies an independent notion of "the device can execute it" (default.qubit / default.mixed: the
                  operation has a matrix or is a state preparation at the start; reference.qubit: its name is in the device's
                  declared operation set) and acts on device wires (structural),
    equivalent    every returned circuit is evaluated by the matrix-route ORACLE (products of qp.matrix, own measurement formulas - not
                  the device simulator), the program's post-processing function is applied, and z3 proves every result equal to the
                  oracle's result for the ORIGINAL circuit, for all angles.
Circuits the device must reject (an operation without decomposition and matrix; for default.mixed, which declares a closed observable
set, observables outside it - also as scalar multiples or nested in products / sums) raise DeviceError (structural).
Outside: execution of the processed circuits by the device (C26-C28), shots / sampling programs, mid-circuit measurements (C21),
differentiation-method specific programs, other devices (compiled or external simulators).
"""
from __future__ import annotations

import numpy as np
import pennylane as qp

from vf import symx as sx, obl, simx

PN = ["a", "b", "g"]
W = [0, 1, 2]
DEVICES = ["default.qubit", "default.mixed", "reference.qubit"]
H1 = np.array([[1, 0.5j], [-0.5j, -1]])
CIRCUITS = {
    "template and wrappers": lambda p: [qp.RX(p[0], 0), qp.QFT(wires=[0, 1, 2]), qp.adjoint(qp.CRY(p[1], [2, 0])), qp.pow(qp.IsingXX(p[0], [0, 1]), 2),
                                        qp.ctrl(qp.Rot(p[0], p[1], 0.3, 2), control=[0], control_values=[0])],
    "embeddings and layers": lambda p: [qp.AngleEmbedding(np.array([p[0], p[1]], dtype=object), wires=[0, 1]), qp.BasicEntanglerLayers(np.array([[p[2], p[0], 0.4]], dtype=object), wires=[0, 1, 2]),
                                        qp.MultiControlledX(wires=[0, 1, 2], control_values=[1, 0]), qp.adjoint(qp.S(1)), qp.pow(qp.T(2), 3)],
    "mid-circuit state preparation": lambda p: [qp.RX(p[0], 0), qp.CNOT([0, 2]), qp.StatePrep(np.array([0.6, 0.8j]), wires=[1]), qp.CRZ(p[1], [1, 2]), qp.ctrl(qp.PhaseShift(p[2], 0), control=[1, 2], control_values=[1, 1])],
    "nested wrappers": lambda p: [qp.Hadamard(1), qp.adjoint(qp.pow(qp.CRX(p[0], [1, 0]), 2)), qp.ctrl(qp.adjoint(qp.RY(p[1], 2)), control=[1]), qp.pow(qp.adjoint(qp.SX(0)), 3), qp.IsingZZ(p[2], [0, 2])],
}
MEAS = {
    "expval Hermitian(1), probs[0,2], var X0@Y2": lambda: [qp.expval(qp.Hermitian(H1, wires=1)), qp.probs(wires=[0, 2]), qp.var(qp.PauliX(0) @ qp.PauliY(2))],
    "expval Z0 + 0.5*X1@Y2, expval Y1": lambda: [qp.expval(qp.PauliZ(0) + 0.5 * (qp.PauliX(1) @ qp.PauliY(2))), qp.expval(qp.PauliY(1))],
    "probs all, expval X0, expval Z0": lambda: [qp.probs(wires=W), qp.expval(qp.PauliX(0)), qp.expval(qp.PauliZ(0))],
}


def program_of(dev):
    if hasattr(dev, "preprocess_transforms"):
        return dev.preprocess_transforms()
    return dev.preprocess()[0]


def supported_problem(dname, tapes):
    ref_ops = None
    if dname == "reference.qubit":
        import pennylane.devices.reference_qubit as RQ

        ref_ops = set(RQ.operations)
    for t in tapes:
        for k, op in enumerate(t.operations):
            if any(w not in W for w in op.wires):
                return f"{op.name} acts on wires {list(op.wires)} outside the device wires"
            if ref_ops is not None:
                if op.name not in ref_ops:
                    return f"{op.name} is not in reference.qubit's declared operation set"
            elif not (op.has_matrix or (k == 0 and op.name in ("StatePrep", "BasisState"))):
                return f"{op.name} has no matrix and is not a leading state preparation"
    return None


def oracle_results(tape):
    psi = simx.oracle_state(tape.operations, W)
    return [np.asarray(simx.oracle_measure(psi, mp, W), dtype=object).ravel() for mp in tape.measurements]


def evaluate(dname, cname, mname, p):
    tape = qp.tape.QuantumScript(CIRCUITS[cname](p), MEAS[mname]())
    dev = qp.device(dname, wires=W)
    tapes, fn = program_of(dev)([tape])
    pr = supported_problem(dname, tapes)
    res = []
    for t in tapes:
        r = oracle_results(t)
        r = [x if np.size(x) > 1 else x.ravel()[0] for x in r]
        res.append(tuple(r) if len(t.measurements) > 1 else r[0])
    got = fn(tuple(res))
    got = got[0] if isinstance(got, (tuple, list)) and len(got) == 1 and len(tape.measurements) > 1 and isinstance(got[0], (tuple, list)) else got
    if isinstance(got, (tuple, list)) and len(got) == 1 and isinstance(got[0], (tuple, list)):
        got = got[0]
    got = list(got) if isinstance(got, (tuple, list)) else [got]
    want = oracle_results(tape)
    return tape, tapes, pr, got, want


def _flat(x, symbolic):
    if symbolic:
        return list(sx.arr(np.asarray(x, dtype=object)).ravel())
    return list(np.asarray(x, dtype=complex).ravel())


def _num(dname, cname, mname, params):
    p = [float(v) for v in params]
    try:
        tape, tapes, pr, got, want = evaluate(dname, cname, mname, p)
    except Exception as e:  # noqa: BLE001
        return True, f"preprocessing of {dname} on {cname} [{mname}]: raised {e!r}"
    if pr:
        return True, f"preprocessing of {dname} on {cname}: {pr}"
    if len(got) != len(want):
        return True, f"preprocessing of {dname} on {cname} [{mname}]: {len(got)} results for {len(want)} measurements"
    d = 0.0
    for g, w in zip(got, want):
        g, w = _flat(g, False), _flat(w, False)
        if len(g) != len(w):
            return True, f"preprocessing of {dname} on {cname} [{mname}]: result shapes differ"
        d = max(d, max(abs(x - y) for x, y in zip(g, w)))
    return d > 1e-8, f"preprocessing of {dname} on {cname} [{mname}] at {dict(zip(PN, p))}: post-processed oracle results of the {len(tapes)} returned circuit(s) differ from the original circuit's by {d:.3g}"


def replay(p):
    if p.get("kind") == "reject":
        pr = reject_problem(p["device"])
        return bool(pr), pr or "rejected"
    if p.get("kind") == "reject-obs":
        pr = reject_obs_problem(p["device"])
        return bool(pr), pr or "rejected"
    return _num(p["device"], p["circuit"], p["meas"], p["params"])


class _NoDecomp(qp.operation.Operation):
    num_wires = 1
    num_params = 0


def reject_problem(dname):
    from pennylane.exceptions import DeviceError

    tape = qp.tape.QuantumScript([qp.RX(0.3, 0), _NoDecomp(wires=1)], [qp.expval(qp.PauliZ(0))])
    dev = qp.device(dname, wires=W)
    try:
        tapes, fn = program_of(dev)([tape])
    except DeviceError:
        return None
    except Exception as e:  # noqa: BLE001
        return f"{dname}: an operation without matrix and decomposition raised {type(e).__name__} instead of DeviceError"
    return f"{dname}: an operation without matrix and decomposition was accepted ({[o.name for o in tapes[0].operations]})"


UNSUPPORTED_OBS = {
    "X(0)**2": lambda: qp.pow(qp.PauliX(0), 2), "2 * X(0)**2": lambda: 2 * qp.pow(qp.PauliX(0), 2), "Z(1) @ (2 * X(0)**2)": lambda: qp.PauliZ(1) @ (2 * qp.pow(qp.PauliX(0), 2)),
    "Z(1) + 2 * Adjoint(X(0))": lambda: qp.PauliZ(1) + 2 * qp.adjoint(qp.PauliX(0)), "CZ([0,1])": lambda: qp.CZ([0, 1]),
}


def reject_obs_problem(dname):
    """default.mixed declares a closed set of observables: anything else - also as a scalar multiple or nested in a product / sum - is rejected"""
    from pennylane.exceptions import DeviceError

    dev = qp.device(dname, wires=W)
    for label, mk in UNSUPPORTED_OBS.items():
        tape = qp.tape.QuantumScript([qp.RX(0.3, 0)], [qp.expval(mk())])
        try:
            program_of(dev)([tape])
        except DeviceError:
            continue
        except Exception as e:  # noqa: BLE001
            return f"{dname}: expval({label}) raised {type(e).__name__} instead of DeviceError"
        return f"{dname}: expval({label}) is outside the device's declared observables but was accepted by the preprocessing"
    return None


def work(item):
    if item[0] == "reject-obs":
        dname = item[1]
        pr = reject_obs_problem(dname)
        rec = {"name": f"{dname}: observables outside the declared set ({', '.join(UNSUPPORTED_OBS)}) are rejected with DeviceError", "status": "violated" if pr else "discharged", "symbols": [], "nontrivial": False, "queries": 1,
               "detail": pr or "DeviceError for each"}
        if pr:
            rec.update(signature=f"reject-obs:{dname}", replay={"kind": "reject-obs", "device": dname, "observed": pr})
        return [rec]
    if item[0] == "reject":
        dname = item[1]
        pr = reject_problem(dname)
        rec = {"name": f"{dname}: a circuit with an operation that has neither matrix nor decomposition is rejected with DeviceError", "status": "violated" if pr else "discharged", "symbols": [], "nontrivial": False, "queries": 1,
               "detail": pr or "DeviceError"}
        if pr:
            rec.update(signature=f"reject:{dname}", replay={"kind": "reject", "device": dname, "observed": pr})
        return [rec]
    dname, cname, mname = item
    name = f"preprocessing of {dname} on '{cname}' [{mname}]"
    sx.install_shims()

    def b(S):
        p = [S.param(x) for x in PN]
        return evaluate(dname, cname, mname, p)

    def consume(S, v, i):
        tape, tapes, pr, got, want = v

        def rp(model):
            params = [model["params"].get(x, 0.0) for x in PN]
            ok, obs = _num(dname, cname, mname, params)
            return ok, {"device": dname, "circuit": cname, "meas": mname, "params": params, "observed": obs}

        nops = sum(len(t.operations) for t in tapes)
        rec = {"name": f"{name} (path {i}): all {nops} operations of the {len(tapes)} returned circuit(s) are executable by the device and on device wires", "status": "violated" if pr else "discharged", "symbols": PN,
               "nontrivial": True, "queries": 1, "detail": pr or "supported"}
        if pr:
            rec.update(signature=f"supported:{dname}", replay={"device": dname, "circuit": cname, "meas": mname, "params": [0.3, -0.8, 1.9], "observed": pr})
        out = [rec]
        if len(got) != len(want):
            ok, obs = _num(dname, cname, mname, [0.3, -0.8, 1.9])
            out.append({"name": f"{name} (path {i}): one result per measurement", "status": "violated" if ok else "inconclusive", "symbols": PN, "nontrivial": True, "queries": 1, "signature": f"structure:{dname}", "detail": obs,
                        "replay": {"device": dname, "circuit": cname, "meas": mname, "params": [0.3, -0.8, 1.9], "observed": obs}})
            return out
        lhs = [x for g in got for x in _flat(g, True)]
        rhs = [x for w in want for x in _flat(w, True)]
        if len(lhs) != len(rhs):
            ok, obs = _num(dname, cname, mname, [0.3, -0.8, 1.9])
            out.append({"name": f"{name} (path {i}): result shapes", "status": "violated" if ok else "inconclusive", "symbols": PN, "nontrivial": True, "queries": 1, "signature": f"structure:{dname}", "detail": obs,
                        "replay": {"device": dname, "circuit": cname, "meas": mname, "params": [0.3, -0.8, 1.9], "observed": obs}})
            return out
        out.append(obl.prove(S, f"{name} (path {i}): all {len(lhs)} post-processed results equal those of the original circuit, for all angles", lhs, rhs, replay=rp, signature=f"equivalent:{dname}:{cname}", timeout=180,
                             tol=1e-9 if cname == "mid-circuit state preparation" else None, over=rhs))
        return out

    try:
        return obl.run_instance(name, b, consume, max_paths=16)
    except (TypeError, AttributeError, IndexError, KeyError, ValueError, NotImplementedError) as e:
        import traceback

        tb = traceback.format_exc(limit=8)[-700:]
        ok, obs = _num(dname, cname, mname, [0.3, -0.8, 1.9])
        if ok:
            return [{"name": name, "status": "violated", "symbols": PN, "nontrivial": True, "queries": 1, "signature": f"equivalent:{dname}:{cname}", "detail": obs,
                     "replay": {"device": dname, "circuit": cname, "meas": mname, "params": [0.3, -0.8, 1.9], "observed": obs}}]
        return [{"name": name, "status": "unsupported", "detail": f"{e!r} {tb}"}]


def run(ctx):
    ctx.level = "other"
    items = [("reject", d) for d in DEVICES] + [("reject-obs", "default.mixed")] + [(d, c, m) for d in DEVICES for c in CIRCUITS for m in MEAS
                                                 # reference.qubit unrolls the QFT circuit into ~100 rotations with floating angles: z3 answers unknown at 180 s (thorough tier only)
                                                 if not (ctx.tier == "quick" and d == "reference.qubit" and c == "template and wrappers")]
    if ctx.only:
        items = [it for it in items if ctx.only in str(it)]
    ctx.shapes = len(items)
    ctx.encode(qp.devices.DefaultQubit.preprocess_transforms, qp.devices.preprocess.decompose, qp.devices.preprocess.validate_measurements)
    ctx.bound(angles="all real values of 3 gate angles", devices=DEVICES, circuits=list(CIRCUITS), measurements=list(MEAS), register="3 wires",
              outside="execution of the processed circuits by the device simulators (C26-C28), shots / sampling programs, mid-circuit measurements (C21), gradient-method specific programs, "
                      "compiled or external devices (lightning, default.clifford, default.tensor)")
    ctx.assume(*sx.SHIM_NOTES[:3], "oracle: matrix products of qp.matrix and own measurement formulas (vf.simx.oracle_state / oracle_measure)",
               "'mid-circuit state preparation' is decomposed with floating angles by the library: that circuit is proved up to 1e-9")
    ctx.rule = "per (device, circuit, measurements, path): a structural support obligation and one z3 identity over all angles for the post-processed results"
    ctx.pmap(work, items, timeout_each=900)
