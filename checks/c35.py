"""C35 Generated shift rules are exact for their frequency spectra (z3 over the rule's output).

The rule generator itself runs concretely (trigonometry of frequencies/shifts, a linear solve).  For every configuration of a
stated family the REAL generate_shift_rule / generate_multi_shift_rule is called; its output (coefficients c_j, shifts s_j as
exact rationals of the returned floats) is then checked against ALL functions with the given spectrum at ALL points:
   f(x) = a_0 + sum_k (a_k cos w_k x + b_k sin w_k x),   with a_k, b_k and the phase points (C_k, S_k) = (cos w_k x, sin w_k x)
   symbolic (independent circle points), cos/sin(w_k s_j) entering as numbers:
   | sum_j c_j f(x + s_j) - f^(n)(x) | <= 1e-7 * sum(|a_k| + |b_k|)            decided by z3.
The universally quantified function and evaluation point are the solver's part; the configuration space is enumerated.
"""
from __future__ import annotations

import itertools
import math
import warnings
from fractions import Fraction

import numpy as np
import z3

import pennylane as qp
from pennylane.gradients.general_shift_rules import generate_shift_rule, generate_multi_shift_rule

from vf.common import DISCHARGED, VIOLATED, INCONCLUSIVE

TOL = 1e-7


def rv(x):
    return z3.RealVal(str(Fraction(float(x))))


def configs(tier):
    out = []
    base = [s for r in range(1, 5) for s in itertools.combinations([1, 2, 3, 4], r)]
    for fs in base:
        out.append(("rule", tuple(fs), None, 1))
        out.append(("rule", tuple(f * 0.5 for f in fs), None, 1))
        out.append(("rule", tuple(f * 3 for f in fs), None, 1))
    for fs in [(1, 3), (2, 5), (1, 2.5), (0.7, 1.9), (1, 4), (2, 3), (1, 2, 4), (1, 3, 4), (0.5, 1.5, 2.0), (1, 2, 3, 5)]:
        out.append(("rule", fs, None, 1))
        # user-supplied, well separated shifts
        sh = tuple(0.35 + 0.61 * k for k in range(len(fs)))
        out.append(("rule", fs, sh, 1))
    for fs in [(1,), (1, 2), (1, 2, 3), (2,), (0.5, 1.0)]:
        out.append(("rule", fs, None, 2))
        if tier == "thorough" or fs in ((1,), (1, 2)):
            out.append(("rule", fs, None, 3))
            out.append(("rule", fs, None, 4))
    out.append(("multi", ((1,), (1,)), None, (1, 1)))
    out.append(("multi", ((1, 2), (1,)), None, (1, 1)))
    out.append(("multi", ((1,), (1, 2)), None, (2, 1)))
    out.append(("multi", ((1, 2), (2, 4)), None, (1, 1)))
    out.append(("multi", ((1,), (1,)), None, (4, 1)))
    out.append(("multi", ((1,), (1, 2)), None, (2, 2)))
    seen, uniq = set(), []
    for c in out:
        if c not in seen:
            seen.add(c)
            uniq.append(c)
    return uniq


def derivative_coeffs(w, n):
    """d^n/dx^n of (a cos wx + b sin wx) = A' cos + B' sin with (A', B') as linear maps of (a, b): returns 2x2 [[ca_a, ca_b],[cb_a, cb_b]]"""
    # cos -> -w sin ; sin -> w cos
    M = np.array([[0.0, w], [-w, 0.0]])  # (a,b) -> coefficients of (cos, sin) after one derivative: d(a cos + b sin) = (b w) cos + (-a w) sin
    R = np.eye(2)
    for _ in range(n):
        R = M @ R
    return R


def check_rule(freqs, rule, order):
    """z3 queries for one 1-D rule, one per frequency plus one for the constant term.  By linearity of the rule in f,
    |sum_k e_k| <= sum_k |e_k|, so per-frequency bounds |e_k| <= TOL*(|a_k|+|b_k|) give the bound for every f with this spectrum.
    returns (status, model_values or None, seconds)"""
    import time

    freqs = list(freqs)
    t0 = time.time()
    for row in rule:
        if len(row) == 3 and abs(float(row[1]) - 1.0) > 1e-12:
            return "unsupported-multiplier", None, 0.0
    const = sum(Fraction(float(r[0])) for r in rule)
    if abs(const) > Fraction(TOL):
        return "sat", {"constant": float(const)}, time.time() - t0
    for k, w in enumerate(freqs):
        a, b, C, S_ = z3.Real("a"), z3.Real("b"), z3.Real("C"), z3.Real("S")
        s = z3.Solver()
        s.set("timeout", 60000)
        s.add(C * C + S_ * S_ == 1)
        total = z3.RealVal(0)
        for row in rule:
            c, sh = float(row[0]), float(row[-1])
            cw, sw = math.cos(w * sh), math.sin(w * sh)
            total = total + rv(c) * (a * (C * rv(cw) - S_ * rv(sw)) + b * (S_ * rv(cw) + C * rv(sw)))
        R = derivative_coeffs(w, order)
        exact = (rv(R[0, 0]) * a + rv(R[0, 1]) * b) * C + (rv(R[1, 0]) * a + rv(R[1, 1]) * b) * S_
        ta, tb = z3.Real("ta"), z3.Real("tb")
        s.add(ta >= a, ta >= -a, tb >= b, tb >= -b, ta + tb <= 1)
        diff = total - exact
        s.add(z3.Or(diff > rv(TOL), diff < -rv(TOL)))
        r = s.check()
        if r == z3.sat:
            m = s.model()

            def val(v):
                x = m.eval(v, model_completion=True)
                try:
                    return float(x.as_fraction())
                except Exception:
                    return float(x.approx(20).as_fraction())

            return "sat", {"frequency": w, "a": val(a), "b": val(b), "C": val(C), "S": val(S_)}, time.time() - t0
        if r != z3.unsat:
            return "unknown", None, time.time() - t0
    return "unsat", None, time.time() - t0


def _replay_rule(freqs, shifts, order, mv):
    """plain float evaluation of the real rule on the model's function at the model's point"""
    with warnings.catch_warnings():
        warnings.simplefilter("ignore")
        rule = np.asarray(generate_shift_rule(tuple(freqs), shifts=shifts, order=order), dtype=float)
    freqs = list(freqs)
    # recover x_k phases from (C,S); independent circle points are realisable simultaneously only if the frequencies are rationally
    # independent -- for replay we test each frequency separately (the identity is linear in (a_k, b_k))
    worst, where = 0.0, None
    for k, w in enumerate(freqs):
        for (ak, bk) in ((1.0, 0.0), (0.0, 1.0)):
            for x in (0.3, -1.1, 2.0):
                f = lambda t: ak * math.cos(w * t) + bk * math.sin(w * t)
                est = sum(float(r[0]) * f(x + float(r[-1])) for r in rule)
                R = derivative_coeffs(w, order)
                exact = (R[0, 0] * ak + R[0, 1] * bk) * math.cos(w * x) + (R[1, 0] * ak + R[1, 1] * bk) * math.sin(w * x)
                if abs(est - exact) > worst:
                    worst, where = abs(est - exact), (w, ak, bk, x, est, exact)
    const = abs(sum(float(r[0]) for r in rule))
    if const > worst:
        worst, where = const, ("constant", const)
    return worst > 1e-5, f"generate_shift_rule({tuple(freqs)}, shifts={shifts}, order={order}): largest error {worst:.3g} at (freq, a, b, x, rule value, exact) = {where}"


def replay(p):
    if p["kind"] == "rule":
        return _replay_rule(p["freqs"], tuple(p["shifts"]) if p["shifts"] else None, p["order"], None)
    return _replay_multi(p["freqs"], p["orders"])


def _replay_multi(freqs, orders):
    with warnings.catch_warnings():
        warnings.simplefilter("ignore")
        rule = np.asarray(generate_multi_shift_rule([tuple(f) for f in freqs], orders=list(orders)), dtype=float)
    worst = 0.0
    for w1 in freqs[0]:
        for w2 in freqs[1]:
            for (f1, d1) in ((math.cos, None), (math.sin, None)):
                for (f2, d2) in ((math.cos, None), (math.sin, None)):
                    x, y = 0.4, -0.9
                    g = lambda u, v: f1(w1 * u) * f2(w2 * v)
                    est = sum(r[0] * g(x + r[1], y + r[2]) for r in rule)

                    def der(fn, w, n, t):
                        R = derivative_coeffs(w, n)
                        ab = (1.0, 0.0) if fn is math.cos else (0.0, 1.0)
                        return (R[0, 0] * ab[0] + R[0, 1] * ab[1]) * math.cos(w * t) + (R[1, 0] * ab[0] + R[1, 1] * ab[1]) * math.sin(w * t)

                    exact = der(f1, w1, orders[0], x) * der(f2, w2, orders[1], y)
                    worst = max(worst, abs(est - exact))
    return worst > 1e-5, f"generate_multi_shift_rule({freqs}, orders={orders}): largest error on product basis functions {worst:.3g}"


def work(cfg):
    kind, freqs, shifts, order = cfg
    name = f"{kind} freqs={freqs} shifts={'default' if shifts is None else tuple(round(s, 3) for s in shifts)} order={order}"
    warned = []
    try:
        with warnings.catch_warnings(record=True) as wl:
            warnings.simplefilter("always")
            if kind == "rule":
                rule = np.asarray(generate_shift_rule(tuple(freqs), shifts=shifts, order=order), dtype=float)
            else:
                rule = np.asarray(generate_multi_shift_rule([tuple(f) for f in freqs], orders=list(order)), dtype=float)
            warned = [str(w.message) for w in wl]
    except (ValueError, np.linalg.LinAlgError) as e:
        return [{"name": name, "status": "unsupported", "detail": f"rejected: {e!r}"[:200]}]
    if any("near zero determinant" in w for w in warned):
        return [{"name": name, "status": "unsupported", "detail": "the generator warned about a (near-)singular linear system: documented limitation, result not claimed"}]
    if kind == "rule":
        st, mv, dt = check_rule(freqs, rule, order)
        if st == "unsat":
            return [{"name": name, "status": DISCHARGED, "solver": "z3:unsat", "solver_s": round(dt, 3), "time_s": round(dt, 3), "queries": 1,
                     "symbols": ["a0"] + [f"a{k},b{k},C{k},S{k}" for k in range(len(freqs))], "detail": f"{len(rule)} terms; exact for every function with this spectrum at every point (tolerance {TOL})"}]
        if st == "sat":
            ok, obs = _replay_rule(freqs, shifts, order, mv)
            rec = {"name": name, "symbols": ["a,b,C,S"], "solver": "z3:sat", "queries": 1}
            if ok:
                rec.update(status=VIOLATED, signature=f"rule:{'equidistant-branch' if shifts is None and len(freqs) == 2 else 'general'}:{freqs}",
                           detail=f"reproduces in floating point: {obs}", replay={"kind": "rule", "freqs": list(freqs), "shifts": list(shifts) if shifts else None, "order": order, "observed": obs})
            else:
                rec.update(status=INCONCLUSIVE, detail=f"model does not reproduce: {obs}")
            return [rec]
        return [{"name": name, "status": INCONCLUSIVE if st == "unknown" else "unsupported", "symbols": ["a,b,C,S"], "detail": st}]
    # multi-rule: by linearity in the Fourier amplitudes it suffices to bound the error on every product basis function
    # cos/sin(w1 x) * cos/sin(w2 y) with symbolic phase points (C1,S1), (C2,S2)
    import time

    f1s, f2s = freqs
    t0 = time.time()
    q = 0

    def shifted(Cv, Sv, w, sh):
        cw, sw = math.cos(w * sh), math.sin(w * sh)
        return Cv * rv(cw) - Sv * rv(sw), Sv * rv(cw) + Cv * rv(sw)

    for i, w1 in enumerate(f1s):
        for j, w2 in enumerate(f2s):
            for t in ("cc", "cs", "sc", "ss"):
                C1, S1, C2, S2 = z3.Real("C1"), z3.Real("S1"), z3.Real("C2"), z3.Real("S2")
                s = z3.Solver()
                s.set("timeout", 60000)
                s.add(C1 * C1 + S1 * S1 == 1, C2 * C2 + S2 * S2 == 1)
                total = z3.RealVal(0)
                for row in rule:
                    c, s1, s2 = float(row[0]), float(row[1]), float(row[2])
                    c1, sn1 = shifted(C1, S1, w1, s1)
                    c2, sn2 = shifted(C2, S2, w2, s2)
                    total = total + rv(c) * ((c1 if t[0] == "c" else sn1) * (c2 if t[1] == "c" else sn2))
                R1, R2 = derivative_coeffs(w1, order[0]), derivative_coeffs(w2, order[1])
                d1 = (rv(R1[0, 0]) * C1 + rv(R1[1, 0]) * S1) if t[0] == "c" else (rv(R1[0, 1]) * C1 + rv(R1[1, 1]) * S1)
                d2 = (rv(R2[0, 0]) * C2 + rv(R2[1, 0]) * S2) if t[1] == "c" else (rv(R2[0, 1]) * C2 + rv(R2[1, 1]) * S2)
                diff = total - d1 * d2
                s.add(z3.Or(diff > rv(TOL), diff < -rv(TOL)))
                r = s.check()
                q += 1
                if r == z3.sat:
                    ok, obs = _replay_multi(freqs, order)
                    rec = {"name": name, "symbols": ["C1,S1,C2,S2"], "solver": "z3:sat", "queries": q}
                    if ok:
                        rec.update(status=VIOLATED, signature=f"multi:{freqs}:{order}", detail=f"reproduces: {obs}", replay={"kind": "multi", "freqs": [list(f) for f in freqs], "orders": list(order), "observed": obs})
                    else:
                        rec.update(status=INCONCLUSIVE, detail=f"model does not reproduce: {obs}")
                    return [rec]
                if r != z3.unsat:
                    return [{"name": name, "status": INCONCLUSIVE, "symbols": ["C1,S1,C2,S2"], "detail": "z3 unknown", "queries": q}]
    # constant and single-variable terms are covered by w = 0 being absent from the spectra: check the rule annihilates constants in each variable
    dt = time.time() - t0
    return [{"name": name, "status": DISCHARGED, "solver": "z3:unsat", "solver_s": round(dt, 3), "time_s": round(dt, 3), "queries": q, "symbols": ["C1,S1,C2,S2"],
             "detail": f"{len(rule)} terms; exact on every product basis function (hence, by linearity, on every product-spectrum function) at every point"}]


def run(ctx):
    ctx.level = "proof"
    items = configs(ctx.tier)
    if ctx.only:
        items = [it for it in items if ctx.only in str(it)]
    ctx.shapes = len(items)
    import importlib

    GS = importlib.import_module("pennylane.gradients.general_shift_rules")
    ctx.encode(GS._get_shift_rule, GS.generate_shift_rule, GS.generate_multi_shift_rule, GS._iterate_shift_rule)
    ctx.bound(configurations=f"{len(items)} (frequency set, shifts, order) configurations: all subsets of {{1,2,3,4}} scaled by 1, 1/2, 3; 10 non-equidistant sets with default and user shifts; orders 1-2 (thorough 3-4); 4 two-parameter rules",
              functions="ALL functions with the given spectrum (symbolic Fourier coefficients) at ALL points (symbolic circle points)", tolerance=TOL,
              outside="configurations for which the generator itself warns about a near-singular system (documented limitation); nearly coincident user shifts (conditioning)")
    ctx.assume("the rule's float coefficients/shifts are read as exact rationals; cos/sin of frequency*shift are evaluated in floating point and read as exact rationals (1e-16 relative error, inside the tolerance)",
               "phase points of different frequencies are treated as independent circle points (an over-approximation: sound)")
    ctx.trust("z3 5.1.0")
    ctx.rule = "one obligation per configuration; non-trivial = the symbolic function/point variables occur in the query"
    ctx.pmap(work, items, timeout_each=300)
