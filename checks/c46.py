"""C46 Resource counts report what the circuit contains (vf.symbit).

(a) Counting.  Circuits of 4 gate slots whose gate kinds are solver variables (single-, two- and three-qubit gates, controlled
    operators with 1-2 controls built with qp.ctrl, adjoints, wire choices that create parallel and sequential layers) plus a
    measurement list go through the REAL resources_from_tape / tape.specs and through qp.specs(qnode, level=...) with a transform
    program (cancel_inverses, merge_rotations) at every level; compared with a direct count over the (manually transformed)
    circuit: gate counts by the documented names, number of wires, number of trainable parameters, measurement summary and depth
    computed here by longest-path layering.
(b) Resource arithmetic.  The symbolic resource expressions (resource.Expression: integer polynomials) are built with SYMBOLIC
    integer coefficients (z3 Int terms) and substituted with SYMBOLIC integer values: z3 proves the ring-homomorphism laws
    subs(e1 + e2) == subs(e1) + subs(e2), subs(e1 * e2) == subs(e1) * subs(e2), subs(k * e) == k * subs(e), commutativity,
    associativity and distributivity of the expression arithmetic after substitution, and Resources.subs acting field-wise.
"""
from __future__ import annotations

from collections import Counter

import z3

import pennylane as qp
from pennylane.resource.expression import Expression
from pennylane.resource.resource import Resources, resources_from_tape

from vf import symbit as sb
from vf.common import DISCHARGED, VIOLATED, INCONCLUSIVE

GATES = {
    "H0": lambda: qp.Hadamard(0), "H0 again": lambda: qp.Hadamard(0), "X1": lambda: qp.PauliX(1), "RX(0.3)0": lambda: qp.RX(0.3, 0), "RX(-0.3)0": lambda: qp.RX(-0.3, 0), "RZ(0.2)2": lambda: qp.RZ(0.2, 2),
    "CNOT01": lambda: qp.CNOT([0, 1]), "CNOT12": lambda: qp.CNOT([1, 2]), "CZ02": lambda: qp.CZ([0, 2]), "Toffoli012": lambda: qp.Toffoli([0, 1, 2]),
    "ctrl(RY)1c": lambda: qp.ctrl(qp.RY(0.4, 2), control=[0]), "ctrl(RY)2c": lambda: qp.ctrl(qp.RY(0.4, 2), control=[0, 1]), "ctrl(S)2c": lambda: qp.ctrl(qp.S(3), control=[1, 2]),
    "adjoint(T)1": lambda: qp.adjoint(qp.T(1)), "Rot3": lambda: qp.Rot(0.1, 0.2, 0.3, 3), "SWAP23": lambda: qp.SWAP([2, 3]), "IsingXX13": lambda: qp.IsingXX(0.5, [1, 3]),
}
GK = list(GATES)
MEAS = {
    "expval Z0": lambda: [qp.expval(qp.PauliZ(0))],
    "probs all, expval Z0@X1": lambda: [qp.probs(), qp.expval(qp.PauliZ(0) @ qp.PauliX(1))],
    "expval Hamiltonian, probs[4] (idle wire)": lambda: [qp.expval(qp.Hamiltonian([0.5, 1.5], [qp.PauliZ(0), qp.PauliX(1)])), qp.probs(wires=[4])],
    "var 2*Y1, sample(0,1), counts": lambda: [qp.var(qp.s_prod(2.0, qp.PauliY(1))), qp.sample(wires=[0, 1]), qp.counts()],
}
MK = list(MEAS)


def own_name(op):
    from pennylane.ops.op_math import Controlled, ControlledOp

    name = op.name
    if type(op) in (Controlled, ControlledOp) and len(op.control_wires) > 1:
        name = f"{len(op.control_wires)}{name}"
    return name


def own_depth(ops):
    front = {}
    depth = 0
    for op in ops:
        layer = 1 + max((front.get(w, 0) for w in op.wires), default=0)
        for w in op.wires:
            front[w] = layer
        depth = max(depth, layer)
    return depth


def own_counts(tape):
    wires = []
    for o in list(tape.operations) + list(tape.measurements):
        for w in o.wires:
            if w not in wires:
                wires.append(w)
    return dict(Counter(own_name(o) for o in tape.operations)), len(wires), own_depth(tape.operations), len(tape.operations)


def check_tape(codes, m_code):
    probs = []
    ops = [GATES[GK[c]]() for c in codes]
    shots = 10 if "sample" in MK[m_code] else None
    tape = qp.tape.QuantumScript(ops, MEAS[MK[m_code]](), shots=shots)
    counts, nw, depth, ntot = own_counts(tape)
    for label, res in (("resources_from_tape", resources_from_tape(tape)), ("tape.specs", tape.specs["resources"])):
        if dict(res.counts if hasattr(res, "counts") else res.gate_types) != counts:
            probs.append(f"{label}: gate counts {dict(res.counts)} != direct count {counts}")
        if res.num_wires != nw:
            probs.append(f"{label}: num_wires {res.num_wires} != {nw}")
        if res.circuit_depth != depth:
            probs.append(f"{label}: depth {res.circuit_depth} != longest-path depth {depth}")
        tot = getattr(res, "total_quantum_operations", None)
        if tot is not None and tot != ntot:
            probs.append(f"{label}: total_quantum_operations {tot} != {ntot}")
        if sum(res.measurement_processes.values()) != len(tape.measurements):
            probs.append(f"{label}: {sum(res.measurement_processes.values())} measurement processes reported, circuit has {len(tape.measurements)}")
    nod = resources_from_tape(tape, compute_depth=False)
    if nod.circuit_depth is not None or dict(nod.counts) != counts:
        probs.append("resources_from_tape(compute_depth=False) differs")
    return probs


def check_qnode(codes, m_code):
    """qp.specs(qnode, level=...) against manual application of the transform program"""
    probs = []
    if "sample" in MK[m_code]:
        return probs
    dev = qp.device("default.qubit", wires=5)

    def circuit(x):
        for c in codes:
            g = GATES[GK[c]]()
        qp.RY(x, 4)
        return tuple(MEAS[MK[m_code]]()) if len(MEAS[MK[m_code]]()) > 1 else MEAS[MK[m_code]]()[0]

    def qfunc(x):
        for c in codes:
            GATES[GK[c]]()
        qp.RY(x, 4)
        ms = MEAS[MK[m_code]]()
        return tuple(ms) if len(ms) > 1 else ms[0]

    qn = qp.QNode(qfunc, dev)
    qn = qp.transforms.merge_rotations(qp.transforms.cancel_inverses(qn))
    x = qp.numpy.array(0.7, requires_grad=True)
    with qp.queuing.AnnotatedQueue() as q:
        qfunc(0.7)
    t0 = qp.tape.QuantumScript.from_queue(q)
    (t1,), _ = qp.transforms.cancel_inverses(t0)
    (t2,), _ = qp.transforms.merge_rotations(t1)
    for level, t in ((0, t0), (1, t1), (2, t2)):
        try:
            sp = qp.specs(qn, level=level)(x)
        except Exception as e:  # noqa: BLE001
            probs.append(f"qp.specs(level={level}) raised {e!r}")
            continue
        res = sp["resources"]
        counts, nw, depth, ntot = own_counts(t)
        if dict(res.counts) != counts:
            probs.append(f"qp.specs(level={level}): gate counts {dict(res.counts)} != direct count {counts} of the circuit after {level} transforms")
        if res.circuit_depth != depth:
            probs.append(f"qp.specs(level={level}): depth {res.circuit_depth} != {depth}")
        if res.num_wires != nw:
            probs.append(f"qp.specs(level={level}): num_wires {res.num_wires} != {nw}")
        ntp = sp["num_trainable_params"] if "num_trainable_params" in getattr(sp, "to_dict", lambda: {})() or hasattr(sp, "num_trainable_params") else None
        if ntp is not None and ntp != 1:
            probs.append(f"qp.specs(level={level}): num_trainable_params {ntp} != 1")
    return probs


# ---- circuits with mid-circuit measurements and a conditional that depends on several of them
MCM_GATES = {"H0": lambda: qp.Hadamard(0), "X2": lambda: qp.PauliX(2), "CNOT02": lambda: qp.CNOT([0, 2]), "RZ3": lambda: qp.RZ(0.3, 3), "none": lambda: None}
MG = list(MCM_GATES)
CONDS = ["m0 & m1", "m1 & m0", "m0", "m1", "m0 + m1 == 1"]


def mcm_tape(codes, cond_code, second_first):
    """[g g g g] m(0) [g] m(3) cond(expr, X)(2) [g]; `second_first` swaps the queue order of the two measurements"""
    with qp.queuing.AnnotatedQueue() as q:
        for c in codes[:3]:
            MCM_GATES[MG[c]]()
        qp.T(0)
        if second_first:
            m1 = qp.measure(3)
            MCM_GATES[MG[codes[3]]]()
            m0 = qp.measure(0)
        else:
            m0 = qp.measure(0)
            MCM_GATES[MG[codes[3]]]()
            m1 = qp.measure(3)
        expr = {"m0 & m1": m0 & m1, "m1 & m0": m1 & m0, "m0": m0, "m1": m1, "m0 + m1 == 1": (m0 + m1 == 1)}[CONDS[cond_code]]
        qp.cond(expr, qp.PauliX)(wires=2)
        MCM_GATES[MG[codes[4]]]()
        qp.expval(qp.PauliZ(2))
    return qp.tape.QuantumScript.from_queue(q)


def own_depth_mcm(ops):
    front, layer_of, depth = {}, {}, 0
    for op in ops:
        deps = [front.get(w, 0) for w in op.wires]
        if type(op).__name__ == "Conditional":
            deps += [layer_of[id(m)] for m in op.meas_val.measurements]
        layer = 1 + max(deps, default=0)
        for w in op.wires:
            front[w] = layer
        layer_of[id(op)] = layer
        depth = max(depth, layer)
    return depth


def check_mcm(codes, cond_code, second_first):
    tape = mcm_tape(codes, cond_code, second_first)
    probs = []
    want = own_depth_mcm(tape.operations)
    for label, res in (("resources_from_tape", resources_from_tape(tape)), ("tape.specs", tape.specs["resources"])):
        if res.circuit_depth != want:
            probs.append(f"{label}: depth {res.circuit_depth} != longest dependency path {want} (a conditional depends on every measurement in its condition)")
        cnt = dict(Counter(own_name(o) for o in tape.operations))
        if dict(res.counts) != cnt:
            probs.append(f"{label}: counts {dict(res.counts)} != {cnt}")
    return probs


def mcm_work(item):
    _, cond_code, second_first = item
    name = f"depth / counts with two mid-circuit measurements and cond({CONDS[cond_code]}, X), measurements queued {'m1 first' if second_first else 'm0 first'}"
    npaths = q = 0
    ts = 0.0
    try:
        def build(S):
            codes = [S.int(f"g{i}", 0, len(MG) - 1).concretize(0, len(MG) - 1) for i in range(5)]
            return codes, check_mcm(codes, cond_code, second_first)

        for S, (codes, probs) in sb.explore_iter(build, max_paths=200000):
            npaths += 1
            q += S.decisions
            ts += S.solver_s
            if probs:
                payload = {"kind": "mcm", "codes": [int(c) for c in codes], "cond": cond_code, "second_first": second_first}
                ok, obs = replay(payload)
                payload["observed"] = obs
                return [{"name": name, "status": VIOLATED if ok else INCONCLUSIVE, "signature": "mcm:depth", "symbols": ["gate kinds"], "queries": q, "replay": payload, "detail": obs}]
    except sb.PathLimit as e:
        return [{"name": name, "status": INCONCLUSIVE, "detail": str(e), "symbols": ["gate kinds"]}]
    return [{"name": name, "status": DISCHARGED, "queries": q, "solver": "z3 (path feasibility)", "symbols": ["gate kinds"], "solver_s": round(ts, 3), "time_s": round(ts, 3),
             "detail": f"{npaths} solver-enumerated circuits: depth equals the longest dependency path"}]


def replay(p):
    if p["kind"] == "mcm":
        pr = check_mcm(p["codes"], p["cond"], p["second_first"])
        return bool(pr), f"gates {[MG[c] for c in p['codes']]}, cond({CONDS[p['cond']]}): " + ("; ".join(pr[:2]) or "depth agrees")
    if p["kind"] == "expr":
        return replay_expr(p)
    pr = check_tape(p["codes"], p["meas"]) if p["kind"] == "tape" else check_qnode(p["codes"], p["meas"])
    return bool(pr), f"gates {[GK[c] for c in p['codes']]} + [{MK[p['meas']]}]: " + ("; ".join(pr[:2]) or "reported resources equal the direct count")


def count_work(item):
    kind, first, m_code = item
    name = f"{'resources_from_tape / tape.specs' if kind == 'tape' else 'qp.specs(qnode, level=0..2)'}: first gate {GK[first]}, measurements [{MK[m_code]}]"
    nslots = 4 if kind == "tape" else 3
    npaths = q = 0
    ts = 0.0
    try:
        def build(S):
            codes = [first] + [S.int(f"g{i}", 0, len(GK) - 1).concretize(0, len(GK) - 1) for i in range(1, nslots)]
            return codes, (check_tape(codes, m_code) if kind == "tape" else check_qnode(codes, m_code))

        for S, (codes, probs) in sb.explore_iter(build, max_paths=200000):
            npaths += 1
            q += S.decisions
            ts += S.solver_s
            if probs:
                payload = {"kind": kind, "codes": [int(c) for c in codes], "meas": m_code}
                ok, obs = replay(payload)
                payload["observed"] = obs
                return [{"name": name, "status": VIOLATED if ok else INCONCLUSIVE, "signature": f"{kind}:" + probs[0].split(":")[0][:40], "symbols": ["gate kinds"], "queries": q, "replay": payload, "detail": obs}]
    except sb.PathLimit as e:
        return [{"name": name, "status": INCONCLUSIVE, "detail": str(e), "symbols": ["gate kinds"]}]
    return [{"name": name, "status": DISCHARGED, "queries": q, "solver": "z3 (path feasibility)", "symbols": ["gate kinds"], "solver_s": round(ts, 3), "time_s": round(ts, 3),
             "detail": f"{npaths} solver-enumerated circuits: reported resources equal the direct count"}]


# ------------------------------------------------------------------ (b) expression arithmetic
SHAPES = {
    "linear": lambda c: Expression({("n",): c[0], (): c[1]}),
    "two variables": lambda c: Expression({("n",): c[0], ("m",): c[1], (): c[2]}),
    "quadratic": lambda c: Expression({("n", "n"): c[0], ("n", "m"): c[1], ("m",): c[2]}),
    "unsorted key": lambda c: Expression({("m", "n"): c[0], ("n", "m"): c[1], (): c[2]}),
}
LAWS = ["subs(e1+e2) == subs(e1)+subs(e2)", "subs(e1*e2) == subs(e1)*subs(e2)", "subs(k*e1) == k*subs(e1)", "e1+e2 == e2+e1, e1*e2 == e2*e1 (after substitution)", "(e1+e2)*e3 == e1*e3 + e2*e3 (after substitution)",
        "partial substitution then the rest == full substitution", "Resources.subs substitutes every field"]


def _val(x, sub):
    if isinstance(x, Expression):
        return x.subs({k: v for k, v in sub.items() if k in x.vars})  # subs rejects variables the expression does not contain
    return x


def expr_case(S, law, s1, s2, concrete=None):
    def I(name):
        return concrete[name] if concrete is not None else S.int(name, -6, 6)

    c1 = [I(f"a{i}") for i in range(3)]
    c2 = [I(f"b{i}") for i in range(3)]
    c3 = [I(f"d{i}") for i in range(3)]
    n, m, k = (concrete[x] for x in "nmk") if concrete is not None else (S.int("n"), S.int("m"), S.int("k", -5, 5))
    e1, e2, e3 = SHAPES[s1](c1), SHAPES[s2](c2), SHAPES["linear"](c3)
    sub = {"n": n, "m": m}
    if law == LAWS[0]:
        return [(_val(e1 + e2, sub), _val(e1, sub) + _val(e2, sub))]
    if law == LAWS[1]:
        return [(_val(e1 * e2, sub), _val(e1, sub) * _val(e2, sub))]
    if law == LAWS[2]:
        return [(_val(k * e1, sub), k * _val(e1, sub)), (_val(e1 * k, sub), k * _val(e1, sub))]
    if law == LAWS[3]:
        return [(_val(e1 + e2, sub), _val(e2 + e1, sub)), (_val(e1 * e2, sub), _val(e2 * e1, sub))]
    if law == LAWS[4]:
        return [(_val((e1 + e2) * e3, sub), _val(e1 * e3, sub) + _val(e2 * e3, sub))]
    if law == LAWS[5]:
        part = _val(e1 * e2, {"n": n})
        return [(_val(part, {"m": m}), _val(e1 * e2, sub))]
    if law == LAWS[6]:
        r = Resources(counts={"A": e1, "B": 3, "C": e2}, extra={"depth": e1 + e2})
        r2 = r.subs({k: v for k, v in sub.items() if k in r.vars})
        return [(r2.counts["A"], _val(e1, sub)), (r2.counts["C"], _val(e2, sub)), (r2.counts["B"], 3), (r2.extra["depth"], _val(e1, sub) + _val(e2, sub))]
    raise KeyError(law)


def replay_expr(p):
    conc = {k: int(v) for k, v in p["values"].items()}
    for nm in [f"{x}{i}" for x in "abd" for i in range(3)] + ["n", "m", "k"]:
        conc.setdefault(nm, 1)
    try:
        pairs = expr_case(None, p["law"], p["s1"], p["s2"], concrete=conc)
    except Exception as e:  # noqa: BLE001
        return True, f"{p['law']} on ({p['s1']}, {p['s2']}) raised {e!r} at {conc}"
    bad = [(int(a) if not isinstance(a, Expression) else a, int(b) if not isinstance(b, Expression) else b) for a, b in pairs if not (a == b)]
    return bool(bad), f"{p['law']} on ({p['s1']}, {p['s2']}) at {conc}: " + (f"library gives {bad[0][0]}, arithmetic gives {bad[0][1]}" if bad else "law holds")


def expr_work(item):
    law, s1, s2 = item
    name = f"Expression law {law} on shapes ({s1}, {s2})"
    recs = []
    npaths = 0
    try:
        for S, pairs in sb.explore_iter(lambda S: expr_case(S, law, s1, s2), max_paths=4096):
            npaths += 1
            for j, (a, b) in enumerate(pairs):
                if isinstance(a, Expression) or isinstance(b, Expression):
                    recs.append({"name": f"{name} (path {npaths}, claim {j})", "status": INCONCLUSIVE, "detail": "substitution of all variables did not yield an integer", "symbols": ["coefficients"]})
                    continue
                st, model, dt = S.prove(sb.zi(a) == sb.zi(b))
                if st == "unsat":
                    continue
                if st == "sat":
                    vals = S.model_values(model)
                    payload = {"kind": "expr", "law": law, "s1": s1, "s2": s2, "values": {k: int(v) for k, v in vals.items()}}
                    ok, obs = replay_expr(payload)
                    payload["observed"] = obs
                    return [{"name": name, "status": VIOLATED if ok else INCONCLUSIVE, "signature": f"expr:{law[:30]}", "symbols": sorted(vals)[:10], "queries": 1, "replay": payload, "solver": "z3:sat", "detail": obs}]
                recs.append({"name": f"{name} (path {npaths}, claim {j})", "status": INCONCLUSIVE, "detail": "z3 unknown", "symbols": ["coefficients"]})
    except sb.PathLimit as e:
        return [{"name": name, "status": INCONCLUSIVE, "detail": str(e), "symbols": ["coefficients"]}]
    if recs:
        return recs[:3]
    return [{"name": name, "status": DISCHARGED, "queries": npaths, "solver": "z3:unsat", "symbols": ["coefficients a*, b*, d*", "substituted values n, m", "scalar k"],
             "detail": f"{npaths} paths (zero-coefficient normalisation forks), every claim proved for all integer coefficients in [-6, 6] and all integer n, m"}]


def _dispatch(it):
    if it[0] == "mcm":
        return mcm_work(it)
    return expr_work(it[1:]) if it[0] == "expr" else count_work(it)


def run(ctx):
    ctx.level = "other"
    firsts = range(len(GK)) if ctx.tier == "thorough" else [0, 3, 6, 9, 11, 13, 15]
    items = [("tape", f, m) for f in firsts for m in range(len(MK))]
    items += [("qnode", f, 0) for f in ([0, 3, 4, 6] if ctx.tier == "quick" else range(len(GK)))]
    items += [("mcm", c, sf) for c in range(len(CONDS)) for sf in (False, True)]
    shapes = list(SHAPES)
    items += [("expr", law, a, b) for law in LAWS for a, b in ([("linear", "two variables"), ("quadratic", "linear"), ("unsorted key", "quadratic")] if ctx.tier == "quick" else [(x, y) for x in shapes for y in shapes])]
    if ctx.only:
        items = [it for it in items if ctx.only in str(it)]
    ctx.shapes = len(items)
    ctx.encode(resources_from_tape, qp.specs, Expression.__add__, Expression.__mul__, Expression.subs, Resources.subs)
    ctx.bound(circuits=f"4 gate slots (qnode: 3) over {len(GK)} gate kinds on up to 5 wires: first slot fixed per obligation, the others solver-chosen; measurement lists {MK}",
              levels="qp.specs levels 0, 1, 2 of a program [cancel_inverses, merge_rotations] on default.qubit",
              expressions="integer polynomials of degree <= 2 in n, m with symbolic integer coefficients in [-6, 6], substituted with arbitrary integers; scalar k in [-5, 5]",
              outside="qjit / catalyst specs, PBC resources, level='device' and slices, pretty printing, batch-of-tapes specs")
    ctx.assume("oracle: own gate naming rule (n-controlled prefix), longest-path depth, wire set over operations and measurements")
    ctx.trust("z3 5.1.0", "vf.symbit lifting")
    ctx.rule = "counting: one obligation per (entry point, first gate, measurement list) with all other gates solver-enumerated; arithmetic: one obligation per (law, shapes) proved by z3 over symbolic integers"
    ctx.pmap(_dispatch, items, timeout_each=1500)
