"""C68 Kernel utilities return valid kernel matrices (E1 with an UNINTERPRETED kernel; partial).

The kernel is an uninterpreted function: kernel(x_i, x_j) returns a fresh SYMBOLIC real k[i][j] for every pair of data points (for
the square matrix a symmetric one, k[i][j] == k[j][i], as the function's contract assumes; k[i][i] == 1 when the kernel is declared
normalised), so every claim is proved for ALL kernels.  The REAL kernel_matrix, square_kernel_matrix, polarity and
target_alignment run on these terms; z3 proves
    kernel_matrix[i, j] == k(X1[i], X2[j]);  square_kernel_matrix[i, j] == k(x_i, x_j), symmetric, unit diagonal if normalised;
    polarity == sum_ij y_i y_j K_ij (with and without class-label rescaling y -> y / n_class);
    target_alignment == <K, Y Y^T>_F / (||K||_F ||Y Y^T||_F)   (square roots by their defining equations),
and the kernel is called exactly once per required pair (upper triangle for the square matrix).
The post-processing functions (threshold / displace / flip / closest PSD / depolarizing mitigation) are defined through
eigendecompositions and convex optimisation: outside.
"""
from __future__ import annotations

import itertools

import numpy as np
import pennylane as qp

from vf import symx as sx, obl

LABELS = {"3 points (+1,-1,+1)": [1, -1, 1], "4 points (-1,-1,+1,+1)": [-1, -1, 1, 1], "4 points (+1,-1,-1,-1)": [1, -1, -1, -1], "2 points (+1,-1)": [1, -1]}


class Kernel:
    """uninterpreted kernel over indexed data points"""

    def __init__(self, S, symmetric, normalized, tag="k"):
        self.S, self.symmetric, self.normalized, self.tag = S, symmetric, normalized, tag
        self.calls = []
        self.vals = {}

    def value(self, i, j):
        key = (min(i, j), max(i, j)) if self.symmetric else (i, j)
        if self.normalized and i == j and self.symmetric:
            return 1.0
        if key not in self.vals:
            self.vals[key] = self.S.real(f"{self.tag}{key[0]}_{key[1]}")
        return self.vals[key]

    def __call__(self, x1, x2):
        i, j = int(np.asarray(x1).ravel()[0]), int(np.asarray(x2).ravel()[0])
        self.calls.append((i, j))
        return self.value(i, j)


class _NumS:
    def __init__(self, vals):
        self.vals = vals

    def real(self, name):
        if name in self.vals:
            return float(self.vals[name])
        return 0.3 + 0.13 * (sum(map(ord, name)) % 11)


def points(n, offset=0):
    return np.array([[float(offset + i), 0.5] for i in range(n)])


def run_case(S, kind, arg):
    """-> (got flat, expected flat, call problems)"""
    problems = []
    if kind == "kernel_matrix":
        n1, n2 = arg
        K = Kernel(S, symmetric=False, normalized=False)
        got = qp.kernels.kernel_matrix(points(n1), points(n2, 10), lambda a, b: K(a, [b[0] - 10]))
        exp = [[K.value(i, j) for j in range(n2)] for i in range(n1)]
        if sorted(K.calls) != sorted(itertools.product(range(n1), range(n2))):
            problems.append(f"kernel called on pairs {sorted(K.calls)}")
        return got, exp, problems
    if kind == "kernel_matrix batched":
        n1, n2 = arg
        Ks = [Kernel(S, symmetric=False, normalized=False, tag=f"k{b}_") for b in range(2)]
        got = qp.kernels.kernel_matrix(points(n1), points(n2, 10), lambda a, b: np.array([K(a, [b[0] - 10]) for K in Ks], dtype=object))
        exp = [[[K.value(i, j) for j in range(n2)] for i in range(n1)] for K in Ks]  # documented shape (batch, N, M)
        return got, exp, problems
    if kind == "square":
        n, normalized = arg
        K = Kernel(S, symmetric=True, normalized=normalized)
        got = qp.kernels.square_kernel_matrix(points(n), K, assume_normalized_kernel=normalized)
        exp = [[K.value(i, j) for j in range(n)] for i in range(n)]
        need = [(i, j) for i in range(n) for j in range(i + 1, n)] + ([] if normalized else [(i, i) for i in range(n)])
        if sorted(K.calls) != sorted(need):
            problems.append(f"kernel called on pairs {sorted(K.calls)}, required {sorted(need)}")
        return got, exp, problems
    lname, normalized, rescale = arg
    Y = LABELS[lname]
    n = len(Y)
    K = Kernel(S, symmetric=True, normalized=normalized)
    Km = [[K.value(i, j) for j in range(n)] for i in range(n)]
    if rescale:
        npl = sum(1 for y in Y if y == 1)
        nmi = n - npl
        y2 = [y / npl if y == 1 else y / nmi for y in Y]
    else:
        y2 = list(Y)
    inner = sum((Km[i][j] * (y2[i] * y2[j]) for i in range(n) for j in range(n)), 0)
    if kind == "polarity":
        got = qp.kernels.polarity(points(n), Y, K, assume_normalized_kernel=normalized, rescale_class_labels=rescale)
        return [got], [inner], problems
    got = qp.kernels.target_alignment(points(n), Y, K, assume_normalized_kernel=normalized, rescale_class_labels=rescale)
    nk2 = sum((Km[i][j] * Km[i][j] for i in range(n) for j in range(n)), 0)
    nt2 = sum(((y2[i] * y2[j]) ** 2 for i in range(n) for j in range(n)), 0)
    # got * ||K|| * ||T|| == inner  <=>  (got^2 * nk2 * nt2 == inner^2 and sign(got) == sign(inner)); compare through the defining equation
    return ("alignment", got, inner, nk2, nt2), None, problems


def _num(kind, arg, vals):
    try:
        got, exp, problems = run_case(_NumS(vals), kind, arg)
    except Exception as e:  # noqa: BLE001
        return True, f"{kind}{arg}: raised {e!r}"
    if problems:
        return True, f"{kind}{arg}: {problems[0]}"
    if isinstance(got, tuple) and got[0] == "alignment":
        _, g, inner, nk2, nt2 = got
        want = inner / (np.sqrt(nk2) * np.sqrt(nt2))
        d = abs(float(g) - float(want))
        return d > 1e-9, f"target_alignment{arg}: returned {float(g):.9g}, definition gives {float(want):.9g}"
    g, e = np.asarray(got, dtype=float).ravel(), np.asarray(exp, dtype=float).ravel()
    if g.shape != e.shape:
        return True, f"{kind}{arg}: shape {g.shape} vs {e.shape}"
    d = float(np.max(np.abs(g - e)))
    return d > 1e-9, f"{kind}{arg}: max|returned - definition| = {d:.3g}"


def replay(p):
    arg = tuple(p["arg"]) if isinstance(p["arg"], list) else p["arg"]
    return _num(p["kind"], arg, p["values"])


def work(item):
    kind, arg = item
    name = f"{kind}{arg}"
    sx.install_shims()

    def b(S):
        return run_case(S, kind, arg)

    def consume(S, v, i):
        got, exp, problems = v

        def rp(model):
            vals = dict(model.get("vars", {}))
            ok, obs = _num(kind, arg, vals)
            return ok, {"kind": kind, "arg": list(arg), "values": vals, "observed": obs}

        out = []
        okc = not problems
        rec = {"name": f"{name}: the kernel is evaluated exactly on the required pairs", "status": "discharged" if okc else "violated", "symbols": ["k"], "nontrivial": True, "queries": 0, "detail": problems[0] if problems else "as required"}
        if problems:
            rec.update(signature=f"{kind}:calls", replay={"kind": kind, "arg": list(arg), "values": {}, "observed": problems[0]})
        out.append(rec)
        if isinstance(got, tuple) and got[0] == "alignment":
            _, g, inner, nk2, nt2 = got
            g = sx.arr(np.asarray(g, dtype=object)).item()
            out.append(obl.prove(S, f"{name}: alignment^2 * ||K||^2 * ||T||^2 == <K, T>^2", [g * g * nk2 * nt2], [inner * inner], replay=rp, signature=f"{kind}", timeout=60, tol=1e-9))
            out.append(obl.prove_claim(S, f"{name}: alignment has the sign of <K, T>", S.z3poly((g * inner).p) >= 0, replay=rp, signature=f"{kind}:sign", timeout=60, used_polys=[(g * inner).p]))
            return out
        lhs = [x for x in sx.arr(np.asarray(got, dtype=object)).ravel()]
        rhs = [x for x in sx.arr(np.asarray(exp, dtype=object)).ravel()]
        if len(lhs) != len(rhs):
            ok, obs = _num(kind, arg, {})
            out.append({"name": f"{name}: shape", "status": "violated" if ok else "inconclusive", "symbols": ["k"], "nontrivial": True, "queries": 0, "signature": kind, "detail": obs, "replay": {"kind": kind, "arg": list(arg), "values": {}, "observed": obs}})
            return out
        out.append(obl.prove(S, f"{name}: every entry equals the definition for every kernel", lhs, rhs, replay=rp, signature=kind, timeout=60))
        return out

    try:
        return obl.run_instance(name, b, consume)
    except (TypeError, AttributeError, IndexError, KeyError, ValueError) as e:
        import traceback

        tb = traceback.format_exc(limit=6)[-600:]
        ok, obs = _num(kind, arg, {})
        if ok:
            return [{"name": name, "status": "violated", "symbols": ["k"], "nontrivial": True, "queries": 0, "signature": kind, "detail": obs, "replay": {"kind": kind, "arg": list(arg), "values": {}, "observed": obs}}]
        return [{"name": name, "status": "unsupported", "detail": f"{e!r} {tb}"}]


def run(ctx):
    ctx.level = "other"
    items = [("kernel_matrix", a) for a in ((1, 1), (2, 3), (3, 2), (4, 4))]
    items += [("kernel_matrix batched", a) for a in ((2, 3), (3, 2), (2, 2))]
    items += [("square", (n, nz)) for n in (1, 2, 3, 4) for nz in (False, True)]
    items += [(k, (l, nz, rs)) for k in ("polarity", "target_alignment") for l in LABELS for nz in (False, True) for rs in (True, False)]
    if ctx.only:
        items = [it for it in items if ctx.only in str(it)]
    ctx.shapes = len(items)
    ctx.encode(qp.kernels.kernel_matrix, qp.kernels.square_kernel_matrix, qp.kernels.polarity, qp.kernels.target_alignment)
    ctx.bound(kernel="uninterpreted: one fresh real symbol per pair of data points (symmetric for the square matrix; 1 on the diagonal when declared normalised)", data="1-4 data points", labels=LABELS,
              outside="threshold_matrix, displace_matrix, flip_matrix, closest_psd_matrix, mitigate_depolarizing_noise (eigendecompositions / convex optimisation: positive semidefiniteness is not a polynomial identity), "
                      "embedding kernels built from circuits (C26 covers the simulator)")
    ctx.assume(*sx.SHIM_NOTES[:3], "sqrt by its defining equation; the alignment is compared after cross-multiplication plus a sign obligation")
    ctx.rule = "one entry-wise z3 obligation per (function, data size / labels / options) plus a structural obligation on the kernel calls"
    ctx.pmap(work, items, timeout_each=600)
