"""C68 Kernel utilities return valid kernel matrices (E1 with an UNINTERPRETED kernel; partial).

The kernel is an uninterpreted function: kernel(x_i, x_j) returns a fresh SYMBOLIC real k[i][j] for every pair of data points (for
the square matrix a symmetric one, k[i][j] == k[j][i], as the function's contract assumes; k[i][i] == 1 when the kernel is declared
normalised), so every claim is proved for ALL kernels.  The REAL kernel_matrix, square_kernel_matrix, polarity and
target_alignment run on these terms; z3 proves
    kernel_matrix[i, j] == k(X1[i], X2[j]);  square_kernel_matrix[i, j] == k(x_i, x_j), symmetric, unit diagonal if normalised;
    polarity == sum_ij y_i y_j K_ij (with and without class-label rescaling y -> y / n_class);
    target_alignment == <K, Y Y^T>_F / (||K||_F ||Y Y^T||_F)   (square roots by their defining equations),
and the kernel is called exactly once per required pair (upper triangle for the square matrix).
Spectral post-processing (threshold_matrix, displace_matrix, flip_matrix): the input ranges over ALL real symmetric matrices of
size 2 and 3, written K = V diag(w) V^T with V a product of Givens rotations with symbolic angles and w symbolic ascending
eigenvalues; numpy.linalg.eigh / eigvalsh (LAPACK) are replaced by their contract (they return this w and V).  The REAL functions run
on K, forking on the signs of the eigenvalues; z3 proves per path
    result == V diag(f(w)) V^T entrywise with f = max(., 0) / (. - min(w_0, 0)) / |.|   (the documented spectral map), f(w) >= 0
    (which is a positive-semidefiniteness certificate: x^T V D V^T x = sum_k d_k (V^T x)_k^2), result == K when w_0 >= 0,
and y^T (V^T result V) y >= 0 for all y directly.
closest_psd_matrix (convex optimisation through cvxpy) and mitigate_depolarizing_noise: outside.
"""
from __future__ import annotations

import itertools

import numpy as np
import pennylane as qp

from vf import symx as sx, obl

LABELS = {"3 points (+1,-1,+1)": [1, -1, 1], "4 points (-1,-1,+1,+1)": [-1, -1, 1, 1], "4 points (+1,-1,-1,-1)": [1, -1, -1, -1], "2 points (+1,-1)": [1, -1]}


class Kernel:
    """uninterpreted kernel over indexed data points"""

    def __init__(self, S, symmetric, normalized, tag="k"):
        self.S, self.symmetric, self.normalized, self.tag = S, symmetric, normalized, tag
        self.calls = []
        self.vals = {}

    def value(self, i, j):
        key = (min(i, j), max(i, j)) if self.symmetric else (i, j)
        if self.normalized and i == j and self.symmetric:
            return 1.0
        if key not in self.vals:
            self.vals[key] = self.S.real(f"{self.tag}{key[0]}_{key[1]}")
        return self.vals[key]

    def __call__(self, x1, x2):
        i, j = int(np.asarray(x1).ravel()[0]), int(np.asarray(x2).ravel()[0])
        self.calls.append((i, j))
        return self.value(i, j)


class _NumS:
    def __init__(self, vals):
        self.vals = vals

    def real(self, name):
        if name in self.vals:
            return float(self.vals[name])
        return 0.3 + 0.13 * (sum(map(ord, name)) % 11)


# ------------------------------------------------------------------ spectral post-processing
SPECTRAL = {"threshold_matrix": lambda w, w0neg: [max(x, 0.0) for x in w], "displace_matrix": lambda w, w0neg: [x - min(w[0], 0.0) for x in w], "flip_matrix": lambda w, w0neg: [abs(x) for x in w]}
GIVENS = {2: [(0, 1)], 3: [(0, 1), (0, 2), (1, 2)]}


def givens(n, i, j, c, s):
    G = np.eye(n, dtype=object)
    G[i, i], G[j, j], G[i, j], G[j, i] = c, c, -s, s
    return G


class _NPProxy:
    """numpy with linalg.eigh / eigvalsh replaced by their contract for the one matrix under test"""

    def __init__(self, K, w, V):
        self._K, self._w, self._V = K, w, V
        self.linalg = self

    def __getattr__(self, name):
        return getattr(np.linalg if name in ("norm", "inv", "det") else np, name)

    def eigh(self, K):
        assert K is self._K, "eigh called on another matrix"
        return np.array(self._w, dtype=object), self._V.copy()

    def eigvalsh(self, K):
        assert K is self._K, "eigvalsh called on another matrix"
        return np.array(self._w, dtype=object)


def spectral_build(S, fname, n):
    import pennylane.kernels.postprocessing as PP

    w = [S.real(f"w{k}") for k in range(n)]
    for k in range(n - 1):
        S.constrain(">=0", (w[k + 1] - w[k]).p)
    V = np.eye(n, dtype=object)
    for k, (i, j) in enumerate(GIVENS[n]):
        t = S.param(f"t{k}", D=1, wrap=False)
        V = V @ givens(n, i, j, t.cos(), t.sin())
    D = np.zeros((n, n), dtype=object)
    for k in range(n):
        D[k, k] = w[k]
    K = V @ D @ V.T
    old = PP.np
    PP.np = _NPProxy(K, w, V)
    try:
        R = getattr(PP, fname)(K)
    finally:
        PP.np = old
    return K, R, V, w


def spectral_num(fname, n, vals):
    """replay on floats with the real LAPACK routines"""
    import pennylane.kernels.postprocessing as PP

    w = sorted(float(vals.get(f"w{k}", [-0.7, 0.4, 1.3][k])) for k in range(n))
    V = np.eye(n)
    for k, (i, j) in enumerate(GIVENS[n]):
        t = float(vals.get(f"t{k}", 0.4 + 0.5 * k))
        V = V @ np.array(givens(n, i, j, np.cos(t), np.sin(t)), dtype=float)
    K = V @ np.diag(w) @ V.T
    K = (K + K.T) / 2
    try:
        R = np.asarray(getattr(PP, fname)(K), dtype=float)
    except Exception as e:  # noqa: BLE001
        return True, f"{fname} on the symmetric matrix with eigenvalues {w}: raised {e!r}"
    want = V @ np.diag(SPECTRAL[fname](w, w[0] < 0)) @ V.T
    lam = float(np.min(np.linalg.eigvalsh((R + R.T) / 2)))
    d = float(np.max(np.abs(R - want)))
    return (lam < -1e-8 or d > 1e-7), f"{fname} on the symmetric matrix with eigenvalues {np.round(w, 6).tolist()}: smallest eigenvalue of the result {lam:.6g}, max deviation from the documented spectral map {d:.3g}"


def spectral_work(item):
    fname, n = item
    name = f"{fname} on all symmetric {n}x{n} matrices"
    sx.install_shims()

    def b(S):
        return spectral_build(S, fname, n)

    def consume(S, v, i):
        import z3

        K, R, V, w = v
        R = sx.arr(np.asarray(R, dtype=object))

        def rp(model):
            vals = {**model.get("vars", {}), **model.get("params", {})}
            ok, obs = spectral_num(fname, n, vals)
            return ok, {"kind": "spectral", "fn": fname, "n": n, "values": {k: vals[k] for k in vals if k[0] in "wt" and k[1:].isdigit()}, "observed": obs}

        neg = bool(w[0] < 0)  # forks (already decided on this path by the function itself)
        if fname == "threshold_matrix":
            d = [x if bool(x > 0) else S.lift(0) for x in w]
        elif fname == "displace_matrix":
            d = [x - w[0] for x in w] if neg else list(w)
        else:
            d = [x if bool(x > 0) else -x for x in w]
        D = np.zeros((n, n), dtype=object)
        for k in range(n):
            D[k, k] = d[k]
        want = sx.arr(V @ D @ V.T)
        tag = f"{name} [path {i}: w0 {'<' if neg else '>='} 0]"
        out = [obl.prove(S, f"{tag}: result == V diag(f(w)) V^T (documented spectral map)", list(R.ravel()), list(want.ravel()), replay=rp, signature=f"spectral:{fname}", timeout=120)]
        zd = [S.z3poly(sx.arr(np.asarray(x, dtype=object)).item().p) for x in d]
        out.append(obl.prove_claim(S, f"{tag}: f(w) >= 0 (with the identity above: a positive-semidefiniteness certificate)", z3.And(*[x >= 0 for x in zd]), replay=rp, signature=f"spectral:{fname}:psd", timeout=60))
        if not neg:
            out.append(obl.prove(S, f"{tag}: no effect on a matrix without negative eigenvalues", list(R.ravel()), list(sx.arr(K).ravel()), replay=rp, signature=f"spectral:{fname}:noeffect", timeout=120))
        if n <= 3:
            y = [S.real(f"y{k}") for k in range(n)]
            M = V.T @ R @ V
            q = sum((y[a] * M[a, b2] * y[b2] for a in range(n) for b2 in range(n)), S.lift(0))
            q = sx.arr(np.asarray(q, dtype=object)).item()
            out.append(obl.prove_claim(S, f"{tag}: y^T (V^T result V) y >= 0 for all y", S.z3poly(q.p) >= 0, replay=rp, signature=f"spectral:{fname}:psd-direct", timeout=120, used_polys=[q.p]))
        return out

    try:
        return obl.run_instance(name, b, consume, max_paths=64)
    except (TypeError, AttributeError, IndexError, KeyError, ValueError, AssertionError) as e:
        import traceback

        tb = traceback.format_exc(limit=6)[-600:]
        for vals in ({}, {"w0": -1.0, "w1": -0.5, "w2": -0.25}, {"w0": -1.0, "w1": 0.0, "w2": 0.5}, {"w0": 0.0, "w1": 0.0, "w2": 0.0}):
            ok, obs = spectral_num(fname, n, vals)
            if ok:
                return [{"name": name, "status": "violated", "symbols": ["w", "t"], "nontrivial": True, "queries": 0, "signature": f"spectral:{fname}", "detail": obs, "replay": {"kind": "spectral", "fn": fname, "n": n, "values": vals, "observed": obs}}]
        return [{"name": name, "status": "unsupported", "detail": f"{e!r} {tb}"}]


def points(n, offset=0):
    return np.array([[float(offset + i), 0.5] for i in range(n)])


def run_case(S, kind, arg):
    """-> (got flat, expected flat, call problems)"""
    problems = []
    if kind == "kernel_matrix":
        n1, n2 = arg
        K = Kernel(S, symmetric=False, normalized=False)
        got = qp.kernels.kernel_matrix(points(n1), points(n2, 10), lambda a, b: K(a, [b[0] - 10]))
        exp = [[K.value(i, j) for j in range(n2)] for i in range(n1)]
        if sorted(K.calls) != sorted(itertools.product(range(n1), range(n2))):
            problems.append(f"kernel called on pairs {sorted(K.calls)}")
        return got, exp, problems
    if kind == "kernel_matrix batched":
        n1, n2 = arg
        Ks = [Kernel(S, symmetric=False, normalized=False, tag=f"k{b}_") for b in range(2)]
        got = qp.kernels.kernel_matrix(points(n1), points(n2, 10), lambda a, b: np.array([K(a, [b[0] - 10]) for K in Ks], dtype=object))
        exp = [[[K.value(i, j) for j in range(n2)] for i in range(n1)] for K in Ks]  # documented shape (batch, N, M)
        return got, exp, problems
    if kind == "square":
        n, normalized = arg
        K = Kernel(S, symmetric=True, normalized=normalized)
        got = qp.kernels.square_kernel_matrix(points(n), K, assume_normalized_kernel=normalized)
        exp = [[K.value(i, j) for j in range(n)] for i in range(n)]
        need = [(i, j) for i in range(n) for j in range(i + 1, n)] + ([] if normalized else [(i, i) for i in range(n)])
        if sorted(K.calls) != sorted(need):
            problems.append(f"kernel called on pairs {sorted(K.calls)}, required {sorted(need)}")
        return got, exp, problems
    lname, normalized, rescale = arg
    Y = LABELS[lname]
    n = len(Y)
    K = Kernel(S, symmetric=True, normalized=normalized)
    Km = [[K.value(i, j) for j in range(n)] for i in range(n)]
    if rescale:
        npl = sum(1 for y in Y if y == 1)
        nmi = n - npl
        y2 = [y / npl if y == 1 else y / nmi for y in Y]
    else:
        y2 = list(Y)
    inner = sum((Km[i][j] * (y2[i] * y2[j]) for i in range(n) for j in range(n)), 0)
    if kind == "polarity":
        got = qp.kernels.polarity(points(n), Y, K, assume_normalized_kernel=normalized, rescale_class_labels=rescale)
        return [got], [inner], problems
    got = qp.kernels.target_alignment(points(n), Y, K, assume_normalized_kernel=normalized, rescale_class_labels=rescale)
    nk2 = sum((Km[i][j] * Km[i][j] for i in range(n) for j in range(n)), 0)
    nt2 = sum(((y2[i] * y2[j]) ** 2 for i in range(n) for j in range(n)), 0)
    # got * ||K|| * ||T|| == inner  <=>  (got^2 * nk2 * nt2 == inner^2 and sign(got) == sign(inner)); compare through the defining equation
    return ("alignment", got, inner, nk2, nt2), None, problems


def _num(kind, arg, vals):
    try:
        got, exp, problems = run_case(_NumS(vals), kind, arg)
    except Exception as e:  # noqa: BLE001
        return True, f"{kind}{arg}: raised {e!r}"
    if problems:
        return True, f"{kind}{arg}: {problems[0]}"
    if isinstance(got, tuple) and got[0] == "alignment":
        _, g, inner, nk2, nt2 = got
        want = inner / (np.sqrt(nk2) * np.sqrt(nt2))
        d = abs(float(g) - float(want))
        return d > 1e-9, f"target_alignment{arg}: returned {float(g):.9g}, definition gives {float(want):.9g}"
    g, e = np.asarray(got, dtype=float).ravel(), np.asarray(exp, dtype=float).ravel()
    if g.shape != e.shape:
        return True, f"{kind}{arg}: shape {g.shape} vs {e.shape}"
    d = float(np.max(np.abs(g - e)))
    return d > 1e-9, f"{kind}{arg}: max|returned - definition| = {d:.3g}"


def replay(p):
    if p.get("kind") == "spectral":
        return spectral_num(p["fn"], p["n"], p["values"])
    arg = tuple(p["arg"]) if isinstance(p["arg"], list) else p["arg"]
    return _num(p["kind"], arg, p["values"])


def work(item):
    kind, arg = item
    name = f"{kind}{arg}"
    sx.install_shims()

    def b(S):
        return run_case(S, kind, arg)

    def consume(S, v, i):
        got, exp, problems = v

        def rp(model):
            vals = dict(model.get("vars", {}))
            ok, obs = _num(kind, arg, vals)
            return ok, {"kind": kind, "arg": list(arg), "values": vals, "observed": obs}

        out = []
        okc = not problems
        rec = {"name": f"{name}: the kernel is evaluated exactly on the required pairs", "status": "discharged" if okc else "violated", "symbols": ["k"], "nontrivial": True, "queries": 0, "detail": problems[0] if problems else "as required"}
        if problems:
            rec.update(signature=f"{kind}:calls", replay={"kind": kind, "arg": list(arg), "values": {}, "observed": problems[0]})
        out.append(rec)
        if isinstance(got, tuple) and got[0] == "alignment":
            _, g, inner, nk2, nt2 = got
            g = sx.arr(np.asarray(g, dtype=object)).item()
            out.append(obl.prove(S, f"{name}: alignment^2 * ||K||^2 * ||T||^2 == <K, T>^2", [g * g * nk2 * nt2], [inner * inner], replay=rp, signature=f"{kind}", timeout=60, tol=1e-9))
            out.append(obl.prove_claim(S, f"{name}: alignment has the sign of <K, T>", S.z3poly((g * inner).p) >= 0, replay=rp, signature=f"{kind}:sign", timeout=60, used_polys=[(g * inner).p]))
            return out
        lhs = [x for x in sx.arr(np.asarray(got, dtype=object)).ravel()]
        rhs = [x for x in sx.arr(np.asarray(exp, dtype=object)).ravel()]
        if len(lhs) != len(rhs):
            ok, obs = _num(kind, arg, {})
            out.append({"name": f"{name}: shape", "status": "violated" if ok else "inconclusive", "symbols": ["k"], "nontrivial": True, "queries": 0, "signature": kind, "detail": obs, "replay": {"kind": kind, "arg": list(arg), "values": {}, "observed": obs}})
            return out
        out.append(obl.prove(S, f"{name}: every entry equals the definition for every kernel", lhs, rhs, replay=rp, signature=kind, timeout=60))
        return out

    try:
        return obl.run_instance(name, b, consume)
    except (TypeError, AttributeError, IndexError, KeyError, ValueError) as e:
        import traceback

        tb = traceback.format_exc(limit=6)[-600:]
        ok, obs = _num(kind, arg, {})
        if ok:
            return [{"name": name, "status": "violated", "symbols": ["k"], "nontrivial": True, "queries": 0, "signature": kind, "detail": obs, "replay": {"kind": kind, "arg": list(arg), "values": {}, "observed": obs}}]
        return [{"name": name, "status": "unsupported", "detail": f"{e!r} {tb}"}]


def run(ctx):
    ctx.level = "other"
    items = [("kernel_matrix", a) for a in ((1, 1), (2, 3), (3, 2), (4, 4))]
    items += [("kernel_matrix batched", a) for a in ((2, 3), (3, 2), (2, 2))]
    items += [("square", (n, nz)) for n in (1, 2, 3, 4) for nz in (False, True)]
    items += [(k, (l, nz, rs)) for k in ("polarity", "target_alignment") for l in LABELS for nz in (False, True) for rs in (True, False)]
    if ctx.only:
        items = [it for it in items if ctx.only in str(it)]
    ctx.shapes = len(items)
    ctx.encode(qp.kernels.kernel_matrix, qp.kernels.square_kernel_matrix, qp.kernels.polarity, qp.kernels.target_alignment)
    ctx.bound(kernel="uninterpreted: one fresh real symbol per pair of data points (symmetric for the square matrix; 1 on the diagonal when declared normalised)", data="1-4 data points", labels=LABELS,
              spectral="threshold / displace / flip on ALL real symmetric 2x2 and 3x3 matrices K = V diag(w) V^T (Givens angles and ascending eigenvalues symbolic)",
              outside="closest_psd_matrix (convex optimisation through cvxpy), mitigate_depolarizing_noise, matrices larger than 3x3, the LAPACK routines themselves (replaced by their contract), "
                      "embedding kernels built from circuits (C26 covers the simulator)")
    ctx.assume(*sx.SHIM_NOTES[:3], "sqrt by its defining equation; the alignment is compared after cross-multiplication plus a sign obligation",
               "stub: numpy.linalg.eigh / eigvalsh return the eigenvalues w and eigenvectors V from which the symbolic input matrix was built (their contract: ascending eigenvalues, K = V diag(w) V^T); the functions' results are spectral functions of K, hence independent of the choice of eigenbasis")
    ctx.rule = "one entry-wise z3 obligation per (function, data size / labels / options) plus a structural obligation on the kernel calls"
    ctx.pmap(work, items, timeout_each=600)
    spec = [(f, n) for f in SPECTRAL for n in (2, 3)]
    if ctx.only:
        spec = [it for it in spec if ctx.only in str(it)]
    if spec:
        import pennylane.kernels.postprocessing as PP

        ctx.encode(PP.threshold_matrix, PP.displace_matrix, PP.flip_matrix)
        ctx.shapes += len(spec)
        ctx.pmap(spectral_work, spec, timeout_each=900)
