"""C10 Every registered decomposition rule implements its operator exactly (E1).

Rules are read from the real registry at run time (qp.list_decomps on the instance), called with the
library's own calling convention (_get_decomp_args) under a real AnnotatedQueue, and the product of the
emitted operators' matrices is proved equal -- global phase included -- to the operator's matrix for all
parameter values.  Rules that allocate work wires are resolved with the real resolve_dynamic_wires and
compared on the aux=|0..0> block (aux must return to |0..0>)."""
from __future__ import annotations

import re

import numpy as np
import pennylane as qp
from pennylane.transforms.decompose import _get_decomp_args

from vf import symx as sx, obl, registry

PN = ["a", "b", "g"]

# wrapper variants: name -> (fn(op, nw) -> op, extra wires)
VARIANTS = {
    "bare": lambda op, nw: op,
    "Adjoint": lambda op, nw: qp.adjoint(op, lazy=True),
    "Pow2": lambda op, nw: qp.pow(op, 2, lazy=True),
    "Pow3": lambda op, nw: qp.pow(op, 3, lazy=True),
    "Pow-1": lambda op, nw: qp.pow(op, -1, lazy=True),
    "Pow-2": lambda op, nw: qp.pow(op, -2, lazy=True),
    "Pow0.5": lambda op, nw: qp.pow(op, 0.5, lazy=True),
    "C[1]": lambda op, nw: qp.ctrl(op, control=[nw], control_values=[1]),
    "C[0]": lambda op, nw: qp.ctrl(op, control=[nw], control_values=[0]),
    "C[10]": lambda op, nw: qp.ctrl(op, control=[nw, nw + 1], control_values=[1, 0]),
    "C[11]+2work": lambda op, nw: qp.ctrl(op, control=[nw, nw + 1], control_values=[1, 1], work_wires=[nw + 2, nw + 3]),
    "C[110]": lambda op, nw: qp.ctrl(op, control=[nw, nw + 1, nw + 2], control_values=[1, 1, 0]),
    "C[110]+2work": lambda op, nw: qp.ctrl(op, control=[nw, nw + 1, nw + 2], control_values=[1, 1, 0], work_wires=[nw + 3, nw + 4]),
    "C[11]+1zeroed": lambda op, nw: qp.ctrl(op, control=[nw, nw + 1], control_values=[1, 1], work_wires=[nw + 2], work_wire_type="zeroed"),
    "C[11]+1borrowed": lambda op, nw: qp.ctrl(op, control=[nw, nw + 1], control_values=[1, 1], work_wires=[nw + 2], work_wire_type="borrowed"),
    "C[01]+1borrowed": lambda op, nw: qp.ctrl(op, control=[nw, nw + 1], control_values=[0, 1], work_wires=[nw + 2], work_wire_type="borrowed"),
    "C[111]+2borrowed": lambda op, nw: qp.ctrl(op, control=[nw, nw + 1, nw + 2], control_values=[1, 1, 1], work_wires=[nw + 3, nw + 4], work_wire_type="borrowed"),
    "C[110]+1zeroed": lambda op, nw: qp.ctrl(op, control=[nw, nw + 1, nw + 2], control_values=[1, 1, 0], work_wires=[nw + 3], work_wire_type="zeroed"),
}
for _z in (4, 5, 6, 7, 8, 9, -3, -6):
    VARIANTS[f"Pow{_z}"] = (lambda z: lambda op, nw: qp.pow(op, z, lazy=True))(_z)
QUICK_VARIANTS = ["bare", "Adjoint", "Pow2", "Pow-1", "C[1]", "C[10]", "C[11]+1borrowed", "C[11]+1zeroed"]
NONPARAM_POWERS = ["Pow3", "Pow4", "Pow5", "Pow6", "Pow7", "Pow8", "Pow-2", "Pow-3", "Pow-6"]


def build_op(key, variant, ps):
    inst = registry.by_key()[key]
    op = inst.build(ps)
    return VARIANTS[variant](op, inst.nwires)


def rules_of(op):
    try:
        return list(qp.list_decomps(op))
    except Exception:
        return []


def apply_rule(op, rule):
    """-> (emitted ops) or raises; None if not applicable"""
    rp, args_, kwargs_ = _get_decomp_args(op)
    if not rule.is_applicable(**rp):
        return None
    with qp.queuing.AnnotatedQueue() as q:
        rule(*args_, **kwargs_)
    return list(q.queue)


def emitted_matrix(emitted, wo, borrowed=()):
    """-> (block acting on the operator wires, list of blocks that must vanish).
    Auxiliary wires (allocated work wires, explicit work wires of the operator) are appended after the operator wires.
    Zeroed / freshly allocated auxiliaries: the emitted unitary restricted to aux=|0..0> input must equal M (x) |0..0> (aux returns
    to |0>).  BORROWED auxiliaries may hold any state, so the emitted unitary must equal M (x) identity on them: every
    aux-diagonal block equals the aux=0 block and every aux-off-diagonal block vanishes."""
    has_alloc = any(o.name in ("Allocate", "Deallocate") for o in emitted)
    tape = qp.tape.QuantumScript(emitted)
    alloc_any = set()
    if has_alloc:
        (tape,), _ = qp.transforms.resolve_dynamic_wires(tape, min_int=100)
    aux = [w for w in tape.wires if w not in wo]
    if len(wo) + len(aux) > 8:
        raise sx.Unsupported(f"{len(wo) + len(aux)} wires")
    U = sx.arr(obl.mat_of_ops(tape.operations, list(wo) + aux))
    if not aux:
        return U, []
    d = 2 ** len(aux)
    n = 2 ** len(wo)
    U4 = U.reshape(n, d, n, d)
    main = U4[:, 0, :, 0]
    zero_blocks = [U4[:, k, :, 0] for k in range(1, d)]
    bor = [i for i, w in enumerate(aux) if w in set(borrowed)]
    if bor:
        # inputs in which only borrowed auxiliaries are excited (the zeroed ones stay |0>)
        for kin in range(1, d):
            bits = [(kin >> (len(aux) - 1 - i)) & 1 for i in range(len(aux))]
            if any(b and i not in bor for i, b in enumerate(bits)):
                continue
            for kout in range(d):
                blk = U4[:, kout, :, kin]
                zero_blocks.append(blk - main if kout == kin else blk)
    return main, zero_blocks


def _borrowed(op):
    """explicit work wires the operator declares as borrowed (may be in any state, must be restored)"""
    if getattr(op, "work_wire_type", None) == "borrowed" or op.hyperparameters.get("work_wire_type") == "borrowed":
        return list(getattr(op, "work_wires", []) or [])
    return []


def domain_columns(op, n):
    """columns (basis inputs) on which a domain-restricted operator is defined (None = all)"""
    base = op
    adj = False
    while hasattr(base, "base"):
        if type(base).__name__.startswith("Adjoint"):
            adj = not adj
        base = base.base
    if base.name == "TemporaryAND":
        # documented domain: target (last wire) in |0> before the elbow; the adjoint's domain is the image
        cols = [c for c in range(n) if c % 2 == 0]
        if adj:
            M = np.asarray(qp.matrix(base), dtype=complex)
            cols = sorted({int(np.argmax(np.abs(M[:, c]))) for c in cols})
        return cols
    return None


def _num(key, variant, rule_name, params):
    ps = list(params)
    op = build_op(key, variant, ps)
    wo = list(op.wires)
    M = np.asarray(qp.matrix(op, wire_order=wo), dtype=complex)
    for rule in rules_of(op):
        if rule.name != rule_name:
            continue
        em = apply_rule(op, rule)
        if em is None:
            return False, "rule not applicable at replay"
        U, rest = emitted_matrix(em, wo, borrowed=_borrowed(op))
        sess = sx.session()
        U = np.asarray(sx.evalf(sess, U, sx._const_values(sess)), dtype=complex) if U.dtype == object else U
        cols = domain_columns(op, M.shape[0])
        sel = slice(None) if cols is None else cols
        d = float(np.max(np.abs(U[:, sel] - M[:, sel])))
        for r in rest:
            r = np.asarray(sx.evalf(sx.CUR, r, sx._const_values(sx.CUR)), dtype=complex)
            d = max(d, float(np.max(np.abs(r[:, sel]))))
        return d > 1e-6, f"rule {rule_name} on {variant}({key}) at {list(map(float, params))}: max|emitted - matrix| = {d:.3g}"
    return False, "rule not found at replay"


def replay(payload):
    return _num(payload["key"], payload["variant"], payload["rule"], payload["params"])


def work(item):
    key, variant = item
    inst = registry.by_key()[key]
    names = PN[:inst.nparams]
    iname = f"{variant}({key})"

    # enumerate rules concretely first (generic angles) so that each rule is its own instance
    try:
        op0 = build_op(key, variant, [0.37, -1.21, 2.53][:inst.nparams])
    except Exception as e:
        return [obl.unsupported(iname, e)]
    rules = rules_of(op0)
    recs = []
    for rule in rules:
        rname = rule.name
        oname = f"{iname} rule {rname}"
        try:
            em0 = apply_rule(op0, rule)
        except Exception as e:
            recs.append({"name": oname, "status": "violated", "signature": f"{iname}:{rname}:raises", "symbols": [],
                         "detail": f"applicable rule raised on concrete parameters: {e!r}",
                         "replay": {"key": key, "variant": variant, "rule": rname, "params": [0.37, -1.21, 2.53][:inst.nparams], "observed": repr(e)}})
            continue
        if em0 is None:
            continue
        if any(o.name in ("MidMeasureMP", "PauliMeasure", "MidMeasure") or "Conditional" in type(o).__name__ or "Measure" in type(o).__name__ for o in em0):
            recs.append({"name": oname, "status": "unsupported", "detail": "rule with mid-circuit measurements (C13)"})
            continue

        def build(S, rule=rule):
            ps = [S.param(x) for x in names]
            op = build_op(key, variant, ps)
            wo = list(op.wires)
            M = sx.arr(qp.matrix(op, wire_order=wo))
            em = apply_rule(op, rule)
            if em is None:
                raise sx.Unsupported("rule not applicable on symbolic instance")
            U, rest = emitted_matrix(em, wo, borrowed=_borrowed(op))
            return M, U, rest, [o.name for o in em], op

        def consume(S, v, i, rname=rname, oname=oname):
            M, U, rest, emn, op = v
            if names:
                obl.validate(S, M, lambda th: qp.matrix(build_op(key, variant, [th[x] for x in names])), names=names, what=oname)
            cols = domain_columns(op, M.shape[0])
            sel = slice(None) if cols is None else cols

            def rp(model):
                p = [model["params"].get(x, 0.0) for x in names]
                ok, obs = _num(key, variant, rname, p)
                return ok, {"key": key, "variant": variant, "rule": rname, "params": p, "observed": obs}

            lhs = list(U[:, sel].ravel())
            rhs = list(M[:, sel].ravel())
            for r in rest:
                lhs += list(r[:, sel].ravel())
                rhs += [0] * r[:, sel].size
            return [obl.prove(S, f"{oname}: emitted {emn[:12]}{'...' if len(emn) > 12 else ''} == matrix" + (" (documented domain)" if cols is not None else "") + (f" with {len(rest) + 1}-dim aux returned to |0>" if rest else ""),
                              lhs, rhs, replay=rp, signature=f"{iname}:{rname}", timeout=60)]

        try:
            recs.extend(obl.run_instance(oname, build, consume))
        except (TypeError, ValueError, AttributeError, NotImplementedError, qp.operation.MatrixUndefinedError,
                qp.decomposition.DecompositionError if hasattr(qp.decomposition, "DecompositionError") else ValueError) as e:
            recs.append(obl.unsupported(oname, e))
    return recs


def run(ctx):
    ctx.level = "proof"
    insts = [i for i in registry.instances()]
    variants = QUICK_VARIANTS if ctx.tier == "quick" else [v for v in VARIANTS]
    items = []
    for i in insts:
        vs = list(variants)
        if i.nparams == 0 and i.nwires <= 3:
            vs += [v for v in NONPARAM_POWERS if v not in vs]
        for v in vs:
            if i.nwires >= 4 and v.startswith("C[") and (ctx.tier == "quick" or v not in ("C[1]", "C[0]")):
                continue
            if i.nwires == 3 and "+" in v and ctx.tier == "quick":
                continue
            if i.nwires == 3 and "110" in v and ctx.tier == "quick":
                continue
            items.append((i.key, v))
    if ctx.only:
        items = [it for it in items if ctx.only in f"{it[1]}({it[0]})"]
    ctx.shapes = len(items)
    from pennylane.decomposition import decomposition_rule as dr

    reg = dr._decompositions_private
    ctx.extra["registry_names"] = len(reg)
    ctx.extra["registry_rules"] = sum(len(v) for v in reg.values())
    ctx.encode(_get_decomp_args, qp.list_decomps, qp.transforms.resolve_dynamic_wires, qp.matrix)
    ctx.bound(parameters="all real values", variants=variants, max_wires=8,
              outside="templates without closed-form matrices, rules computing angles with arctan2/arccos/linalg (listed unsupported), rules with mid-circuit measurements (C13)")
    ctx.assume(*sx.SHIM_NOTES, "TemporaryAND and its adjoint are compared on their documented domain (target |0> before the elbow)")
    ctx.rule = "one obligation per (operator instance incl. Adjoint/Pow/C wrappers, applicable registered rule); non-trivial = mentions a symbolic variable"
    ctx.pmap(work, items, timeout_each=400 if ctx.tier == "quick" else 1800)
