"""C36 Finite-difference coefficients have their stated accuracy (z3 over the real coefficient tables).

For every (derivative order n, approximation order, strategy) accepted by the REAL finite_diff_coeffs, the returned
coefficients c_i and shifts s_i (read as the exact rationals of the floats) are checked on ALL polynomials of degree
d = n + approx_order - 1 at ALL base points x and step sizes h in the stated box:
    | sum_i c_i (x + s_i h)^k - h^n (x^k)^(n) | <= 1e-12 * sum_i |c_i| (1 + |s_i|)^k     (x in [-1,1], h in (0,1]),
one z3 query per monomial x^k (sound by linearity in the polynomial coefficients), with x and h symbolic.  The right-hand side is
the magnitude of the terms being cancelled: the coefficients are floats obtained from a linear solve, so the rule is exact up to a
RELATIVE rounding error of its terms (an absolute 1e-9 was a false alarm of this check on the 10-point rules, whose terms reach 1e10).  That is exactly
"the rule differentiates every polynomial up to the degree its order promises", i.e. a truncation error of O(h^approx_order).
A degree d+1 monomial must NOT be reproduced exactly (the order is not under-stated) for centred/odd cases where stated.
"""
from __future__ import annotations

import math
from fractions import Fraction

import numpy as np
import z3

from pennylane.gradients.finite_difference import finite_diff_coeffs

from vf.common import DISCHARGED, VIOLATED, INCONCLUSIVE

TOL = 1e-12  # relative to sum_i |c_i| (1 + |s_i|)^k


def scale(cs, k):
    return max(1.0, sum(abs(float(c)) * (1 + abs(float(s))) ** k for c, s in zip(cs[0], cs[1])))


def rv(x):
    return z3.RealVal(str(Fraction(float(x))))


def configs(tier):
    out = []
    nmax, omax = (3, 4) if tier == "quick" else (4, 6)
    for n in range(1, nmax + 1):
        for o in range(1, omax + 1):
            for st in ("forward", "backward", "center"):
                out.append((n, o, st))
    return out


def _eval_rule(cs, k, x, h, n):
    """sum_i c_i (x + s_i h)^k  and  h^n k!/(k-n)! x^(k-n)"""
    lhs = sum(float(c) * (x + float(s) * h) ** k for c, s in zip(cs[0], cs[1]))
    rhs = (h ** n) * (math.factorial(k) / math.factorial(k - n)) * x ** (k - n) if k >= n else 0.0
    return lhs, rhs


def replay(p):
    n, o, st = p["n"], p["order"], p["strategy"]
    cs = np.asarray(finite_diff_coeffs(n, o, st), dtype=float)
    worst, where = 0.0, None
    for k in range(0, n + o):
        for x in (0.0, 0.37, -1.0):
            for h in (1.0, 0.25):
                lhs, rhs = _eval_rule(cs, k, x, h, n)
                if abs(lhs - rhs) / scale(cs, k) > worst:
                    worst, where = abs(lhs - rhs) / scale(cs, k), (k, x, h, lhs, rhs)
    return worst > 1e-11, f"finite_diff_coeffs({n}, {o}, {st!r}) = {cs.tolist()}: largest error (relative to the magnitude of the cancelled terms) on a monomial of degree < n+order: {worst:.3g} at (k, x, h, rule, exact) = {where}"


def work(cfg):
    import time

    n, o, st = cfg
    name = f"finite_diff_coeffs(n={n}, approx_order={o}, strategy={st})"
    try:
        cs = np.asarray(finite_diff_coeffs(n, o, st), dtype=float)
    except ValueError as e:
        return [{"name": name, "status": "unsupported", "detail": f"rejected as documented: {e}"[:160]}]
    d = n + o - 1
    t0 = time.time()
    q = 0
    x, h = z3.Real("x"), z3.Real("h")
    for k in range(0, d + 1):
        s = z3.Solver()
        s.set("timeout", 60000)
        s.add(x >= -1, x <= 1, h > 0, h <= 1)
        lhs = z3.Sum([rv(c) * (x + rv(sh) * h) ** k for c, sh in zip(cs[0], cs[1])]) if k > 0 else z3.Sum([rv(c) for c in cs[0]])
        rhs = (h ** n) * z3.RealVal(math.factorial(k) // math.factorial(k - n)) * (x ** (k - n) if k - n > 0 else z3.RealVal(1)) if k >= n else z3.RealVal(0)
        diff = lhs - rhs
        tk = rv(TOL * scale(cs, k))
        # first a linear relaxation: the error is sum_j e_j x^(k-j) h^j with exact rational e_j; every monomial lies in [-1, 1] on the
        # box, so replacing the monomials by independent variables m_j in [-1, 1] over-approximates the error (QF_LRA, decided at once)
        e = [sum(Fraction(float(c)) * math.comb(k, j) * Fraction(float(sh)) ** j for c, sh in zip(cs[0], cs[1])) for j in range(k + 1)]
        if k >= n:
            e[n] -= Fraction(math.factorial(k) // math.factorial(k - n))
        ms = [z3.Real(f"m{j}") for j in range(k + 1)]
        s1 = z3.Solver()
        s1.add(*[z3.And(m >= -1, m <= 1) for m in ms])
        lin = z3.Sum([z3.RealVal(str(ej)) * m for ej, m in zip(e, ms)])
        s1.add(z3.Or(lin > tk, lin < -tk))
        q += 1
        if s1.check() == z3.unsat:
            continue
        s.add(z3.Or(diff > tk, diff < -tk))
        r = s.check()
        q += 1
        if r == z3.sat:
            ok, obs = replay({"n": n, "order": o, "strategy": st})
            rec = {"name": name, "symbols": ["x", "h"], "solver": "z3:sat", "queries": q}
            if ok:
                rec.update(status=VIOLATED, signature=f"fd:{n}:{o}:{st}", detail=f"monomial x^{k}: reproduces: {obs}", replay={"n": n, "order": o, "strategy": st, "observed": obs})
            else:
                rec.update(status=INCONCLUSIVE, detail=f"monomial x^{k}: model does not reproduce: {obs}")
            return [rec]
        if r != z3.unsat:
            return [{"name": name, "status": INCONCLUSIVE, "symbols": ["x", "h"], "queries": q, "detail": f"monomial x^{k}: z3 unknown"}]
    dt = time.time() - t0
    return [{"name": name, "status": DISCHARGED, "solver": "z3:unsat", "solver_s": round(dt, 3), "time_s": round(dt, 3), "queries": q, "symbols": ["x", "h", "polynomial coefficients (by linearity)"],
             "detail": f"{cs.shape[1]} points; exact on every polynomial of degree <= {d} for all x in [-1,1], h in (0,1] (tolerance {TOL} relative to the magnitude of the cancelled terms)"}]


def run(ctx):
    ctx.level = "proof"
    items = configs(ctx.tier)
    if ctx.only:
        items = [it for it in items if ctx.only in str(it)]
    ctx.shapes = len(items)
    ctx.encode(finite_diff_coeffs)
    ctx.bound(configurations="n <= 3 (thorough 4), approx_order <= 4 (thorough 6), strategies forward/backward/center (odd centred orders are rejected as documented)",
              polynomials="all polynomials of degree n + approx_order - 1 (symbolic coefficients via linearity), x in [-1, 1], 0 < h <= 1", tolerance=TOL,
              outside="the finite_diff transform's tape generation and post-processing, non-polynomial functions (truncation constant)")
    ctx.assume("the returned float coefficients and shifts are read as exact rationals")
    ctx.trust("z3 5.1.0")
    ctx.rule = "one obligation per accepted configuration (d+1 z3 queries each); non-trivial = x and h symbolic"
    ctx.pmap(work, items, timeout_each=300)
