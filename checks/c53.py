"""C53 Fermion-to-qubit mappings are faithful representations (E1).

Fermionic sentences whose COEFFICIENTS ARE SYMBOLIC complex numbers (words over three orbitals: single ladder operators, hopping
and number operators, products with repeated orbitals, the identity) are mapped by the REAL jordan_wigner, parity_transform and
bravyi_kitaev (n = 3 and 4 qubits) to Pauli sentences (ps=True).  z3 proves, Pauli word by Pauli word and for all coefficient
values:
    linearity        M(c1*s1 + c2*s2) == c1*M(s1) + c2*M(s2),
    multiplicativity M(s1 * s2)       == M(s1) @ M(s2)        (fermionic product of the library vs Pauli product of the images),
    adjoints         M(adjoint(s))    == adjoint(M(s)),
    re-ordering      M(w.shift_operator(i, j)) == M(w)        (anticommuting a ladder operator through the word: the normal-ordering step).
The canonical anticommutation relations {a_i, a_j^dag} = delta_ij, {a_i, a_j} = 0 are checked on the images for all i, j (no
free symbols: structural).  Unitary equivalence of the three mappings follows from the CAR on 2^n dimensions (irreducible
representation, Jordan-Wigner theorem) and is not checked separately.
"""
from __future__ import annotations

import itertools

import numpy as np
import pennylane as qp
from pennylane.fermi import FermiWord, FermiSentence
from pennylane.pauli import PauliSentence, PauliWord

from vf import symx as sx, obl

N = 3
WORDS = {
    "a0+": {(0, 0): "+"}, "a1-": {(0, 1): "-"}, "a2+": {(0, 2): "+"}, "a0+a1-": {(0, 0): "+", (1, 1): "-"}, "a2+a0-": {(0, 2): "+", (1, 0): "-"}, "n1": {(0, 1): "+", (1, 1): "-"},
    "a0-a0+": {(0, 0): "-", (1, 0): "+"}, "a2+a1+a1-a2-": {(0, 2): "+", (1, 1): "+", (2, 1): "-", (3, 2): "-"}, "I": {}, "a1+a2-a0+": {(0, 1): "+", (1, 2): "-", (2, 0): "+"},
    "a1-a2+": {(0, 1): "-", (1, 2): "+"},
}
SENTS = {"s1": ["a0+", "a1-"], "s2": ["a0+a1-", "I"], "s3": ["n1", "a2+a0-", "a0-a0+"], "s4": ["a2+a1+a1-a2-", "a2+"], "s5": ["a1+a2-a0+", "n1"], "s6": ["a1-"],
         # products in which two different word pairs concatenate to the SAME word (coefficients must add up)
         "s7": ["a0+", "a0+a1-"], "s8": ["a1-a2+", "a2+"]}
MAPPINGS = {
    "jordan_wigner": lambda f: qp.jordan_wigner(f, ps=True),
    "parity_transform(n=3)": lambda f: qp.parity_transform(f, N, ps=True),
    "bravyi_kitaev(n=3)": lambda f: qp.bravyi_kitaev(f, N, ps=True),
    "bravyi_kitaev(n=4)": lambda f: qp.bravyi_kitaev(f, 4, ps=True),
    "parity_transform(n=4)": lambda f: qp.parity_transform(f, 4, ps=True),
}
LAWS = ["linearity", "multiplicativity", "adjoint", "re-ordering"]


def conj(x):
    return x.conjugate() if isinstance(x, sx.SymC) else np.conj(x)


def fsent(names, coeffs):
    return FermiSentence({FermiWord(WORDS[w]): c for w, c in zip(names, coeffs)})


def as_dict(ps):
    if isinstance(ps, PauliWord):
        ps = PauliSentence({ps: 1.0})
    return {tuple(sorted(dict(w).items())): c for w, c in ps.items()}


def scale(d, c):
    return {k: v * c for k, v in d.items()}


def add(d1, d2):
    out = dict(d1)
    for k, v in d2.items():
        out[k] = out.get(k, 0) + v
    return out


def ps_of(d):
    return PauliSentence({PauliWord(dict(k)): v for k, v in d.items()})


def case(S, law, mname, a, b, concrete=None):
    M = MAPPINGS[mname]

    def C(name):
        if concrete is not None:
            return complex(concrete.get(name + "_re", 0.37), concrete.get(name + "_im", -0.21))
        return S.cplx(name)

    ca = [C(f"a{i}") for i in range(len(SENTS[a]))]
    sa = fsent(SENTS[a], ca)
    if law == "adjoint":
        got = as_dict(M(sa.adjoint()))
        exp = {k: conj(v) for k, v in as_dict(M(sa)).items()}
        return got, exp
    if law == "re-ordering":
        outs_g, outs_e = {}, {}
        for wi, wname in enumerate(SENTS[a]):
            w = FermiWord(WORDS[wname])
            L = len(w)
            for i, j in itertools.permutations(range(L), 2):
                try:
                    sh = w.shift_operator(i, j)
                except Exception:  # noqa: BLE001 - documented rejections (e.g. invalid positions)
                    continue
                g = as_dict(M(sh)) if len(sh) or isinstance(sh, FermiSentence) else {}
                e = as_dict(M(w))
                for k, v in g.items():
                    outs_g[(wname, i, j) + k] = v
                for k, v in e.items():
                    outs_e[(wname, i, j) + k] = v
        return outs_g, outs_e
    cb = [C(f"b{i}") for i in range(len(SENTS[b]))]
    sb_ = fsent(SENTS[b], cb)
    if law == "linearity":
        c1, c2 = C("c1"), C("c2")
        lhs = fsent(SENTS[a] + SENTS[b], [c1 * x for x in ca] + [c2 * x for x in cb]) if not set(SENTS[a]) & set(SENTS[b]) else None
        if lhs is None:
            merged = {}
            for w, x in zip(SENTS[a], ca):
                merged[w] = merged.get(w, 0) + c1 * x
            for w, x in zip(SENTS[b], cb):
                merged[w] = merged.get(w, 0) + c2 * x
            lhs = fsent(list(merged), list(merged.values()))
        got = as_dict(M(lhs))
        exp = add(scale(as_dict(M(sa)), c1), scale(as_dict(M(sb_)), c2))
        return got, exp
    if law == "multiplicativity":
        got = as_dict(M(sa * sb_))
        exp = as_dict(ps_of(as_dict(M(sa))) @ ps_of(as_dict(M(sb_))))
        return got, exp
    raise KeyError(law)


def _num(law, mname, a, b, vals):
    try:
        got, exp = case(None, law, mname, a, b, concrete={k: float(v) for k, v in vals.items()})
    except Exception as e:  # noqa: BLE001
        return True, f"{law} for {mname} on ({a}, {b}): raised {e!r}"
    worst, where = 0.0, None
    for k in set(got) | set(exp):
        d = abs(complex(got.get(k, 0)) - complex(exp.get(k, 0)))
        if d > worst:
            worst, where = d, k
    return worst > 1e-9, f"{law} for {mname} on ({a}, {b}): max Pauli-coefficient deviation {worst:.3g} at {where}"


def car_problem(mname):
    M = MAPPINGS[mname]
    n = 4 if "n=4" in mname else N
    for i in range(N):
        for j in range(N):
            ai, aj = M(FermiWord({(0, i): "-"})), M(FermiWord({(0, j): "-"}))
            ajd = M(FermiWord({(0, j): "+"}))
            ai, aj, ajd = (ps_of(as_dict(x)) for x in (ai, aj, ajd))
            ac1 = as_dict(ai @ ajd + ajd @ ai)
            ac2 = as_dict(ai @ aj + aj @ ai)
            ac1 = {k: v for k, v in ac1.items() if abs(complex(v)) > 1e-12}
            ac2 = {k: v for k, v in ac2.items() if abs(complex(v)) > 1e-12}
            want = {(): 1.0} if i == j else {}
            if set(ac1) != set(want) or any(abs(complex(ac1[k]) - want[k]) > 1e-12 for k in want):
                return f"{{a_{i}, a_{j}^dag}} maps to {ac1}, expected {'identity' if i == j else '0'}"
            if ac2:
                return f"{{a_{i}, a_{j}}} maps to {ac2}, expected 0"
    return None


def replay(p):
    if p["law"] == "CAR":
        pr = car_problem(p["mapping"])
        return bool(pr), pr or "CAR hold"
    return _num(p["law"], p["mapping"], p["a"], p["b"], p["values"])


def work(item):
    law, mname, a, b = item
    name = f"{mname}: {law} on ({a}{', ' + b if b else ''})"
    if law == "CAR":
        pr = car_problem(mname)
        rec = {"name": f"{mname}: canonical anticommutation relations for all pairs of {N} orbitals", "status": "violated" if pr else "discharged", "symbols": [], "nontrivial": False, "queries": 0, "detail": pr or "hold"}
        if pr:
            rec.update(signature=f"CAR:{mname}", replay={"law": "CAR", "mapping": mname, "observed": pr})
        return [rec]
    sx.install_shims()

    def bld(S):
        return case(S, law, mname, a, b)

    def consume(S, v, i):
        got, exp = v

        def rp(model):
            vals = dict(model.get("vars", {}))
            ok, obs = _num(law, mname, a, b, vals)
            return ok, {"law": law, "mapping": mname, "a": a, "b": b, "values": vals, "observed": obs}

        keys = sorted(set(got) | set(exp), key=str)
        return [obl.prove(S, f"{name} (path {i}): {len(keys)} Pauli-word coefficients agree", [got.get(k, 0) for k in keys], [exp.get(k, 0) for k in keys], replay=rp, signature=f"{law}:{mname}", timeout=60)]

    try:
        return obl.run_instance(name, bld, consume, max_paths=128)
    except (TypeError, AttributeError, IndexError, KeyError, ValueError) as e:
        import traceback

        tb = traceback.format_exc(limit=6)[-600:]
        ok, obs = _num(law, mname, a, b, {})
        if ok:
            return [{"name": name, "status": "violated", "symbols": ["coefficients"], "nontrivial": True, "queries": 0, "signature": f"{law}:{mname}", "detail": obs,
                     "replay": {"law": law, "mapping": mname, "a": a, "b": b, "values": {}, "observed": obs}}]
        return [{"name": name, "status": "unsupported", "detail": f"{e!r} {tb}"}]


def run(ctx):
    ctx.level = "other"
    items = []
    maps = list(MAPPINGS) if ctx.tier == "thorough" else list(MAPPINGS)[:3]
    # every coefficient-is-zero test inside the mappings forks the execution: quick keeps to short operand sentences
    pairs = [("s1", "s2"), ("s4", "s6"), ("s6", "s5"), ("s1", "s1"), ("s7", "s8"), ("s2", "s2")] if ctx.tier == "quick" else list(itertools.product(SENTS, repeat=2))
    for m in maps:
        items.append(("CAR", m, None, None))
        for a in SENTS:
            if ctx.tier == "quick" and a in ("s2", "s6", "s7", "s8"):
                continue
            items.append(("adjoint", m, a, None))
            items.append(("re-ordering", m, a, None))
        for a, b in pairs:
            items.append(("linearity", m, a, b))
            items.append(("multiplicativity", m, a, b))
    if ctx.only:
        items = [it for it in items if ctx.only in f"{it[1]}: {it[0]}"]
    ctx.shapes = len(items)
    ctx.encode(qp.jordan_wigner, qp.parity_transform, qp.bravyi_kitaev, FermiSentence.__mul__, FermiWord.shift_operator, FermiSentence.adjoint)
    ctx.bound(coefficients="all complex coefficient values (symbolic)", words=list(WORDS), sentences=SENTS, mappings=maps, orbitals=f"{N} orbitals on {N} and 4 qubits",
              outside="wire_map / tol options, operator (non-ps) output, more than 3 orbitals, explicit unitary equivalence between the mappings (implied by the CAR)")
    ctx.assume(*sx.SHIM_NOTES[:3])
    ctx.rule = "one obligation per (mapping, law, operand sentences, path); non-trivial = mentions symbolic coefficients"
    ctx.pmap(work, items, timeout_each=600)
