"""C54 Boson-to-qubit mappings represent truncated boson operators (E1: symbolic sentence coefficients).

Bosonic sentences whose COEFFICIENTS ARE SYMBOLIC complex numbers (words over two modes: single ladder operators, number operators,
b b^dag, squares, hopping terms, mixed products, the identity) are mapped by the REAL binary_mapping and unary_mapping for the
truncations n_states = 2, 3, 4 (binary also 5: three qubits per mode with three unused codes) and by christiansen_mapping (two
levels), all with ps=True.  The image is turned into a matrix by an independent Kronecker-product routine written here; z3 proves,
entry by entry and for all coefficient values in the unit box:
    representation  <enc(n')| M(s) |enc(n)> == sum_k c_k * prod_modes (product of the truncated ladder matrices of word k on that mode,
                    in word order)[n'_m, n_m]       for all encoded basis states (each mapping's documented encoding: binary = occupation
                    number in binary, least significant qubit first; unary = one-hot; Christiansen = one qubit per mode),
    closure         <x| M(s) |enc(n)> == 0 for every computational basis state x outside the encoded subspace (no leakage),
    sums            M(s1 + s2) == M(s1) + M(s2) for sentences with arbitrary coefficients (Pauli word by Pauli word),
    adjoints        M(adjoint(s))    == adjoint(M(s)).
Words are enumerated (a fixed list), coefficients are symbolic; the ladder matrices carry floating square roots, so the matrix
identities are proved up to 1e-9 for coefficients with real and imaginary parts in [-1, 1].
"""
from __future__ import annotations

import itertools

import numpy as np
import pennylane as qp
from pennylane.bose import BoseSentence, BoseWord
from pennylane.pauli import PauliSentence, PauliWord

from vf import symx as sx, obl

MODES = 2
WORDS = {
    "b0+": {(0, 0): "+"}, "b1-": {(0, 1): "-"}, "n0": {(0, 0): "+", (1, 0): "-"}, "b0b0+": {(0, 0): "-", (1, 0): "+"}, "b0+b0+": {(0, 0): "+", (1, 0): "+"},
    "b0+b1-": {(0, 0): "+", (1, 1): "-"}, "b1+b0-b1-": {(0, 1): "+", (1, 0): "-", (2, 1): "-"}, "b1-b1-b1+": {(0, 1): "-", (1, 1): "-", (2, 1): "+"}, "I": {},
    "b0-b1+b0+": {(0, 0): "-", (1, 1): "+", (2, 0): "+"},
}
SENTS = {"s1": ["b0+", "b1-"], "s2": ["n0", "I"], "s3": ["b0b0+", "b0+b1-", "b0+b0+"], "s4": ["b1+b0-b1-", "b1-b1-b1+"], "s5": ["b0-b1+b0+", "n0", "b1-"]}
MAPPINGS = {}
for _n in (2, 3, 4, 5):
    MAPPINGS[f"binary_mapping(n_states={_n})"] = ("binary", _n)
for _n in (2, 3, 4):
    MAPPINGS[f"unary_mapping(n_states={_n})"] = ("unary", _n)
MAPPINGS["christiansen_mapping"] = ("christiansen", 2)
PAULI = {"I": np.eye(2, dtype=complex), "X": np.array([[0, 1], [1, 0]], dtype=complex), "Y": np.array([[0, -1j], [1j, 0]], dtype=complex), "Z": np.array([[1, 0], [0, -1]], dtype=complex)}


def conj(x):
    return x.conjugate() if isinstance(x, sx.SymC) else np.conj(x)


def apply_map(mname, op):
    kind, n = MAPPINGS[mname]
    if kind == "binary":
        return qp.binary_mapping(op, n_states=n, ps=True)
    if kind == "unary":
        return qp.unary_mapping(op, n_states=n, ps=True)
    return qp.christiansen_mapping(op, ps=True)


def qubits_per_mode(mname):
    kind, n = MAPPINGS[mname]
    return {"binary": int(np.ceil(np.log2(n))), "unary": n, "christiansen": 1}[kind]


def encode(mname, occ):
    """computational basis index (qubit 0 most significant in the Kronecker order used below) of the encoded state |occ_0, occ_1>"""
    kind, n = MAPPINGS[mname]
    q = qubits_per_mode(mname)
    bits = []
    for m in range(MODES):
        if kind == "unary":
            bits += [1 if k == occ[m] else 0 for k in range(q)]
        else:
            bits += [(occ[m] >> k) & 1 for k in range(q)]  # least significant bit on the first qubit of the mode
    idx = 0
    for b in bits:
        idx = idx * 2 + b
    return idx


def as_dict(ps):
    if isinstance(ps, PauliWord):
        ps = PauliSentence({ps: 1.0})
    return {tuple(sorted(dict(w).items())): c for w, c in ps.items()}


def bsent(names, coeffs):
    return BoseSentence({BoseWord(WORDS[w]): c for w, c in zip(names, coeffs)})


def columns_of(d, nq, cols):
    """columns `cols` of sum_k coeff_k * kron(paulis) as {col: object vector of length 2^nq} (independent of PauliSentence.to_mat)"""
    out = {c: np.zeros(2 ** nq, dtype=object) for c in cols}
    for word, coeff in d.items():
        w = dict(word)
        # a Pauli string maps basis state |x> to phase * |x xor flipmask>
        for c in cols:
            row, ph = c, 1 + 0j
            for q in range(nq):
                p = w.get(q, "I")
                bit = (c >> (nq - 1 - q)) & 1
                if p == "X":
                    row ^= 1 << (nq - 1 - q)
                elif p == "Y":
                    row ^= 1 << (nq - 1 - q)
                    ph *= 1j if bit == 0 else -1j
                elif p == "Z":
                    ph *= -1 if bit else 1
            out[c][row] = out[c][row] + coeff * ph
    return out


def ladder_product(word, n):
    """per-mode product of truncated ladder matrices in word order -> list of MODES matrices"""
    cr = np.zeros((n, n))
    for s in range(n - 1):
        cr[s + 1, s] = np.sqrt(s + 1.0)
    mats = [np.eye(n) for _ in range(MODES)]
    for (_, mode), sign in sorted(word.items()):
        mats[mode] = mats[mode] @ (cr if sign == "+" else cr.T)
    return mats


def case(S, law, mname, a, b, concrete=None):
    def C(name):
        if concrete is not None:
            return complex(concrete.get(name + "_re", 0.37), concrete.get(name + "_im", -0.21))
        return S.cplx(name)

    ca = [C(f"a{i}") for i in range(len(SENTS[a]))]
    sa = bsent(SENTS[a], ca)
    if law == "adjoint":
        return as_dict(apply_map(mname, sa.adjoint())), {k: conj(v) for k, v in as_dict(apply_map(mname, sa)).items()}
    if law == "linearity":
        cb = [C(f"b{i}") for i in range(len(SENTS[b]))]
        c1, c2 = 1, 1  # the operands' own coefficients are already arbitrary: sums only (products of two symbols make every query non-linear)
        merged = {}
        for w, x in zip(SENTS[a], ca):
            merged[w] = merged.get(w, 0) + c1 * x
        for w, x in zip(SENTS[b], cb):
            merged[w] = merged.get(w, 0) + c2 * x
        got = as_dict(apply_map(mname, bsent(list(merged), list(merged.values()))))
        ea, eb = as_dict(apply_map(mname, sa)), as_dict(apply_map(mname, bsent(SENTS[b], cb)))
        exp = {k: ea.get(k, 0) * c1 + eb.get(k, 0) * c2 for k in set(ea) | set(eb)}
        return got, exp
    # representation + closure
    kind, n = MAPPINGS[mname]
    nq = qubits_per_mode(mname) * MODES
    occs = list(itertools.product(range(n), repeat=MODES))
    enc = {o: encode(mname, o) for o in occs}
    cols = columns_of(as_dict(apply_map(mname, sa)), nq, list(enc.values()))
    got, exp = {}, {}
    prods = [ladder_product(WORDS[w], n) for w in SENTS[a]]
    encoded_rows = set(enc.values())
    for o in occs:
        col = cols[enc[o]]
        for o2 in occs:
            got[("rep", o2, o)] = col[enc[o2]]
            exp[("rep", o2, o)] = sum((c * complex(np.prod([pm[m][o2[m], o[m]] for m in range(MODES)])) for c, pm in zip(ca, prods)), 0)
        for r in range(2 ** nq):
            if r not in encoded_rows:
                v = col[r]
                if isinstance(v, sx.SymC) or abs(complex(v)) > 0:
                    got[("leak", r, o)] = v
                    exp[("leak", r, o)] = 0
    return got, exp


def _num(law, mname, a, b, vals):
    try:
        got, exp = case(None, law, mname, a, b, concrete={k: float(v) for k, v in vals.items()})
    except Exception as e:  # noqa: BLE001
        return True, f"{law} for {mname} on ({a}, {b}): raised {e!r}"
    worst, where = 0.0, None
    for k in set(got) | set(exp):
        d = abs(complex(got.get(k, 0)) - complex(exp.get(k, 0)))
        if d > worst:
            worst, where = d, k
    what = "entry (kind, row state, column state)" if law == "representation" else "Pauli word"
    return worst > 1e-8, f"{law} for {mname} on ({a}{', ' + b if b else ''}): max deviation {worst:.3g} at {what} {where}"


def replay(p):
    return _num(p["law"], p["mapping"], p["a"], p.get("b"), p["values"])


def unit_box(S):
    out = []
    import re

    for nm, idx in S.V.index.items():
        if idx and re.fullmatch(r"[abc]\d+_(re|im)", nm):
            v = S.zvar(idx)
            out += [v <= 1, v >= -1]
    return out


def prove_boxed(S, name, A, B, replay, signature, tol=1e-9):
    """|A - B| <= tol entrywise for all coefficients in the unit box.  First a LINEAR relaxation decided by z3 (QF_LRA): every
    monomial of box variables lies in [-1, 1], so it is replaced by an independent variable m_j in [-1, 1] - an over-approximation of
    the difference; only if that is satisfiable the exact non-linear query (obl.prove, with replay of its model) decides."""
    import re
    import time
    import z3
    from vf import poly as P

    t0 = time.time()
    polys = [q for q in sx._collect_polys(S, A, B) if q]
    box = {idx for nm, idx in S.V.index.items() if idx and re.fullmatch(r"[abc]\d+_(re|im)", nm)}
    ok = True
    sol = z3.Solver()
    sol.set("timeout", 30000)
    mono_var = {}
    claims = []
    for q in polys:
        for part in P.split_complex(q):
            if not part:
                continue
            terms = []
            for mono, coef in part.items():
                if any(v not in box for v, _ in mono):
                    ok = False
                    break
                if mono not in mono_var:
                    mono_var[mono] = z3.Real(f"mono{len(mono_var)}")
                terms.append(z3.RealVal(str(coef)) * mono_var[mono])
            if not ok:
                break
            lin = z3.Sum(terms) if terms else z3.RealVal(0)
            tv = z3.RealVal(str(sx.F(tol)))
            claims.append(z3.Or(lin > tv, lin < -tv))
        if not ok:
            break
    if ok:
        sol.add(*[z3.And(m >= -1, m <= 1) for mono, m in mono_var.items() if mono != ()])
        if () in mono_var:
            sol.add(mono_var[()] == 1)
        sol.add(z3.Or(*claims) if claims else z3.BoolVal(False))
        r = str(sol.check())
        if r == "unsat":
            dt = round(time.time() - t0, 4)
            return {"name": name, "status": "discharged", "symbols": obl.symbols_of(S, polys) or ["coefficients"], "nontrivial": True, "solver": "z3:unsat (linear relaxation over the unit box)", "solver_s": dt, "time_s": dt,
                    "queries": 1, **({"path_assumptions": list(S.assumed)} if S.assumed else {})}
    return obl.prove(S, name, A, B, replay=replay, signature=signature, timeout=90, tol=tol, extra=unit_box(S))


def work(item):
    law, mname, a, b = item
    name = f"{mname}: {law} on ({a}{', ' + b if b else ''})"
    sx.install_shims()

    def bld(S):
        return case(S, law, mname, a, b)

    def consume(S, v, i):
        got, exp = v

        def rp(model):
            vals = dict(model.get("vars", {}))
            ok, obs = _num(law, mname, a, b, vals)
            return ok, {"law": law, "mapping": mname, "a": a, "b": b, "values": vals, "observed": obs}

        keys = sorted(set(got) | set(exp), key=str)
        what = "matrix entries on and off the encoded subspace" if law == "representation" else "Pauli-word coefficients"
        return [prove_boxed(S, f"{name} (path {i}): {len(keys)} {what} agree", [got.get(k, 0) for k in keys], [exp.get(k, 0) for k in keys], replay=rp, signature=f"{law}:{mname}")]

    try:
        return obl.run_instance(name, bld, consume, max_paths=128)
    except (TypeError, AttributeError, IndexError, KeyError, ValueError) as e:
        import traceback

        tb = traceback.format_exc(limit=6)[-600:]
        ok, obs = _num(law, mname, a, b, {})
        if ok:
            return [{"name": name, "status": "violated", "symbols": ["coefficients"], "nontrivial": True, "queries": 0, "signature": f"{law}:{mname}", "detail": obs,
                     "replay": {"law": law, "mapping": mname, "a": a, "b": b, "values": {}, "observed": obs}}]
        return [{"name": name, "status": "unsupported", "detail": f"{e!r} {tb}"}]


def run(ctx):
    ctx.level = "other"
    items = []
    maps = list(MAPPINGS)
    if ctx.tier == "quick":
        maps = [m for m in maps if m not in ("unary_mapping(n_states=4)", "binary_mapping(n_states=5)", "binary_mapping(n_states=4)")]
    for m in maps:
        for a in (["s1", "s2", "s3", "s4"] if ctx.tier == "quick" else SENTS):
            items.append(("representation", m, a, None))
            items.append(("adjoint", m, a, None))
        # every coefficient that may vanish forks the library's prune(): linearity is run on the short sentences
        for a, b in ([("s1", "s2"), ("s2", "s2"), ("s1", "s1")] if ctx.tier == "quick" else [("s1", "s2"), ("s2", "s2"), ("s1", "s1"), ("s1", "s4"), ("s2", "s4"), ("s4", "s4")]):
            items.append(("linearity", m, a, b))
    if ctx.only:
        items = [it for it in items if ctx.only in f"{it[1]}: {it[0]}"]
    ctx.shapes = len(items)
    ctx.encode(qp.binary_mapping, qp.unary_mapping, qp.christiansen_mapping, BoseSentence.adjoint)
    ctx.bound(coefficients="all complex coefficients with real and imaginary parts in [-1, 1] (symbolic)", words=list(WORDS), sentences=SENTS, mappings=maps, modes=MODES,
              outside="more than 2 modes, truncations above 4 (5 for binary), wire_map / tol options, operator (non-ps) output, normal ordering of BoseWords (bosonic arithmetic itself), "
                      "words are a fixed list (not symbolic)")
    ctx.assume(*sx.SHIM_NOTES[:3], "oracle: truncated ladder matrices b^dag|n> = sqrt(n+1)|n+1> (n+1 < n_states), products in word order per mode; encodings as documented in the cited papers "
               "(binary: least significant qubit first; unary: one-hot; Christiansen: one qubit per mode)", "matrix identities up to 1e-9 (floating square roots in the library's coefficient matrices)")
    ctx.rule = "one obligation per (mapping, law, operand sentences, path); non-trivial = mentions symbolic coefficients"
    ctx.pmap(work, items, timeout_each=900)
