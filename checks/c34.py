"""C34 Every accepted differentiation configuration gives the true derivative (E1, partial: parameter-shift family + device adjoint).

Circuits with symbolic trainable parameters go through the REAL gradient transforms (param_shift with default / custom shifts /
broadcast / argnum, hadamard_grad) and the device-level adjoint_jacobian / adjoint_vjp / adjoint_jvp; the generated tapes are
evaluated by the independent matrix-route oracle, the REAL post-processing assembles the Jacobian, and z3 proves, for ALL
parameter values, equality with the derivative computed by the symbolic differentiator (d/d theta of the circle atoms) applied
to the original circuit's symbolic result.
"""
from __future__ import annotations

import numpy as np
import pennylane as qp

from vf import symx as sx, obl, simx

W = [0, 1, 2]
PN = ["a", "b", "g"]
X, Y, Z = qp.PauliX, qp.PauliY, qp.PauliZ

# circuit name -> (builder(ps) -> ops, number of trainable gate parameters in tape order, map tape-parameter index -> symbol index)
CIRCUITS = {   # builder takes ONE VALUE PER OCCURRENCE of a trainable parameter; the list gives the symbol each occurrence shares (documentation only)
    "RX.RY.CNOT": (lambda p: [qp.RX(p[0], 0), qp.RY(p[1], 1), qp.CNOT([0, 1])], [0, 1]),
    "RY.CNOT.RZ.RX": (lambda p: [qp.RY(p[0], 0), qp.CNOT([0, 1]), qp.RZ(p[1], 1), qp.RX(p[2], 1)], [0, 1, 2]),
    "H.CRX.RY": (lambda p: [qp.Hadamard(0), qp.CRX(p[0], [0, 1]), qp.RY(p[1], 0)], [0, 1]),
    "RY.CRZ.CRY": (lambda p: [qp.RY(p[0], 0), qp.Hadamard(1), qp.CRZ(p[1], [0, 1]), qp.CRY(p[2], [1, 0])], [0, 1, 2]),
    "Rot.CNOT": (lambda p: [qp.Hadamard(0), qp.RY(0.4, 0), qp.Rot(p[0], p[1], p[2], 0), qp.CNOT([0, 1]), qp.Hadamard(1)], [0, 1, 2]),
    "IsingXX.PhaseShift": (lambda p: [qp.Hadamard(0), qp.IsingXX(p[0], [0, 1]), qp.PhaseShift(p[1], 1), qp.RX(p[2], 0)], [0, 1, 2]),
    "four rotations": (lambda p: [qp.RX(p[0], 0), qp.CNOT([0, 1]), qp.RY(p[1], 1), qp.RZ(p[2], 0), qp.RX(p[3], 0)], [0, 0, 1, 0]),
    "ControlledPhaseShift.U3": (lambda p: [qp.Hadamard(0), qp.Hadamard(1), qp.ControlledPhaseShift(p[0], [0, 1]), qp.U3(p[1], p[2], p[3], 1)], [0, 1, 2, 0]),
    "SingleExcitation.IsingZZ": (lambda p: [qp.PauliX(0), qp.SingleExcitation(p[0], [0, 1]), qp.IsingZZ(p[1], [1, 2]), qp.RY(p[2], 2)], [0, 1, 2]),
    "3 wires Toffoli": (lambda p: [qp.RY(p[0], 0), qp.RY(p[1], 1), qp.Toffoli([0, 1, 2]), qp.RX(p[2], 2), qp.CNOT([2, 0])], [0, 1, 2]),
    "CRot": (lambda p: [qp.Hadamard(0), qp.Hadamard(1), qp.RY(0.4, 1), qp.CRot(p[0], p[1], p[2], [0, 1])], [0, 1, 2]),
    "non-trainable Rot first": (lambda p: [qp.Rot(0.3, 0.7, -0.4, 0), qp.RX(p[0], 0), qp.CNOT([0, 1]), qp.RY(p[1], 1)], [0, 1]),
}
MEAS = {
    "expval Z0": lambda: [qp.expval(Z(0))],
    "expval Z0@X1, expval Y1": lambda: [qp.expval(Z(0) @ X(1)), qp.expval(Y(1))],
    "probs[0,1]": lambda: [qp.probs(wires=[0, 1])],
    "var Z1": lambda: [qp.var(Z(1))],
    "var X0@Z1, expval Z0": lambda: [qp.var(X(0) @ Z(1)), qp.expval(Z(0))],
    "expval 0.5*Z0 + 1.5*X1": lambda: [qp.expval(0.5 * Z(0) + 1.5 * X(1))],
    "expval Hermitian1": lambda: [qp.expval(qp.Hermitian(np.array([[1.0, 0.5 - 0.25j], [0.5 + 0.25j, -2.0]]), wires=1))],
    "var 0.5*Z0 + 1.5*X1": lambda: [qp.var(0.5 * Z(0) + 1.5 * X(1))],
}
METHODS = {
    "param_shift": lambda t: qp.gradients.param_shift(t),
    "param_shift(broadcast)": lambda t: qp.gradients.param_shift(t, broadcast=True),
    "param_shift(shifts=custom)": lambda t: qp.gradients.param_shift(t, shifts=[(np.pi / 4,)] * len(t.trainable_params)),
    "param_shift(argnum=[last])": lambda t: qp.gradients.param_shift(t, argnum=[len(t.trainable_params) - 1]),
    "hadamard_grad": lambda t: qp.gradients.hadamard_grad(t),
}
CRX_SHIFTS = {"param_shift(shifts=(pi/4,3pi/4)) on the 4-term gate": lambda t: qp.gradients.param_shift(t, shifts=[(np.pi / 4, 3 * np.pi / 4)] + [(np.pi / 4,)] * (len(t.trainable_params) - 1))}
_REJECT_OK = (ValueError, qp.exceptions.QuantumFunctionError, NotImplementedError, qp.operation.ParameterFrequenciesUndefinedError)


def trainable_positions(ops):
    """indices (in tape.get_parameters order) of parameters that carry a symbol"""
    pos, k = [], 0
    for op in ops:
        for d in op.data:
            if sx.is_symbolic(d):
                pos.append(k)
            k += 1
    return pos


def oracle_results(tape):
    """matrix-route results; supports batched (broadcast) tapes by evaluating each batch element"""
    bs = tape.batch_size
    if bs is None:
        psi = simx.oracle_state(list(tape.operations), list(tape.wires) if set(tape.wires) - set(W) else W)
        Wt = list(tape.wires) if set(tape.wires) - set(W) else W
        out = [sx.arr(simx.oracle_measure(psi, mp, Wt)) for mp in tape.measurements]
        return tuple(out) if len(out) != 1 else out[0]
    per = []
    for k in range(bs):
        ops = []
        for op in tape.operations:
            if op.batch_size is None:
                ops.append(op)
            else:
                ops.append(type(op)(*[sx.arr(d)[k] if sx.arr(d).ndim > op.ndim_params[j] else d for j, d in enumerate(op.data)], wires=op.wires))
        per.append(oracle_results(qp.tape.QuantumScript(ops, tape.measurements)))
    if len(tape.measurements) == 1:
        return np.stack([np.asarray(p, dtype=object) for p in per])
    return tuple(np.stack([np.asarray(p[j], dtype=object) for p in per]) for j in range(len(tape.measurements)))


def true_jacobian(S, res, sym_index):
    """d res / d tape-parameter k  via the symbolic differentiator.  A tape parameter carrying symbol s gets d/ds of the
    result of a circuit in which ONLY that occurrence varies -- handled by giving every occurrence its own symbol (see build)."""
    raise NotImplementedError


def _num(cname, mname, meth, params):
    build, symmap = CIRCUITS[cname]
    # every tape parameter gets its own value: occurrence k of symbol s gets params[s]
    ops = _ops_with_occurrences(build, symmap, [params[s] for s in symmap])
    tape = qp.tape.QuantumScript(ops, MEAS[mname]())
    tape.trainable_params = trainable_positions_num(ops, symmap)
    fnm = {**METHODS, **CRX_SHIFTS}[meth]
    try:
        tapes, fn = fnm(tape)
    except _REJECT_OK as e:
        return False, f"rejected {e!r}"
    jac = fn(tuple(qp.devices.qubit.simulate(t) for t in tapes))
    # reference: central finite differences of the direct simulation (replay only; the verdict comes from the solver)
    ref = _fd_jac(build, symmap, mname, params)
    got = _flatten_jac(jac, len(MEAS[mname]()), len(tape.trainable_params))
    if meth == "param_shift(argnum=[last])":
        worst = float(np.max(np.abs(np.asarray(got[-1], dtype=float) - np.asarray(ref[-1], dtype=float))))
    else:
        worst = max(float(np.max(np.abs(np.asarray(g, dtype=float) - np.asarray(r, dtype=float)))) for g, r in zip(got, ref))
    return worst > 1e-5, f"{meth} on {cname} [{mname}] at {params}: max|jacobian - finite difference| = {worst:.3g}"


def _ops_with_occurrences(build, symmap, occ_values):
    return build(list(occ_values))


def trainable_positions_num(ops, symmap):
    # trainable = all parameters that came from placeholders: recompute by rebuilding with sentinel values
    return list(range(len(qp.tape.QuantumScript(ops).get_parameters(trainable_only=False))))[-0:] if False else _placeholder_positions(ops, symmap)


def _placeholder_positions(ops, symmap):
    # the placeholder occurrences are exactly the data entries that are not the literal constants of the circuit definition;
    # for the circuits above the only literals are those of "non-trainable Rot first"
    pos, k = [], 0
    for op in ops:
        for d in op.data:
            if not ((op.name == "Rot" and len(pos) == 0 and k < 3 and float(np.asarray(d)) in (0.3, 0.7, -0.4)) or (op.name == "RY" and float(np.asarray(d)) == 0.4)):
                pos.append(k)
            k += 1
    return pos


def _fd_jac(build, symmap, mname, params, h=1e-6):
    nocc = len(symmap)
    base = [params[s] for s in symmap]

    def run(vals):
        ops = _ops_with_occurrences(build, symmap, vals)
        r = qp.devices.qubit.simulate(qp.tape.QuantumScript(ops, MEAS[mname]()))
        return [np.asarray(x, dtype=float).ravel() for x in (r if isinstance(r, tuple) else (r,))]

    out = []
    for k in range(nocc):
        up, dn = list(base), list(base)
        up[k] += h
        dn[k] -= h
        ru, rd = run(up), run(dn)
        out.append(np.concatenate([(u - d) / (2 * h) for u, d in zip(ru, rd)]))
    return out


def _flatten_jac(jac, nmeas, nparams):
    """-> list over parameters of flat vectors (concatenated over measurements)"""
    if nmeas == 1:
        jac = (jac,)
    per_param = []
    for k in range(nparams):
        parts = []
        for m in range(nmeas):
            jm = jac[m]
            if nparams == 1:
                parts.append(np.asarray(jm, dtype=object).ravel())
            else:
                parts.append(np.asarray(jm[k], dtype=object).ravel())
        per_param.append(np.concatenate(parts))
    return per_param


def replay(p):
    if p.get("kind") == "adjoint":
        return _num_adjoint(p["circuit"], p["meas"], p["params"], p["mode"])
    try:
        if p.get("occ"):
            return _num_occ(p["circuit"], p["meas"], p["method"], p["params"])
        return _num(p["circuit"], p["meas"], p["method"], p["params"])
    except (TypeError, AttributeError, IndexError, KeyError, ValueError) as e:
        return True, f"the library raised {e!r}"


def work(item):
    cname, mname, meth = item
    name = f"{meth} on {cname} [{mname}]"
    build, symmap = CIRCUITS[cname]
    nocc = len(symmap)

    def b(S):
        # one symbol per OCCURRENCE (the Jacobian is taken w.r.t. tape parameters); shared symbols are tested by the chain rule afterwards
        occ = [S.param(f"t{k}") for k in range(nocc)]
        ops = _ops_with_occurrences(build, symmap, occ)
        tape = qp.tape.QuantumScript(ops, MEAS[mname]())
        tape.trainable_params = trainable_positions(ops)
        ref = oracle_results(tape)
        try:
            tapes, fn = {**METHODS, **CRX_SHIFTS}[meth](tape)
        except _REJECT_OK as e:
            return ("rejected", repr(e))
        jac = fn(tuple(oracle_results(t) for t in tapes))
        return ("ok", jac, ref, len(tape.measurements), len(tape.trainable_params), len(tapes))

    def consume(S, v, i):
        if v[0] == "rejected":
            return [{"name": f"{name}: rejected with a documented error", "status": "discharged", "symbols": [], "nontrivial": False, "queries": 0, "detail": v[1][:200]}]
        _, jac, ref, nm, npar, nt = v
        got = _flatten_jac(jac, nm, npar)
        refs = [np.asarray(r, dtype=object).ravel() for r in (ref if nm > 1 else (ref,))]
        flat_ref = np.concatenate([sx.arr(r) for r in refs])

        def rp(model):
            occ_vals = [model["params"].get(f"t{k}", 0.0) for k in range(nocc)]
            # replay with per-occurrence values
            ok, obs = _num_occ(cname, mname, meth, occ_vals)
            return ok, {"circuit": cname, "meas": mname, "method": meth, "params": occ_vals, "occ": True, "observed": obs}

        out = []
        ks = range(npar) if meth != "param_shift(argnum=[last])" else [npar - 1]
        for k in ks:
            exp = sx.d_dparam(S, flat_ref, f"t{k}")
            rec = obl.prove(S, f"{name}: d/d(parameter {k}) ({nt} tapes) == true derivative", sx.arr(got[k]), exp, replay=rp, signature=f"{meth}:{cname}:{mname}", timeout=120)
            if rec["status"] == "inconclusive" and "does not reproduce" in rec.get("detail", "") and ("custom" in meth or "pi/4" in meth):
                # shift values such as 0.7 rad enter through float sin/cos constants: the rule is exact only up to rounding of those constants
                rec = obl.prove(S, f"{name}: d/d(parameter {k}) ({nt} tapes) == true derivative up to 1e-6 (float shift constants)", sx.arr(got[k]), exp, replay=rp,
                                signature=f"{meth}:{cname}:{mname}", timeout=120, tol=1e-6)
            out.append(rec)
        return out

    try:
        return obl.run_instance(name, b, consume)
    except (TypeError, AttributeError, IndexError, KeyError, np.linalg.LinAlgError) as e:
        import traceback

        tb = traceback.format_exc(limit=5)[-500:]
        # engine limitation or library failure?  the same call with plain floats decides
        vals = [0.37 + 0.41 * k for k in range(nocc)]
        try:
            ok, obs = _num_occ(cname, mname, meth, vals)
        except Exception as e2:  # the unmodified library raises on plain floats as well
            return [{"name": f"{name}: returns a gradient", "status": "violated", "symbols": [f"t{k}" for k in range(nocc)], "nontrivial": True, "queries": 0, "signature": f"{meth}:{cname}:{mname}",
                     "detail": f"the library raised {e2!r} on plain float parameters {vals}", "replay": {"circuit": cname, "meas": mname, "method": meth, "params": vals, "occ": True, "observed": repr(e2)}}]
        return [{"name": name, "status": "unsupported", "detail": f"{e!r} {tb}"}]


def _num_occ(cname, mname, meth, occ_vals):
    build, symmap = CIRCUITS[cname]
    ops = _ops_with_occurrences(build, symmap, list(occ_vals))
    tape = qp.tape.QuantumScript(ops, MEAS[mname]())
    tape.trainable_params = _placeholder_positions(ops, symmap)
    try:
        tapes, fn = {**METHODS, **CRX_SHIFTS}[meth](tape)
    except _REJECT_OK as e:
        return False, f"rejected {e!r}"
    jac = fn(tuple(qp.devices.qubit.simulate(t) for t in tapes))
    got = _flatten_jac(jac, len(tape.measurements), len(tape.trainable_params))
    h = 1e-6

    def run(vals):
        o2 = _ops_with_occurrences(build, symmap, vals)
        r = qp.devices.qubit.simulate(qp.tape.QuantumScript(o2, MEAS[mname]()))
        return np.concatenate([np.asarray(x, dtype=float).ravel() for x in (r if isinstance(r, tuple) else (r,))])

    worst = 0.0
    ks = range(len(occ_vals)) if meth != "param_shift(argnum=[last])" else [len(occ_vals) - 1]
    for k in ks:
        up, dn = list(occ_vals), list(occ_vals)
        up[k] += h
        dn[k] -= h
        fd = (run(up) - run(dn)) / (2 * h)
        worst = max(worst, float(np.max(np.abs(np.asarray(got[k], dtype=float) - fd))))
    return worst > 1e-5, f"{meth} on {cname} [{mname}] at occurrence values {list(occ_vals)}: max|jacobian - central finite difference| = {worst:.3g}"


# ------------------------------------------------------------------ device adjoint
def _num_adjoint(cname, mname, occ_vals, mode):
    from pennylane.devices.qubit import adjoint_jacobian, adjoint_vjp, adjoint_jvp

    _shim_adjoint_module(False)

    build, symmap = CIRCUITS[cname]
    ops = _ops_with_occurrences(build, symmap, list(occ_vals))
    tape = qp.tape.QuantumScript(ops, MEAS[mname]())
    tape.trainable_params = _placeholder_positions(ops, symmap)
    nm, npar = len(tape.measurements), len(tape.trainable_params)
    h = 1e-6

    def run(vals):
        o2 = _ops_with_occurrences(build, symmap, vals)
        r = qp.devices.qubit.simulate(qp.tape.QuantumScript(o2, MEAS[mname]()))
        return np.asarray([float(x) for x in (r if isinstance(r, tuple) else (r,))])

    J = np.zeros((nm, npar))
    for k in range(npar):
        up, dn = list(occ_vals), list(occ_vals)
        up[k] += h
        dn[k] -= h
        J[:, k] = (run(up) - run(dn)) / (2 * h)
    try:
        if mode == "jacobian":
            raw = adjoint_jacobian(tape)
            got = np.asarray(raw, dtype=float).reshape(nm, npar)
            d = float(np.max(np.abs(got - J)))
        elif mode == "vjp":
            cot = tuple(0.3 + 0.5 * j for j in range(nm)) if nm > 1 else 0.8
            raw = adjoint_vjp(tape, cot)
            got = np.asarray(raw, dtype=float).ravel()
            d = float(np.max(np.abs(got - (np.atleast_1d(cot) @ J))))
        else:
            tan = tuple(0.2 - 0.3 * k for k in range(npar))
            raw = adjoint_jvp(tape, tan)
            got = np.asarray(raw, dtype=float).ravel()
            d = float(np.max(np.abs(got - (J @ np.asarray(tan)))))
    except (TypeError, ValueError, IndexError) as e:
        return True, f"adjoint_{mode} on {cname} [{mname}] at {list(occ_vals)}: no well-formed result ({e!r}; returned {locals().get('raw', '<raised>')!r})"
    return d > 1e-5, f"adjoint_{mode} on {cname} [{mname}] at {list(occ_vals)}: max deviation from finite differences {d:.3g}"


class _NpObjectBuffers:
    """stand-in for the name `np` inside pennylane.devices.qubit.adjoint_jacobian: typed work buffers become object arrays so
    that they can hold solver terms; everything else is numpy"""

    def __getattr__(self, k):
        return getattr(np, k)

    @staticmethod
    def empty(shape, dtype=None, **k):
        return np.empty(shape, dtype=object)

    @staticmethod
    def zeros(shape, dtype=None, **k):
        return np.zeros(shape, dtype=object)


def _shim_adjoint_module(on=True):
    import importlib

    AJ = importlib.import_module("pennylane.devices.qubit.adjoint_jacobian")
    AJ.np = _NpObjectBuffers() if on else np


def adjoint_work(item):
    from pennylane.devices.qubit import adjoint_jacobian, adjoint_vjp, adjoint_jvp

    _shim_adjoint_module(True)

    cname, mname, mode = item
    name = f"device adjoint_{mode} on {cname} [{mname}]"
    build, symmap = CIRCUITS[cname]
    nocc = len(symmap)

    def b(S):
        occ = [S.param(f"t{k}") for k in range(nocc)]
        ops = _ops_with_occurrences(build, symmap, occ)
        tape = qp.tape.QuantumScript(ops, MEAS[mname]())
        tape.trainable_params = trainable_positions(ops)
        ref = oracle_results(tape)
        nm, npar = len(tape.measurements), len(tape.trainable_params)
        if mode == "jacobian":
            got = adjoint_jacobian(tape)
        elif mode == "vjp":
            cot = tuple(0.3 + 0.5 * j for j in range(nm)) if nm > 1 else 0.8
            got = adjoint_vjp(tape, cot)
        else:
            got = adjoint_jvp(tape, tuple(0.2 - 0.3 * k for k in range(npar)))
        return got, ref, nm, npar

    def consume(S, v, i):
        got, ref, nm, npar = v
        refs = [sx.arr(r).reshape(()) for r in (ref if nm > 1 else (ref,))]
        J = [[sx.d_dparam(S, np.array([r.item()], dtype=object), f"t{k}")[0] for k in range(npar)] for r in refs]

        def rp(model):
            occ_vals = [model["params"].get(f"t{k}", 0.0) for k in range(nocc)]
            ok, obs = _num_adjoint(cname, mname, occ_vals, mode)
            return ok, {"kind": "adjoint", "circuit": cname, "meas": mname, "params": occ_vals, "mode": mode, "observed": obs}

        flat_got = [x for x in np.asarray(got, dtype=object).ravel()]
        want_n = {"jacobian": nm * npar, "vjp": npar, "jvp": nm}[mode]
        if any(x is None for x in flat_got) or len(flat_got) != want_n:
            vals = [0.37 + 0.41 * k for k in range(nocc)]
            ok, obs = _num_adjoint(cname, mname, vals, mode)
            _shim_adjoint_module(True)
            return [{"name": f"{name}: result has one finite entry per requested derivative", "status": "violated" if ok else "inconclusive", "symbols": [f"t{k}" for k in range(nocc)], "nontrivial": True,
                     "queries": 0, "signature": f"adjoint_{mode}:{cname}:{mname}", "detail": f"symbolic run returned {len(flat_got)} entries (expected {want_n}), None entries: {sum(x is None for x in flat_got)}; {obs}",
                     "replay": {"kind": "adjoint", "circuit": cname, "meas": mname, "params": vals, "mode": mode, "observed": obs}}]
        if mode == "jacobian":
            g = sx.arr(np.asarray(got, dtype=object)).reshape(nm, npar)
            lhs, rhs = list(g.ravel()), [J[m][k] for m in range(nm) for k in range(npar)]
        elif mode == "vjp":
            cot = [0.3 + 0.5 * j for j in range(nm)] if nm > 1 else [0.8]
            g = sx.arr(np.asarray(got, dtype=object)).ravel()
            lhs, rhs = list(g), [sum((J[m][k] * cot[m] for m in range(nm)), 0) for k in range(npar)]
        else:
            tan = [0.2 - 0.3 * k for k in range(npar)]
            g = sx.arr(np.asarray(got, dtype=object)).ravel()
            lhs, rhs = list(g), [sum((J[m][k] * tan[k] for k in range(npar)), 0) for m in range(nm)]
        return [obl.prove(S, f"{name}: == true derivative contraction", lhs, rhs, replay=rp, signature=f"adjoint_{mode}:{cname}:{mname}", timeout=120)]

    try:
        return obl.run_instance(name, b, consume)
    except (TypeError, AttributeError, IndexError, KeyError, ValueError, np.linalg.LinAlgError) as e:
        import traceback

        tb = traceback.format_exc(limit=5)[-500:]
        vals = [0.37 + 0.41 * k for k in range(nocc)]
        try:
            ok, obs = _num_adjoint(cname, mname, vals, mode)
        except Exception as e2:
            ok, obs = True, f"the library raised {e2!r} on plain float parameters {vals}"
        if ok:
            return [{"name": f"{name}: returns the derivative", "status": "violated", "symbols": [f"t{k}" for k in range(nocc)], "nontrivial": True, "queries": 0, "signature": f"adjoint_{mode}:{cname}:{mname}",
                     "detail": obs, "replay": {"kind": "adjoint", "circuit": cname, "meas": mname, "params": vals, "mode": mode, "observed": obs}}]
        return [{"name": name, "status": "unsupported", "detail": f"{e!r} {tb}"}]


def _dispatch(it):
    return adjoint_work(it[1:]) if it[0] == "adjoint" else work(it[1:])


def run(ctx):
    ctx.level = "proof"
    items = []
    for c in CIRCUITS:
        for m in MEAS:
            if ctx.tier == "quick" and m in ("expval Hermitian1", "var 0.5*Z0 + 1.5*X1") and c not in ("RX.RY.CNOT", "H.CRX.RY"):
                continue
            for meth in METHODS:
                if ctx.tier == "quick" and meth in ("param_shift(argnum=[last])", "param_shift(shifts=custom)") and m not in ("expval Z0@X1, expval Y1", "var Z1"):
                    continue
                if ctx.tier == "quick" and meth == "hadamard_grad" and m.startswith("var"):
                    continue
                items.append(("ps", c, m, meth))
    for m in ("var Z1", "expval Z0@X1, expval Y1"):  # (expval Z0 / probs[0,1] on the control wire of the 4-term gate: z3 unknown at 120 s - outside)
        items.append(("ps", "H.CRX.RY", m, "param_shift(shifts=(pi/4,3pi/4)) on the 4-term gate"))
        
    for c in CIRCUITS:
        # device-level adjoint functions assume a tape that passed the device's adjoint preprocessing: every trainable
        # operation has a generator and a single parameter
        probe = CIRCUITS[c][0]([0.1 * (k + 1) for k in range(len(CIRCUITS[c][1]))])
        if not all(op.num_params == 0 or (op.num_params == 1 and op.has_generator) or op.name == "Rot" and c == "non-trainable Rot first" for op in probe):
            continue
        for m in ("expval Z0", "expval Z0@X1, expval Y1", "expval 0.5*Z0 + 1.5*X1", "expval Hermitian1"):
            for mode in ("jacobian", "vjp", "jvp"):
                items.append(("adjoint", c, m, mode))
    if ctx.only:
        items = [it for it in items if ctx.only in " ".join(map(str, it))]
    ctx.shapes = len(items)
    import importlib

    PS = importlib.import_module("pennylane.gradients.parameter_shift")
    GS = importlib.import_module("pennylane.gradients.general_shift_rules")
    AJ = importlib.import_module("pennylane.devices.qubit.adjoint_jacobian")
    ctx.encode(PS.param_shift, PS.expval_param_shift, PS.var_param_shift, GS.generate_shift_rule, GS.generate_shifted_tapes, qp.gradients.hadamard_grad, AJ.adjoint_jacobian, AJ.adjoint_vjp, AJ.adjoint_jvp)
    ctx.bound(parameters="all real values; one symbol per trainable tape parameter (<=4)", circuits=list(CIRCUITS), measurements=list(MEAS),
              methods=list(METHODS) + list(CRX_SHIFTS) + ["adjoint_jacobian", "adjoint_vjp", "adjoint_jvp"],
              outside="backprop (autograd/jax/torch cannot trace solver terms), finite_diff (truncation error), SPSA (statistical), QNode-level interface plumbing, classical pre-processing Jacobians, operators with numeric generators (qp.evolve)")
    ctx.assume(*sx.SHIM_NOTES, "shim: the name `np` inside pennylane.devices.qubit.adjoint_jacobian is rebound so that its typed work buffers (np.empty/np.zeros) are object arrays",
               "custom shifts are exact multiples of pi/4 so that the rule's float coefficients denote exact algebraic numbers", "the generated tapes are evaluated by the matrix-route oracle of vf/simx.py; the true derivative is d/d(theta) of the circle atoms (vf.symx.d_dparam)")
    ctx.rule = "one obligation per (circuit, measurement, method, trainable parameter); non-trivial = mentions a symbolic parameter"
    ctx.pmap(_dispatch, items, timeout_each=600)
