"""C72 QAOA cost Hamiltonians encode their objectives (z3 over symbolic bitstrings).

For every graph of a stated finite family (networkx and rustworkx inputs) the REAL qaoa functions are called; the returned
Hamiltonian's Pauli representation is turned into its action on a computational basis state |b> with one z3 Bool per wire:
a word  c * X_S Y_U Z_T  maps |b> to  c * i^|U| * prod_{i in T+U} z_i * |b xor 1_{S+U}>  with z_i = 1 - 2 b_i.  So the
diagonal (flip set empty) is a polynomial in the bits, and each flip set carries an amplitude polynomial.  z3 proves, for ALL
bitstrings at once, equality with the objective written from the documented building blocks:
   bit_driver, edge_driver (rewarded colourings 1 below the others, traceless), maxcut = -#cut edges,
   max_independent_set / min_vertex_cover / max_clique (constrained and unconstrained),
   out_flow_constraint, net_flow_constraint (documented closed forms), loss_hamiltonian (sum of log-weights),
   x_mixer, xy_mixer (swap amplitude on unequal neighbours), bit_flip_mixer (flip iff all neighbours are in state b).
"""
from __future__ import annotations

import itertools
import math

import networkx as nx
import numpy as np
import rustworkx as rx
import z3

import pennylane as qp
from pennylane import qaoa

from vf.common import DISCHARGED, VIOLATED, INCONCLUSIVE, HARNESS_ERROR


# ------------------------------------------------------------------ graphs
def graphs(tier):
    out = []
    maxn = 4 if tier == "quick" else 5
    for n in range(2, maxn + 1):
        pairs = list(itertools.combinations(range(n), 2))
        masks = range(1, 2 ** len(pairs))
        if n == 4 and tier == "quick":
            masks = [m for m in masks if m % 3 == 1 or bin(m).count("1") in (1, len(pairs))] + [0b000111, 0b101010, 0b110001]
        if n == 5:
            masks = [m for m in range(1, 2 ** len(pairs)) if m % 41 == 7][:24]
        for m in masks:
            edges = [pairs[k] for k in range(len(pairs)) if (m >> k) & 1]
            out.append((n, tuple(edges)))
    seen, uniq = set(), []
    for g in out:
        if g not in seen:
            seen.add(g)
            uniq.append(g)
    return uniq


def digraphs(tier):
    out = []
    for n in (2, 3):
        arcs = [(i, j) for i in range(n) for j in range(n) if i != j]
        for m in range(1, 2 ** len(arcs)):
            if n == 3 and tier == "quick" and m % 5 != 2:
                continue
            es = tuple(arcs[k] for k in range(len(arcs)) if (m >> k) & 1)
            out.append((n, es))
    if tier == "thorough":
        arcs = [(i, j) for i in range(4) for j in range(4) if i != j]
        for m in range(1, 2 ** len(arcs), 97):
            es = tuple(arcs[k] for k in range(len(arcs)) if (m >> k) & 1)
            if len(es) <= 7:
                out.append((4, es))
    return out


def mk_graph(n, edges, lib, directed=False, weights=None):
    if lib == "nx":
        g = nx.DiGraph() if directed else nx.Graph()
        g.add_nodes_from(range(n))
        for k, (i, j) in enumerate(edges):
            g.add_edge(i, j, weight=(weights[k] if weights else 1.0))
        return g
    g = rx.PyDiGraph() if directed else rx.PyGraph()
    g.add_nodes_from(list(range(n)))
    for k, (i, j) in enumerate(edges):
        g.add_edge(i, j, {"weight": weights[k]} if weights else "")
    return g


# ------------------------------------------------------------------ Hamiltonian -> action on |b>
def action(H, bits):
    """-> dict flipset(frozenset of wires) -> (z3 real part, z3 imag part) amplitude polynomial in the bits"""
    pr = H.pauli_rep
    if pr is None:
        raise ValueError("Hamiltonian without pauli_rep")
    out = {}
    for word, coeff in pr.items():
        c = complex(coeff)
        flip = frozenset(w for w, l in word.items() if l in "XY")
        ny = sum(1 for w, l in word.items() if l == "Y")
        c = c * (1j ** ny)
        term_z = z3.RealVal(1)
        for w, l in word.items():
            if l in "ZY":
                if w not in bits:
                    raise KeyError(f"wire {w!r} of the Hamiltonian is not a node/edge wire")
                term_z = term_z * z3.If(bits[w], z3.RealVal(-1), z3.RealVal(1))
        re, im = out.get(flip, (z3.RealVal(0), z3.RealVal(0)))
        out[flip] = (re + _rv(c.real) * term_z, im + _rv(c.imag) * term_z)
    return out


def _rv(x):
    from fractions import Fraction

    f = Fraction(x).limit_denominator(1 << 20)
    if abs(float(f) - x) > 1e-12:
        f = Fraction(x)
    return z3.RealVal(str(f))


def zval(b):
    return z3.If(b, z3.RealVal(-1), z3.RealVal(1))


def ind(cond):
    return z3.If(cond, z3.RealVal(1), z3.RealVal(0))


# ------------------------------------------------------------------ objectives from the documented building blocks
def obj_bit_driver(nodes, b, bits):
    return (1 if b == 1 else -1) * z3.Sum([zval(bits[v]) for v in nodes]) if nodes else z3.RealVal(0)


def obj_edge_driver(edges, reward, bits):
    tot = z3.RealVal(0)
    for i, j in edges:
        col_in_reward = z3.Or(*[z3.And(bits[i] == (r[0] == "1"), bits[j] == (r[1] == "1")) for r in reward]) if reward else z3.BoolVal(False)
        tot = tot + ind(z3.Not(col_in_reward)) - z3.RealVal(4 - len(reward)) / 4
    return tot


def complement_edges(n, edges):
    es = {tuple(sorted(e)) for e in edges}
    return [p for p in itertools.combinations(range(n), 2) if p not in es]


PROBLEMS = {
    "maxcut": lambda n, E, bits: -z3.Sum([ind(bits[i] != bits[j]) for i, j in E]),
    "max_independent_set(constrained)": lambda n, E, bits: obj_bit_driver(range(n), 1, bits),
    "max_independent_set(unconstrained)": lambda n, E, bits: 3 * obj_edge_driver(E, ["10", "01", "00"], bits) + obj_bit_driver(range(n), 1, bits),
    "min_vertex_cover(constrained)": lambda n, E, bits: obj_bit_driver(range(n), 0, bits),
    "min_vertex_cover(unconstrained)": lambda n, E, bits: 3 * obj_edge_driver(E, ["11", "10", "01"], bits) + obj_bit_driver(range(n), 0, bits),
    "max_clique(constrained)": lambda n, E, bits: obj_bit_driver(range(n), 1, bits),
    "max_clique(unconstrained)": lambda n, E, bits: 3 * obj_edge_driver(complement_edges(n, E), ["10", "01", "00"], bits) + obj_bit_driver(range(n), 1, bits),
}
for _rw in (["11"], ["00"], ["10", "01"], ["11", "00"], ["11", "10", "01"], ["10", "01", "00"]):
    PROBLEMS["edge_driver(" + ",".join(_rw) + ")"] = (lambda rw: lambda n, E, bits: obj_edge_driver(E, rw, bits))(_rw)
PROBLEMS["bit_driver(0)"] = lambda n, E, bits: obj_bit_driver(range(n), 0, bits)
PROBLEMS["bit_driver(1)"] = lambda n, E, bits: obj_bit_driver(range(n), 1, bits)


def call_problem(name, g, n):
    if name == "maxcut":
        return qaoa.maxcut(g)
    if name.startswith(("max_independent_set", "min_vertex_cover", "max_clique")):
        fn = getattr(qaoa, name.split("(")[0])
        return fn(g, constrained="(constrained)" in name)
    if name.startswith("edge_driver"):
        return qaoa.edge_driver(g, name[len("edge_driver("):-1].split(",")), None
    if name.startswith("bit_driver"):
        return qaoa.bit_driver(range(n), int(name[-2])), None
    raise KeyError(name)


def expected_mixer(name, n, E):
    """(kind, graph edges, b) of the recommended mixer"""
    if name in ("maxcut",) or "(unconstrained)" in name:
        return ("x", None, None)
    if name.startswith("max_independent_set"):
        return ("bitflip", list(E), 0)
    if name.startswith("min_vertex_cover"):
        return ("bitflip", list(E), 1)
    if name.startswith("max_clique"):
        return ("bitflip", complement_edges(n, E), 0)
    return None


def mixer_claims(kind, n, E, b, act, bits):
    """list of (label, z3 Bool) saying that the action `act` is the documented mixer"""
    out = []
    nbrs = {v: [] for v in range(n)}
    for i, j in (E or []):
        nbrs[i].append(j)
        nbrs[j].append(i)
    if kind == "x":
        exp = {frozenset([v]): z3.RealVal(1) for v in range(n)}
    elif kind == "bitflip":
        exp = {frozenset([v]): ind(z3.And(*[bits[w] == (b == 1) for w in nbrs[v]])) if nbrs[v] else z3.RealVal(1) for v in range(n)}
    elif kind == "xy":
        exp = {frozenset([i, j]): ind(bits[i] != bits[j]) for i, j in E}
    else:
        raise KeyError(kind)
    for fs in set(act) | set(exp):
        re, im = act.get(fs, (z3.RealVal(0), z3.RealVal(0)))
        out.append((f"amplitude for flipping {sorted(fs)}", z3.And(re == exp.get(fs, z3.RealVal(0)), im == 0)))
    return out


# ------------------------------------------------------------------ proving
def prove_all(name, claims, bits, meta):
    """claims: list of (label, z3 Bool).  One record."""
    q, ts = 0, 0.0
    import time

    for label, claim in claims:
        s = z3.Solver()
        s.set("timeout", 30000)
        s.add(z3.Not(claim))
        t = time.time()
        r = s.check()
        ts += time.time() - t
        q += 1
        if r == z3.sat:
            m = s.model()
            vals = {str(w): (1 if z3.is_true(m.eval(bv, model_completion=True)) else 0) for w, bv in bits.items()}
            payload = dict(meta, bits=vals, claim=label)
            ok, obs = replay(payload)
            payload["observed"] = obs
            if ok:
                return [{"name": name, "status": VIOLATED, "signature": f"{meta['fn']}:{label.split(' for ')[0]}", "symbols": sorted(vals), "queries": q, "solver": "z3:sat", "replay": payload,
                         "detail": f"{label}: reproduces on the real Hamiltonian's matrix: {obs}"}]
            return [{"name": name, "status": INCONCLUSIVE, "symbols": sorted(vals), "queries": q, "detail": f"{label}: model {vals} does not reproduce ({obs})"}]
        if r != z3.unsat:
            return [{"name": name, "status": INCONCLUSIVE, "symbols": [str(w) for w in bits], "queries": q, "detail": f"{label}: z3 unknown"}]
    return [{"name": name, "status": DISCHARGED, "queries": q, "solver": "z3:unsat", "solver_s": round(ts, 3), "time_s": round(ts, 3), "symbols": [f"bit[{w}]" for w in bits],
             "detail": f"{q} z3 queries over {len(bits)} symbolic bits (all {2 ** len(bits)} bitstrings at once), all unsat"}]


def work(item):
    kind = item[0]
    try:
        if kind == "problem":
            _, pname, n, E, lib = item
            name = f"{pname} on {lib} graph n={n} E={list(E)}"
            g = mk_graph(n, E, lib)
            cost, mixer = call_problem(pname, g, n)
            bits = {v: z3.Bool(f"b{v}") for v in range(n)}
            act = action(cost, bits)
            claims = [("cost is diagonal", z3.BoolVal(all(len(fs) == 0 for fs in act)))]
            re, im = act.get(frozenset(), (z3.RealVal(0), z3.RealVal(0)))
            claims.append(("cost(b) == objective(b)", z3.And(re == PROBLEMS[pname](n, E, bits), im == 0)))
            em = expected_mixer(pname, n, E)
            if mixer is not None and em is not None:
                claims += mixer_claims(em[0], n, em[1], em[2], action(mixer, bits), bits)
            return prove_all(name, claims, bits, {"fn": pname, "n": n, "E": [list(e) for e in E], "lib": lib, "kind": "problem"})
        if kind == "mixer":
            _, mname, n, E, lib = item
            name = f"{mname} on {lib} graph n={n} E={list(E)}"
            g = mk_graph(n, E, lib)
            bits = {v: z3.Bool(f"b{v}") for v in range(n)}
            if mname == "xy_mixer":
                H, spec = qaoa.xy_mixer(g), ("xy", list(E), None)
            elif mname.startswith("bit_flip_mixer"):
                b = int(mname[-2])
                H, spec = qaoa.bit_flip_mixer(g, b), ("bitflip", list(E), b)
            else:
                H, spec = qaoa.x_mixer(range(n)), ("x", None, None)
            return prove_all(name, mixer_claims(spec[0], n, spec[1], spec[2], action(H, bits), bits), bits, {"fn": mname, "n": n, "E": [list(e) for e in E], "lib": lib, "kind": "mixer"})
        if kind == "flow":
            _, fname, n, E, lib = item
            name = f"{fname} on {lib} digraph n={n} E={list(E)}"
            weights = [round(0.5 + 0.37 * k, 3) for k in range(len(E))]
            g = mk_graph(n, E, lib, directed=True, weights=weights)
            e2w = qaoa.edges_to_wires(g)
            bits = {w: z3.Bool(f"x{w}") for w in e2w.values()}
            H = getattr(qaoa, fname)(g)
            act = action(H, bits)
            claims = [("Hamiltonian is diagonal", z3.BoolVal(all(len(fs) == 0 for fs in act)))]
            re, im = act.get(frozenset(), (z3.RealVal(0), z3.RealVal(0)))
            zs = {e: zval(bits[w]) for e, w in e2w.items()}
            if fname == "out_flow_constraint":
                tot = z3.RealVal(0)
                for v in range(n):
                    outs = [zs[e] for e in e2w if e[0] == v]
                    d = len(outs)
                    sm = z3.Sum(outs) if outs else z3.RealVal(0)
                    tot = tot + d * (d - 2) - 2 * (d - 1) * sm + sm * sm
                exp = tot
            elif fname == "net_flow_constraint":
                tot = z3.RealVal(0)
                for v in range(n):
                    outs = [zs[e] for e in e2w if e[0] == v]
                    ins = [zs[e] for e in e2w if e[1] == v]
                    t = (len(outs) - len(ins)) - (z3.Sum(outs) if outs else 0) + (z3.Sum(ins) if ins else 0)
                    tot = tot + t * t
                exp = tot
            else:  # loss_hamiltonian
                exp = z3.Sum([_rv(math.log(weights[k])) * zs[tuple(e)] for k, e in enumerate(E)])
            claims.append((f"{fname}(x) == documented closed form", z3.And(re - exp < _rv(1e-9), exp - re < _rv(1e-9), im == 0)))
            if fname in ("out_flow_constraint", "net_flow_constraint"):
                # meaning: with x_e = (1 - z_e)/2 the Hamiltonian is 4 * sum_v (violation)^2 resp. a penalty minimised exactly on feasible selections
                xs = {e: ind(bits[w]) for e, w in e2w.items()}
                if fname == "net_flow_constraint":
                    pen = z3.Sum([(z3.Sum([xs[e] for e in e2w if e[0] == v] + [z3.RealVal(0)]) - z3.Sum([xs[e] for e in e2w if e[1] == v] + [z3.RealVal(0)])) ** 2 for v in range(n)])
                    claims.append(("net flow penalty == 4 * sum_v (out(v) - in(v))^2", re == 4 * pen))
                else:
                    pen = z3.Sum([(z3.Sum([xs[e] for e in e2w if e[0] == v] + [z3.RealVal(0)])) * (z3.Sum([xs[e] for e in e2w if e[0] == v] + [z3.RealVal(0)]) - 1) for v in range(n)])
                    claims.append(("out flow penalty == 4 * sum_v out(v) * (out(v) - 1)", re == 4 * pen))
            return prove_all(name, claims, bits, {"fn": fname, "n": n, "E": [list(e) for e in E], "lib": lib, "kind": "flow", "weights": weights})
    except (ValueError, KeyError) as e:
        return [{"name": f"{item[1]} on {item[4]} n={item[2]} E={list(item[3])}", "status": "unsupported", "detail": f"rejected by the library: {e!r}"[:200]}]
    except (RuntimeError, TypeError, AttributeError, IndexError, RecursionError) as e:
        # the library raised on a valid graph (or returned something whose Pauli representation cannot be obtained)
        nm = f"{item[1]} on {item[4]} n={item[2]} E={list(item[3])}"
        return [{"name": nm, "status": VIOLATED, "signature": f"{item[1]}:raises", "symbols": [], "queries": 0,
                 "detail": f"the real function raised on a valid graph: {e!r}"[:300],
                 "replay": {"kind": "raises", "item": [item[0], item[1], item[2], [list(x) for x in item[3]], item[4]], "observed": repr(e)[:200]}}]
    raise KeyError(kind)


def replay(p):
    """dense-matrix evaluation of the real Hamiltonian at the model's bitstring"""
    if p.get("kind") == "raises":
        it = p["item"]
        recs = work((it[0], it[1], it[2], tuple(tuple(e) for e in it[3]), it[4]))
        return recs[0]["status"] == VIOLATED, recs[0].get("detail", "")
    n, E, lib = p["n"], [tuple(e) for e in p["E"]], p["lib"]
    kind, fn = p["kind"], p["fn"]
    if kind == "flow":
        g = mk_graph(n, E, lib, directed=True, weights=p["weights"])
        e2w = qaoa.edges_to_wires(g)
        wires = sorted(e2w.values())
        H = getattr(qaoa, fn)(g)
        mixer, em = None, None
    else:
        g = mk_graph(n, E, lib)
        wires = list(range(n))
        if kind == "problem":
            H, mixer = call_problem(fn, g, n)
            em = expected_mixer(fn, n, E)
        else:
            H = qaoa.xy_mixer(g) if fn == "xy_mixer" else (qaoa.bit_flip_mixer(g, int(fn[-2])) if fn.startswith("bit_flip") else qaoa.x_mixer(range(n)))
            mixer, em = None, None
    bitsv = {w: int(p["bits"].get(str(w), 0)) for w in wires}
    idx = int("".join(str(bitsv[w]) for w in wires), 2)
    bits = {w: z3.BoolVal(bool(bitsv[w])) for w in wires}
    bad = []
    for Hm, label in ((H, "H"), (mixer, "mixer")):
        if Hm is None:
            continue
        M = np.asarray(qp.matrix(Hm, wire_order=wires), dtype=complex)
        act = action(Hm, bits)
        col = M[:, idx]
        for fs, (re, im) in act.items():
            tgt = dict(bitsv)
            for w in fs:
                tgt[w] ^= 1
            j = int("".join(str(tgt[w]) for w in wires), 2)
            v = complex(float(z3.simplify(re).as_fraction()), float(z3.simplify(im).as_fraction()))
            if abs(col[j] - v) > 1e-9:
                bad.append(f"encoding mismatch at {label}[{j},{idx}]")
    # objective at the bitstring
    s = z3.Solver()
    recs = work(("problem", fn, n, tuple(E), lib) if kind == "problem" else ((kind, fn, n, tuple(E), lib)))
    # a concrete re-run of the claims with constant bits: any violated claim reproduces
    status = recs[0]["status"]
    M = np.asarray(qp.matrix(H, wire_order=wires), dtype=complex)
    return (status == VIOLATED or bool(bad)) and not bad, f"{fn} n={n} E={E} ({lib}) at bits {bitsv}: <b|H|b> = {M[idx, idx].real:.6g}; symbolic check status {status}; {bad}"


def run(ctx):
    ctx.level = "proof"
    gs = graphs(ctx.tier)
    items = []
    for k, (n, E) in enumerate(gs):
        for pname in PROBLEMS:
            if ctx.tier == "quick" and pname.startswith("edge_driver") and k % 3:
                continue
            items.append(("problem", pname, n, E, "nx" if k % 2 == 0 else "rx"))
            if ctx.tier == "thorough":
                items.append(("problem", pname, n, E, "rx" if k % 2 == 0 else "nx"))
        for mname in ("xy_mixer", "bit_flip_mixer(0)", "bit_flip_mixer(1)", "x_mixer"):
            items.append(("mixer", mname, n, E, "rx" if k % 2 == 0 else "nx"))
    for k, (n, E) in enumerate(digraphs(ctx.tier)):
        for fname in ("out_flow_constraint", "net_flow_constraint", "loss_hamiltonian"):
            items.append(("flow", fname, n, E, "nx" if k % 2 == 0 else "rx"))
    if ctx.only:
        items = [it for it in items if ctx.only in it[1]]
    ctx.shapes = len(items)
    import importlib

    C = importlib.import_module("pennylane.qaoa.cost")
    CY = importlib.import_module("pennylane.qaoa.cycle")
    MX = importlib.import_module("pennylane.qaoa.mixers")
    ctx.encode(C.bit_driver, C.edge_driver, C.maxcut, C.max_independent_set, C.min_vertex_cover, C.max_clique, CY.out_flow_constraint, CY.net_flow_constraint, CY.loss_hamiltonian,
               MX.x_mixer, MX.xy_mixer, MX.bit_flip_mixer)
    ctx.bound(graphs=f"{len(gs)} undirected graphs on 2..{4 if ctx.tier == 'quick' else 5} nodes (all graphs on <=3 nodes, a stated subset beyond), {len(digraphs(ctx.tier))} digraphs on 2..{3 if ctx.tier == 'quick' else 4} nodes; networkx and rustworkx",
              bitstrings="ALL bitstrings per graph (one z3 Bool per node / edge wire)",
              outside="max_weight_cycle as a whole (composition with cycle_mixer), cycle_mixer, symbolic edge weights (loss uses log of concrete weights), graphs beyond the family")
    ctx.assume("oracle: objectives written from the documented building blocks (edge_driver: rewarded colourings exactly 1 below the others per edge, traceless; bit_driver; closed forms in the flow-constraint docstrings)",
               "the top-level docstring formulas of max_independent_set/min_vertex_cover/max_clique print 3*sum(Z_iZ_j -+ Z_i -+ Z_j) while the code returns 3*edge_driver(...) with its documented 1/4 factor: the building-block reading is used")
    ctx.trust("z3 5.1.0", "Pauli-word action encoding (validated against qp.matrix on every replay)")
    ctx.rule = "one obligation per (function, graph, library); non-trivial = at least one symbolic bit occurs in the proved formulas"
    ctx.pmap(work, items, timeout_each=300)
