"""C50 GF(2) linear algebra is exact (vf.symbit: the real functions on z3-backed bits).

Every matrix entry and right-hand side is a free z3 Bool.  The real pivoting code runs on numpy object
arrays of those bits; each data-dependent branch (`not M[i][j]`, `.nonzero()`, `np.any`, `np.where`) forks
the path through the solver.  On every feasible path the postcondition is a Boolean formula over the
remaining free bits, proved by z3:

 rref   R = binary_finite_reduced_row_echelon(M):  R is in reduced row-echelon form, and rowspace(R) = rowspace(M)
        (same kernel: for each of the 2^c vectors x, Mx=0 <=> Rx=0; and R has no more non-zero rows than ... the
        kernel argument already fixes the row space over a field); input not modified unless inplace.
 rank   binary_matrix_rank(M) = c - log2 |ker M|
 solve  binary_solve_linear_system(A, b) returns x with Ax = b, and raises LinAlgError exactly when A is singular
 indep  binary_is_independent(v, B) (B with independent columns) <=> v not in span(columns of B)
 basis  binary_select_basis(S): selected columns are independent, span the column space, partition the input
"""
from __future__ import annotations

import itertools

import numpy as np
import z3

import pennylane as qp
from pennylane.math import binary_linalg as BL

from vf import symbit as sb
from vf.common import DISCHARGED, VIOLATED, INCONCLUSIVE, HARNESS_ERROR

QUICK = {"rref": [(2, 2), (2, 3), (3, 2), (3, 3), (3, 4)], "rank": [(2, 3), (3, 3), (3, 4), (4, 3)], "solve": [2, 3],
         "indep": [(2, 1), (3, 2)], "basis": [(2, 3), (3, 3)]}
THOROUGH = {"rref": [(2, 2), (2, 3), (3, 2), (3, 3), (3, 4), (4, 3), (4, 4), (4, 5), (5, 4), (5, 5)],
            "rank": [(2, 3), (3, 3), (3, 4), (4, 3), (3, 5), (5, 3)], "solve": [2, 3, 4],
            "indep": [(2, 1), (3, 2), (4, 2), (4, 3)], "basis": [(2, 3), (3, 3), (3, 4)]}
# beyond these shapes the number of control-flow paths of rank / solve / select_basis exceeds the budget (60000 paths or 50 minutes per shape:
# rank 4x4, 4x5, 5x5, 5x6, solve 5x5 and select_basis 4x4 were tried and stay undecided) - stated as outside


def vecs(n):
    return list(itertools.product([0, 1], repeat=n))


def dot(row, x):
    """GF(2) inner product of a symbolic row with a concrete vector -> z3 Bool"""
    return sb.zxor([row[j] for j in range(len(x)) if x[j]])


def in_kernel(M, x):
    return z3.Not(sb.zor([dot(M[i], x) for i in range(M.shape[0])])) if M.shape[0] else z3.BoolVal(True)


def in_colspan(cols, v):
    """v in span of the columns of `cols` (r x m, symbolic): exists concrete coefficient vector"""
    r, m = cols.shape
    opts = []
    for co in vecs(m):
        opts.append(sb.zand([sb.z(v[i]) == sb.zxor([cols[i, j] for j in range(m) if co[j]]) for i in range(r)]))
    return sb.zor(opts)


def is_rref(R):
    """z3 Bool: R (entries Bits) is in reduced row echelon form"""
    r, c = R.shape
    conds = []
    # lead[i] = first non-zero column of row i (c if zero row), expressed through prefix-or
    def lead_is(i, j):
        return z3.And(sb.z(R[i, j]), z3.Not(sb.zor([R[i, k] for k in range(j)])))

    def zero_row(i):
        return z3.Not(sb.zor([R[i, k] for k in range(c)]))

    for i in range(r):
        for j in range(c):
            L = lead_is(i, j)
            # pivot column is zero elsewhere
            conds.append(z3.Implies(L, z3.Not(sb.zor([R[k, j] for k in range(r) if k != i]))))
            # rows above are non-zero and lead strictly to the left
            for k in range(i):
                conds.append(z3.Implies(L, sb.zor([lead_is(k, jj) for jj in range(j)])))
        # zero rows at the bottom
        for k in range(i + 1, r):
            conds.append(z3.Implies(zero_row(i), zero_row(k)))
    return z3.And(*conds) if conds else z3.BoolVal(True)


def _to_int_arrays(vals, spec):
    out = {}
    for name, shape in spec.items():
        a = np.zeros(shape, dtype=int)
        for idx in np.ndindex(*shape):
            a[idx] = vals.get(name + "_" + "_".join(map(str, idx)), 0)
        out[name] = a
    return out


# ------------------------------------------------------------------ concrete oracles for replay
def _rank_bruteforce(M):
    r, c = M.shape
    nker = sum(1 for x in vecs(c) if not np.any(M.dot(np.array(x)) % 2))
    return c - (nker.bit_length() - 1)


def replay(p):
    kind = p["kind"]
    arrs = {k: np.array(v, dtype=int) for k, v in p["arrays"].items()}
    if kind == "rref":
        M = arrs["M"]
        M0 = M.copy()
        R = BL.binary_finite_reduced_row_echelon(M)
        bad = []
        if not np.array_equal(M, M0):
            bad.append("input modified")
        for x in vecs(M.shape[1]):
            x = np.array(x)
            if (not np.any(M.dot(x) % 2)) != (not np.any(R.dot(x) % 2)):
                bad.append(f"kernel differs at x={x.tolist()}")
                break
        s = sb.BSession()
        Rb = np.empty(R.shape, dtype=object)
        for idx in np.ndindex(*R.shape):
            Rb[idx] = sb.Bit.lift(s, int(R[idx]))
        if not z3.is_true(z3.simplify(is_rref(Rb))):
            bad.append("result not in RREF")
        return bool(bad), f"rref({M.tolist()}) = {R.tolist()}: {bad}"
    if kind == "rank":
        M = arrs["M"]
        got, exp = BL.binary_matrix_rank(M), _rank_bruteforce(M)
        return got != exp, f"binary_matrix_rank({M.tolist()}) = {got}, kernel count gives {exp}"
    if kind == "solve":
        A, b = arrs["A"], arrs["b"]
        sing = _rank_bruteforce(A) < A.shape[0]
        try:
            x = BL.binary_solve_linear_system(A, b)
        except np.linalg.LinAlgError:
            return (not sing), f"LinAlgError for A={A.tolist()} (singular={sing})"
        ok = (not sing) and np.array_equal(A.dot(x) % 2, b % 2)
        return (not ok), f"solve(A={A.tolist()}, b={b.tolist()}) = {np.asarray(x).tolist()}, singular={sing}, A@x%2={(A.dot(x) % 2).tolist()}"
    if kind == "indep":
        B, v = arrs["B"], arrs["v"]
        if _rank_bruteforce(B) < B.shape[1]:
            return False, "basis columns not independent (precondition)"
        got = BL.binary_is_independent(v, B)
        exp = _rank_bruteforce(np.concatenate([B, v[:, None]], axis=1)) > B.shape[1]
        return bool(got) != exp, f"binary_is_independent(v={v.tolist()}, B={B.tolist()}) = {got}, expected {exp}"
    if kind == "basis":
        S = arrs["S"]
        basis, other = BL.binary_select_basis(S)
        rk = _rank_bruteforce(S)
        bad = []
        if basis.shape[1] != rk or _rank_bruteforce(basis) != rk if basis.shape[1] else rk != 0:
            bad.append(f"basis has {basis.shape[1]} columns of rank {_rank_bruteforce(basis) if basis.shape[1] else 0}, column space has rank {rk}")
        cols = sorted(tuple(c) for c in S.T.tolist())
        got = sorted([tuple(c) for c in basis.T.tolist()] + [tuple(c) for c in np.asarray(other).reshape(S.shape[0], -1).T.tolist()])
        if cols != got:
            bad.append("selected + other columns are not a partition of the input columns")
        return bool(bad), f"binary_select_basis({S.tolist()}): {bad}"
    raise KeyError(kind)


# ------------------------------------------------------------------ symbolic harnesses
def _explore(build):
    """feasible paths, streamed (nothing is kept per path); running over the budget is reported as inconclusive by _finish"""
    return sb.explore_iter(build, max_paths=60000)


def _finish(name, paths, claims_of, spec, kind, symbols):
    """paths: iterable of (S, value), claims_of(S, value) -> list of (label, z3 Bool).  One record per instance."""
    try:
        return _finish_stream(name, paths, claims_of, spec, kind, symbols)
    except sb.PathLimit as e:
        return [{"name": name, "status": INCONCLUSIVE, "symbols": ["matrix bits"], "detail": f"path budget exceeded for this shape: {e}"}]


def _finish_stream(name, paths, claims_of, spec, kind, symbols):
    t_solver = 0.0
    queries = 0
    npaths = 0
    for S, val in paths:
        npaths += 1
        t_solver += S.solver_s
        if S.reachable() != "sat":
            return [{"name": name, "status": HARNESS_ERROR, "detail": "unreachable path admitted"}]
        for label, claim in claims_of(S, val):
            st, model, dt = S.prove(claim)
            t_solver += dt
            queries += 1
            if st == "sat":
                vals = S.model_values(model)
                arrs = _to_int_arrays(vals, spec)
                payload = {"kind": kind, "arrays": {k: v.tolist() for k, v in arrs.items()}}
                ok, obs = replay(payload)
                payload["observed"] = obs
                if ok:
                    return [{"name": name, "status": VIOLATED, "symbols": symbols, "signature": f"{name}:{label}", "queries": queries,
                             "solver": "z3:sat", "detail": f"{label}: counterexample reproduces on the real function: {obs}", "replay": payload,
                             "solver_s": t_solver}]
                return [{"name": name, "status": INCONCLUSIVE, "symbols": symbols, "queries": queries, "solver": "z3:sat",
                         "detail": f"{label}: model does not reproduce concretely ({obs}) -- lifting suspect", "solver_s": t_solver}]
            if st != "unsat":
                return [{"name": name, "status": INCONCLUSIVE, "symbols": symbols, "queries": queries, "solver": "z3:unknown",
                         "detail": f"{label}: solver unknown", "solver_s": t_solver}]
    return [{"name": name, "status": DISCHARGED, "symbols": symbols, "queries": queries, "solver": "z3:unsat", "paths": npaths,
             "detail": f"{npaths} feasible control-flow paths of the real function, {queries} z3 queries, all unsat", "solver_s": round(t_solver, 3),
             "time_s": round(t_solver, 3)}]


def _lifted(fn):
    """call the real function; numpy reductions that would bypass the element protocol are kept on object arrays"""
    return fn


def work(item):
    kind, shape = item
    if kind == "rref":
        r, c = shape
        name = f"rref {r}x{c}"
        spec = {"M": (r, c)}

        def build(S):
            M = S.bits("M", (r, c))
            M0 = M.copy()
            R = BL.binary_finite_reduced_row_echelon(M)
            return M, M0, R

        def claims(S, v):
            M, M0, R = v
            out = [("result in RREF", is_rref(R)),
                   ("input not modified", sb.zand([sb.z(M[idx]) == sb.z(M0[idx]) for idx in np.ndindex(r, c)])),
                   ("shape preserved", z3.BoolVal(R.shape == (r, c)))]
            for x in vecs(c):
                out.append((f"kernel membership of {x}", in_kernel(M0, x) == in_kernel(R, x)))
            return out

        paths = _explore(build)
        return _finish(name, paths, claims, spec, "rref", [f"M[{r}x{c}] entries: {r * c} free bits"])
    if kind == "rank":
        r, c = shape
        name = f"rank {r}x{c}"
        spec = {"M": (r, c)}

        def build(S):
            M = S.bits("M", (r, c))
            M0 = M.copy()
            rk = BL.binary_matrix_rank(M)
            return M, M0, rk

        def claims(S, v):
            M, M0, rk = v
            rk = int(rk)
            nker = z3.Sum([z3.If(in_kernel(M0, x), 1, 0) for x in vecs(c)])
            return [("rank = c - log2|ker|", nker == 2 ** (c - rk) if 0 <= rk <= c else z3.BoolVal(False)),
                    ("input not modified", sb.zand([sb.z(M[idx]) == sb.z(M0[idx]) for idx in np.ndindex(r, c)]))]

        paths = _explore(build)
        return _finish(name, paths, claims, spec, "rank", [f"M[{r}x{c}] entries: {r * c} free bits"])
    if kind == "solve":
        n = shape
        name = f"solve {n}x{n}"
        spec = {"A": (n, n), "b": (n,)}

        def build(S):
            A = S.bits("A", (n, n))
            b = S.bits("b", (n,))
            A0, b0 = A.copy(), b.copy()
            try:
                x = BL.binary_solve_linear_system(A, b)
                return A0, b0, x, False
            except np.linalg.LinAlgError:
                return A0, b0, None, True

        def claims(S, v):
            A0, b0, x, raised = v
            # singular <=> some non-zero x in the kernel
            singular = sb.zor([in_kernel(A0, xx) for xx in vecs(n) if any(xx)])
            if raised:
                return [("LinAlgError only for singular A", singular)]
            eqs = [sb.zxor([z3.And(sb.z(A0[i, j]), sb.z(x[j])) for j in range(n)]) == sb.z(b0[i]) for i in range(n)]
            return [("A x = b", z3.And(*eqs)), ("no error only for regular A", z3.Not(singular))]

        paths = _explore(build)
        return _finish(name, paths, claims, spec, "solve", [f"A[{n}x{n}], b[{n}]: {n * n + n} free bits"])
    if kind == "indep":
        r, m = shape
        name = f"is_independent r={r} m={m}"
        spec = {"B": (r, m), "v": (r,)}

        def build(S):
            B = S.bits("B", (r, m))
            v = S.bits("v", (r,))
            # documented precondition: columns of the basis are linearly independent
            S.assume(z3.Not(sb.zor([sb.zand([z3.Not(sb.zxor([B[i, j] for j in range(m) if co[j]])) for i in range(r)]) for co in vecs(m) if any(co)])))
            got = BL.binary_is_independent(v, B)
            return B, v, got

        def claims(S, val):
            B, v, got = val
            got = sb.z(got) if isinstance(got, sb.Bit) else z3.BoolVal(bool(got))
            return [("independent <=> not in span", got == z3.Not(in_colspan(B, v)))]

        paths = _explore(build)
        return _finish(name, paths, claims, spec, "indep", [f"B[{r}x{m}], v[{r}]: {r * m + r} free bits"])
    if kind == "basis":
        r, m = shape
        name = f"select_basis {r}x{m}"
        spec = {"S": (r, m)}

        def build(S):
            M = S.bits("S", (r, m))
            basis, other = BL.binary_select_basis(M)
            return M, basis, other

        def claims(S, val):
            M, basis, other = val
            k = basis.shape[1]
            other = np.asarray(other, dtype=object).reshape(r, -1)
            out = [("column count partition", z3.BoolVal(k + other.shape[1] == m))]
            # basis columns independent
            if k:
                out.append(("selected columns independent", z3.Not(sb.zor([sb.zand([z3.Not(sb.zxor([basis[i, j] for j in range(k) if co[j]])) for i in range(r)]) for co in vecs(k) if any(co)]))))
            # every input column lies in the span of the selected ones
            for j in range(m):
                out.append((f"input column {j} in span of selection", in_colspan(basis, M[:, j]) if k else z3.Not(sb.zor([M[i, j] for i in range(r)]))))
            # every selected column is an input column, in order (multiset partition checked concretely at replay)
            for j in range(k):
                out.append((f"selected column {j} is an input column", sb.zor([sb.zand([sb.z(basis[i, j]) == sb.z(M[i, jj]) for i in range(r)]) for jj in range(m)])))
            return out

        paths = _explore(build)
        return _finish(name, paths, claims, spec, "basis", [f"S[{r}x{m}]: {r * m} free bits"])
    raise KeyError(kind)


def run(ctx):
    ctx.level = "proof"
    fam = QUICK if ctx.tier == "quick" else THOROUGH
    items = [(k, s) for k, shapes in fam.items() for s in shapes]
    if ctx.only:
        items = [it for it in items if ctx.only in f"{it[0]} {it[1]}"]
    ctx.shapes = len(items)
    ctx.encode(BL.binary_finite_reduced_row_echelon, BL.binary_matrix_rank, BL.binary_solve_linear_system, BL.binary_is_independent, BL.binary_select_basis)
    ctx.bound(shapes={k: [list(s) if isinstance(s, tuple) else s for s in v] for k, v in fam.items()},
              entries="every entry a free z3 Bool (all 2^(r*c) matrices per shape decided at once)",
              outside="larger shapes; integer dtypes other than object (the same Python code runs, numpy's typed ^= kernels are not encoded); callers in qchem.tapering and transforms.intermediate_reps")
    ctx.assume("numpy object-array semantics: ^, *, np.outer, nonzero, any, sum dispatch to the element operators (Bit: z3 Bool; sums: z3 Int)",
               "binary_is_independent is checked under its documented precondition (basis columns independent)")
    ctx.trust("z3 5.1.0", "vf.symbit lifting (every sat model is replayed on int arrays through the real functions)")
    ctx.rule = ("one obligation per (function, shape): the real function is explored over all feasible control-flow paths with every entry "
                "symbolic; non-trivial = at least one free bit survives into the proved formulas")
    ctx.pmap(work, items, timeout_each=600 if ctx.tier == "quick" else 3000)
