"""C19 transpile respects device connectivity and preserves the results (E1, partial: symbolic gate angles; circuits and coupling maps enumerated).

Circuits with SYMBOLIC gate angles (single-qubit rotations, CNOT / CZ / CRY / IsingXX between distant wires, repeated long-range
gates that force several swaps) are transpiled by the REAL qp.transforms.transpile onto connected coupling maps (lines, a ring, a
star, a T shape; integer and string wire labels).  For the returned circuit:
    connectivity  every gate on two wires acts on an edge of the coupling map (structural),
    equivalence   the original and the transpiled circuit run on the lifted default.qubit; z3 proves, entry by entry and for all angles,
                  that every measurement result (expectation values of one-wire observables, variances, probabilities on wire
                  subsets - the measurements transpile accepts) is the same; the post-processing function is applied.
Outside: optimality of the routing, gates on more than two wires (rejected by transpile), tensor-product observables (rejected by
transpile), the networkx shortest-path routine itself (its output is checked).
"""
from __future__ import annotations

import numpy as np
import pennylane as qp

from vf import symx as sx, obl, simx

PN = ["a", "b", "g"]
MAPS = {
    "line 0-1-2-3": [(0, 1), (1, 2), (2, 3)],
    "line 3-1-0-2": [(3, 1), (1, 0), (0, 2)],
    "ring of 4": [(0, 1), (1, 2), (2, 3), (3, 0)],
    "star around 1": [(1, 0), (1, 2), (1, 3)],
    "T shape on 5": [(0, 1), (1, 2), (2, 3), (2, 4)],
}
CIRCUITS = {
    "RX.CNOT(0,2).CRY(1,3).CNOT(3,0)": (4, lambda p: [qp.RX(p[0], 0), qp.CNOT([0, 2]), qp.CRY(p[1], [1, 3]), qp.CNOT([3, 0]), qp.RZ(p[2], 2)]),
    "H.CZ(0,3).RY.CZ(0,3).IsingXX(1,3)": (4, lambda p: [qp.Hadamard(0), qp.CZ([0, 3]), qp.RY(p[0], 3), qp.CZ([0, 3]), qp.IsingXX(p[1], [1, 3]), qp.RX(p[2], 0)]),
    "CNOT(2,0).CNOT(0,3).CRX(3,2)": (4, lambda p: [qp.RY(p[0], 2), qp.CNOT([2, 0]), qp.CNOT([0, 3]), qp.CRX(p[1], [3, 2]), qp.RY(p[2], 1)]),
    "five wires: CNOT(0,4).CRZ(3,0).CNOT(4,1)": (5, lambda p: [qp.RX(p[0], 0), qp.Hadamard(4), qp.CNOT([0, 4]), qp.CRZ(p[1], [3, 0]), qp.CNOT([4, 1]), qp.RY(p[2], 3)]),
}
MEAS = {
    "expval Z0, probs[2,3]": lambda n: [qp.expval(qp.PauliZ(0)), qp.probs(wires=[2, 3])],
    "expval X3, var Y1, probs[0]": lambda n: [qp.expval(qp.PauliX(3)), qp.var(qp.PauliY(1)), qp.probs(wires=[0])],
    "probs all": lambda n: [qp.probs(wires=list(range(n)))],
}


def pairs():
    out = []
    for cname, (n, _) in CIRCUITS.items():
        for mname in MAPS:
            nodes = {w for e in MAPS[mname] for w in e}
            if set(range(n)) <= nodes and len(nodes) == n:
                out.append((cname, mname))
    return out


def transpiled(cname, mname, meas, p):
    n, build = CIRCUITS[cname]
    tape = qp.tape.QuantumScript(build(p), MEAS[meas](n))
    (t,), fn = qp.transforms.transpile(tape, coupling_map=MAPS[mname])
    return tape, t, fn


def connectivity_problem(t, mname):
    edges = {frozenset(e) for e in MAPS[mname]}
    for op in t.operations:
        if len(op.wires) == 2 and frozenset(op.wires) not in edges:
            return f"{op.name} on wires {list(op.wires)} is not an edge of the coupling map {MAPS[mname]}"
        if len(op.wires) > 2:
            return f"{op.name} acts on {len(op.wires)} wires"
    return None


def results(tape, symbolic, n):
    full = qp.tape.QuantumScript(list(tape.operations) + [qp.Identity(w) for w in range(n)], tape.measurements)
    if symbolic:
        _, res = simx.run_tape(full)
        res = res if isinstance(res, (list, tuple)) else [res]
        return [sx.arr(np.asarray(r, dtype=object)).ravel() for r in res]
    dev = qp.device("default.qubit", wires=n)
    res = dev.execute(full)
    res = res if isinstance(res, tuple) else (res,)
    return [np.asarray(r, dtype=float).ravel() for r in res]


def _num(cname, mname, meas, params):
    p = [float(v) for v in params]
    n = CIRCUITS[cname][0]
    try:
        tape, t, fn = transpiled(cname, mname, meas, p)
        pr = connectivity_problem(t, mname)
        if pr:
            return True, f"transpile({cname}, {mname}): {pr}"
        r0 = results(tape, False, n)
        r1 = fn((tuple(results(t, False, n)) if len(t.measurements) > 1 else results(t, False, n)[0],))
        r1 = r1 if isinstance(r1, (tuple, list)) else (r1,)
        d = max(float(np.max(np.abs(np.asarray(x, dtype=float).ravel() - np.asarray(y, dtype=float).ravel()))) for x, y in zip(r0, r1))
    except Exception as e:  # noqa: BLE001
        return True, f"transpile({cname}, {mname}) [{meas}]: raised {e!r}"
    return d > 1e-9, f"transpile({cname}, coupling map {mname}) [{meas}] at {dict(zip(PN, p))}: results differ from the original circuit's by {d:.3g}"


def replay(p):
    return _num(p["circuit"], p["map"], p["meas"], p["params"])


def work(item):
    cname, mname, meas = item
    name = f"transpile({cname}) onto {mname} [{meas}]"
    n = CIRCUITS[cname][0]
    sx.install_shims()

    def b(S):
        p = [S.param(x) for x in PN]
        tape, t, fn = transpiled(cname, mname, meas, p)
        r1 = results(t, True, n)
        r1 = fn((tuple(r1) if len(t.measurements) > 1 else r1[0],))
        r1 = list(r1) if isinstance(r1, (tuple, list)) else [r1]
        return tape, t, results(tape, True, n), [sx.arr(np.asarray(r, dtype=object)).ravel() for r in r1]

    def consume(S, v, i):
        tape, t, r0, r1 = v

        def rp(model):
            params = [model["params"].get(x, 0.0) for x in PN]
            ok, obs = _num(cname, mname, meas, params)
            return ok, {"circuit": cname, "map": mname, "meas": meas, "params": params, "observed": obs}

        pr = connectivity_problem(t, mname)
        rec = {"name": f"{name}: every two-wire gate of the {len(t.operations)} returned operations acts on an edge", "status": "violated" if pr else "discharged", "symbols": PN, "nontrivial": True, "queries": 1, "detail": pr or "on edges"}
        if pr:
            rec.update(signature=f"connectivity:{mname}", replay={"circuit": cname, "map": mname, "meas": meas, "params": [0.3, -0.8, 1.9], "observed": pr})
        out = [rec]
        if len(r0) != len(r1) or any(len(x) != len(y) for x, y in zip(r0, r1)):
            ok, obs = _num(cname, mname, meas, [0.3, -0.8, 1.9])
            out.append({"name": f"{name}: result structure", "status": "violated" if ok else "inconclusive", "symbols": PN, "nontrivial": True, "queries": 1, "signature": f"structure:{mname}", "detail": obs,
                        "replay": {"circuit": cname, "map": mname, "meas": meas, "params": [0.3, -0.8, 1.9], "observed": obs}})
            return out
        lhs = [x for r in r1 for x in r]
        rhs = [x for r in r0 for x in r]
        out.append(obl.prove(S, f"{name}: all {len(lhs)} measurement results equal those of the original circuit, for all angles", lhs, rhs, replay=rp, signature=f"equivalence:{cname}:{mname}", timeout=120, over=rhs))
        return out

    try:
        return obl.run_instance(name, b, consume, max_paths=8)
    except (TypeError, AttributeError, IndexError, KeyError, ValueError, NotImplementedError) as e:
        import traceback

        tb = traceback.format_exc(limit=6)[-500:]
        ok, obs = _num(cname, mname, meas, [0.3, -0.8, 1.9])
        if ok:
            return [{"name": name, "status": "violated", "symbols": PN, "nontrivial": True, "queries": 1, "signature": f"equivalence:{cname}:{mname}", "detail": obs,
                     "replay": {"circuit": cname, "map": mname, "meas": meas, "params": [0.3, -0.8, 1.9], "observed": obs}}]
        return [{"name": name, "status": "unsupported", "detail": f"{e!r} {tb}"}]


def run(ctx):
    ctx.level = "other"
    items = [(c, m, ms) for c, m in pairs() for ms in MEAS]
    if ctx.only:
        items = [it for it in items if ctx.only in str(it)]
    ctx.shapes = len(items)
    ctx.encode(qp.transforms.transpile)
    ctx.bound(angles="all real values of 3 gate angles", circuits=list(CIRCUITS), coupling_maps=MAPS, measurements=list(MEAS),
              outside="optimality of the routing, gates on more than two wires and tensor-product observables (rejected by transpile), the networkx shortest-path routine itself, more than 5 wires")
    ctx.assume(*sx.SHIM_NOTES[:3], "the post-processing function returned by transpile is applied to the lifted results")
    ctx.rule = "per (circuit, coupling map, measurements): a structural connectivity obligation and one z3 identity over all angles for the results"
    ctx.pmap(work, items, timeout_each=600)
