"""C30 Sample post-processing is exact (vf.symbit for the sample bits, vf.symx for the eigenvalues).

The array of computational-basis samples (shots x device wires) is a matrix of solver bits: every sample array within the bound is
a solver-decided path on which the REAL process_samples of ExpectationMP, VarianceMP, ProbabilityMP, CountsMP (all_outcomes on/off)
and SampleMP run.  Observables are given through EIGENVALUES THAT ARE SYMBOLIC REALS (arbitrary spectrum), through Pauli words and
through plain wires, on wire subsets in arbitrary order, with shot ranges and bin sizes.  On each path the results are compared
with direct arithmetic on the same samples; wherever eigenvalues occur z3 proves the equality for all eigenvalues:
    expval == (1/N) sum_s lambda[index(s)],  var == (1/N) sum lambda^2 - ((1/N) sum lambda)^2,  probs[k] == #{s: index(s)=k}/N,
    counts == multiset of outcomes (bit strings / eigenvalues), sample == the selected columns / eigenvalue per shot,
with index(s) read from the measured wires in the order given to the measurement (first wire most significant).
"""
from __future__ import annotations

import itertools
from collections import Counter

import numpy as np
import pennylane as qp
from pennylane.measurements import ExpectationMP, VarianceMP, SampleMP, CountsMP
from pennylane.wires import Wires

from vf import symbit as sb, symx as sx, obl
from vf.common import DISCHARGED, VIOLATED, INCONCLUSIVE

DEV_WIRES = [0, 1, 2]
SHOTS = 3
WIRESETS = [[0], [2], [0, 1], [1, 0], [2, 0], [0, 1, 2], [2, 0, 1]]
KINDS = ["counts batched", "probs batched", "expval eigvals", "var eigvals", "expval Pauli word", "var Pauli word", "probs", "counts", "counts all_outcomes", "sample wires", "sample eigvals", "counts Pauli word", "expval shot_range", "probs bin_size"]


def idx_of(row, ws):
    v = 0
    for w in ws:
        v = (v << 1) | int(row[DEV_WIRES.index(w)])
    return v


def pauli_obs(ws):
    ob = qp.PauliZ(ws[0])
    for w in ws[1:]:
        ob = ob @ qp.PauliZ(w)
    return ob


def run_case(kind, ws, samples, lam):
    """samples: int ndarray (shots, 3); lam: eigenvalue list (len 2^k; floats or SymC).  -> (got, expected) as comparable structures"""
    W = Wires(DEV_WIRES)
    k = len(ws)
    N = samples.shape[0]
    ind = [idx_of(r, ws) for r in samples]
    lam_arr = np.array(lam, dtype=object if any(isinstance(x, sx.SymC) for x in lam) else float)
    if kind == "expval eigvals":
        got = ExpectationMP(eigvals=lam_arr, wires=Wires(ws)).process_samples(samples, W)
        return [got], [sum(lam[i] for i in ind) * (1.0 / N) if False else sum((lam[i] for i in ind), 0) / N]
    if kind == "var eigvals":
        got = VarianceMP(eigvals=lam_arr, wires=Wires(ws)).process_samples(samples, W)
        m1 = sum((lam[i] for i in ind), 0) / N
        m2 = sum((lam[i] * lam[i] for i in ind), 0) / N
        return [got], [m2 - m1 * m1]
    if kind == "expval shot_range":
        got = ExpectationMP(eigvals=lam_arr, wires=Wires(ws)).process_samples(samples, W, shot_range=(1, N))
        sub = ind[1:N]
        return [got], [sum((lam[i] for i in sub), 0) / len(sub)]
    if kind in ("expval Pauli word", "var Pauli word"):
        ob = pauli_obs(ws)
        ev = [(-1) ** bin(i).count("1") for i in ind]
        if kind.startswith("expval"):
            return [qp.expval(ob).process_samples(samples, W)], [sum(ev) / N]
        m1 = sum(ev) / N
        return [qp.var(ob).process_samples(samples, W)], [sum(e * e for e in ev) / N - m1 * m1]
    if kind == "probs":
        got = qp.probs(wires=ws).process_samples(samples, W)
        c = Counter(ind)
        return list(np.asarray(got).ravel()), [c.get(j, 0) / N for j in range(2 ** k)]
    if kind == "probs bin_size":
        s4 = np.concatenate([samples, samples[:1]])  # 4 shots, bins of 2
        got = qp.probs(wires=ws).process_samples(s4, W, bin_size=2)
        ind4 = [idx_of(r, ws) for r in s4]
        exp = []
        got = np.asarray(got)
        # documented layout: (2^k, number of bins)
        for j in range(2 ** k):
            for b in range(2):
                exp.append(Counter(ind4[2 * b:2 * b + 2]).get(j, 0) / 2)
        return list(got.reshape(2 ** k, 2).ravel()), exp
    if kind in ("counts batched", "probs batched"):
        # broadcasting: a batch of two sample arrays (the array and its bit-wise complement)
        batch = np.stack([samples, 1 - samples])
        inds = [[idx_of(r, ws) for r in b] for b in batch]
        if kind == "counts batched":
            got = CountsMP(wires=Wires(ws), all_outcomes=False).process_samples(batch, W)
            exp = [dict(Counter(format(i, f"0{k}b") for i in ib)) for ib in inds]
            return ["dict", [{str(a): int(b) for a, b in g.items()} for g in got]], ["dict", exp]
        got = qp.probs(wires=ws).process_samples(batch, W)
        exp = [Counter(ib).get(j, 0) / N for ib in inds for j in range(2 ** k)]
        return list(np.asarray(got).reshape(2, 2 ** k).ravel()), exp
    if kind in ("counts", "counts all_outcomes"):
        allo = kind.endswith("all_outcomes")
        got = CountsMP(wires=Wires(ws), all_outcomes=allo).process_samples(samples, W)
        c = Counter(format(i, f"0{k}b") for i in ind)
        exp = {format(j, f"0{k}b"): c.get(format(j, f"0{k}b"), 0) for j in range(2 ** k)} if allo else dict(c)
        return ["dict", {str(a): int(b) for a, b in got.items()}], ["dict", exp]
    if kind == "counts Pauli word":
        ob = pauli_obs(ws)
        got = qp.counts(ob).process_samples(samples, W)
        c = Counter(float((-1) ** bin(i).count("1")) for i in ind)
        return ["dict", {float(a): int(b) for a, b in got.items()}], ["dict", dict(c)]
    if kind == "sample wires":
        got = qp.sample(wires=ws).process_samples(samples, W)
        exp = [[int(r[DEV_WIRES.index(w)]) for w in ws] for r in samples]
        return list(np.asarray(got).reshape(N, k).ravel()), [x for r in exp for x in r]
    if kind == "sample eigvals":
        got = SampleMP(eigvals=lam_arr, wires=Wires(ws)).process_samples(samples, W)
        return list(np.asarray(got, dtype=object).ravel()), [lam[i] for i in ind]
    raise KeyError(kind)


def _num(kind, ws, bits, lamvals):
    samples = np.array(bits, dtype=int).reshape(SHOTS, len(DEV_WIRES))
    lam = [float(lamvals.get(f"l{j}", 0.3 * (j + 1) - 1.0)) for j in range(2 ** len(ws))]
    try:
        got, exp = run_case(kind, ws, samples, lam)
    except Exception as e:  # noqa: BLE001
        return True, f"{kind} on wires {ws}, samples {samples.tolist()}: raised {e!r}"
    if got and got[0] == "dict":
        return got[1] != exp[1], f"{kind} on wires {ws}, samples {samples.tolist()}: returned {got[1]}, direct count {exp[1]}"
    g, e = np.asarray(got, dtype=float).ravel(), np.asarray(exp, dtype=float).ravel()
    if g.shape != e.shape:
        return True, f"{kind} on wires {ws}, samples {samples.tolist()}: shape {g.shape} vs {e.shape}"
    d = float(np.max(np.abs(g - e))) if g.size else 0.0
    return d > 1e-9, f"{kind} on wires {ws}, samples {samples.tolist()}, eigenvalues {lam}: returned {g.tolist()}, direct arithmetic {e.tolist()}"


def replay(p):
    return _num(p["kind"], p["wires"], p["bits"], p.get("lam", {}))


def work(item):
    kind, ws = item
    name = f"{kind} on wires {ws}"
    symbolic_lam = "eigvals" in kind or kind == "expval shot_range"
    npaths = nq = 0
    ts = 0.0
    sx.install_shims()
    try:
        def build(S):
            bits = [S.int(f"s{i}", 0, 1).concretize(0, 1) for i in range(SHOTS * len(DEV_WIRES))]
            return bits

        for S, bits in sb.explore_iter(build, max_paths=5000):
            npaths += 1
            ts += S.solver_s
            samples = np.array([int(b) for b in bits], dtype=int).reshape(SHOTS, len(DEV_WIRES))
            payload = {"kind": kind, "wires": ws, "bits": [int(b) for b in bits]}
            if symbolic_lam:
                X = sx.session()
                lam = [X.real(f"l{j}") for j in range(2 ** len(ws))]
                try:
                    got, exp = run_case(kind, ws, samples, lam)
                except (TypeError, ValueError, IndexError, AttributeError) as e:
                    ok, obs = _num(kind, ws, payload["bits"], {})
                    if ok:
                        payload["observed"] = obs
                        return [{"name": name, "status": VIOLATED, "signature": f"{kind}", "symbols": ["sample bits", "eigenvalues"], "queries": nq, "replay": payload, "detail": obs}]
                    return [{"name": name, "status": "unsupported", "detail": f"symbolic eigenvalues: {e!r}"}]

                def rp(model, payload=payload):
                    p2 = dict(payload, lam={k: float(v) for k, v in model.get("vars", {}).items()})
                    ok, obs = replay(p2)
                    p2["observed"] = obs
                    return ok, p2

                g = [v for v in sx.arr(np.asarray(got, dtype=object)).ravel()]
                e = [v for v in sx.arr(np.asarray(exp, dtype=object)).ravel()]
                if len(g) != len(e):
                    ok, obs = _num(kind, ws, payload["bits"], {})
                    payload["observed"] = obs
                    return [{"name": name, "status": VIOLATED if ok else INCONCLUSIVE, "signature": kind, "symbols": ["sample bits"], "queries": nq, "replay": payload, "detail": obs}]
                rec = obl.prove(X, f"{name}, samples {samples.tolist()}", g, e, replay=rp, signature=kind, timeout=30, twin=False)
                nq += 1
                ts += rec.get("solver_s", 0)
                if rec["status"] != DISCHARGED:
                    rec["name"] = name
                    return [rec]
            else:
                ok, obs = _num(kind, ws, payload["bits"], {})
                if ok:
                    payload["observed"] = obs
                    return [{"name": name, "status": VIOLATED, "signature": kind, "symbols": ["sample bits"], "queries": nq, "replay": payload, "detail": obs}]
    except sb.PathLimit as e:
        return [{"name": name, "status": INCONCLUSIVE, "detail": str(e), "symbols": ["sample bits"]}]
    return [{"name": name, "status": DISCHARGED, "queries": nq + npaths, "solver": "z3:unsat" if symbolic_lam else "z3 (path feasibility)", "symbols": ["sample bits"] + (["eigenvalues l*"] if symbolic_lam else []),
             "solver_s": round(ts, 3), "time_s": round(ts, 3), "nontrivial": True,
             "detail": f"all {npaths} sample arrays ({SHOTS} shots x {len(DEV_WIRES)} wires, solver-enumerated)" + (f"; {nq} z3 proofs over symbolic eigenvalues" if symbolic_lam else "; compared with direct arithmetic")}]


def run(ctx):
    ctx.level = "other"
    wiresets = WIRESETS if ctx.tier == "thorough" else [[2], [1, 0], [2, 0], [2, 0, 1]]
    items = [(k, ws) for k in KINDS for ws in wiresets if not (len(ws) == 3 and "eigvals" in k and ctx.tier == "quick" and k != "expval eigvals")]
    if ctx.only:
        items = [it for it in items if ctx.only in f"{it[0]} on wires {it[1]}"]
    ctx.shapes = len(items)
    from pennylane.measurements.process_samples import process_raw_samples

    ctx.encode(ExpectationMP.process_samples, VarianceMP.process_samples, qp.measurements.ProbabilityMP.process_samples, CountsMP.process_samples, SampleMP.process_samples, process_raw_samples)
    ctx.bound(samples=f"every {SHOTS} x {len(DEV_WIRES)} array of bits ({2 ** (SHOTS * len(DEV_WIRES))} arrays, solver-enumerated); 4 shots for bin_size", eigenvalues="arbitrary real spectra (symbolic, 2^k values)",
              wires=wiresets, outside="mid-circuit measurement values (sampled through dynamic_one_shot), broadcasting other than a batch of two for counts/probs, process_counts, shot vectors, sample dtype option")
    ctx.assume(*sx.SHIM_NOTES[:3], "oracle: direct arithmetic on the same sample array; index of a sample = measured bits in the order of the measurement's wires, first wire most significant")
    ctx.trust("z3 5.1.0", "vf.symbit / vf.symx lifting")
    ctx.rule = "one obligation per (measurement kind, wires): all sample arrays are solver-enumerated paths; with symbolic eigenvalues one z3 validity query per array"
    ctx.pmap(work, items, timeout_each=1500)
