"""C22 Dynamic wire allocation never aliases live wires.

(1) Inductive step on the real `_WireManager` (vf.symbit, z3): the pre-state is ARBITRARY -- registers `zeroed`,
    `any_state` and the loan table hold symbolic integer labels (z3 Ints constrained only to be pairwise distinct via an
    increasing chain, and below `min_int` when that is set), sizes 0..2, loan kinds / allow_resets / requested state /
    restored are free Booleans.  ONE real `get_wire` or `return_wire` is executed; every label comparison inside the
    real code is decided by z3.  Post-conditions (proved on every feasible path): labels stay pairwise distinct and
    conserved; the wire handed out was free; a wire requested in |0> comes from `zeroed`, or from `any_state` together
    with an emitted reset (only if resets are allowed), or is the fresh `min_int`; a loan is booked as ZERO only if the
    wire held |0> and the user promised restoration; AllocationError exactly when no wire can be provided.
(2) Bounded histories through the real `resolve_dynamic_wires` (vf.symbit): opcode programs are forked through the solver,
    register labels / static label / min_int stay symbolic; the output circuit is replayed against an independent
    lifetime model (contracts/c22_alloc.py:check_history) whose label comparisons are decided by z3.
(3) The same histories through the device preprocessing step `devices.preprocess.device_resolve_dynamic_wires`: without device
    wires (1-3 static integer wires with SYMBOLIC labels appearing in arbitrary order; new labels must lie above every one of them)
    and with device wire lists mixing free and static symbolic labels (dynamic wires come only from device wires the tape does
    not use, in |0>); same lifetime model, plus "no dynamic wire lands on ANY static wire" and "static operations unchanged".
"""
from __future__ import annotations

import importlib
import itertools

import z3

from pennylane.allocation import AllocateState
from pennylane.exceptions import AllocationError

from vf import symbit as sb, chrun
from vf.common import DISCHARGED, VIOLATED, INCONCLUSIVE, HARNESS_ERROR

R = importlib.import_module("pennylane.transforms.resolve_dynamic_wires")
Z, A = AllocateState.ZERO, AllocateState.ANY


C = chrun.load_module("/verif/contracts/c22_alloc.py")  # patches R.measure with the reset-marker stub; label-generic history oracle


def _stub_measure():
    R.measure = C.R.measure


def _same(a, b):
    """z3 Bool: label a equals label b (labels are SInt or python ints)"""
    return sb.zi(a) == sb.zi(b)


def _member(w, xs):
    return sb.zor([_same(w, x) for x in xs])


def _distinct(xs):
    return z3.Distinct(*[sb.zi(x) for x in xs]) if len(xs) > 1 else z3.BoolVal(True)


def _set_eq(xs, ys):
    return z3.And(sb.zand([_member(x, ys) for x in xs]), sb.zand([_member(y, xs) for y in ys]))


def step_get_work(item):
    nz, na, nl, has_min = item
    _stub_measure()
    name = f"get_wire from pre-state |zeroed|={nz} |any|={na} |loaned|={nl} min_int={'int' if has_min else 'None'}"

    def build(S):
        labs = [S.int(f"w{k}") for k in range(nz + na + nl)]
        for x, y in zip(labs, labs[1:]):
            S.assume(x.z < y.z)
        zeroed, any_state, loaned = labs[:nz], labs[nz:nz + na], labs[nz + na:]
        kinds = [S.bit(f"kind{k}") for k in range(nl)]
        min_int = None
        if has_min:
            min_int = S.int("min_int")
            for x in labs:
                S.assume(x.z < min_int.z)
        allow, want_zero, restored = S.bit("allow_resets"), S.bit("want_zero"), S.bit("restored")
        m = R._WireManager(zeroed=list(zeroed), any_state=list(any_state), min_int=min_int, allow_resets=allow)
        m._loaned = {w: (Z if bool(k) else A) for w, k in zip(loaned, kinds)}
        kinds_c = [m._loaned[w] for w in loaned]
        wz = bool(want_zero)
        rs = restored  # stays symbolic unless the code branches on it
        try:
            w, ops = m.get_wire(Z if wz else A, rs)
            raised = False
        except AllocationError:
            w, ops, raised = None, None, True
        except (IndexError, KeyError) as e:  # popping from an empty register: bookkeeping bug
            return dict(crash=repr(e), pre=(zeroed, any_state, loaned, kinds_c, min_int, allow, wz, rs))
        return dict(pre=(zeroed, any_state, loaned, kinds_c, min_int, allow, wz, rs), w=w, ops=ops, raised=raised, m=m)

    def claims(S, v):
        zeroed, any_state, loaned, kinds_c, min_int, allow, wz, rs = v["pre"]
        if "crash" in v:
            return [("no internal crash", z3.BoolVal(False))]
        allow_z = sb.z(allow)
        if v["raised"]:
            ok = z3.BoolVal(False)
            if min_int is None:
                if wz:
                    ok = z3.BoolVal(not zeroed and (not any_state)) if not any_state else z3.And(z3.BoolVal(not zeroed), z3.Not(allow_z))
                    if not zeroed and not any_state:
                        ok = z3.BoolVal(True)
                else:
                    ok = z3.BoolVal(not zeroed and not any_state)
            return [("AllocationError only when no wire can be provided", ok)]
        m, w, ops = v["m"], v["w"], v["ops"]
        nzr, nar, nlo = list(m._zeroed), list(m._any_state), dict(m._loaned)
        allnow = nzr + nar + list(nlo)
        before = list(zeroed) + list(any_state) + list(loaned)
        fresh = _same(w, min_int) if min_int is not None else z3.BoolVal(False)
        from_zero, from_any = _member(w, zeroed), _member(w, any_state)
        reset_emitted = len(ops) > 0
        out = [("labels pairwise distinct", _distinct(allnow)),
               ("labels conserved (plus the fresh wire)", z3.And(sb.zand([_member(x, allnow) for x in before]),
                                                                sb.zand([z3.Or(_member(x, before), z3.And(fresh, _same(x, min_int)) if min_int is not None else z3.BoolVal(False)) for x in allnow]),
                                                                z3.BoolVal(len(allnow) - len(before) in (0, 1)))),
               ("handed-out wire was free", z3.And(z3.Or(from_zero, from_any, fresh), z3.Not(_member(w, loaned)))),
               ("handed-out wire is loaned and in no register", z3.And(_member(w, list(nlo)), z3.Not(_member(w, nzr)), z3.Not(_member(w, nar)))),
               ("other loans untouched", sb.zand([z3.BoolVal(any(k is x for k in nlo) and nlo[x] == kc) for x, kc in zip(loaned, kinds_c)]))]
        if wz:
            out.append(("|0> request served from zeroed/fresh without reset, or from any_state with a reset (if allowed)",
                        z3.Or(z3.And(z3.Or(from_zero, fresh), z3.BoolVal(not reset_emitted)),
                              z3.And(from_any, z3.BoolVal(reset_emitted), allow_z, _same(ops[0].w, w) if reset_emitted else z3.BoolVal(False)))))
        else:
            out.append(("no reset for an any-state request", z3.BoolVal(not reset_emitted)))
        kind_w = [nlo[k] for k in nlo if k is w or z3.is_true(z3.simplify(_same(k, w)))]
        out.append(("loan kind recorded", z3.BoolVal(len(kind_w) == 1)))
        if kind_w and kind_w[0] == Z:
            out.append(("booked to return as ZERO only if it held |0> and restoration was promised",
                        z3.And(sb.z(rs), z3.Or(from_zero, fresh, z3.BoolVal(reset_emitted)))))
        if min_int is not None:
            out.append(("min_int advances exactly when a fresh wire is created", z3.If(fresh, sb.zi(m.min_int) == sb.zi(min_int) + 1, sb.zi(m.min_int) == sb.zi(min_int))))
            pref = z3.BoolVal(not zeroed)
            if any_state:
                pref = z3.And(pref, z3.And(z3.BoolVal(wz), z3.Not(allow_z)))
            out.append(("existing suitable wires are preferred over new ones", z3.Implies(fresh, pref)))
        return out

    return _prove_paths(name, build, claims, "get", item)


def step_return_work(item):
    nz, na, nl, i = item
    name = f"return_wire(loaned[{i}]) from pre-state |zeroed|={nz} |any|={na} |loaned|={nl}"

    def build(S):
        labs = [S.int(f"w{k}") for k in range(nz + na + nl)]
        for x, y in zip(labs, labs[1:]):
            S.assume(x.z < y.z)
        zeroed, any_state, loaned = labs[:nz], labs[nz:nz + na], labs[nz + na:]
        kinds = [S.bit(f"kind{k}") for k in range(nl)]
        m = R._WireManager(zeroed=list(zeroed), any_state=list(any_state), min_int=None, allow_resets=True)
        m._loaned = {w: (Z if bool(k) else A) for w, k in zip(loaned, kinds)}
        kinds_c = [m._loaned[w] for w in loaned]
        m.return_wire(loaned[i])
        return dict(pre=(zeroed, any_state, loaned, kinds_c), m=m)

    def claims(S, v):
        zeroed, any_state, loaned, kinds_c = v["pre"]
        m = v["m"]
        nzr, nar, nlo = list(m._zeroed), list(m._any_state), dict(m._loaned)
        allnow = nzr + nar + list(nlo)
        before = list(zeroed) + list(any_state) + list(loaned)
        w = loaned[i]
        target, other = (nzr, nar) if kinds_c[i] == Z else (nar, nzr)
        return [("labels pairwise distinct", _distinct(allnow)), ("labels conserved", z3.And(_set_eq(allnow, before), z3.BoolVal(len(allnow) == len(before)))),
                ("returned wire no longer loaned", z3.Not(_member(w, list(nlo)))),
                ("returned to the register booked at loan time (top of the LIFO stack)", z3.And(_same(target[-1], w) if target else z3.BoolVal(False), z3.Not(_member(w, other)))),
                ("other entries untouched", z3.BoolVal(len(nlo) == len(loaned) - 1 and len(target) + len(other) == len(zeroed) + len(any_state) + 1))]

    return _prove_paths(name, build, claims, "return", item)


def history_work(item):
    nz, na, has_min, n = item
    name = f"histories of {n} opcodes + gate, |zeroed|={nz} |any|={na} min_int={'int' if has_min else 'None'}"
    _stub_measure()

    def build(S):
        zeroed = [S.int(f"z{k}") for k in range(nz)]
        any_state = [S.int(f"a{k}") for k in range(na)]
        static = S.int("static")
        labs = zeroed + any_state + [static]
        if len(labs) > 1:
            S.assume(z3.Distinct(*[x.z for x in labs]))
        min_int = None
        if has_min:
            min_int = S.int("min_int")
            for x in labs:
                S.assume(x.z < min_int.z)
        codes = [S.int("c0", 0, 3).concretize(0, 3)] + [S.int(f"c{k}", 0, 6).concretize(0, 6) for k in range(1, n)] + [6]
        allow = bool(S.bit("allow_resets"))
        ok, reason = C.check_history(codes, zeroed, any_state, min_int, allow, static)
        return ok, reason, codes, allow

    ts = 0.0
    programs = set()
    npaths, ndec = 0, 0
    stream = sb.explore_iter(build, max_paths=400000)  # streamed: nothing is kept per path
    while True:
        try:
            S, (ok, reason, codes, allow) = next(stream)
        except StopIteration:
            break
        except sb.PathLimit as e:
            return [{"name": name, "status": INCONCLUSIVE, "detail": str(e), "symbols": ["labels"]}]
        npaths += 1
        ndec += S.decisions
        ts += S.solver_s
        programs.add((tuple(codes), allow))
        if ok:
            continue
        s = z3.Solver()
        s.add(*S.assume_)
        s.add(*S.pathcond)
        if s.check() != z3.sat:
            return [{"name": name, "status": HARNESS_ERROR, "detail": "failing path not satisfiable"}]
        vals = S.model_values(s.model())
        payload = {"kind": "history", "item": list(item), "values": vals, "codes": list(codes), "allow_resets": allow, "claim": reason}
        rok, obs = replay(payload)
        payload["observed"] = obs
        if rok:
            return [{"name": name, "status": VIOLATED, "signature": f"history:{reason}", "symbols": sorted(vals), "queries": S.decisions,
                     "solver": "z3:sat", "replay": payload, "detail": f"{reason}: reproduces concretely: {obs}"}]
        return [{"name": name, "status": INCONCLUSIVE, "symbols": sorted(vals), "detail": f"{reason}: model does not reproduce concretely ({obs})"}]
    return [{"name": name, "status": DISCHARGED, "queries": ndec, "solver": "z3:unsat", "solver_s": round(ts, 3),
             "time_s": round(ts, 3), "symbols": [f"{nz + na + 1} integer labels (zeroed, any_state, static)", "min_int", "opcodes", "allow_resets"],
             "detail": f"{npaths} feasible paths covering {len(programs)} opcode programs; every label comparison in the real transform and in the "
                       f"lifetime model decided by z3 for arbitrary distinct labels; no path violates the model"}]


DEVICE_LAYOUTS = {  # device wire list as a pattern over f<k> (free device wires), o<k> (other static wires), s (the static wire of the gates)
    "f0 s": ["f0", "s"], "s f0 f1": ["s", "f0", "f1"], "f0 m0 s f1 (m0 only measured)": ["f0", "m0", "s", "f1"], "m0 s f0 (m0 only measured)": ["m0", "s", "f0"], "f0 o0 f1 s": ["f0", "o0", "f1", "s"], "o0 s f0": ["o0", "s", "f0"], "f1 s o0 f0 o1": ["f1", "s", "o0", "f0", "o1"],
}


def device_history_work(item):
    """histories through devices.preprocess.device_resolve_dynamic_wires: (layout or None, number of other static wires, opcodes)"""
    layout, n_other, n = item
    name = f"device_resolve_dynamic_wires: histories of {n} opcodes + gate, " + (f"device wires [{layout}]" if layout else f"no device wires, {n_other + 1} static integer wires in arbitrary order")
    _stub_measure()

    def build(S):
        static = S.int("static")
        others = [S.int(f"o{k}") for k in range(n_other)]
        free = [S.int(f"f{k}") for k in range(sum(1 for t in (DEVICE_LAYOUTS[layout] if layout else []) if t.startswith("f")))]
        has_m = (layout is not None and "m0" in DEVICE_LAYOUTS[layout]) or (layout is None and n_other == 2)
        mo = [S.int("m0")] if has_m else []
        labs = [static] + others + free + mo
        if len(labs) > 1:
            S.assume(z3.Distinct(*[x.z for x in labs]))
        if layout:
            env = {"s": static, **{f"o{k}": others[k] for k in range(n_other)}, **{f"f{k}": free[k] for k in range(len(free))}, **({"m0": mo[0]} if mo else {})}
            device = ("wires", [env[t] for t in DEVICE_LAYOUTS[layout]])
        else:
            device = ("none",)
        codes = [S.int("c0", 0, 3).concretize(0, 3)] + [S.int(f"c{k}", 0, 6).concretize(0, 6) for k in range(1, n)] + [6]
        allow = bool(S.bit("allow_resets"))
        ok, reason = C.check_history(codes, [], [], None, allow, static, device=device, other_static=others, measured_only=mo)
        return ok, reason, codes, allow

    ts = 0.0
    programs = set()
    npaths, ndec = 0, 0
    stream = sb.explore_iter(build, max_paths=400000)  # streamed: nothing is kept per path
    while True:
        try:
            S, (ok, reason, codes, allow) = next(stream)
        except StopIteration:
            break
        except sb.PathLimit as e:
            return [{"name": name, "status": INCONCLUSIVE, "detail": str(e), "symbols": ["labels"]}]
        npaths += 1
        ndec += S.decisions
        ts += S.solver_s
        programs.add((tuple(codes), allow))
        if ok:
            continue
        s = z3.Solver()
        s.add(*S.assume_)
        s.add(*S.pathcond)
        if s.check() != z3.sat:
            return [{"name": name, "status": HARNESS_ERROR, "detail": "failing path not satisfiable"}]
        vals = S.model_values(s.model())
        payload = {"kind": "device_history", "item": list(item), "values": vals, "codes": list(codes), "allow_resets": allow, "claim": reason}
        rok, obs = replay(payload)
        payload["observed"] = obs
        if rok:
            return [{"name": name, "status": VIOLATED, "signature": f"device_history:{reason}", "symbols": sorted(vals), "queries": S.decisions,
                     "solver": "z3:sat", "replay": payload, "detail": f"{reason}: reproduces concretely: {obs}"}]
        return [{"name": name, "status": INCONCLUSIVE, "symbols": sorted(vals), "detail": f"{reason}: model does not reproduce concretely ({obs})"}]
    return [{"name": name, "status": DISCHARGED, "queries": ndec, "solver": "z3:unsat", "solver_s": round(ts, 3),
             "time_s": round(ts, 3), "symbols": ["static and device wire labels (symbolic integers)", "opcodes", "allow_resets"],
             "detail": f"{npaths} feasible paths covering {len(programs)} opcode programs; every label comparison of the real preprocessing step and of the "
                       f"lifetime model decided by z3 for arbitrary distinct labels; no path violates the model"}]



def _prove_paths(name, build, claims, kind, item):
    try:
        paths = sb.explore(build, max_paths=512)
    except sb.PathLimit as e:
        return [{"name": name, "status": INCONCLUSIVE, "detail": str(e), "symbols": ["labels"]}]
    q, ts = 0, 0.0
    for S, v in paths:
        ts += S.solver_s
        if S.reachable() != "sat":
            return [{"name": name, "status": HARNESS_ERROR, "detail": "unreachable path admitted"}]
        for label, claim in claims(S, v):
            st, model, dt = S.prove(claim)
            q += 1
            ts += dt
            if st == "sat":
                vals = S.model_values(model)
                payload = {"kind": kind, "item": list(item), "values": vals, "claim": label}
                ok, obs = replay(payload)
                payload["observed"] = obs
                if ok:
                    return [{"name": name, "status": VIOLATED, "signature": f"{kind}:{item}:{label}", "symbols": sorted(vals), "queries": q,
                             "solver": "z3:sat", "replay": payload, "detail": f"{label}: reproduces concretely: {obs}"}]
                return [{"name": name, "status": INCONCLUSIVE, "symbols": sorted(vals), "queries": q, "solver": "z3:sat",
                         "detail": f"{label}: model {vals} does not reproduce concretely ({obs})"}]
            if st != "unsat":
                return [{"name": name, "status": INCONCLUSIVE, "symbols": ["labels"], "queries": q, "detail": f"{label}: z3 unknown"}]
    return [{"name": name, "status": DISCHARGED, "queries": q, "solver": "z3:unsat", "solver_s": round(ts, 3), "time_s": round(ts, 3),
             "symbols": [f"{len(item) and sum(item[:3])} integer labels", "loan kinds", "allow_resets", "want_zero", "restored", "min_int"],
             "detail": f"{len(paths)} feasible paths of the real method, {q} z3 queries, all unsat"}]


def replay(p):
    """concrete re-execution of one manager step with the model's values and a plain-Python post-state check"""
    if "contract" in p:
        return chrun.replay(p)
    _stub_measure()
    vals, item, kind = p["values"], p["item"], p["kind"]
    if kind == "history":
        nz, na, has_min, n = item
        zeroed, any_state = [vals[f"z{k}"] for k in range(nz)], [vals[f"a{k}"] for k in range(na)]
        ok, reason = C.check_history(list(p["codes"]), zeroed, any_state, vals.get("min_int") if has_min else None, bool(p["allow_resets"]), vals["static"])
        return (not ok), f"codes={p['codes']} zeroed={zeroed} any_state={any_state} min_int={vals.get('min_int') if has_min else None} static={vals['static']} allow_resets={p['allow_resets']}: {reason}"
    if kind == "device_history":
        layout, n_other, n = item
        others = [vals[f"o{k}"] for k in range(n_other)]
        if layout:
            env = {"s": vals["static"], **{k: v for k, v in vals.items() if k[0] in "ofm" and k[1:].isdigit()}}
            device = ("wires", [env[t] for t in DEVICE_LAYOUTS[layout]])
        else:
            device = ("none",)
        mo = [vals["m0"]] if "m0" in vals else []
        ok, reason = C.check_history(list(p["codes"]), [], [], None, bool(p["allow_resets"]), vals["static"], device=device, other_static=others, measured_only=mo)
        return (not ok), f"device_resolve_dynamic_wires, codes={p['codes']} static wires (tape order)={others + [vals['static']]} measured-only wires={mo} device wires={device[1] if layout else None} allow_resets={p['allow_resets']}: {reason}"
    nz, na, nl = item[:3]
    labs = [vals[f"w{k}"] for k in range(nz + na + nl)]
    zeroed, any_state, loaned = labs[:nz], labs[nz:nz + na], labs[nz + na:]
    kinds = [Z if vals.get(f"kind{k}", 0) else A for k in range(nl)]
    if kind == "return":
        m = R._WireManager(zeroed=list(zeroed), any_state=list(any_state))
        m._loaned = dict(zip(loaned, kinds))
        w = loaned[item[3]]
        m.return_wire(w)
        allnow = m._zeroed + m._any_state + list(m._loaned)
        tgt = m._zeroed if kinds[item[3]] == Z else m._any_state
        bad = len(set(allnow)) != len(allnow) or set(allnow) != set(labs) or w in m._loaned or not tgt or tgt[-1] != w
        return bad, f"return_wire({w}) from zeroed={zeroed} any={any_state} loaned={dict(zip(loaned, kinds))} -> zeroed={m._zeroed} any={m._any_state} loaned={m._loaned}"
    min_int = vals.get("min_int") if item[3] else None
    allow, wz, rs = bool(vals.get("allow_resets", 0)), bool(vals.get("want_zero", 0)), bool(vals.get("restored", 0))
    m = R._WireManager(zeroed=list(zeroed), any_state=list(any_state), min_int=min_int, allow_resets=allow)
    m._loaned = dict(zip(loaned, kinds))
    desc = f"get_wire({'ZERO' if wz else 'ANY'}, restored={rs}) from zeroed={zeroed} any={any_state} loaned={dict(zip(loaned, kinds))} min_int={min_int} allow_resets={allow}"
    try:
        w, ops = m.get_wire(Z if wz else A, rs)
    except AllocationError:
        legit = min_int is None and ((wz and not zeroed and (not any_state or not allow)) or (not wz and not zeroed and not any_state))
        return (not legit), desc + " raised AllocationError"
    except (IndexError, KeyError) as e:
        return True, desc + f" crashed with {e!r}"
    fresh = min_int is not None and w == min_int
    allnow = m._zeroed + m._any_state + list(m._loaned)
    bad = []
    if len(set(allnow)) != len(allnow) or set(allnow) != set(labs) | ({min_int} if fresh else set()):
        bad.append("labels not distinct/conserved")
    if not (w in zeroed or w in any_state or fresh) or w in loaned:
        bad.append("handed-out wire was not free")
    if w not in m._loaned or w in m._zeroed or w in m._any_state:
        bad.append("handed-out wire not booked as loaned")
    if wz and not (((w in zeroed or fresh) and not ops) or (w in any_state and ops and allow and ops[0].w == w)):
        bad.append("|0> request not served from a zeroed/reset wire")
    if not wz and ops:
        bad.append("reset emitted for any-state request")
    if m._loaned.get(w) == Z and not (rs and (w in zeroed or fresh or bool(ops))):
        bad.append("booked to return as ZERO although dirty or not restored")
    if min_int is not None and m.min_int != (min_int + 1 if fresh else min_int):
        bad.append("min_int bookkeeping")
    if fresh and (zeroed or (any_state and not (wz and not allow))):
        bad.append("created a new wire although a suitable one was free")
    return bool(bad), desc + f" -> wire {w}, resets={[o.w for o in ops]}, zeroed={m._zeroed} any={m._any_state} loaned={m._loaned}: {bad}"


def run(ctx):
    ctx.level = "proof"
    mx = 2 if ctx.tier == "quick" else 3
    gets = [(nz, na, nl, hm) for nz in range(mx + 1) for na in range(mx + 1) for nl in range(mx + 1) for hm in (False, True)]
    rets = [(nz, na, nl, i) for nz in range(mx + 1) for na in range(mx + 1) for nl in range(1, mx + 2) for i in range(nl)]
    if ctx.only:
        gets = [g for g in gets if ctx.only in "get"] if "get" in ctx.only else []
        rets = rets if "return" in ctx.only else []
    ctx.encode(R._WireManager, R._new_ops, R.resolve_dynamic_wires)
    ctx.bound(inductive_step=f"registers and loan table of 0..{mx} symbolic integer labels each (pairwise distinct, arbitrary values), loan kinds, "
                             "allow_resets, requested state and restored free; min_int None or a symbolic integer above every label; ONE real get_wire / return_wire",
              histories="programs of <=4 (thorough: <=6) opcodes + a final gate over allocate(zero/any x restored) / deallocate newest/oldest / gate on all live wires + the static wire; "
                        "opcodes are forked through the solver (bounded-exhaustive), while the labels of the zeroed (0..2) / any_state (0..1) registers, the static wire and min_int are symbolic integers (pairwise distinct, min_int above all)",
              device="devices.preprocess.device_resolve_dynamic_wires with no device wires (1-3 static integer wires with symbolic labels in arbitrary tape order) and with device wire lists "
                     "in 5 layouts of free / static labels: same lifetime model, registers as DOCUMENTED (device wires not in the tape; integers above every integer wire of the tape)",
              outside="magic-state allocation, equality of simulation results with fresh wires, min_int chosen at or below a static label (user input)")
    ctx.assume("stub: measure(w, reset=True) inside resolve_dynamic_wires replaced by a marker operation",
               "restored=True is honoured as the user's promise that the wire is returned in its allocation state",
               "invariant of the inductive step: registers and loan table hold pairwise distinct labels, all below min_int (established by __init__ for distinct user registers, preserved by both steps -- proved here)",
               "labels are related only through ==/hash in the real code; the increasing-chain constraint encodes pairwise distinctness")
    ctx.trust("z3 5.1.0", "vf.symbit lifting (sat models replayed concretely)", "lifetime model in contracts/c22_alloc.py:check_history")
    ctx.rule = ("one obligation per (method, pre-state shape); labels/flags symbolic; non-trivial = symbolic labels occur in the proved formulas; "
                "plus one obligation per CrossHair history contract")
    ctx.shapes = len(gets) + len(rets)
    ctx.pmap(step_get_work, gets, timeout_each=600)
    ctx.pmap(step_return_work, rets, timeout_each=600)
    n_hist = 4 if ctx.tier == "quick" else 5
    hist = [(nz, na, hm, n) for n in range(1, n_hist + 1) for nz in (0, 1, 2) for na in (0, 1) for hm in (False, True)]
    if ctx.tier == "thorough":
        hist += [(nz, na, hm, 6) for nz in (0, 1) for na in (0, 1) for hm in (False, True)]
    if not ctx.only or "hist" in ctx.only:
        ctx.shapes += len(hist)
        ctx.pmap(history_work, hist, timeout_each=900 if ctx.tier == "quick" else 3000)
    n_dev = 3 if ctx.tier == "quick" else 4
    dev = [(None, k, n) for k in (0, 1, 2) for n in range(1, n_dev + 1)]
    dev += [(lay, sum(1 for t in pat if t.startswith("o")), n) for lay, pat in DEVICE_LAYOUTS.items() for n in range(1, n_dev + 1)]
    if not ctx.only or "device" in ctx.only:
        from pennylane.devices.preprocess import device_resolve_dynamic_wires

        ctx.encode(device_resolve_dynamic_wires)
        ctx.shapes += len(dev)
        ctx.pmap(device_history_work, dev, timeout_each=900 if ctx.tier == "quick" else 3000)
