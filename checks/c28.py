"""C28 Noisy evolution stays physical and matches the Kraus definition (E1).

(1) Every Channel subclass of ops/channel.py with closed-form Kraus operators: with the channel parameters symbolic reals
    constrained only to their documented domain, sum_k K_k^dagger K_k == I is proved by z3 (square roots introduced by their
    defining equations; the code adds a stability epsilon under every root, so the identity is claimed up to 1e-7).
(2) Noisy circuits through the REAL default.mixed pipeline (qubit_mixed get_final_state / measure_final_state) on symbolic
    angles and symbolic channel strengths: the final density matrix is Hermitian, has trace 1 and equals an independent
    Kraus-sum evolution  rho -> sum_k K rho K^dagger  (own embedding) for all parameter values; expval/probs results equal
    tr(rho O) / diagonal.  Includes broadcast parameters and measured wires that no operation touches.
"""
from __future__ import annotations

import importlib

import numpy as np
import pennylane as qp

from vf import symx as sx, obl, poly as P

MIX = importlib.import_module("pennylane.devices.qubit_mixed.simulate")
TOL = 1e-7

# channel name -> (parameter names with domain, builder(params, wires))
#   domain codes: "01" = [0,1];  sum constraints given separately
CH = {
    "AmplitudeDamping": (["gamma"], lambda p, w: qp.AmplitudeDamping(p[0], wires=w[0]), 1, []),
    "GeneralizedAmplitudeDamping": (["gamma", "p"], lambda p, w: qp.GeneralizedAmplitudeDamping(p[0], p[1], wires=w[0]), 1, []),
    "PhaseDamping": (["gamma"], lambda p, w: qp.PhaseDamping(p[0], wires=w[0]), 1, []),
    "DepolarizingChannel": (["p"], lambda p, w: qp.DepolarizingChannel(p[0], wires=w[0]), 1, []),
    "BitFlip": (["p"], lambda p, w: qp.BitFlip(p[0], wires=w[0]), 1, []),
    "PhaseFlip": (["p"], lambda p, w: qp.PhaseFlip(p[0], wires=w[0]), 1, []),
    "ResetError": (["p0", "p1"], lambda p, w: qp.ResetError(p[0], p[1], wires=w[0]), 1, [("sum<=1", (0, 1))]),
}
for _word in ("X", "Y", "Z", "XY", "YY", "ZX", "YXY", "XYZ", "YYY", "ZYY"):
    CH[f"PauliError[{_word}]"] = (["p"], (lambda word: lambda p, w: qp.PauliError(word, p[0], wires=w[:len(word)]))(_word), len(_word), [])


def make_params(S, names, sums):
    ps = []
    for n in names:
        x = S.real(n)
        S.constrain(">=0", x.p)
        S.constrain(">=0", P.sub(P.ONE, x.p))
        ps.append(x)
    for kind, idx in sums:
        if kind == "sum<=1":
            S.constrain(">=0", P.sub(P.ONE, P.add(ps[idx[0]].p, ps[idx[1]].p)))
    return ps


def wrap(x):
    return np.array(x, dtype=object)


def kraus_completeness(cname):
    names, build, nw, sums = CH[cname]
    name = f"{cname}: sum K^dagger K == I on the documented domain"

    def b(S):
        ps = make_params(S, names, sums)
        op = build([wrap(x) for x in ps], list(range(nw)))
        Ks = [sx.arr(k) for k in op.kraus_matrices()]
        tot = None
        for K in Ks:
            t = np.dot(sx.dagger(K), K)
            tot = t if tot is None else tot + t
        return tot, len(Ks)

    def consume(S, v, i):
        tot, nk = v

        def rp(model):
            fr = model.get("vars", {})
            vals = [fr.get(n, 0.5) for n in names]
            return _num_kraus(cname, vals)

        return [obl.prove(S, f"{name} ({nk} Kraus operators)", tot, np.eye(tot.shape[0]), tol=TOL, replay=rp, signature=f"kraus:{cname}", timeout=60)]

    return obl.run_instance(name, b, consume)


def _num_kraus(cname, vals):
    names, build, nw, sums = CH[cname]
    op = build(list(vals), list(range(nw)))
    Ks = [np.asarray(k, dtype=complex) for k in op.kraus_matrices()]
    tot = sum(K.conj().T @ K for K in Ks)
    d = float(np.max(np.abs(tot - np.eye(tot.shape[0]))))
    return d > 1e-6, {"kind": "kraus", "channel": cname, "values": list(vals), "observed": f"{cname}{tuple(vals)}: max|sum K^dag K - I| = {d:.3g}"}


# ------------------------------------------------------------------ noisy circuits through default.mixed
def circuits():
    """name -> builder(angles, strengths) -> (ops, measurements, wire order)"""
    C = {}
    C["RY.AmplitudeDamping.CNOT.BitFlip"] = lambda a, s: ([qp.RY(a[0], 0), qp.AmplitudeDamping(s[0], wires=0), qp.CNOT([0, 1]), qp.BitFlip(s[1], wires=1), qp.RX(a[1], 1)],
                                                          [qp.state(), qp.expval(qp.PauliZ(0) @ qp.PauliX(1)), qp.probs(wires=[1])], [0, 1])
    C["Hadamard.Depolarizing.CRX.PhaseDamping"] = lambda a, s: ([qp.Hadamard(0), qp.DepolarizingChannel(s[0], wires=0), qp.CRX(a[0], [0, 1]), qp.PhaseDamping(s[1], wires=1), qp.RZ(a[1], 0)],
                                                                 [qp.state(), qp.expval(qp.PauliY(1)), qp.probs(wires=[0, 1])], [0, 1])
    C["PauliError[YY] on entangled pair"] = lambda a, s: ([qp.RX(a[0], 0), qp.CNOT([0, 1]), qp.PauliError("YY", s[0], wires=[0, 1]), qp.RY(a[1], 1), qp.PhaseFlip(s[1], wires=0)],
                                                          [qp.state(), qp.expval(qp.PauliX(0) @ qp.PauliX(1)), qp.probs(wires=[1])], [0, 1])
    C["ResetError + GeneralizedAmplitudeDamping"] = lambda a, s: ([qp.RY(a[0], 1), qp.ResetError(s[0] * 0.5, s[1] * 0.5, wires=1), qp.CNOT([1, 0]), qp.GeneralizedAmplitudeDamping(s[0], s[1], wires=0)],
                                                                   [qp.state(), qp.probs(wires=[1, 0])], [0, 1])
    C["idle measured wire"] = lambda a, s: ([qp.RY(a[0], 0), qp.BitFlip(s[0], wires=0), qp.RX(a[1], 0)],
                                            [qp.state(), qp.expval(qp.PauliZ(0) @ qp.PauliZ(2)), qp.probs(wires=[2, 0])], [0, 2])
    C["3 wires, channel in the middle"] = lambda a, s: ([qp.RY(a[0], 0), qp.CNOT([0, 1]), qp.CNOT([1, 2]), qp.AmplitudeDamping(s[0], wires=1), qp.Toffoli([0, 2, 1]), qp.PhaseFlip(s[1], wires=2), qp.RX(a[1], 2)],
                                                        [qp.state(), qp.expval(qp.PauliZ(1)), qp.probs(wires=[2, 0])], [0, 1, 2])
    C["string labels"] = lambda a, s: ([qp.RY(a[0], "b"), qp.CNOT(["b", "a"]), qp.DepolarizingChannel(s[0], wires="a"), qp.RZ(a[1], "b")],
                                       [qp.state(), qp.expval(qp.PauliX("a")), qp.probs(wires=["b"])], ["b", "a"])
    return C


def oracle_rho(ops, W):
    """independent Kraus-sum evolution from |0..0><0..0| (wire order W)"""
    N = 2 ** len(W)
    rho = np.zeros((N, N), dtype=object)
    rho[0, 0] = 1
    for op in ops:
        ws = list(op.wires)
        if isinstance(op, qp.operation.Channel):
            Ks = [sx.embed(sx.arr(k), ws, W) for k in op.kraus_matrices()]
        else:
            Ks = [sx.embed(sx.arr(qp.matrix(op, wire_order=ws)), ws, W)]
        new = np.zeros((N, N), dtype=object)
        for K in Ks:
            new = new + np.dot(K, np.dot(rho, sx.dagger(K)))
        rho = new
    return rho


def run_mixed(tape):
    sx.install_shims()
    tape = tape.map_to_standard_wires()
    orig = MIX.create_initial_state

    def cis(*a, **k):
        return np.asarray(orig(*a, **k)).astype(object)

    MIX.create_initial_state = cis
    try:
        st, batched = MIX.get_final_state(tape)
        res = MIX.measure_final_state(tape, st, batched)
    finally:
        MIX.create_initial_state = orig
    return st, batched, res if isinstance(res, tuple) else (res,)


def _measure_oracle(rho, mp, W):
    name = type(mp).__name__
    if name == "StateMP":
        return rho
    if name == "ExpectationMP":
        O = sx.embed(sx.arr(qp.matrix(mp.obs, wire_order=list(mp.obs.wires))), list(mp.obs.wires), W)
        return np.trace(np.dot(rho, O))
    if name == "VarianceMP":
        O = sx.embed(sx.arr(qp.matrix(mp.obs, wire_order=list(mp.obs.wires))), list(mp.obs.wires), W)
        e1 = np.trace(np.dot(rho, O))
        return np.trace(np.dot(rho, np.dot(O, O))) - e1 * e1
    if name == "ProbabilityMP":
        ws = list(mp.wires)
        pos = [W.index(w) for w in ws]
        n = len(W)
        out = np.zeros(2 ** len(ws), dtype=object)
        for k in range(2 ** n):
            bits = [(k >> (n - 1 - q)) & 1 for q in range(n)]
            idx = 0
            for q in pos:
                idx = (idx << 1) | bits[q]
            out[idx] = out[idx] + rho[k, k]
        return out
    raise sx.Unsupported(name)


def _num_circuit(cname, angles, strengths, batch=False):
    ops, mps, W = circuits()[cname](angles, strengths)
    dev_res = MIX.simulate(qp.tape.QuantumScript(ops, mps))
    rho_dev = np.asarray(dev_res[0], dtype=complex)
    N = 2 ** len(W)
    worst = {}
    if batch:
        return False, "batched replay through the same comparison is done by the caller"
    rho = np.asarray(oracle_rho(ops, W), dtype=complex)
    rho_dev = rho_dev.reshape(N, N)
    worst["|rho - Kraus sum|"] = float(np.max(np.abs(rho_dev - rho)))
    worst["|rho - rho^dagger|"] = float(np.max(np.abs(rho_dev - rho_dev.conj().T)))
    worst["|tr rho - 1|"] = float(abs(np.trace(rho_dev) - 1))
    for r, mp in zip(dev_res[1:], mps[1:]):
        exp = np.asarray(_measure_oracle(rho, mp, W), dtype=complex)
        worst[type(mp).__name__] = float(np.max(np.abs(np.asarray(r, dtype=complex).reshape(exp.shape) - exp)))
    bad = max(worst.values()) > 1e-6
    return bad, f"{cname} at angles={angles} strengths={strengths}: {worst}"


def circuit_work(cname):
    name = f"default.mixed: {cname}"

    def b(S):
        a = [S.param("a"), S.param("b")]
        s = make_params(S, ["s0", "s1"], [])
        ops, mps, W = circuits()[cname](a, [wrap(x) for x in s])
        st, batched, res = run_mixed(qp.tape.QuantumScript(ops, mps))
        rho = oracle_rho(ops, W)
        return st, res, rho, mps, W

    def consume(S, v, i):
        st, res, rho, mps, W = v
        N = 2 ** len(W)

        def rp(model):
            fr = model.get("vars", {})
            angles = [model["params"].get("a", 0.3), model["params"].get("b", -0.7)]
            strengths = [fr.get("s0", 0.3), fr.get("s1", 0.2)]
            ok, obs = _num_circuit(cname, angles, strengths)
            return ok, {"kind": "circuit", "circuit": cname, "angles": angles, "strengths": strengths, "observed": obs}

        R = sx.arr(np.asarray(res[0], dtype=object)).reshape(N, N)
        out = [obl.prove(S, f"{name}: rho == independent Kraus-sum evolution", R, rho, replay=rp, signature=f"mixed:{cname}:rho", timeout=120, tol=TOL),
               obl.prove(S, f"{name}: rho is Hermitian", R, sx.dagger(R), replay=rp, signature=f"mixed:{cname}:hermitian", timeout=60, tol=TOL),
               obl.prove(S, f"{name}: tr rho == 1", [np.trace(R)], [1], replay=rp, signature=f"mixed:{cname}:trace", timeout=60, tol=TOL)]
        for r, mp in zip(res[1:], mps[1:]):
            exp = sx.arr(_measure_oracle(rho, mp, W))
            got = sx.arr(np.asarray(r, dtype=object)).reshape(exp.shape)
            out.append(obl.prove(S, f"{name}: {type(mp).__name__} == tr(rho O) / diagonal", got, exp, replay=rp, signature=f"mixed:{cname}:{type(mp).__name__}", timeout=120, tol=TOL))
        return out

    return obl.run_instance(name, b, consume)


def batch_work(cname):
    """broadcast angle: batch element k of the density matrix == unbatched evolution at element k; Hermitian, trace 1"""
    name = f"default.mixed broadcast: {cname}"

    def b(S):
        a1, a2, bb = S.param("a", wrap=False), S.param("b", wrap=False), S.param("g")
        s = make_params(S, ["s0", "s1"], [])
        sw = [wrap(x) for x in s]
        ops, mps, W = circuits()[cname]([np.array([a1, a2], dtype=object), bb], sw)
        st, batched, res = run_mixed(qp.tape.QuantumScript(ops, mps))
        rhos = []
        for av in (S.param("a"), S.param("b")):
            o2, _, _ = circuits()[cname]([av, bb], sw)
            rhos.append(oracle_rho(o2, W))
        return res, rhos, W

    def consume(S, v, i):
        res, rhos, W = v
        N = 2 ** len(W)

        def rp(model):
            fr = model.get("vars", {})
            a1, a2, g = model["params"].get("a", 0.3), model["params"].get("b", -0.7), model["params"].get("g", 1.1)
            strengths = [fr.get("s0", 0.3), fr.get("s1", 0.2)]
            ops, mps, W2 = circuits()[cname]([np.array([a1, a2]), g], strengths)
            dev = np.asarray(MIX.simulate(qp.tape.QuantumScript(ops, mps))[0], dtype=complex).reshape(2, N, N)
            worst = 0.0
            for k, av in enumerate((a1, a2)):
                o2, _, _ = circuits()[cname]([av, g], strengths)
                worst = max(worst, float(np.max(np.abs(dev[k] - np.asarray(oracle_rho(o2, W2), dtype=complex)))), float(abs(np.trace(dev[k]) - 1)),
                            float(np.max(np.abs(dev[k] - dev[k].conj().T))))
            return worst > 1e-6, {"kind": "batch", "circuit": cname, "angles": [a1, a2, g], "strengths": strengths,
                                  "observed": f"{cname} broadcast a=[{a1},{a2}]: max deviation (Kraus sum / trace / Hermiticity) = {worst:.3g}"}

        R = sx.arr(np.asarray(res[0], dtype=object)).reshape(2, N, N)
        out = []
        for k in range(2):
            out.append(obl.prove(S, f"{name}: batch element {k} == unbatched Kraus-sum evolution", R[k], rhos[k], replay=rp, signature=f"mixedbatch:{cname}:rho", timeout=120, tol=TOL))
            out.append(obl.prove(S, f"{name}: batch element {k} Hermitian with trace 1", list(R[k].ravel()) + [np.trace(R[k])], list(sx.dagger(R[k]).ravel()) + [1], replay=rp,
                                 signature=f"mixedbatch:{cname}:physical", timeout=60, tol=TOL))
        return out

    return obl.run_instance(name, b, consume)


def replay(p):
    if p["kind"] == "kraus":
        ok, pl = _num_kraus(p["channel"], p["values"])
        return ok, pl["observed"]
    if p["kind"] == "circuit":
        return _num_circuit(p["circuit"], p["angles"], p["strengths"])
    if p["kind"] == "batch":
        a1, a2, g = p["angles"]
        cname = p["circuit"]
        ops, mps, W2 = circuits()[cname]([np.array([a1, a2]), g], p["strengths"])
        N = 2 ** len(W2)
        dev = np.asarray(MIX.simulate(qp.tape.QuantumScript(ops, mps))[0], dtype=complex).reshape(2, N, N)
        worst = 0.0
        for k, av in enumerate((a1, a2)):
            o2, _, _ = circuits()[cname]([av, g], p["strengths"])
            worst = max(worst, float(np.max(np.abs(dev[k] - np.asarray(oracle_rho(o2, W2), dtype=complex)))), float(abs(np.trace(dev[k]) - 1)), float(np.max(np.abs(dev[k] - dev[k].conj().T))))
        return worst > 1e-6, f"{cname} broadcast: max deviation {worst:.3g}"
    raise KeyError(p["kind"])


def _dispatch(it):
    return {"kraus": kraus_completeness, "circuit": circuit_work, "batch": batch_work}[it[0]](it[1])


def run(ctx):
    ctx.level = "proof"
    items = [("kraus", c) for c in CH] + [("circuit", c) for c in circuits()] + [("batch", c) for c in ("RY.AmplitudeDamping.CNOT.BitFlip", "idle measured wire", "3 wires, channel in the middle")]
    if ctx.only:
        items = [it for it in items if ctx.only in it[1] or ctx.only == it[0]]
    ctx.shapes = len(items)
    AO = importlib.import_module("pennylane.devices.qubit_mixed.apply_operation")
    ctx.encode(*[getattr(qp, c.split("[")[0]) for c in CH], MIX.get_final_state, MIX.measure_final_state, AO.apply_operation)
    ctx.bound(channel_parameters="all values in the documented domain (0 <= p <= 1, p0 + p1 <= 1)", angles="all real values", pauli_error_words="X, Y, Z, XY, YY, ZX, YXY, XYZ, YYY, ZYY",
              circuits=list(circuits()), tolerance="1e-7 (the code adds a 1e-14-scale stability epsilon under every square root)",
              outside="positive semidefiniteness (eigenvalues), QubitChannel with user matrices, ThermalRelaxationError (exp / eigendecomposition of the Choi matrix), finite shots")
    ctx.assume(*sx.SHIM_NOTES, "sqrt(x): fresh r >= 0 with r*r == x; radicands are non-negative on the documented domain", "default.mixed initial state viewed as dtype=object")
    ctx.trust("oracle: own Kraus-sum evolution with own embedding of the Kraus operators / gate matrices")
    ctx.rule = "one obligation per (channel) resp. (circuit, claim); non-trivial = mentions symbolic strengths/angles"
    ctx.pmap(_dispatch, items, timeout_each=600)
