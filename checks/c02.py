"""C02 Named gates implement their documented unitaries (E1).

For every named gate instance: op.matrix() == reference formula (written here from the class
docstrings, first wire most significant), U^dagger U == I, and the broadcast path equals the stack
of per-element references -- for ALL real parameter values (z3, QF_NRA over circle atoms)."""
from __future__ import annotations

import itertools

import numpy as np
import pennylane as qp

from vf import symx as sx, obl, registry
from vf.common import DISCHARGED

I2 = np.eye(2)


def e(x):
    return np.exp(1j * x)


def c(x):
    return np.cos(x)


def s(x):
    return np.sin(x)


RS2 = 1 / np.sqrt(2)


def ctrl_block(U, n_ctrl=1, values=None):
    """block matrix applying U on the target iff controls == values (controls are the first wires)"""
    U = np.asarray(U, dtype=object)
    d = U.shape[0]
    values = [1] * n_ctrl if values is None else list(values)
    N = (2 ** n_ctrl) * d
    M = np.zeros((N, N), dtype=object)
    hit = int("".join(str(v) for v in values), 2)
    for k in range(2 ** n_ctrl):
        blk = U if k == hit else np.eye(d, dtype=object)
        M[k * d:(k + 1) * d, k * d:(k + 1) * d] = blk
    return M


def kron(*ms):
    out = np.array([[1]], dtype=object)
    for m in ms:
        out = np.kron(out, np.asarray(m, dtype=object))
    return out


X = np.array([[0, 1], [1, 0]], dtype=object)
Y = np.array([[0, -1j], [1j, 0]], dtype=object)
Z = np.array([[1, 0], [0, -1]], dtype=object)
H = np.array([[RS2, RS2], [RS2, -RS2]], dtype=object)
PAULI = {"I": np.eye(2, dtype=object), "X": X, "Y": Y, "Z": Z}
SWAPM = np.array([[1, 0, 0, 0], [0, 0, 1, 0], [0, 1, 0, 0], [0, 0, 0, 1]], dtype=object)


def rot(phi, theta, omega):
    return np.array([[e(-(phi + omega) / 2) * c(theta / 2), -e((phi - omega) / 2) * s(theta / 2)],
                     [e(-(phi - omega) / 2) * s(theta / 2), e((phi + omega) / 2) * c(theta / 2)]], dtype=object)


def rx(t):
    return np.array([[c(t / 2), -1j * s(t / 2)], [-1j * s(t / 2), c(t / 2)]], dtype=object)


def ry(t):
    return np.array([[c(t / 2), -s(t / 2)], [s(t / 2), c(t / 2)]], dtype=object)


def rz(t):
    return np.array([[e(-t / 2), 0], [0, e(t / 2)]], dtype=object)


def ps(t):
    return np.array([[1, 0], [0, e(t)]], dtype=object)


def single_exc(t, ph=None):
    p = 1 if ph is None else ph
    return np.array([[p, 0, 0, 0], [0, c(t / 2), -s(t / 2), 0], [0, s(t / 2), c(t / 2), 0], [0, 0, 0, p]], dtype=object)


def fswap(t):
    return np.array([[1, 0, 0, 0], [0, e(t / 2) * c(t / 2), -1j * e(t / 2) * s(t / 2), 0],
                     [0, -1j * e(t / 2) * s(t / 2), e(t / 2) * c(t / 2), 0], [0, 0, 0, e(t)]], dtype=object)


def double_exc(t, ph=None):
    # |0011> -> cos|0011> + sin|1100| ; |1100> -> cos|1100> - sin|0011>   (DoubleExcitation docstring)
    p = 1 if ph is None else ph
    M = np.zeros((16, 16), dtype=object)
    for k in range(16):
        M[k, k] = p
    a, b = 0b0011, 0b1100
    M[a, a] = c(t / 2)
    M[b, b] = c(t / 2)
    M[b, a] = s(t / 2)
    M[a, b] = -s(t / 2)
    return M


def embed2(U4, w0, w1, n):
    """embed a 2-qubit matrix acting on wires (w0,w1) into n qubits (wire 0 most significant)"""
    N = 2 ** n
    M = np.zeros((N, N), dtype=object)
    U4 = np.asarray(U4, dtype=object)
    for col in range(N):
        bits = [(col >> (n - 1 - k)) & 1 for k in range(n)]
        sub_in = bits[w0] * 2 + bits[w1]
        for sub_out in range(4):
            v = U4[sub_out, sub_in]
            if isinstance(v, (int, float, complex)) and v == 0:
                continue
            ob = list(bits)
            ob[w0], ob[w1] = sub_out >> 1, sub_out & 1
            row = int("".join(map(str, ob)), 2)
            M[row, col] = M[row, col] + v
    return M


def orbital_rotation(t):
    # documented circuit: fSWAP(pi)[1,2] . G(t)[0,1] G(t)[2,3] . fSWAP(pi)[1,2]
    f = embed2(fswap(np.pi), 1, 2, 4)
    g = np.dot(embed2(single_exc(t), 0, 1, 4), embed2(single_exc(t), 2, 3, 4))
    return np.dot(f, np.dot(g, f))


def multirz(t, n):
    N = 2 ** n
    M = np.zeros((N, N), dtype=object)
    for k in range(N):
        M[k, k] = e(-t / 2) if bin(k).count("1") % 2 == 0 else e(t / 2)
    return M


def paulirot(t, word):
    Pm = kron(*[PAULI[ch] for ch in word])
    N = Pm.shape[0]
    return c(t / 2) * np.eye(N, dtype=object) - 1j * s(t / 2) * Pm


def pcphase(t, dim, n):
    N = 2 ** n
    M = np.zeros((N, N), dtype=object)
    for k in range(N):
        M[k, k] = e(t) if k < dim else e(-t)
    return M


def mcx(cv):
    return ctrl_block(X, len(cv), [int(ch) for ch in cv])


def diag(*xs):
    M = np.zeros((len(xs), len(xs)), dtype=object)
    for i, x in enumerate(xs):
        M[i, i] = x
    return M


REF = {
    "Identity": lambda: I2, "PauliX": lambda: X, "PauliY": lambda: Y, "PauliZ": lambda: Z, "Hadamard": lambda: H,
    "S": lambda: diag(1, 1j), "T": lambda: diag(1, e(np.pi / 4)),
    "SX": lambda: 0.5 * np.array([[1 + 1j, 1 - 1j], [1 - 1j, 1 + 1j]], dtype=object),
    "CNOT": lambda: ctrl_block(X), "CZ": lambda: ctrl_block(Z), "CY": lambda: ctrl_block(Y), "CH": lambda: ctrl_block(H),
    "SWAP": lambda: SWAPM,
    "ISWAP": lambda: np.array([[1, 0, 0, 0], [0, 0, 1j, 0], [0, 1j, 0, 0], [0, 0, 0, 1]], dtype=object),
    "SISWAP": lambda: np.array([[1, 0, 0, 0], [0, RS2, 1j * RS2, 0], [0, 1j * RS2, RS2, 0], [0, 0, 0, 1]], dtype=object),
    "ECR": lambda: RS2 * np.array([[0, 0, 1, 1j], [0, 0, 1j, 1], [1, -1j, 0, 0], [-1j, 1, 0, 0]], dtype=object),
    "CSWAP": lambda: ctrl_block(SWAPM), "Toffoli": lambda: ctrl_block(X, 2), "CCZ": lambda: ctrl_block(Z, 2),
    "RX": rx, "RY": ry, "RZ": rz, "PhaseShift": ps, "U1": ps,
    "U2": lambda p, d: RS2 * np.array([[1, -e(d)], [e(p), e(p + d)]], dtype=object),
    "U3": lambda t, p, d: np.array([[c(t / 2), -e(d) * s(t / 2)], [e(p) * s(t / 2), e(p + d) * c(t / 2)]], dtype=object),
    "Rot": rot,
    "CRX": lambda t: ctrl_block(rx(t)), "CRY": lambda t: ctrl_block(ry(t)), "CRZ": lambda t: ctrl_block(rz(t)),
    "CRot": lambda a, b, g: ctrl_block(rot(a, b, g)),
    "ControlledPhaseShift": lambda t: diag(1, 1, 1, e(t)),
    "CPhaseShift00": lambda t: diag(e(t), 1, 1, 1), "CPhaseShift01": lambda t: diag(1, e(t), 1, 1),
    "CPhaseShift10": lambda t: diag(1, 1, e(t), 1),
    "IsingXX": lambda t: np.array([[c(t / 2), 0, 0, -1j * s(t / 2)], [0, c(t / 2), -1j * s(t / 2), 0],
                                   [0, -1j * s(t / 2), c(t / 2), 0], [-1j * s(t / 2), 0, 0, c(t / 2)]], dtype=object),
    "IsingYY": lambda t: np.array([[c(t / 2), 0, 0, 1j * s(t / 2)], [0, c(t / 2), -1j * s(t / 2), 0],
                                   [0, -1j * s(t / 2), c(t / 2), 0], [1j * s(t / 2), 0, 0, c(t / 2)]], dtype=object),
    "IsingZZ": lambda t: diag(e(-t / 2), e(t / 2), e(t / 2), e(-t / 2)),
    "IsingXY": lambda t: np.array([[1, 0, 0, 0], [0, c(t / 2), 1j * s(t / 2), 0], [0, 1j * s(t / 2), c(t / 2), 0], [0, 0, 0, 1]], dtype=object),
    "PSWAP": lambda t: np.array([[1, 0, 0, 0], [0, 0, e(t), 0], [0, e(t), 0, 0], [0, 0, 0, 1]], dtype=object),
    "SingleExcitation": lambda t: single_exc(t),
    "SingleExcitationPlus": lambda t: single_exc(t, e(t / 2)),
    "SingleExcitationMinus": lambda t: single_exc(t, e(-t / 2)),
    "FermionicSWAP": fswap,
    "DoubleExcitation": lambda t: double_exc(t),
    "DoubleExcitationPlus": lambda t: double_exc(t, e(t / 2)),
    "DoubleExcitationMinus": lambda t: double_exc(t, e(-t / 2)),
    "OrbitalRotation": orbital_rotation,
}


def reference(inst, params):
    k = inst.key
    if k in REF:
        return REF[k](*params)
    if k.startswith("Identity["):
        return np.eye(2 ** inst.nwires, dtype=object)
    if k.startswith("GlobalPhase["):
        return e(-params[0]) * np.eye(2 ** inst.nwires, dtype=object)
    if k.startswith("MultiRZ["):
        return multirz(params[0], inst.nwires)
    if k.startswith("PauliRot["):
        return paulirot(params[0], k[len("PauliRot["):-1])
    if k.startswith("PCPhase["):
        dim = int(k.split("dim")[1].rstrip("]"))
        return pcphase(params[0], dim, inst.nwires)
    if k.startswith("MultiControlledX["):
        return mcx(k[len("MultiControlledX["):-1])
    raise KeyError(k)


PNAMES = ["a", "b", "g"]


def _fm(op, n):
    return qp.matrix(op, wire_order=list(range(n)))


def _float_matrix(inst, th):
    return _fm(inst.build([th[n] for n in PNAMES[:inst.nparams]]), inst.nwires)


def _replay_ref(key, params):
    inst = registry.by_key()[key]
    M = np.asarray(_fm(inst.build(params), inst.nwires), dtype=complex)
    R = np.asarray(reference(inst, params), dtype=complex)
    d = float(np.max(np.abs(M - R)))
    u = float(np.max(np.abs(M.conj().T @ M - np.eye(M.shape[0]))))
    return (d > 1e-6 or u > 1e-6), {"kind": "ref", "key": key, "params": list(params),
                                     "observed": f"max|matrix-reference|={d:.3g}, max|U^dagger U - I|={u:.3g}"}


def replay(payload):
    ok, p = _replay_ref(payload["key"], payload["params"])
    return ok, p["observed"]


def work(key):
    inst = registry.by_key()[key]
    names = PNAMES[:inst.nparams]

    def build(S):
        ps = [S.param(n) for n in names]
        op = inst.build(ps)
        M = sx.arr(qp.matrix(op, wire_order=list(range(inst.nwires))))
        R = sx.arr(reference(inst, ps))
        out = {"M": M, "R": R}
        if inst.nparams and getattr(type(op), "ndim_params", None) is not None:
            try:
                ps2 = [np.array([S.param(n, wrap=False), S.param(n + "2", wrap=False)], dtype=object) for n in names]
                opb = inst.build(ps2)
                Mb = sx.arr(qp.matrix(opb, wire_order=list(range(inst.nwires))))
                Rb = np.stack([sx.arr(reference(inst, ps)), sx.arr(reference(inst, [S.param(n + "2") for n in names]))])
                out["Mb"], out["Rb"] = Mb, Rb
            except sx.Unsupported:
                raise
            except sx.Granularity:
                raise
            except Exception as ex:  # broadcasting not supported by this class
                out["berr"] = repr(ex)
        return out

    def consume(S, v, i):
        recs = []
        M, R = v["M"], v["R"]
        if inst.nparams:
            obl.validate(S, M, lambda th: _float_matrix(inst, th), names=names, what=f"{key}.matrix")

        def rp(model):
            ps = [model["params"].get(n, 0.0) for n in names]
            return _replay_ref(key, ps)

        recs.append(obl.prove(S, f"{key}: matrix == documented formula", M, R, replay=rp, signature=f"{key}:ref"))
        recs.append(obl.prove(S, f"{key}: U^dagger U == I", np.dot(sx.dagger(M), M), np.eye(M.shape[0]), replay=rp, signature=f"{key}:unitary"))
        if "Mb" in v:
            def rpb(model):
                for suffix in ("", "2"):
                    ps = [model["params"].get(n + suffix, 0.0) for n in names]
                    arrs = [np.array([model["params"].get(n, 0.0), model["params"].get(n + "2", 0.0)]) for n in names]
                    Mb = np.asarray(_fm(inst.build(arrs), inst.nwires), dtype=complex)
                    Rb = np.stack([np.asarray(reference(inst, [a[k] for a in arrs]), dtype=complex) for k in range(2)])
                    d = float(np.max(np.abs(Mb - Rb)))
                    return d > 1e-6, {"kind": "ref", "key": key, "params": [float(a[0]) for a in arrs], "batch": [list(map(float, a)) for a in arrs],
                                      "observed": f"broadcast max|matrix-reference|={d:.3g}"}
            recs.append(obl.prove(S, f"{key}: broadcast matrix == stacked formulas", v["Mb"], v["Rb"], replay=rpb, signature=f"{key}:broadcast"))
        return recs

    return obl.run_instance(key, build, consume)


def run(ctx):
    ctx.level = "proof"
    insts = registry.instances()
    if ctx.only:
        insts = [i for i in insts if ctx.only in i.key]
    ctx.shapes = len(insts)
    ctx.encode(*{getattr(qp, i.cls) for i in insts})
    ctx.encode(qp.matrix)
    ctx.bound(parameters="all real values (circle-atom encoding, no bound)", batch="2 independent symbolic elements",
              variable_wire_gates="MultiRZ<=3 wires, PauliRot words<=3, PCPhase<=3 wires, MultiControlledX<=3 controls, GlobalPhase<=2 wires")
    ctx.assume(*sx.SHIM_NOTES, "real-number semantics of the formulas; IEEE rounding outside the claim")
    ctx.trust("reference table in checks/c02.py transcribed from the class docstrings")
    ctx.rule = ("one obligation per (gate instance, {formula, unitarity, broadcast}); non-trivial = the obligation's "
                "polynomials mention at least one symbolic variable (parameter-free gates are constant identities)")
    ctx.pmap(work, [i.key for i in insts], timeout_each=240 if ctx.tier == "quick" else 1200)
