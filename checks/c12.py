"""C12 The decompose transform reaches the target gate set without changing the circuit (E1).

Circuits with SYMBOLIC gate angles (parametrised gates, controlled / adjoint / power wrappers - also nested ones such as
C(Adjoint(S)) and Pow(Adjoint(S)) -, multi-controlled gates with work wires, templates) are pushed through the REAL
qp.transforms.decompose for several target gate sets, with the graph-based system disabled and enabled, with work-wire budgets.
Per run either a DecompositionError-type rejection is raised (accepted), or
  * every operator of the result is a member of the target gate set (checked by name against the set's documented members) or
    satisfies the stopping condition,
  * z3 proves for ALL angles that the result implements the input circuit: U_out == U_in on the circuit wires, with every
    dynamically allocated / extra wire returned to |0> (the blocks leaving the zero-ancilla subspace vanish),
  * at most `num_work_wires` extra wires are in use,
  * (graph enabled) for every operator of the input the per-operator resource estimate reported by the solved decomposition graph
    equals the gate counts of what the transform actually emitted for that operator.
"""
from __future__ import annotations

from collections import Counter

import numpy as np
import pennylane as qp
from pennylane.decomposition import gate_sets

from vf import symx as sx, obl, dynsim

PN = ["a", "b", "g"]
W = [0, 1, 2]

CIRCUITS = {
    "Rot.CRX.IsingXX": lambda p: [qp.Rot(p[0], p[1], p[2], 0), qp.CRX(p[0], [0, 1]), qp.IsingXX(p[1], [1, 2])],
    "U3.CRot.SWAP": lambda p: [qp.U3(p[0], p[1], p[2], 1), qp.CRot(p[0], p[1], p[2], [1, 0]), qp.SWAP([0, 2])],
    "Toffoli.CSWAP.PhaseShift": lambda p: [qp.Hadamard(0), qp.Toffoli([0, 1, 2]), qp.PhaseShift(p[0], 2), qp.CSWAP([2, 0, 1])],
    "C(Adjoint(S)).Pow(Adjoint(S)).C(Adjoint(T))": lambda p: [qp.Hadamard(0), qp.ctrl(qp.adjoint(qp.S(1)), control=0), qp.Hadamard(2), qp.pow(qp.adjoint(qp.S(2)), 3), qp.ctrl(qp.adjoint(qp.T(2)), control=1)],
    "adjoint(CRY).pow(IsingZZ,2).ctrl(RZ,2 controls)": lambda p: [qp.adjoint(qp.CRY(p[0], [0, 1])), qp.pow(qp.IsingZZ(p[1], [1, 2]), 2), qp.ctrl(qp.RZ(p[2], 2), control=[0, 1])],
    "MultiControlledX(3 controls).RY": lambda p: [qp.RY(p[0], 0), qp.MultiControlledX(wires=[0, 1, 2, 3]), qp.RY(p[1], 3)],
    "SingleExcitation.ControlledPhaseShift.ISWAP": lambda p: [qp.SingleExcitation(p[0], [0, 1]), qp.ControlledPhaseShift(p[1], [1, 2]), qp.ISWAP([0, 2])],
    "MultiRZ.PauliRot": lambda p: [qp.MultiRZ(p[0], [0, 1, 2]), qp.PauliRot(p[1], "XY", [0, 2])],
    "ctrl(IsingXX,3 controls).MultiControlledX(4 wires)": lambda p: [qp.ctrl(qp.IsingXX(p[0], wires=[3, 4]), control=[0, 1, 2]), qp.MultiControlledX(wires=[0, 1, 2, 3])],
    "ctrl(prod).adjoint(pow)": lambda p: [qp.ctrl(qp.prod(qp.RX(p[0], 1), qp.PauliY(1)), control=0), qp.adjoint(qp.pow(qp.RZ(p[1], 2), 3))],
}

_CLIFFORD = ["PauliX", "PauliY", "PauliZ", "Hadamard", "S", "SX", "T", "CNOT", "CY", "CZ", "SWAP", "ISWAP"]
GATESETS = {
    "ROTATIONS_PLUS_CNOT": (gate_sets.ROTATIONS_PLUS_CNOT, {"RX", "RY", "RZ", "CNOT", "Identity", "GlobalPhase", "MidMeasureMP"}),
    "CLIFFORD_T_PLUS_RZ": (gate_sets.CLIFFORD_T_PLUS_RZ, set(_CLIFFORD) | {f"Adjoint({n})" for n in _CLIFFORD} | {"Identity", "GlobalPhase", "MidMeasureMP", "RZ"}),
    "{H, RZ, CZ, GlobalPhase}": ({"Hadamard", "RZ", "CZ", "GlobalPhase"}, {"Hadamard", "RZ", "CZ", "GlobalPhase"}),
    "{RX, RY, CNOT, Toffoli, PhaseShift, GlobalPhase}": ({"RX", "RY", "CNOT", "Toffoli", "PhaseShift", "GlobalPhase"}, {"RX", "RY", "CNOT", "Toffoli", "PhaseShift", "GlobalPhase"}),
}
_REJECT = tuple(x for x in [getattr(qp.exceptions, "DecompositionError", None), getattr(qp.exceptions, "DecompositionUndefinedError", None), getattr(qp.exceptions, "DeviceError", None)] if x is not None)


def run_decompose(tape, gsname, graph, nww):
    gs = GATESETS[gsname][0]
    (qp.decomposition.enable_graph if graph else qp.decomposition.disable_graph)()
    try:
        kw = {"num_work_wires": nww} if graph else {}
        (out,), _ = qp.transforms.decompose(tape, gate_set=gs, **kw)
    finally:
        qp.decomposition.disable_graph()
    return out


def outside(ops, gsname):
    """names outside the gate set; a classically controlled operator counts as its base operator, mid-circuit measurements as members"""
    names = set()
    for o in ops:
        nm = o.base.name if dynsim.is_cond(o) else o.name
        names.add(nm)
    return sorted(names - GATESETS[gsname][1] - {"Allocate", "Deallocate", "MidMeasureMP", "MidMeasure"})


def peak_allocated(ops):
    live = peak = 0
    for o in ops:
        if o.name == "Allocate":
            live += len(o.wires)
            peak = max(peak, live)
        elif o.name == "Deallocate":
            live -= len(o.wires)
    return peak


def kraus_branches(out_tape, base_wires):
    """for a result with mid-circuit measurements: [(assignment, K_b)] with K_b the map on base_wires for zero-initialised extra
    wires, plus the leakage rows (extra wires not back in |0>)"""
    t = out_tape
    if any(o.name in ("Allocate", "Deallocate") for o in t.operations):
        (t,), _ = qp.transforms.resolve_dynamic_wires(t, min_int=100)
    aux = [w for w in t.wires if w not in base_wires]
    Wt = list(base_wires) + aux
    if len(Wt) > 7:
        raise sx.Unsupported(f"{len(Wt)} wires")
    n, d = 2 ** len(base_wires), 2 ** len(aux)
    ms = dynsim.mcms_of(t)
    res = []
    import itertools as _it

    for vals in _it.product([0, 1], repeat=len(ms)):
        asg = dict(zip(ms, vals))
        K = np.zeros((n * d, n), dtype=object)
        for c in range(n):
            psi0 = np.zeros(n * d, dtype=object)
            psi0[c * d] = 1
            K[:, c] = dynsim.branch_state(t, Wt, asg, psi0=psi0)
        K4 = K.reshape(n, d, n)
        res.append((vals, K4[:, 0, :], [K4[:, k, :] for k in range(1, d)]))
    return res


def _num_dynamic(cname, gsname, graph, nww, params, tape, out):
    wires = list(tape.wires)
    U_in = np.asarray(qp.matrix(tape, wire_order=wires), dtype=complex)
    tot = 0.0
    for vals, K, leaks in kraus_branches(out, wires):
        K = np.asarray(K, dtype=complex)
        leak = max((float(np.max(np.abs(np.asarray(l, dtype=complex)))) for l in leaks), default=0.0)
        c = np.trace(U_in.conj().T @ K) / U_in.shape[0]
        dev = float(np.max(np.abs(K - c * U_in)))
        tot += abs(c) ** 2
        if dev > 1e-7 or leak > 1e-7:
            return True, f"decompose({cname} -> {gsname}, graph={graph}, work wires {nww}) at {list(params)}: on measurement outcomes {vals} the result applies an operator that is not proportional to U_in (deviation {dev:.3g}, leakage {leak:.3g})"
    return abs(tot - 1) > 1e-7, f"decompose({cname} -> {gsname}, graph={graph}, work wires {nww}) at {list(params)}: every outcome branch is proportional to U_in, total weight {tot:.6g}"


def unitary_with_aux(ops, base_wires):
    """-> (main block on base_wires with all other wires in and out |0>, blocks that must vanish, number of extra wires)"""
    tape = qp.tape.QuantumScript(ops)
    if any(o.name in ("Allocate", "Deallocate") for o in tape.operations):
        (tape,), _ = qp.transforms.resolve_dynamic_wires(tape, min_int=100)
    aux = [w for w in tape.wires if w not in base_wires]
    if len(base_wires) + len(aux) > 7:
        raise sx.Unsupported(f"{len(base_wires) + len(aux)} wires")
    U = sx.arr(obl.mat_of_ops(tape.operations, list(base_wires) + aux))
    if not aux:
        return U, [], 0
    d, n = 2 ** len(aux), 2 ** len(base_wires)
    U4 = U.reshape(n, d, n, d)
    return U4[:, 0, :, 0], [U4[:, k, :, 0] for k in range(1, d)], len(aux)


def _num(cname, gsname, graph, nww, params):
    ops = CIRCUITS[cname](list(params))
    tape = qp.tape.QuantumScript(ops)
    wires = list(tape.wires)
    try:
        out = run_decompose(tape, gsname, graph, nww)
    except _REJECT + ((RecursionError,) if not graph else ()) as e:
        return False, f"rejected with {type(e).__name__}"
    except Exception as e:  # noqa: BLE001
        return True, f"decompose({cname} -> {gsname}, graph={graph}, work wires {nww}) raised {e!r}"
    bad = outside(out.operations, gsname)
    if bad:
        return True, f"decompose({cname} -> {gsname}, graph={graph}): operators outside the gate set returned without an error: {bad}"
    peak = peak_allocated(out.operations)
    if peak > (nww or 0):
        return True, f"decompose({cname} -> {gsname}, graph={graph}): {peak} work wires allocated simultaneously, budget {nww}"
    if any(dynsim.is_mcm(o) for o in out.operations):
        return _num_dynamic(cname, gsname, graph, nww, params, tape, out)
    t2 = out
    if any(o.name in ("Allocate", "Deallocate") for o in out.operations):
        (t2,), _ = qp.transforms.resolve_dynamic_wires(out, min_int=100)
    allw = wires + [w for w in t2.wires if w not in wires]
    U_out = np.asarray(qp.matrix(t2, wire_order=allw), dtype=complex)
    U_in = np.asarray(qp.matrix(tape, wire_order=wires), dtype=complex)
    d = 2 ** (len(allw) - len(wires))
    n = 2 ** len(wires)
    U4 = U_out.reshape(n, d, n, d)
    dev = float(np.max(np.abs(U4[:, 0, :, 0] - U_in)))
    leak = float(max((np.max(np.abs(U4[:, k, :, 0])) for k in range(1, d)), default=0.0))
    return (dev > 1e-7 or leak > 1e-7), f"decompose({cname} -> {gsname}, graph={graph}, work wires {nww}) at {list(params)}: max|U_out - U_in| = {dev:.3g}, leakage out of the zero-ancilla subspace {leak:.3g}"


def replay(p):
    return _num(p["circuit"], p["gate_set"], p["graph"], p["nww"], p["params"])


def all_rules_exact(sol, op, nww, members, depth=0):
    """follow the rules the solved graph selects, recursively; True iff every rule declares exact resources"""
    from pennylane.transforms.decompose import _get_decomp_args

    if op.name in members or depth > 8:
        return True
    rule = sol.decomposition(op, num_work_wires=nww)
    if not getattr(rule, "exact_resources", True):
        return False
    rp, args_, kwargs_ = _get_decomp_args(op)
    with qp.queuing.AnnotatedQueue() as q:
        rule(*args_, **kwargs_)
    return all(all_rules_exact(sol, o, nww, members, depth + 1) for o in q.queue if o.name not in ("Allocate", "Deallocate"))


def estimate_problems(tape, gsname, nww):
    """graph enabled: per-operator resource estimate vs what the transform emits for that operator alone"""
    from pennylane.decomposition import DecompositionGraph

    probs = []
    gs = GATESETS[gsname][0]
    for op in tape.operations:
        if op.name in GATESETS[gsname][1]:
            continue
        try:
            graph = DecompositionGraph([op], gate_set=gs)
            sol = graph.solve(num_work_wires=nww)
            est = sol.resource_estimate(op, num_work_wires=nww) if hasattr(sol, "resource_estimate") else graph.resource_estimate(op, num_work_wires=nww)
        except Exception:  # noqa: BLE001 - no solution: decompose raises as well (covered by the rejection branch)
            continue
        try:
            if not all_rules_exact(sol if hasattr(sol, "decomposition") else graph, op, nww, GATESETS[gsname][1]):
                continue  # a rule with declared inexact resources (upper bounds) is involved: outside the claim
        except Exception:  # noqa: BLE001 - the rule tree could not be followed
            continue
        single = qp.tape.QuantumScript([op])
        qp.decomposition.enable_graph()
        try:
            (out,), _ = qp.transforms.decompose(single, gate_set=gs, num_work_wires=nww)
        except Exception:  # noqa: BLE001
            continue
        finally:
            qp.decomposition.disable_graph()
        got = Counter(o.name for o in out.operations if o.name not in ("Allocate", "Deallocate"))
        want = Counter({(k.name if hasattr(k, "name") else str(k)): v for k, v in est.gate_counts.items() if v})
        if dict(got) != dict(want):
            probs.append(f"{op.name}: graph estimate {dict(want)} != emitted gates {dict(got)}")
    return probs


def work(item):
    cname, gsname, graph, nww = item
    name = f"decompose({cname} -> {gsname}, graph={'on' if graph else 'off'}, work wires {nww})"
    sx.install_shims()

    def b(S):
        ps = [S.param(x) for x in PN]
        ops = CIRCUITS[cname](ps)
        tape = qp.tape.QuantumScript(ops)
        wires = list(tape.wires)
        U_in = sx.arr(obl.mat_of_ops(ops, wires)) if len(wires) <= 4 else None
        try:
            out = run_decompose(tape, gsname, graph, nww)
        except _REJECT + ((RecursionError,) if not graph else ()) as e:
            # legacy system: a gate set it cannot reach ends in its documented RecursionError
            return ("rejected", repr(e)[:160])
        names = sorted({o.name for o in out.operations})
        bad = outside(out.operations, gsname)
        peak = peak_allocated(out.operations)
        try:
            if len(out.operations) > 160 or U_in is None:
                raise sx.Unsupported(f"{len(out.operations)} operators on {len(out.wires)} wires: symbolic matrix product skipped")
            if any(dynsim.is_mcm(o) for o in out.operations):
                return ("dynamic", U_in, kraus_branches(out, wires), peak, names, len(out.operations), bad)
            main, zeros, naux = unitary_with_aux(out.operations, wires)
        except sx.Unsupported as e:
            return ("structural", str(e), None, None, peak, names, len(out.operations), bad)
        return ("ok", U_in, main, zeros, peak, names, len(out.operations), bad)

    def consume(S, v, i):
        if v[0] == "rejected":
            return [{"name": f"{name}: rejected with a decomposition error", "status": "discharged", "symbols": [], "nontrivial": False, "queries": 0, "detail": v[1]}]
        kind = v[0]
        if kind == "dynamic":
            _, U_in, branches, naux, names, nops, bad = v
            main, zeros = None, []
        else:
            _, U_in, main, zeros, naux, names, nops, bad = v

        def rp(model):
            p = [model["params"].get(x, 0.0) for x in PN]
            ok, obs = _num(cname, gsname, graph, nww, p)
            return ok, {"circuit": cname, "gate_set": gsname, "graph": graph, "nww": nww, "params": p, "observed": obs}

        sig = f"{gsname}:{cname}:graph={graph}"
        out = []
        ok0, obs0 = (True, "") if not bad else _num(cname, gsname, graph, nww, [0.3, -0.8, 1.9])
        out.append({"name": f"{name} (path {i}): every returned operator is in the gate set", "status": "discharged" if not bad else ("violated" if ok0 else "inconclusive"), "symbols": PN, "nontrivial": True, "queries": 0,
                    "detail": f"{nops} operators: {names}" if not bad else obs0, **({"signature": sig + ":gate-set", "replay": {"circuit": cname, "gate_set": gsname, "graph": graph, "nww": nww, "params": [0.3, -0.8, 1.9], "observed": obs0}} if bad else {})})
        if naux > (nww or 0):
            ok1, obs1 = _num(cname, gsname, graph, nww, [0.3, -0.8, 1.9])
            out.append({"name": f"{name} (path {i}): at most {nww} work wires", "status": "violated", "symbols": PN, "nontrivial": True, "queries": 0, "signature": sig + ":work-wires",
                        "detail": f"{naux} work wires allocated simultaneously, budget {nww}", "replay": {"circuit": cname, "gate_set": gsname, "graph": graph, "nww": nww, "params": [0.3, -0.8, 1.9], "observed": f"{naux} work wires allocated simultaneously, budget {nww}"}})
        if kind == "structural":
            out.append({"name": f"{name} (path {i}): U_out == U_in", "status": "unsupported", "detail": v[1]})
            return out
        if kind == "dynamic":
            # measurement-based result: on EVERY outcome branch the applied operator K_b is proportional to U_in (K_b * U_in[r,c] == U_in * K_b[r,c]
            # for a reference entry), the extra wires return to |0>, and the branch weights add up to one
            n = U_in.shape[0]
            tot = 0
            for vals, K, leaks in branches:
                ref = None
                Ui = sx.arr(U_in)
                for r_ in range(n):
                    for c_ in range(n):
                        u = Ui[r_, c_]
                        if not (isinstance(u, sx.SymC) and not u.p) and not (not isinstance(u, sx.SymC) and u == 0):
                            ref = (r_, c_)
                            break
                    if ref:
                        break
                Ks = sx.arr(K)
                lhs = [Ks[r_, c_] * Ui[ref] for r_ in range(n) for c_ in range(n)]
                rhs = [Ui[r_, c_] * Ks[ref] for r_ in range(n) for c_ in range(n)]
                out.append(obl.prove(S, f"{name} (path {i}): measurement outcomes {vals}: applied operator proportional to U_in", lhs, rhs, replay=rp, signature=sig, timeout=120, tol=1e-9))
                if leaks:
                    Z = np.concatenate([sx.arr(l).ravel() for l in leaks])
                    out.append(obl.prove(S, f"{name} (path {i}): measurement outcomes {vals}: work wires return to |0>", Z, np.zeros(Z.shape, dtype=object), replay=rp, signature=sig, timeout=120, tol=1e-9))
                col = [Ks[r_, 0] for r_ in range(n)]
                tot = tot + sum((x * (x.conjugate() if isinstance(x, sx.SymC) else np.conj(x)) for x in col), 0)
            out.append(obl.prove(S, f"{name} (path {i}): branch weights add up to 1", [tot], [1], replay=rp, signature=sig, timeout=120, tol=1e-9))
            return out
        rec = obl.prove(S, f"{name} (path {i}, {nops} ops): U_out == U_in", main, U_in, replay=rp, signature=sig, timeout=120)
        if rec["status"] == "inconclusive" and "does not reproduce" in rec.get("detail", ""):
            rec = obl.prove(S, f"{name} (path {i}, {nops} ops): U_out == U_in up to 1e-9 (float constants of the rules)", main, U_in, replay=rp, signature=sig, timeout=120, tol=1e-9)
        out.append(rec)
        if zeros:
            Z = np.concatenate([z.ravel() for z in zeros])
            out.append(obl.prove(S, f"{name} (path {i}): work wires return to |0>", Z, np.zeros(Z.shape, dtype=object), replay=rp, signature=sig, timeout=120, tol=1e-9))
        return out

    recs = []
    try:
        recs = obl.run_instance(name, b, consume, max_paths=16)
    except (TypeError, AttributeError, IndexError, KeyError, ValueError, NotImplementedError, RecursionError, RuntimeError, qp.operation.MatrixUndefinedError) as e:
        import traceback

        tb = traceback.format_exc(limit=6)[-600:]
        try:
            ok, obs = _num(cname, gsname, graph, nww, [0.3, -0.8, 1.9])
        except Exception as e2:  # noqa: BLE001
            ok, obs = False, repr(e2)
        if ok:
            recs = [{"name": name, "status": "violated", "symbols": PN, "nontrivial": True, "queries": 0, "signature": f"{gsname}:{cname}:graph={graph}", "detail": obs,
                     "replay": {"circuit": cname, "gate_set": gsname, "graph": graph, "nww": nww, "params": [0.3, -0.8, 1.9], "observed": obs}}]
        else:
            recs = [{"name": name, "status": "unsupported", "detail": f"{e!r} {tb}"}]
    if graph:
        try:
            tape = qp.tape.QuantumScript(CIRCUITS[cname]([0.3, -0.8, 1.9]))
            ep = estimate_problems(tape, gsname, nww)
            recs.append({"name": f"{name}: per-operator graph resource estimate == emitted gate counts", "status": "violated" if ep else "discharged", "symbols": [], "nontrivial": False, "queries": 0,
                         "detail": "; ".join(ep[:2]) or "estimates match", **({"signature": f"estimate:{gsname}:{cname}", "replay": {"kind": "estimate", "circuit": cname, "gate_set": gsname, "graph": True, "nww": nww, "params": [0.3, -0.8, 1.9], "observed": "; ".join(ep[:2])}} if ep else {})})
        except Exception as e:  # noqa: BLE001
            recs.append({"name": f"{name}: per-operator graph resource estimate", "status": "unsupported", "detail": repr(e)[:200]})
    return recs


def run(ctx):
    ctx.level = "proof"
    items = []
    for c in CIRCUITS:
        for g in GATESETS:
            for graph in (False, True):
                if "3 controls).MultiControlledX" in c and not (graph and g in ("ROTATIONS_PLUS_CNOT", "{RX, RY, CNOT, Toffoli, PhaseShift, GlobalPhase}")):
                    continue
                for nww in ((0,) if not graph else ((1, 2) if "3 controls).MultiControlledX" in c else (0, 1) if "MultiControlledX" in c or ctx.tier == "thorough" else (0,))):
                    items.append((c, g, graph, nww))
    if ctx.only:
        items = [it for it in items if ctx.only in f"decompose({it[0]} -> {it[1]}, graph={'on' if it[2] else 'off'}"]
    ctx.shapes = len(items)
    from pennylane.decomposition import DecompositionGraph

    ctx.encode(qp.transforms.decompose, DecompositionGraph.solve)
    ctx.bound(parameters="all real gate angles (3 symbols)", circuits=list(CIRCUITS), gate_sets=list(GATESETS), graph=["disabled", "enabled"], work_wires="budgets 0 and 1",
              outside="Clifford+T approximation passes (gridsynth), templates beyond MultiControlledX, max_expansion / fixed_decomps / alt_decomps options, cost-weighted gate sets other than the built-in ones, device preprocessing")
    ctx.assume(*sx.SHIM_NOTES, "extra (work) wires are appended after the circuit wires; the result must act as U_in (x) |0..0><0..0| on the zero-ancilla subspace")
    ctx.rule = "obligations per (circuit, gate set, graph mode, work-wire budget, path): gate-set membership (structural), U_out == U_in and ancilla restoration (z3), estimate match (structural)"
    ctx.pmap(work, items, timeout_each=900)
