"""C05 Result caching never changes results (E1, partial: key canonicalisation).

The cache key is tape.hash.  Its one numeric step reduces the data of some rotation classes modulo a
period T before hashing.  The cache is sound only if T is a true period of the operator's matrix --
bare and under every wrapper (ctrl/adjoint/pow/prod), since a global phase of the base becomes a
relative phase under a control and is visible in qp.state() anyway.

1. (regenerated each run) find, by calling the real hash on concrete operators, every
   (class, parameter index, T in {2pi,4pi,8pi}) with hash(op(x)) == hash(op(x + T e_k)).
2. prove  M_w(theta + T e_k) == M_w(theta)  for all theta and each wrapper w  (z3).
3. a sat model is replayed as the property states it: qp.execute([t(theta), t(theta+T)], cache=True)
   vs cache=False on default.qubit."""
from __future__ import annotations

import math

import numpy as np
import pennylane as qp

from vf import symx as sx, obl, registry

PN = ["a", "b", "g"]
PERIODS = [2 * math.pi, 4 * math.pi, 8 * math.pi]


def wrappers(nw):
    """name -> (fn(op)->wrapped op, total wires)"""
    c1, c2 = nw, nw + 1
    return {
        "bare": (lambda op: op, nw),
        "ctrl1": (lambda op: qp.ctrl(op, control=[c1]), nw + 1),
        "ctrl2": (lambda op: qp.ctrl(op, control=[c1, c2]), nw + 2),
        "ctrl_cv0": (lambda op: qp.ctrl(op, control=[c1], control_values=[0]), nw + 1),
        "adjoint": (lambda op: qp.adjoint(op), nw),
        "adjoint_ctrl1": (lambda op: qp.adjoint(qp.ctrl(op, control=[c1])), nw + 1),
        "pow2": (lambda op: qp.pow(op, 2), nw),
        "pow3": (lambda op: qp.pow(op, 3), nw),
        "ctrl_prod": (lambda op: qp.ctrl(qp.prod(op, qp.Y(0)), control=[c1]), nw + 1),
    }


def keyed_periods():
    """[(instance key, param index, T)] for which the real hash identifies x and x+T"""
    out = []
    for inst in registry.instances():
        if not inst.nparams or inst.nwires > 2:
            continue
        for k in range(inst.nparams):
            hitT = None
            for T in PERIODS:
                same = True
                for x0 in (0.3, 1.7):
                    p = [0.41, 0.77, 1.3][:inst.nparams]
                    p[k] = x0
                    q = list(p)
                    q[k] = x0 + T
                    if hash(inst.build(p)) != hash(inst.build(q)):
                        same = False
                if same:
                    hitT = T
                    break
            if hitT is not None:
                out.append((inst.key, k, hitT))
    return out


def _tapes(key, wname, params, k, T):
    inst = registry.by_key()[key]
    wfn, tot = wrappers(inst.nwires)[wname]
    q = list(params)
    q[k] = q[k] + T
    tapes = []
    for p in (params, q):
        ops = [qp.Hadamard(w) for w in range(tot)] + [wfn(inst.build(p))]
        tapes.append(qp.tape.QuantumScript(ops, [qp.state(), qp.expval(qp.X(tot - 1)), qp.expval(qp.X(0))]))
    return tapes


def _replay(key, wname, params, k, T):
    dev = qp.device("default.qubit")
    tapes = _tapes(key, wname, params, k, T)
    same_hash = tapes[0].hash == tapes[1].hash
    r1 = qp.execute(tapes, dev, cache=True)
    r0 = qp.execute(_tapes(key, wname, params, k, T), dev, cache=False)
    d = 0.0
    for a, b in zip(r1, r0):
        for x, y in zip(a, b):
            d = max(d, float(np.max(np.abs(np.asarray(x) - np.asarray(y)))))
    dexp = max(float(np.max(np.abs(np.asarray(a[j]) - np.asarray(b[j])))) for a, b in zip(r1, r0) for j in (1, 2))
    return d > 1e-6, (f"qp.execute(cache=True) vs cache=False on {wname}({key}) with parameter {k} shifted by {T / math.pi:g}*pi at {list(map(float, params))}: "
                      f"max|diff|={d:.3g} (expvals {dexp:.3g}), tape hashes equal={same_hash}")


def replay(payload):
    if payload.get("kind") == "collision":
        pr = collision_problem(payload["a"], payload["b"])
        return bool(pr), pr or "no collision"
    return _replay_period(payload)


def _replay_period(payload):
    return _replay(payload["key"], payload["wrapper"], payload["params"], payload["k"], payload["T"])


def work(item):
    key, k, T, wname = item
    inst = registry.by_key()[key]
    names = PN[:inst.nparams]
    wfn, tot = wrappers(inst.nwires)[wname]
    wires = list(range(tot))
    name = f"{wname}({key}) param{k} period {T / math.pi:g}pi"

    def build(S):
        ps = [S.param(x) for x in names]
        qs = list(ps)
        qs[k] = ps[k] + T
        M1 = sx.arr(qp.matrix(wfn(inst.build(ps)), wire_order=wires))
        M2 = sx.arr(qp.matrix(wfn(inst.build(qs)), wire_order=wires))
        return M1, M2

    def consume(S, v, i):
        M1, M2 = v
        obl.validate(S, M1, lambda th: qp.matrix(wfn(inst.build([th[x] for x in names])), wire_order=wires), names=names, what=name)

        def rp(model):
            p = [model["params"].get(x, 0.0) for x in names]
            ok, obs = _replay(key, wname, p, k, T)
            return ok, {"key": key, "wrapper": wname, "params": p, "k": k, "T": T, "observed": obs}

        return [obl.prove(S, f"{name}: M(theta+T) == M(theta) (hash identifies them)", M2, M1, replay=rp,
                          signature=f"{inst.cls}:param{k}:T={T / math.pi:g}pi:{wname}")]

    return obl.run_instance(name, build, consume)


# ------------------------------------------------------------------ structural collisions
# Circuits that differ in STRUCTURE (operator class, wires, matrix-valued data and its conjugate, wrappers, observable shape and
# term multiplicities, measurement kind and wire order, shots).  Two members with the same hash are served from the same cache
# entry, so they must give the same results: for every pair with equal hash the results of default.qubit are compared.
def _U(t):
    return np.array([[np.exp(-1j * t), 0], [0, np.exp(1j * t)]])


def _V(t):
    c, s_ = np.cos(t), np.sin(t)
    return np.array([[c, -1j * s_], [-1j * s_, c]]) @ np.diag([1, np.exp(0.7j)])


def family():
    X, Y, Z, H = qp.PauliX, qp.PauliY, qp.PauliZ, qp.Hadamard
    base = lambda: [qp.RY(0.4, 0), qp.RX(0.9, 1), qp.CNOT([0, 1])]
    ops_variants = {
        "base": lambda: base(),
        "RX on wire 0": lambda: base() + [qp.RX(0.37, 0)],
        "RX on wire 1": lambda: base() + [qp.RX(0.37, 1)],
        "RY on wire 0": lambda: base() + [qp.RY(0.37, 0)],
        "QubitUnitary(U)": lambda: base() + [qp.QubitUnitary(_U(0.37), 0)],
        "QubitUnitary(conj U)": lambda: base() + [qp.QubitUnitary(np.conj(_U(0.37)), 0)],
        "QubitUnitary(V)": lambda: base() + [qp.QubitUnitary(_V(0.37), 1)],
        "QubitUnitary(conj V)": lambda: base() + [qp.QubitUnitary(np.conj(_V(0.37)), 1)],
        "QubitUnitary(V^T)": lambda: base() + [qp.QubitUnitary(_V(0.37).T, 1)],
        "DiagonalQubitUnitary(d)": lambda: base() + [qp.DiagonalQubitUnitary(np.array([np.exp(0.3j), np.exp(-0.8j)]), 0)],
        "DiagonalQubitUnitary(conj d)": lambda: base() + [qp.DiagonalQubitUnitary(np.conj(np.array([np.exp(0.3j), np.exp(-0.8j)])), 0)],
        "S": lambda: base() + [qp.S(0)],
        "adjoint(S)": lambda: base() + [qp.adjoint(qp.S(0))],
        "pow(SX, 2)": lambda: base() + [qp.pow(qp.SX(0), 2)],
        "pow(SX, 3)": lambda: base() + [qp.pow(qp.SX(0), 3)],
        "ctrl(RZ) cv=1": lambda: base() + [qp.ctrl(qp.RZ(0.37, 1), control=0)],
        "ctrl(RZ) cv=0": lambda: base() + [qp.ctrl(qp.RZ(0.37, 1), control=0, control_values=[0])],
        "CRZ": lambda: base() + [qp.CRZ(0.37, [0, 1])],
        "CRZ reversed wires": lambda: base() + [qp.CRZ(0.37, [1, 0])],
        "StatePrep |+i>": lambda: [qp.StatePrep(np.array([1, 1j]) / np.sqrt(2), 0)] + base(),
        "StatePrep |-i>": lambda: [qp.StatePrep(np.array([1, -1j]) / np.sqrt(2), 0)] + base(),
        "PauliRot XY": lambda: base() + [qp.PauliRot(0.37, "XY", [0, 1])],
        "PauliRot YX": lambda: base() + [qp.PauliRot(0.37, "YX", [0, 1])],
    }
    meas_variants = {
        "expval Z0": lambda: [qp.expval(Z(0))],
        "expval X0+X0+Z1": lambda: [qp.expval(qp.sum(X(0), X(0), Z(1)))],
        "expval X0+Z1+Z1": lambda: [qp.expval(qp.sum(X(0), Z(1), Z(1)))],
        "expval X0+Z1": lambda: [qp.expval(qp.sum(X(0), Z(1)))],
        "expval Z1+X0": lambda: [qp.expval(qp.sum(Z(1), X(0)))],
        "expval 2*X0": lambda: [qp.expval(qp.s_prod(2.0, X(0)))],
        "expval X0": lambda: [qp.expval(X(0))],
        "var X0": lambda: [qp.var(X(0))],
        "expval X0@Y1": lambda: [qp.expval(X(0) @ Y(1))],
        "expval Y1@X0": lambda: [qp.expval(Y(1) @ X(0))],
        "expval Y0@X1": lambda: [qp.expval(Y(0) @ X(1))],
        "probs [0,1]": lambda: [qp.probs(wires=[0, 1])],
        "probs [1,0]": lambda: [qp.probs(wires=[1, 0])],
        "expval Hermitian(A)": lambda: [qp.expval(qp.Hermitian(np.array([[1.0, 0.5 - 0.5j], [0.5 + 0.5j, -2.0]]), 0))],
        "expval Hermitian(conj A)": lambda: [qp.expval(qp.Hermitian(np.conj(np.array([[1.0, 0.5 - 0.5j], [0.5 + 0.5j, -2.0]])), 0))],
        "expval Ham(0.5 X0, 1.5 Z1)": lambda: [qp.expval(qp.Hamiltonian([0.5, 1.5], [X(0), Z(1)]))],
        "expval Ham(1.5 X0, 0.5 Z1)": lambda: [qp.expval(qp.Hamiltonian([1.5, 0.5], [X(0), Z(1)]))],
        "expval Z0, expval X1": lambda: [qp.expval(Z(0)), qp.expval(X(1))],
        "expval X1, expval Z0": lambda: [qp.expval(X(1)), qp.expval(Z(0))],
    }
    fam = {}
    for ok, of in ops_variants.items():
        fam[f"ops[{ok}] + expval Z0@Z1"] = (of, lambda: [qp.expval(Z(0) @ Z(1)), qp.probs(wires=[0, 1])])
    for mk, mf in meas_variants.items():
        fam[f"base + [{mk}]"] = (ops_variants["RX on wire 0"], mf)
    return fam


def _results(of, mf):
    tape = qp.tape.QuantumScript(of(), mf())
    res = qp.device("default.qubit", wires=[0, 1]).execute(tape)
    res = res if isinstance(res, tuple) else (res,)
    return tape, [np.asarray(r, dtype=complex).ravel() for r in res]


def collision_problem(a, b):
    fam = family()
    ta, ra = _results(*fam[a])
    tb, rb = _results(*fam[b])
    if ta.hash != tb.hash:
        return None
    same = len(ra) == len(rb) and all(x.shape == y.shape and np.max(np.abs(x - y)) < 1e-9 for x, y in zip(ra, rb))
    if same:
        return None
    ex = qp.execute([ta, tb], qp.device("default.qubit", wires=[0, 1]), cache=True)
    def fmt(r):
        r = r if isinstance(r, (tuple, list)) else (r,)
        return [np.round(np.asarray(x, dtype=complex).ravel(), 4).tolist() for x in r]

    return f"circuits '{a}' and '{b}' have the same hash but different results; qp.execute(cache=True) returned {[fmt(e) for e in ex]}, uncached results {fmt(ra)} vs {fmt(rb)}"


def collision_work(group):
    """one obligation per first circuit: paired with every other family member"""
    a = group
    fam = list(family())
    probs = []
    for b in fam:
        if b == a:
            continue
        pr = collision_problem(a, b)
        if pr:
            probs.append((b, pr))
    rec = {"name": f"[structural] '{a}' shares its hash only with circuits that give the same results ({len(fam) - 1} partners)", "status": "violated" if probs else "discharged", "symbols": [], "nontrivial": False, "queries": 0,
           "detail": probs[0][1] if probs else "no hash collision with a differently behaving circuit"}
    if probs:
        rec.update(signature=f"collision:{a}", replay={"kind": "collision", "a": a, "b": probs[0][0], "observed": probs[0][1]})
    return [rec]


def _dispatch(it):
    return collision_work(it[1]) if it[0] == "collision" else work(it)


def run(ctx):
    ctx.level = "proof"
    kp = keyed_periods()
    ctx.extra["keyed_periods"] = [(k, i, f"{T / math.pi:g}pi") for k, i, T in kp]
    items = []
    for key, k, T in kp:
        inst = registry.by_key()[key]
        for wname in wrappers(inst.nwires):
            if ctx.tier == "quick" and wname in ("pow3", "adjoint_ctrl1") and inst.nparams > 1:
                continue
            items.append((key, k, T, wname))
    items += [("collision", a) for a in family()]
    if ctx.only:
        items = [it for it in items if ctx.only in (f"{it[3]}({it[0]})" if it[0] != "collision" else f"collision {it[1]}")]
    ctx.shapes = len(items)
    import pennylane.core.operator.base as B
    import pennylane.core.operator.operator2 as O2

    ctx.encode(B._process_data, O2._canonicalize_dynamic, qp.matrix, qp.ctrl, qp.adjoint, qp.pow, qp.prod)
    ctx.bound(parameters="all real values", wrappers=list(wrappers(1)), periods_probed="2pi, 4pi, 8pi",
              structural="a family of 42 structurally different circuits (operator class, wires, matrix data and its conjugate / transpose, wrappers, observable term multiplicities and order, measurement kind and wire order): every pair with equal hash must give equal results",
              outside="trainable indices, shots, LRU behaviour, the round(.,10) slab, fractional powers, str() elision of arrays with more than 1000 elements")
    ctx.assume(*sx.SHIM_NOTES, "the set of (class, parameter, period) keyed by the hash is found by calling the real hash at 2 concrete points per period")
    ctx.rule = "one obligation per (keyed class, parameter index, period, wrapper); all contain symbolic parameters"
    if not items:
        ctx.add({"name": "no operator class is keyed modulo a period by the hash", "status": "discharged", "symbols": [], "nontrivial": False})
    ctx.pmap(_dispatch, items, timeout_each=300)
