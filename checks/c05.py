"""C05 Result caching never changes results (E1, partial: key canonicalisation).

The cache key is tape.hash.  Its one numeric step reduces the data of some rotation classes modulo a
period T before hashing.  The cache is sound only if T is a true period of the operator's matrix --
bare and under every wrapper (ctrl/adjoint/pow/prod), since a global phase of the base becomes a
relative phase under a control and is visible in qp.state() anyway.

1. (regenerated each run) find, by calling the real hash on concrete operators, every
   (class, parameter index, T in {2pi,4pi,8pi}) with hash(op(x)) == hash(op(x + T e_k)).
2. prove  M_w(theta + T e_k) == M_w(theta)  for all theta and each wrapper w  (z3).
3. a sat model is replayed as the property states it: qp.execute([t(theta), t(theta+T)], cache=True)
   vs cache=False on default.qubit."""
from __future__ import annotations

import math

import numpy as np
import pennylane as qp

from vf import symx as sx, obl, registry

PN = ["a", "b", "g"]
PERIODS = [2 * math.pi, 4 * math.pi, 8 * math.pi]


def wrappers(nw):
    """name -> (fn(op)->wrapped op, total wires)"""
    c1, c2 = nw, nw + 1
    return {
        "bare": (lambda op: op, nw),
        "ctrl1": (lambda op: qp.ctrl(op, control=[c1]), nw + 1),
        "ctrl2": (lambda op: qp.ctrl(op, control=[c1, c2]), nw + 2),
        "ctrl_cv0": (lambda op: qp.ctrl(op, control=[c1], control_values=[0]), nw + 1),
        "adjoint": (lambda op: qp.adjoint(op), nw),
        "adjoint_ctrl1": (lambda op: qp.adjoint(qp.ctrl(op, control=[c1])), nw + 1),
        "pow2": (lambda op: qp.pow(op, 2), nw),
        "pow3": (lambda op: qp.pow(op, 3), nw),
        "ctrl_prod": (lambda op: qp.ctrl(qp.prod(op, qp.Y(0)), control=[c1]), nw + 1),
    }


def keyed_periods():
    """[(instance key, param index, T)] for which the real hash identifies x and x+T"""
    out = []
    for inst in registry.instances():
        if not inst.nparams or inst.nwires > 2:
            continue
        for k in range(inst.nparams):
            hitT = None
            for T in PERIODS:
                same = True
                for x0 in (0.3, 1.7):
                    p = [0.41, 0.77, 1.3][:inst.nparams]
                    p[k] = x0
                    q = list(p)
                    q[k] = x0 + T
                    if hash(inst.build(p)) != hash(inst.build(q)):
                        same = False
                if same:
                    hitT = T
                    break
            if hitT is not None:
                out.append((inst.key, k, hitT))
    return out


def _tapes(key, wname, params, k, T):
    inst = registry.by_key()[key]
    wfn, tot = wrappers(inst.nwires)[wname]
    q = list(params)
    q[k] = q[k] + T
    tapes = []
    for p in (params, q):
        ops = [qp.Hadamard(w) for w in range(tot)] + [wfn(inst.build(p))]
        tapes.append(qp.tape.QuantumScript(ops, [qp.state(), qp.expval(qp.X(tot - 1)), qp.expval(qp.X(0))]))
    return tapes


def _replay(key, wname, params, k, T):
    dev = qp.device("default.qubit")
    tapes = _tapes(key, wname, params, k, T)
    same_hash = tapes[0].hash == tapes[1].hash
    r1 = qp.execute(tapes, dev, cache=True)
    r0 = qp.execute(_tapes(key, wname, params, k, T), dev, cache=False)
    d = 0.0
    for a, b in zip(r1, r0):
        for x, y in zip(a, b):
            d = max(d, float(np.max(np.abs(np.asarray(x) - np.asarray(y)))))
    dexp = max(float(np.max(np.abs(np.asarray(a[j]) - np.asarray(b[j])))) for a, b in zip(r1, r0) for j in (1, 2))
    return d > 1e-6, (f"qp.execute(cache=True) vs cache=False on {wname}({key}) with parameter {k} shifted by {T / math.pi:g}*pi at {list(map(float, params))}: "
                      f"max|diff|={d:.3g} (expvals {dexp:.3g}), tape hashes equal={same_hash}")


def replay(payload):
    return _replay(payload["key"], payload["wrapper"], payload["params"], payload["k"], payload["T"])


def work(item):
    key, k, T, wname = item
    inst = registry.by_key()[key]
    names = PN[:inst.nparams]
    wfn, tot = wrappers(inst.nwires)[wname]
    wires = list(range(tot))
    name = f"{wname}({key}) param{k} period {T / math.pi:g}pi"

    def build(S):
        ps = [S.param(x) for x in names]
        qs = list(ps)
        qs[k] = ps[k] + T
        M1 = sx.arr(qp.matrix(wfn(inst.build(ps)), wire_order=wires))
        M2 = sx.arr(qp.matrix(wfn(inst.build(qs)), wire_order=wires))
        return M1, M2

    def consume(S, v, i):
        M1, M2 = v
        obl.validate(S, M1, lambda th: qp.matrix(wfn(inst.build([th[x] for x in names])), wire_order=wires), names=names, what=name)

        def rp(model):
            p = [model["params"].get(x, 0.0) for x in names]
            ok, obs = _replay(key, wname, p, k, T)
            return ok, {"key": key, "wrapper": wname, "params": p, "k": k, "T": T, "observed": obs}

        return [obl.prove(S, f"{name}: M(theta+T) == M(theta) (hash identifies them)", M2, M1, replay=rp,
                          signature=f"{inst.cls}:param{k}:T={T / math.pi:g}pi:{wname}")]

    return obl.run_instance(name, build, consume)


def run(ctx):
    ctx.level = "proof"
    kp = keyed_periods()
    ctx.extra["keyed_periods"] = [(k, i, f"{T / math.pi:g}pi") for k, i, T in kp]
    items = []
    for key, k, T in kp:
        inst = registry.by_key()[key]
        for wname in wrappers(inst.nwires):
            if ctx.tier == "quick" and wname in ("pow3", "adjoint_ctrl1") and inst.nparams > 1:
                continue
            items.append((key, k, T, wname))
    if ctx.only:
        items = [it for it in items if ctx.only in f"{it[3]}({it[0]})"]
    ctx.shapes = len(items)
    import pennylane.core.operator.base as B
    import pennylane.core.operator.operator2 as O2

    ctx.encode(B._process_data, O2._canonicalize_dynamic, qp.matrix, qp.ctrl, qp.adjoint, qp.pow, qp.prod)
    ctx.bound(parameters="all real values", wrappers=list(wrappers(1)), periods_probed="2pi, 4pi, 8pi",
              outside="structural hash separation (wires, hyper-parameters, trainable indices, shots), LRU behaviour, the round(.,10) slab, fractional powers")
    ctx.assume(*sx.SHIM_NOTES, "the set of (class, parameter, period) keyed by the hash is found by calling the real hash at 2 concrete points per period")
    ctx.rule = "one obligation per (keyed class, parameter index, period, wrapper); all contain symbolic parameters"
    if not items:
        ctx.add({"name": "no operator class is keyed modulo a period by the hash", "status": "discharged", "symbols": [], "nontrivial": False})
    ctx.pmap(work, items, timeout_each=300)
