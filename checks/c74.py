"""C74 MBQC conversion and Pauli tracking preserve the circuit (E1 with SYMBOLIC measurement outcomes, input states and angles).

(A) Conversion.  Circuits over the MBQC gate set (H, S, RZ, RotXZX, CNOT, Paulis; single gates, two-gate sequences, sequences long
    enough to recycle released wires) go through the REAL convert_to_mbqc_formalism (diagonalize_mcms=True, and False followed by
    the REAL diagonalize_mcms transform).  The resulting dynamic circuit (graph-state preparation, Hadamard / S^dagger basis
    changes, mid-circuit measurements with reset, classically controlled phase shifts and byproduct corrections) is run by the
    active-set interpreter vf.mbqc with EVERY measurement outcome a solver bit, the input state arbitrary complex amplitudes and
    the angles symbolic.  z3 proves for all outcomes, inputs and angles:
      * the output wires carry U|psi> up to a scalar (cross-multiplied components), every other wire is back in |0>,
      * every outcome pattern has weight 2^-k (the scalar never vanishes),
    i.e. the converted circuit implements the original on the logical wires for every measurement outcome.
(B) Pauli tracker.  The online byproduct corrections AND the circuit's own Pauli gates are removed from the converted circuit (Pauli-frame
    semantics: the tracker's record absorbs both) and replaced by the frame the REAL offline tracker computes (_parse_mid_measurements +
    _get_xz_record on the symbolic outcome bits, which includes commute_clifford_op for every Clifford gate and the merge of the
    circuit's Pauli gates): the same proportionality is proved, so the recorded frame (x, z) is exactly what separates the
    uncorrected run from U|psi>, for every outcome.  commute_clifford_op is
    additionally compared with matrix conjugation C P C^dagger = P' (up to phase) for every Pauli frame of H, S, CNOT.
"""
from __future__ import annotations

import importlib
import itertools

import numpy as np
import pennylane as qp
from pennylane.ftqc import convert_to_mbqc_formalism, diagonalize_mcms, RotXZX

from vf import symx as sx, obl, mbqc, dynsim

PT = importlib.import_module("pennylane.ftqc.pauli_tracker")
PN = ["a", "b", "g"]

CIRCUITS = {
    "H": lambda p: [qp.H(0)], "S": lambda p: [qp.S(0)], "RZ(a)": lambda p: [qp.RZ(p[0], 0)], "RotXZX(a,b,g)": lambda p: [RotXZX(p[0], p[1], p[2], 0)],
    "X.H.Z": lambda p: [qp.X(0), qp.H(0), qp.Z(0)], "X.S": lambda p: [qp.X(0), qp.S(0)], "H.Y.S": lambda p: [qp.H(0), qp.Y(0), qp.S(0)],
    "RZ(a).H": lambda p: [qp.RZ(p[0], 0), qp.H(0)], "H.S": lambda p: [qp.H(0), qp.S(0)], "S.Y.RZ(a)": lambda p: [qp.S(0), qp.Y(0), qp.RZ(p[0], 0)],
    "CNOT": lambda p: [qp.CNOT([0, 1])], "CNOT(1,0)": lambda p: [qp.CNOT([1, 0])],
    "H(1).S(0) (wires appear as 1, 0)": lambda p: [qp.H(1), qp.S(0)],
    "RZ(a,1).H(0).X(1).S(1) (wires appear as 1, 0)": lambda p: [qp.RZ(p[0], 1), qp.H(0), qp.X(1), qp.S(1)],
    "RZ(a).H.S.H.S.H (wire recycling)": lambda p: [qp.RZ(p[0], 0), qp.H(0), qp.S(0), qp.H(0), qp.S(0), qp.H(0)],
    "RZ(a,1).CNOT(0,1) (wire recycling)": lambda p: [qp.RZ(p[0], 1), qp.CNOT([0, 1])],
}
# circuits for the tracker: only the first gate of a wire may be non-Clifford (documented restriction of the tracker)
TRACKER = ["H", "S", "RZ(a)", "X.H.Z", "X.S", "H.Y.S", "RZ(a).H", "H.S", "H(1).S(0) (wires appear as 1, 0)", "RZ(a,1).H(0).X(1).S(1) (wires appear as 1, 0)", "CNOT", "CNOT(1,0)"]
# tried and dropped (stated as outside): S.Y.RotXZX(a,b,g) (the weight obligation after two Cliffords stays undecided at 180 s) and H(1).CNOT(0,1)
# (17 symbolic outcomes on two symbolic input qubits: more than 40 minutes and 12 GB per item)
HEAVY = {"CNOT", "CNOT(1,0)", "S.Y.RZ(a)", "RZ(a,1).CNOT(0,1) (wire recycling)", "RZ(a,1).H(0).X(1).S(1) (wires appear as 1, 0)"}  # minutes per item: thorough tier only
# number of leading measurements that are symbolic; the remaining ones take the listed constant patterns
SYMBOLIC_PREFIX = {"RZ(a).H.S.H.S.H (wire recycling)": 4, "RZ(a,1).CNOT(0,1) (wire recycling)": 4}


def converted(cname, p, diag):
    ops = CIRCUITS[cname](p)
    tape = qp.tape.QuantumScript(ops, [qp.sample(wires=sorted(qp.tape.QuantumScript(ops).wires))], shots=1)
    (t,), _ = convert_to_mbqc_formalism(tape, diagonalize_mcms=diag)
    if not diag:
        (t,), _ = diagonalize_mcms(t)
    return tape, t


def logical_unitary(tape, wires):
    U = np.eye(2 ** len(wires), dtype=object)
    for op in tape.operations:
        M = qp.matrix(op, wire_order=list(op.wires))
        M = sx.arr(M) if sx.is_symbolic(M) else np.asarray(M, dtype=object)
        U = np.dot(sx.embed(M, list(op.wires), wires), U)
    return U


def run_pattern(cname, p, diag, bit_of, amps, tracker=False, tail=0):
    """-> (output amplitudes on the logical wires, expected amplitudes, amplitudes that must vanish, number of measurements, peak width)"""
    tape, t = converted(cname, p, diag)
    wires = sorted(tape.wires)
    ops = list(t.operations)
    mcms = [o for o in ops if dynsim.is_mcm(o)]
    if tracker:
        # Pauli-frame semantics of the offline tracker: neither the byproduct corrections nor the circuit's own Pauli gates are executed;
        # _get_xz_record merges both into the record (its "branch for Paulis")
        ops = [o for o in ops if not (dynsim.is_cond(o) and o.base.name in ("PauliX", "PauliZ")) and o.name not in ("PauliX", "PauliY", "PauliZ", "Identity")]
    sim = mbqc.ActiveSim()
    # convert_to_mbqc_formalism places logical wire tape.wires[i] on physical qubit i (QubitMgr hands out 0, 1, ... in tape order)
    sim.load([list(tape.wires).index(w) for w in wires], amps)
    outcome = {}

    def oc(op):
        i = mcms.index(op)
        outcome[op] = bit_of(i)
        return outcome[op]

    asg = sim.run(ops, oc)
    out_wires = list(t.measurements[0].wires)
    if tracker:
        bits = [asg[m] for m in mcms]
        by = PT._parse_mid_measurements(tape, bits)
        xr, zr = PT._get_xz_record(tape, by)
        for lw, ow in zip(wires, out_wires):
            for rec, gate in ((zr[lw], qp.PauliZ), (xr[lw], qp.PauliX)):
                aff = affine_of(rec, bits)
                if aff is None:  # not an affine function of the outcomes: apply with the polynomial condition itself
                    sim.apply_op(gate(ow), cond=rec)
                    continue
                c0, T = aff
                if c0:
                    sim.apply_op(gate(ow))
                for i in T:
                    b = bits[i]
                    if isinstance(b, sx.SymC):
                        sim.apply_op(gate(ow), cond=b)
                    elif b:
                        sim.apply_op(gate(ow))
    psi, rest = sim.state_on(out_wires)
    k = len(out_wires)
    flat = psi.reshape((2 ** k,) + ((-1,) if rest else ()))
    main = flat[:, 0] if rest else flat
    leak = list(flat[:, 1:].ravel()) if rest else []
    U = logical_unitary(tape, wires)
    exp = list(np.dot(U, np.array(amps, dtype=object)))
    return list(main), exp, leak, len(mcms), sim.peak


def affine_of(rec, bits):
    """(c0, [indices]) if the record equals c0 xor (xor of bits[i]); the identity is checked syntactically on the multilinear normal
    form of the polynomials (which is unique), so it holds for all outcomes"""
    if not isinstance(rec, sx.SymC):
        try:
            return int(rec) & 1, []
        except Exception:  # noqa: BLE001
            return None
    S = rec.S
    names = {}
    for i, b in enumerate(bits):
        if isinstance(b, sx.SymC) and len(b.p) == 1:
            (mono, coef), = b.p.items()
            if len(mono) == 1 and mono[0][1] == 1 and coef == 1:
                names[mono[0][0]] = i
    c0 = 0
    T = []
    for mono, coef in rec.p.items():
        if mono == () and coef == 1:
            c0 = 1
        elif len(mono) == 1 and mono[0][1] == 1 and mono[0][0] in names:
            T.append(names[mono[0][0]])
    cand = S.lift(c0)
    for i in T:
        cand = cand ^ bits[i]
    if (cand - rec).p:
        return None
    return c0, T


class _NumS:
    """plain numbers in place of solver terms (replay)"""


def _num(cname, diag, tracker, bits, params, amps):
    def bit_of(i):
        return int(bits[i]) if i < len(bits) else 0

    PT_math, PT_all = PT.math, getattr(PT, "all", None)
    _shim_tracker(True)
    try:
        main, exp, leak, k, peak = run_pattern(cname, list(params), diag, bit_of, [complex(a) for a in amps], tracker=tracker)
    finally:
        _shim_tracker(False)
    main = np.asarray(main, dtype=complex)
    exp = np.asarray(exp, dtype=complex)
    i0 = int(np.argmax(np.abs(exp)))
    lam = main[i0] / exp[i0]
    dev = float(np.max(np.abs(main - lam * exp)))
    lk = float(max((abs(complex(x)) for x in leak), default=0.0))
    w = float(np.sum(np.abs(main) ** 2) * 2 ** k - np.sum(np.abs(np.asarray(amps, dtype=complex)) ** 2))
    bad = dev > 1e-8 or lk > 1e-8 or abs(w) > 1e-8
    return bad, (f"{'tracker-corrected' if tracker else 'converted'} {cname} (diagonalize_mcms={diag}) with outcomes {list(bits)}, angles {list(params)}: output deviates from a multiple of U|psi> by {dev:.3g}, "
                 f"amplitude left on other wires {lk:.3g}, weight*2^k - |psi|^2 = {w:.3g}")


def replay(p):
    if p.get("kind") == "commute":
        pr = commute_problem()
        return bool(pr), pr or "commutation rules agree with matrix conjugation"
    amps = [complex(a[0], a[1]) if isinstance(a, (list, tuple)) else complex(a) for a in p["amps"]]
    return _num(p["circuit"], p["diag"], p["tracker"], p["bits"], p["params"], amps)


class _TrackerMath:
    def __getattr__(self, k):
        return getattr(qp.math, k)

    @staticmethod
    def zeros(n, dtype=None, **k):
        return np.zeros(n, dtype=object)

    @staticmethod
    def bitwise_xor(a, b):
        if isinstance(a, (tuple, list)):
            return tuple(x ^ y for x, y in zip(a, b))
        return a ^ b


def _shim_tracker(on):
    if on:
        PT.math = _TrackerMath()
        PT.all = lambda it: True  # the inputs are bits by construction; the validation `x in [0, 1]` would fork on every solver bit
    else:
        PT.math = qp.math
        PT.__dict__.pop("all", None)


def work(item):
    cname, diag, tracker, pattern = item
    name = f"{'Pauli tracker on' if tracker else 'MBQC conversion of'} {cname} (diagonalize_mcms={diag}" + (f", later outcomes all {pattern}" if pattern is not None else "") + ")"
    sx.install_shims()
    nprefix = SYMBOLIC_PREFIX.get(cname)

    def b(S):
        ps = [S.param(x) for x in PN]
        nw = len(qp.tape.QuantumScript(CIRCUITS[cname]([0.1, 0.2, 0.3])).wires)
        amps = [S.cplx(f"x{i}") for i in range(2 ** nw)]

        def bit_of(i):
            if nprefix is not None and i >= nprefix:
                return pattern
            return S.bit(f"m{i}")

        _shim_tracker(True)
        try:
            main, exp, leak, k, peak = run_pattern(cname, ps, diag, bit_of, amps, tracker=tracker)
        finally:
            _shim_tracker(False)
        return main, exp, leak, k, peak, amps

    def consume(S, v, i):
        main, exp, leak, k, peak, amps = v

        def rp(model):
            vals = model.get("vars", {})
            bits = [int(round(float(vals.get(f"m{j}", 0)))) if (nprefix is None or j < nprefix) else pattern for j in range(k)]
            params = [model["params"].get(x, 0.0) for x in PN]
            am = [complex(vals.get(f"x{j}_re", 0.3 + 0.1 * j), vals.get(f"x{j}_im", -0.2 + 0.05 * j)) for j in range(len(amps))]
            ok, obs = _num(cname, diag, tracker, bits, params, am)
            return ok, {"circuit": cname, "diag": diag, "tracker": tracker, "bits": bits, "params": params, "amps": [[z.real, z.imag] for z in am], "observed": obs}

        sig = f"{'tracker' if tracker else 'convert'}:{cname}:diag={diag}"
        # outcome bits decided by this path's forks (adaptive measurement angles test m == 0) are substituted before the products are formed
        main, fixed = sx.substitute_fixed_bits(S, list(main))
        leak, _ = sx.substitute_fixed_bits(S, list(leak))
        rp0 = rp

        def rp(model):  # noqa: F811
            model = dict(model)
            model["vars"] = {**model.get("vars", {}), **{k_: float(v_) for k_, v_ in fixed.items()}}
            return rp0(model)

        n = len(main)
        lhs = [main[i_] * exp[j_] for i_ in range(n) for j_ in range(i_ + 1, n)]
        rhs = [main[j_] * exp[i_] for i_ in range(n) for j_ in range(i_ + 1, n)]
        out = [obl.prove(S, f"{name}: output proportional to U|psi> for all {k} outcomes (peak width {peak} qubits)", lhs, rhs, replay=rp, signature=sig, timeout=180, tol=1e-9 if "Rot" in cname else None)]
        if leak:
            out.append(obl.prove(S, f"{name}: all other wires back in |0>", leak, [0] * len(leak), replay=rp, signature=sig, timeout=120))
        big = max((len(x.p) for x in main if isinstance(x, sx.SymC)), default=0) > 1500
        if not big:
            n2 = sum((x * (x.conjugate() if isinstance(x, sx.SymC) else np.conj(x)) for x in main), 0)
            n0 = sum((x * x.conjugate() for x in amps), 0)
            out.append(obl.prove(S, f"{name}: every outcome pattern has weight 2^-{k}", [n2 * (2 ** k)], [n0], replay=rp, signature=sig + ":weight", timeout=180, tol=1e-9 if "Rot" in cname else None))
        else:
            # large outcome polynomials: with main == lambda(m) * U x (proved above), lambda(m) * U[i0, j0] is the coefficient of the input
            # amplitude x_j0 in main[i0]; the weight claim becomes |lambda(m)|^2 * 2^k == 1
            t0 = qp.tape.QuantumScript(CIRCUITS[cname]([0.1, 0.2, 0.3]))
            Un = np.asarray(qp.matrix(t0, wire_order=sorted(t0.wires)), dtype=complex)
            i0, j0 = next((i_, j_) for i_ in range(n) for j_ in range(n) if abs(Un[i_, j_]) > 1e-9)
            idx = S.V.index[f"x{j0}_re"]
            lam = {}
            for mono, coef in main[i0].p.items():
                if (idx, 1) in mono:
                    lam[tuple(f for f in mono if f != (idx, 1))] = coef
            lam = sx.SymC(S, lam) * complex(1 / Un[i0, j0])
            w = lam * lam.conjugate()
            out.append(obl.prove(S, f"{name}: every outcome pattern has weight 2^-{k} (|lambda(m)|^2, lambda read off the coefficient of x{j0} in output {i0})", [w * (2 ** k)], [1], replay=rp, signature=sig + ":weight", timeout=180, tol=1e-9))
        return out

    def fix_replay_payload(recs):
        for r in recs:
            if isinstance(r.get("replay"), dict) and "amps" in r["replay"]:
                r["replay"]["amps"] = [complex(a[0], a[1]) if isinstance(a, (list, tuple)) else a for a in r["replay"]["amps"]]
                r["replay"]["amps"] = [[z.real, z.imag] for z in r["replay"]["amps"]]
        return recs

    try:
        return fix_replay_payload(obl.run_instance(name, b, consume, max_paths=32))
    except (TypeError, AttributeError, IndexError, KeyError, ValueError, NotImplementedError) as e:
        import traceback

        tb = traceback.format_exc(limit=8)[-800:]
        try:
            ok, obs = _num(cname, diag, tracker, [1, 0, 1, 1] + [0] * 40, [0.3, -0.8, 1.9], [0.3 + 0.1j, -0.2 + 0.5j, 0.4, 0.1j][: 2 ** len(qp.tape.QuantumScript(CIRCUITS[cname]([0.1, 0.2, 0.3])).wires)])
        except Exception as e2:  # noqa: BLE001
            ok, obs = True, f"raised {e2!r} on plain numbers"
        if ok:
            return [{"name": name, "status": "violated", "symbols": ["outcomes"], "nontrivial": True, "queries": 0, "signature": f"{'tracker' if tracker else 'convert'}:{cname}:diag={diag}", "detail": obs,
                     "replay": {"circuit": cname, "diag": diag, "tracker": tracker, "bits": [1, 0, 1, 1] + [0] * 40, "params": [0.3, -0.8, 1.9], "amps": [[0.3, 0.1], [-0.2, 0.5], [0.4, 0.0], [0.0, 0.1]], "observed": obs}}]
        return [{"name": name, "status": "unsupported", "detail": f"{e!r} {tb}"}]


def commute_problem():
    """commute_clifford_op against matrix conjugation: new_xz * C == C * xz up to a phase, for every frame"""
    P = {(0, 0): np.eye(2), (1, 0): np.array([[0, 1], [1, 0]]), (1, 1): np.array([[0, -1j], [1j, 0]]), (0, 1): np.diag([1, -1])}
    for gate in (qp.H(0), qp.S(0), qp.CNOT([0, 1])):
        n = len(gate.wires)
        C = np.asarray(qp.matrix(gate), dtype=complex)
        for xz in itertools.product([(0, 0), (1, 0), (1, 1), (0, 1)], repeat=n):
            new = PT.commute_clifford_op(gate, list(xz))
            A = P[tuple(xz[0])]
            B = P[tuple(int(v) for v in new[0])]
            for q in range(1, n):
                A = np.kron(A, P[tuple(xz[q])])
                B = np.kron(B, P[tuple(int(v) for v in new[q])])
            L, R = B @ C, C @ A
            i = np.unravel_index(np.argmax(np.abs(R)), R.shape)
            if np.max(np.abs(L - (L[i] / R[i]) * R)) > 1e-12:
                return f"commute_clifford_op({gate.name}, {list(xz)}) = {new}: new_xz * C is not a multiple of C * xz"
    return None


def commute_work(_):
    pr = commute_problem()
    rec = {"name": "commute_clifford_op(H / S / CNOT, every Pauli frame) == matrix conjugation up to a phase", "status": "violated" if pr else "discharged", "symbols": [], "nontrivial": False, "queries": 0, "detail": pr or "4 + 4 + 16 frames agree"}
    if pr:
        rec.update(signature="commute", replay={"kind": "commute", "observed": pr})
    return [rec]


def _dispatch(it):
    import os
    import time

    t0 = time.time()
    out = commute_work(it) if it[0] == "commute" else work(it)
    if os.environ.get("VERIF_TIMING"):
        with open(os.environ["VERIF_TIMING"], "a") as f:
            f.write(f"{time.time() - t0:8.1f}s {it} {[r['status'] for r in out]}\n")
    return out


def run(ctx):
    ctx.level = "proof"
    items = [("commute", None, None, None)]
    for c in CIRCUITS:
        if ctx.tier == "quick" and c in HEAVY:
            continue
        for diag in (True, False):
            pats = [None] if c not in SYMBOLIC_PREFIX else [0, 1]
            for pat in pats:
                items.append((c, diag, False, pat))
    for c in TRACKER:
        if ctx.tier == "quick" and c in HEAVY:
            continue
        for diag in ((True,) if ctx.tier == "quick" else (True, False)):
            items.append((c, diag, True, None))
    if ctx.only:
        items = [it for it in items if ctx.only in str(it)]
    ctx.shapes = len(items)
    ctx.encode(convert_to_mbqc_formalism, diagonalize_mcms, PT._parse_mid_measurements, PT._get_xz_record, PT.commute_clifford_op)
    ctx.bound(outcomes="every measurement outcome a solver bit (4 per single-qubit gate, 13 per CNOT; for the two wire-recycling sequences the first 4 are symbolic and the later ones all 0 / all 1)",
              inputs="arbitrary complex input amplitudes on the logical wires; all real angles", circuits=list(CIRCUITS), tracker_circuits=TRACKER,
              outside="finite-shot sampling, non-integer wire labels in the tracker, circuits with more than 2 logical wires, get_byproduct_corrections' final sample XOR (a one-line formula), graph-state preparation on user lattices")
    ctx.assume(*sx.SHIM_NOTES[:3], "interpreter vf.mbqc: active-set tensor, outcome bits with m*m -> m, commuting operations re-ordered lazily, Pauli corrections with affine conditions applied bit by bit (U^(a xor b) = U^a U^b)",
               "shim: pauli_tracker.math (object buffers, element-wise xor) and its input validation `all(x in [0, 1])` are replaced while the tracker runs on solver bits")
    ctx.rule = "per (circuit, diagonalisation mode, online / tracker corrections): proportionality, clean work wires and weight, each a z3 validity query over outcomes, inputs and angles"
    ctx.pmap(_dispatch, items, timeout_each=2400)
