"""C59 Fourier spectra contain every frequency that is present (E1, partial: circuit_spectrum).

Circuits whose input-encoding gates are marked with qp.fourier.mark are given to the REAL circuit_spectrum; the same circuit runs on
the lifted default.qubit with the inputs x, y as SYMBOLIC angles (the other gate angles symbolic as well).  With F the positive
frequencies reported for a marker, z3 proves for all angle values that the differential operator
    L_F = d/dx * prod_{f in F} (d^2/dx^2 + f^2)
annihilates every measured quantity (expectation values, probabilities): exactly the statement that, as a function of x, the quantity
is a trigonometric polynomial with frequencies in {0} + F - "the reported spectrum contains every frequency actually present".
For circuits marked `tight`, dropping the largest reported frequency must NOT annihilate the expectation value (a non-vacuity twin:
the solver returns a point where the reduced operator leaves a residue).
Outside: qnode_spectrum (autodiff Jacobian of the classical preprocessing), fourier.coefficients / reconstruct (FFT and numerical
fitting), classical preprocessing of the inputs (circuit_spectrum documents that it does not see it).
"""
from __future__ import annotations

import numpy as np
import pennylane as qp

from vf import symx as sx, obl, simx
from checks import c09

PN = ["x", "y", "w"]


def _m(on, o, tag):
    return qp.fourier.mark(o, tag) if on else o


CIRCUITS = {
    "RX(x)": (1, lambda p, m: [_m(m, qp.RX(p[0], 0), "x")], True),
    "RX(x).RY(w).CNOT.RX(x)": (2, lambda p, m: [_m(m, qp.RX(p[0], 0), "x"), qp.RY(p[2], 1), qp.CNOT([0, 1]), _m(m, qp.RX(p[0], 1), "x")], True),
    "three encodings of x on one wire": (1, lambda p, m: [_m(m, qp.RX(p[0], 0), "x"), qp.RY(p[2], 0), _m(m, qp.RZ(p[0], 0), "x"), qp.RX(0.7, 0), _m(m, qp.RY(p[0], 0), "x")], True),
    "CRX(x) and RY(y)": (2, lambda p, m: [qp.Hadamard(0), _m(m, qp.CRX(p[0], [0, 1]), "x"), _m(m, qp.RY(p[1], 1), "y"), qp.CNOT([1, 0]), qp.RX(p[2], 0)], True),
    "IsingXX(x).PauliRot(y)": (2, lambda p, m: [qp.RY(p[2], 0), _m(m, qp.IsingXX(p[0], [0, 1]), "x"), _m(m, qp.PauliRot(p[1], "ZY", [0, 1]), "y"), qp.RX(0.4, 1)], True),
    "ctrl(RZ(x)) twice, PhaseShift(y)": (2, lambda p, m: [qp.Hadamard(0), qp.Hadamard(1), _m(m, qp.ctrl(qp.RZ(p[0], 1), control=0), "x"), qp.RY(p[2], 1), _m(m, qp.ctrl(qp.RZ(p[0], 0), control=1), "x"),
                                                         _m(m, qp.PhaseShift(p[1], 0), "y"), qp.Hadamard(0)], False),
    "MultiRZ(x) on 3 wires, RX(x)": (3, lambda p, m: [qp.Hadamard(0), qp.RY(p[2], 1), qp.Hadamard(2), _m(m, qp.MultiRZ(p[0], [0, 1, 2]), "x"), qp.CNOT([0, 2]), _m(m, qp.RX(p[0], 1), "x")], False),
}
MEAS = {
    "expval Z0": lambda n: [qp.expval(qp.PauliZ(0))],
    "expval Z(last)@X0, probs": lambda n: [qp.expval(qp.PauliZ(n - 1) @ qp.PauliX(0)) if n > 1 else qp.expval(qp.PauliX(0)), qp.probs(wires=list(range(n)))],
}


def spectrum(cname):
    n, build, _ = CIRCUITS[cname]
    dev = qp.device("default.qubit", wires=n)

    @qp.qnode(dev)
    def circ(x, y, w):
        build([x, y, w], True)
        return qp.expval(qp.PauliZ(0))

    spec = qp.fourier.circuit_spectrum(circ)(0.1, 0.2, 0.3)
    return {k: sorted(float(f) for f in v) for k, v in spec.items()}


def quantities(tape, symbolic):
    if symbolic:
        _, res = simx.run_tape(tape)
        res = res if isinstance(res, (list, tuple)) else [res]
        return np.concatenate([sx.arr(np.asarray(r, dtype=object)).ravel() for r in res])
    dev = qp.device("default.qubit", wires=tape.wires)
    res = dev.execute(tape)
    res = res if isinstance(res, tuple) else (res,)
    return np.concatenate([np.asarray(r, dtype=float).ravel() for r in res])


def _num(cname, mname, marker, freqs, params):
    """FFT support of the measured quantities over one common period of the declared frequencies"""
    n, build, _ = CIRCUITS[cname]
    F = sorted(f for f in freqs if f > 0)
    Q = next((q for q in range(1, 9) if all(abs(f * q - round(f * q)) < 1e-6 for f in F)), 1)
    N = 64 * Q
    k = PN.index(marker)
    vals = []
    for j in range(N):
        p = [float(v) for v in params]
        p[k] = 2 * np.pi * Q * j / N
        tape = qp.tape.QuantumScript(build(p, False), MEAS[mname](n))
        vals.append(quantities(tape, False))
    spec = np.fft.fft(np.array(vals), axis=0) / N
    allowed = {0} | {int(round(f * Q)) for f in F} | {N - int(round(f * Q)) for f in F}
    worst = max((float(np.max(np.abs(spec[j]))), j) for j in range(N) if j not in allowed)
    return worst[0] > 1e-8, f"{cname} [{mname}]: circuit_spectrum reports {freqs} for marker {marker!r}; Fourier component at frequency {min(worst[1], N - worst[1]) / Q:g} has magnitude {worst[0]:.3g} at the other parameters {dict(zip(PN, params))}"


def replay(p):
    return _num(p["circuit"], p["meas"], p["marker"], p["freqs"], p["params"])


def work(item):
    cname, mname = item
    n, build, tight = CIRCUITS[cname]
    sx.install_shims()
    try:
        spec = spectrum(cname)
    except Exception as e:  # noqa: BLE001
        return [{"name": f"circuit_spectrum on {cname}", "status": "unsupported", "detail": repr(e)[:300]}]

    def b(S):
        p = [S.param(x, D=2) for x in PN]
        tape = qp.tape.QuantumScript(build(p, False), MEAS[mname](n))
        return quantities(tape, True)

    def consume(S, E, i):
        out = []
        for marker, freqs in spec.items():
            F = sorted(f for f in freqs if f > 0)
            sym_ok = all(any(abs(f + g) < 1e-9 for g in freqs) for f in freqs) and any(abs(f) < 1e-12 for f in freqs)

            def rp(model, marker=marker, freqs=freqs):
                params = [model["params"].get(x, 0.3) for x in PN]
                ok, obs = _num(cname, mname, marker, freqs, params)
                return ok, {"circuit": cname, "meas": mname, "marker": marker, "freqs": list(freqs), "params": params, "observed": obs}

            name = f"{cname} [{mname}], marker {marker!r}: reported spectrum {freqs}"
            if not sym_ok:
                out.append({"name": name + " is symmetric and contains 0", "status": "violated", "symbols": PN, "nontrivial": True, "queries": 1, "signature": f"spectrum-form:{cname}", "detail": "not symmetric / no zero frequency",
                            "replay": {"circuit": cname, "meas": mname, "marker": marker, "freqs": list(freqs), "params": [0.3, 0.3, 0.3], "observed": "spectrum not symmetric"}})
            y = c09.annihilate(S, E, marker, F)
            out.append(obl.prove(S, name + f": L_F annihilates all {len(E)} measured quantities (every frequency present is reported)", y, np.zeros(y.shape, dtype=object), replay=rp, signature=f"spectrum:{cname}:{marker}",
                                 timeout=120, over=list(E)))
            if tight and F and mname == "expval Z0" and (cname, marker) in TIGHT:
                y2 = c09.annihilate(S, E, marker, F[:-1])
                r = sx.prove_zero(S, sx._collect_polys(S, y2, np.zeros(y2.shape, dtype=object)), timeout_s=60)
                out.append({"name": name + f": non-vacuity twin - without the largest frequency {F[-1]} the operator leaves a residue", "status": "discharged" if r.status == "sat" else "inconclusive", "symbols": PN, "nontrivial": True,
                            "queries": 1, "solver": f"z3:{r.status}", "detail": "the reduced operator does not annihilate the expectation value (z3 model)" if r.status == "sat" else "could not exhibit a residue"})
        return out

    try:
        return obl.run_instance(f"{cname} [{mname}]", b, consume, max_paths=8)
    except (TypeError, AttributeError, IndexError, KeyError, ValueError, NotImplementedError) as e:
        import traceback

        tb = traceback.format_exc(limit=6)[-500:]
        for marker, freqs in spec.items():
            ok, obs = _num(cname, mname, marker, freqs, [0.3, -0.8, 1.9])
            if ok:
                return [{"name": f"{cname} [{mname}]", "status": "violated", "symbols": PN, "nontrivial": True, "queries": 1, "signature": f"spectrum:{cname}:{marker}", "detail": obs,
                         "replay": {"circuit": cname, "meas": mname, "marker": marker, "freqs": list(freqs), "params": [0.3, -0.8, 1.9], "observed": obs}}]
        return [{"name": f"{cname} [{mname}]", "status": "unsupported", "detail": f"{e!r} {tb}"}]


# (circuit, marker) pairs whose largest reported frequency is attained by <Z0> (checked by the twin)
TIGHT = {("RX(x)", "x"), ("three encodings of x on one wire", "x"), ("CRX(x) and RY(y)", "y")}


def run(ctx):
    ctx.level = "other"
    items = [(c, m) for c in CIRCUITS for m in MEAS]
    if ctx.only:
        items = [it for it in items if ctx.only in str(it)]
    ctx.shapes = len(items)
    from pennylane.fourier import circuit_spectrum

    ctx.encode(circuit_spectrum, qp.fourier.mark)
    ctx.bound(inputs="all real values of the marked inputs x, y and of the free angle w", circuits=list(CIRCUITS), measurements=list(MEAS),
              outside="qnode_spectrum (autodiff Jacobian of classical preprocessing), fourier.coefficients / reconstruct (FFT, numerical fitting), classically preprocessed inputs, more than 3 wires")
    ctx.assume(*sx.SHIM_NOTES[:3], "derivatives are taken symbolically on the circle atoms (d cos = -sin dx, d sin = cos dx), as in C09")
    ctx.rule = "one obligation per (circuit, measurements, marker): z3 validity of L_F E == 0 over all angles; twins: a sat answer for the reduced operator"
    ctx.pmap(work, items, timeout_each=600)
