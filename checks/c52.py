"""C52 Observable grouping partitions correctly (E1, partial: symbolic coefficients; the observable lists are enumerated).

For 8 lists of Pauli words (2-4 wires; with repeated supports, single-wire words, the identity and pairs that differ only in one
letter), every grouping type (qwc, commuting, anticommuting) and the graph-colouring methods lf / rlf / dsatur / gis, the REAL
group_observables runs with one SYMBOLIC real coefficient per observable:
    partition    every input observable appears in exactly one group (multiset comparison), the groups' coefficient arrays have the
                 groups' lengths, and z3 proves  sum_groups sum_members coeff * word == sum_i c_i * word_i  Pauli word by Pauli word for all
                 coefficient values (coefficients travel with their observables),
    relation     the members of each group pairwise satisfy the chosen relation, decided by an independent symplectic test,
    indices      compute_partition_indices returns a partition of range(n) whose groups satisfy the same relation.
Diagonalisation: for every qwc group, diagonalize_qwc_pauli_words returns gates U and diagonal words D_k with
    U (sum_k c_k O_k) U^dagger == sum_k c_k D_k   (matrix identity, all coefficient values; D_k contain only Z and I).
Outside: optimality of the colouring, observables that are not Pauli words (Hamiltonian terms with Hermitian / Projector factors),
the graph libraries themselves (their output is checked, not their algorithm), more than 4 wires.
"""
from __future__ import annotations

import itertools

import numpy as np
import pennylane as qp

from vf import symx as sx, obl

P_ = {"X": qp.PauliX, "Y": qp.PauliY, "Z": qp.PauliZ}


def word(s):
    """'XIZ' -> operator on wires 0..; 'III' -> Identity(0)"""
    ops = [P_[c](i) for i, c in enumerate(s) if c != "I"]
    if not ops:
        return qp.Identity(0)
    return ops[0] if len(ops) == 1 else qp.prod(*ops)


LISTS = {
    "L1": ["XZ", "ZI", "IY", "XI", "ZZ", "YY"],
    "L2": ["XX", "YY", "ZZ", "XY", "YX", "IZ", "ZI"],
    "L3": ["XIZ", "IXZ", "ZZI", "IIX", "YIY", "XXX", "III"],
    "L4": ["ZI", "ZI", "IZ", "XX"],
    "L5": ["XYZI", "IXYZ", "ZIXY", "YZIX", "ZZZZ", "XXII", "IIYY"],
    "L6": ["X", "Y", "Z"],
    "L7": ["XZY", "XZI", "IZY", "XII", "IIY", "YYY", "ZXZ", "ZIZ"],
    "L8": ["XI", "IX", "XX", "ZZ", "YY", "ZI", "IZ", "II"],
}
TYPES = ["qwc", "commuting", "anticommuting"]
METHODS = ["lf", "rlf", "dsatur", "gis"]


def letters(op, n):
    """operator -> string over IXYZ on wires 0..n-1"""
    pw = qp.pauli.pauli_sentence(op)
    assert len(pw) == 1
    (w, c), = pw.items()
    return "".join(dict(w).get(i, "I") for i in range(n))


def related(a, b, kind):
    anti = sum(1 for x, y in zip(a, b) if x != "I" and y != "I" and x != y)
    if kind == "qwc":
        return anti == 0
    if kind == "commuting":
        return anti % 2 == 0
    return anti % 2 == 1


def as_terms(groups, coeffs, n):
    out = {}
    for g, cs in zip(groups, coeffs):
        cs = list(np.asarray(cs, dtype=object).ravel())
        for o, c in zip(g, cs):
            k = letters(o, n)
            out[k] = out.get(k, 0) + c
    return out


def structure_problem(lname, kind, method, groups, coeffs, n):
    words = LISTS[lname]
    got = sorted(letters(o, n) for g in groups for o in g)
    if got != sorted(words):
        return f"groups contain {got}, the input is {sorted(words)}"
    for g, cs in zip(groups, coeffs):
        if len(g) != len(np.asarray(cs, dtype=object).ravel()):
            return f"a group of {len(g)} observables carries {len(np.asarray(cs, dtype=object).ravel())} coefficients"
        for a, b in itertools.combinations([letters(o, n) for o in g], 2):
            if not related(a, b, kind):
                return f"group members {a} and {b} are not {kind}"
    return None


def indices_problem(lname, kind, method):
    words = LISTS[lname]
    n = len(words[0])
    obs = [word(w) for w in words]
    try:
        idx = qp.pauli.compute_partition_indices(obs, grouping_type=kind, method=method)
    except Exception as e:  # noqa: BLE001
        return f"compute_partition_indices raised {e!r}"
    flat = sorted(i for g in idx for i in g)
    if flat != list(range(len(words))):
        return f"indices {idx} are not a partition of 0..{len(words) - 1}"
    for g in idx:
        for i, j in itertools.combinations(g, 2):
            if not related(words[i], words[j], kind):
                return f"indices {i} and {j} ({words[i]}, {words[j]}) share a group but are not {kind}"
    return None


def run_group(S, lname, kind, method, concrete=None):
    words = LISTS[lname]
    n = len(words[0])
    obs = [word(w) for w in words]
    cs = [S.real(f"c{i}") for i in range(len(words))] if concrete is None else [float(concrete.get(f"c{i}", 0.3 + 0.2 * i)) for i in range(len(words))]
    groups, coeffs = qp.pauli.group_observables(obs, np.array(cs, dtype=object if concrete is None else float), grouping_type=kind, method=method)
    exp = {}
    for w, c in zip(words, cs):
        exp[w] = exp.get(w, 0) + c
    return groups, coeffs, exp, n


def kron_word(w):
    M = np.array([[1]], dtype=complex)
    mats = {"I": np.eye(2), "X": np.array([[0, 1], [1, 0]]), "Y": np.array([[0, -1j], [1j, 0]]), "Z": np.diag([1, -1])}
    for c in w:
        M = np.kron(M, mats[c])
    return M


def diag_case(S, lname, gi, concrete=None):
    """qwc group number gi of list lname (method lf): U H U^dagger vs sum c_k D_k"""
    words = LISTS[lname]
    n = len(words[0])
    obs = [word(w) for w in words]
    idx = qp.pauli.compute_partition_indices(obs, grouping_type="qwc", method="lf")
    members = [words[i] for i in idx[gi]]
    cs = [S.real(f"c{i}") for i in range(len(members))] if concrete is None else [float(concrete.get(f"c{i}", 0.3 + 0.2 * i)) for i in range(len(members))]
    gates, diag_words = qp.pauli.diagonalize_qwc_pauli_words([word(w) for w in members])
    U = np.eye(2 ** n, dtype=complex)
    for g in gates:
        U = np.asarray(qp.matrix(g, wire_order=list(range(n))), dtype=complex) @ U
    dl = [letters(d, n) for d in diag_words]
    H = sum((c * kron_word(w).astype(object) for c, w in zip(cs, members)), np.zeros((2 ** n, 2 ** n), dtype=object))
    lhs = np.dot(np.dot(U.astype(object), H), U.conj().T.astype(object))
    rhs = sum((c * kron_word(w).astype(object) for c, w in zip(cs, dl)), np.zeros((2 ** n, 2 ** n), dtype=object))
    bad = [w for w in dl if set(w) - set("IZ")]
    return lhs, rhs, bad, members, dl


def _num(p):
    kind = p["kind"]
    try:
        if kind == "indices":
            pr = indices_problem(p["list"], p["type"], p["method"])
            return bool(pr), pr or "partition with the relation"
        if kind == "group":
            groups, coeffs, exp, n = run_group(None, p["list"], p["type"], p["method"], concrete=p.get("values", {}))
            pr = structure_problem(p["list"], p["type"], p["method"], groups, coeffs, n)
            if pr:
                return True, f"group_observables({LISTS[p['list']]}, {p['type']}, {p['method']}): {pr}"
            got = as_terms(groups, coeffs, n)
            d = max(abs(complex(got.get(k, 0)) - complex(exp.get(k, 0))) for k in set(got) | set(exp))
            return d > 1e-9, f"group_observables({LISTS[p['list']]}, {p['type']}, {p['method']}): coefficients travel with their observables up to {d:.3g}"
        lhs, rhs, bad, members, dl = diag_case(None, p["list"], p["group"], concrete=p.get("values", {}))
        d = float(np.max(np.abs(np.asarray(lhs, dtype=complex) - np.asarray(rhs, dtype=complex))))
        return (d > 1e-9 or bool(bad)), f"diagonalize_qwc_pauli_words({members}) -> {dl}: max |U H U^dag - sum c_k D_k| = {d:.3g}; non-diagonal words {bad}"
    except Exception as e:  # noqa: BLE001
        return True, f"{p}: raised {e!r}"


def replay(p):
    return _num(p)


def work(item):
    kind = item[0]
    sx.install_shims()
    if kind == "indices":
        _, lname, t, m = item
        pr = indices_problem(lname, t, m)
        rec = {"name": f"compute_partition_indices({lname}, {t}, {m}): partition of the indices, groups pairwise {t}", "status": "violated" if pr else "discharged", "symbols": [], "nontrivial": False, "queries": 1, "detail": pr or "holds"}
        if pr:
            rec.update(signature=f"indices:{t}:{m}", replay={"kind": "indices", "list": lname, "type": t, "method": m, "observed": pr})
        return [rec]
    if kind == "group":
        _, lname, t, m = item
        name = f"group_observables({lname} = {LISTS[lname]}, {t}, {m})"

        def b(S):
            return run_group(S, lname, t, m)

        def consume(S, v, i):
            groups, coeffs, exp, n = v
            pr = structure_problem(lname, t, m, groups, coeffs, n)
            payload = {"kind": "group", "list": lname, "type": t, "method": m, "values": {}}
            rec = {"name": f"{name}: every observable in exactly one group, group members pairwise {t}", "status": "violated" if pr else "discharged", "symbols": ["c"], "nontrivial": True, "queries": 1, "detail": pr or f"{len(groups)} groups"}
            if pr:
                rec.update(signature=f"group:{t}:{m}:structure", replay={**payload, "observed": pr})
                return [rec]

            def rp(model):
                vals = dict(model.get("vars", {}))
                ok, obs = _num({**payload, "values": vals})
                return ok, {**payload, "values": vals, "observed": obs}

            got = as_terms(groups, coeffs, n)
            keys = sorted(set(got) | set(exp))
            return [rec, obl.prove(S, f"{name}: coefficients travel with their observables ({len(keys)} Pauli words)", [got.get(k, 0) for k in keys], [exp.get(k, 0) for k in keys], replay=rp, signature=f"group:{t}:{m}", timeout=60,
                                   over=[x for x in exp.values() if isinstance(x, sx.SymC)])]

        try:
            return obl.run_instance(name, b, consume, max_paths=8)
        except (TypeError, AttributeError, IndexError, KeyError, ValueError) as e:
            ok, obs = _num({"kind": "group", "list": lname, "type": t, "method": m, "values": {}})
            if ok:
                return [{"name": name, "status": "violated", "symbols": ["c"], "nontrivial": True, "queries": 1, "signature": f"group:{t}:{m}", "detail": obs, "replay": {"kind": "group", "list": lname, "type": t, "method": m, "values": {}, "observed": obs}}]
            return [{"name": name, "status": "unsupported", "detail": repr(e)[:300]}]
    _, lname, gi = item
    name = f"diagonalize_qwc_pauli_words on qwc group {gi} of {lname}"

    def b2(S):
        return diag_case(S, lname, gi)

    def consume2(S, v, i):
        lhs, rhs, bad, members, dl = v
        payload = {"kind": "diag", "list": lname, "group": gi, "values": {}}

        def rp(model):
            vals = dict(model.get("vars", {}))
            ok, obs = _num({**payload, "values": vals})
            return ok, {**payload, "values": vals, "observed": obs}

        rec = {"name": f"{name} ({members} -> {dl}): images contain only Z and I", "status": "violated" if bad else "discharged", "symbols": ["c"], "nontrivial": True, "queries": 1, "detail": f"non-diagonal {bad}" if bad else "diagonal"}
        if bad:
            rec.update(signature="diag:letters", replay={**payload, "observed": f"non-diagonal {bad}"})
        return [rec, obl.prove(S, f"{name} ({members} -> {dl}): U (sum c_k O_k) U^dagger == sum c_k D_k for all coefficients", lhs, rhs, replay=rp, signature="diag", timeout=60, tol=1e-9,
                               extra=[z for nm, idx in S.V.index.items() if idx and nm.startswith("c") and nm[1:].isdigit() for z in (S.zvar(idx) <= 1, S.zvar(idx) >= -1)], over=list(np.asarray(rhs, dtype=object).ravel()))]

    try:
        return obl.run_instance(name, b2, consume2, max_paths=8)
    except (TypeError, AttributeError, IndexError, KeyError, ValueError, AssertionError) as e:
        ok, obs = _num({"kind": "diag", "list": lname, "group": gi, "values": {}})
        if ok:
            return [{"name": name, "status": "violated", "symbols": ["c"], "nontrivial": True, "queries": 1, "signature": "diag", "detail": obs, "replay": {"kind": "diag", "list": lname, "group": gi, "values": {}, "observed": obs}}]
        return [{"name": name, "status": "unsupported", "detail": repr(e)[:300]}]


def run(ctx):
    ctx.level = "other"
    lists = list(LISTS) if ctx.tier == "thorough" else ["L1", "L2", "L3", "L4", "L6", "L8"]
    items = [(k, l, t, m) for k in ("group", "indices") for l in lists for t in TYPES for m in METHODS]
    for l in lists:
        obs = [word(w) for w in LISTS[l]]
        ng = len(qp.pauli.compute_partition_indices(obs, grouping_type="qwc", method="lf"))
        items += [("diag", l, gi) for gi in range(ng)]
    if ctx.only:
        items = [it for it in items if ctx.only in str(it)]
    ctx.shapes = len(items)
    ctx.encode(qp.pauli.group_observables, qp.pauli.compute_partition_indices, qp.pauli.diagonalize_qwc_pauli_words)
    ctx.bound(coefficients="one symbolic real coefficient per observable (all values; [-1, 1] for the diagonalisation identity, which carries floating gate matrices)", lists={k: LISTS[k] for k in lists}, grouping_types=TYPES, methods=METHODS,
              outside="optimality of the colouring, non-Pauli observables, the graph libraries' algorithms (only their output is checked), more than 4 wires")
    ctx.assume(*sx.SHIM_NOTES[:3], "relation oracle: symplectic test on the letters (qwc: no position with two different non-identity letters; commuting: an even number of them)")
    ctx.rule = "per (list, grouping type, method): structural obligations plus one z3 identity over all coefficient values; per qwc group: one z3 matrix identity"
    ctx.pmap(work, items, timeout_each=600)
