"""C26 default.qubit simulates every circuit exactly (E1).

A kernel-covering circuit family: for every specialised `apply_operation` registration and the generic einsum / tensordot
paths, one circuit per target-wire position on 1-4 wires, each preceded by an entangling prefix with symbolic angles so that
the state is a generic symbolic vector.  The REAL get_final_state / measure_final_state run on symbolic terms; z3 proves, for
ALL angle values: final state == product of qp.matrix(op) applied to |0..0> (own re-indexing oracle), and expval / var /
probs / density_matrix / purity == own formulas on that vector.  Also broadcast (2 symbolic batch elements), operator-arithmetic
operations (Prod/Sum/SProd/Adjoint/Pow/Controlled), StatePrep/BasisState prefixes and string wire labels.
"""
from __future__ import annotations

import itertools

import numpy as np
import pennylane as qp

from vf import symx as sx, obl, simx

PN = ["a", "b", "g"]


def prefix(n, ps, W):
    """entangling symbolic prefix making the state generic"""
    ops = [qp.RY(ps[0], wires=W[0])]
    for k in range(1, n):
        ops.append(qp.CNOT(wires=[W[k - 1], W[k]]))
        ops.append(qp.RX(ps[k % len(ps)], wires=W[k]))
    ops.append(qp.RZ(ps[-1], wires=W[-1]))
    return ops


# kernel name -> (n wires of the op, builder(params, wires))
KERNELS = {
    "PauliX": (1, lambda p, w: qp.PauliX(w[0])), "PauliY": (1, lambda p, w: qp.PauliY(w[0])), "PauliZ": (1, lambda p, w: qp.PauliZ(w[0])),
    "Hadamard": (1, lambda p, w: qp.Hadamard(w[0])), "S": (1, lambda p, w: qp.S(w[0])), "T": (1, lambda p, w: qp.T(w[0])), "SX": (1, lambda p, w: qp.SX(w[0])),
    "Identity": (1, lambda p, w: qp.Identity(w[0])), "GlobalPhase": (1, lambda p, w: qp.GlobalPhase(p[1], wires=w[0])),
    "PhaseShift": (1, lambda p, w: qp.PhaseShift(p[1], wires=w[0])), "RX": (1, lambda p, w: qp.RX(p[1], wires=w[0])), "RY": (1, lambda p, w: qp.RY(p[1], wires=w[0])),
    "RZ": (1, lambda p, w: qp.RZ(p[1], wires=w[0])), "Rot": (1, lambda p, w: qp.Rot(p[0], p[1], p[2], wires=w[0])),
    "CNOT": (2, lambda p, w: qp.CNOT(wires=w)), "CZ": (2, lambda p, w: qp.CZ(wires=w)), "SWAP": (2, lambda p, w: qp.SWAP(wires=w)), "CY": (2, lambda p, w: qp.CY(wires=w)),
    "ISWAP": (2, lambda p, w: qp.ISWAP(wires=w)), "CRX": (2, lambda p, w: qp.CRX(p[1], wires=w)), "CRot": (2, lambda p, w: qp.CRot(p[0], p[1], p[2], wires=w)),
    "IsingXX": (2, lambda p, w: qp.IsingXX(p[1], wires=w)), "IsingZZ": (2, lambda p, w: qp.IsingZZ(p[1], wires=w)), "ControlledPhaseShift": (2, lambda p, w: qp.ControlledPhaseShift(p[1], wires=w)),
    "SingleExcitation": (2, lambda p, w: qp.SingleExcitation(p[1], wires=w)),
    "Toffoli": (3, lambda p, w: qp.Toffoli(wires=w)), "CSWAP": (3, lambda p, w: qp.CSWAP(wires=w)), "CCZ": (3, lambda p, w: qp.CCZ(wires=w)),
    "MultiControlledX[10]": (3, lambda p, w: qp.MultiControlledX(wires=w, control_values=[1, 0])), "MultiRZ3": (3, lambda p, w: qp.MultiRZ(p[1], wires=w)),
    "MultiControlledX[011]": (4, lambda p, w: qp.MultiControlledX(wires=w, control_values=[0, 1, 1])),
    "ctrl(RY,cv=0)": (2, lambda p, w: qp.ctrl(qp.RY(p[1], wires=w[1]), control=w[0], control_values=[0])),
    "ctrl(IsingXX,cv=10)": (4, lambda p, w: qp.ctrl(qp.IsingXX(p[1], wires=w[2:]), control=w[:2], control_values=[1, 0])),
    "adjoint(T)": (1, lambda p, w: qp.adjoint(qp.T(w[0]))), "adjoint(CRX)": (2, lambda p, w: qp.adjoint(qp.CRX(p[1], wires=w))),
    "pow(SX,3)": (1, lambda p, w: qp.pow(qp.SX(w[0]), 3, lazy=True)),
    "prod(RY,T,CNOT) interleaved": (3, lambda p, w: qp.prod(qp.RY(p[1], w[2]), qp.T(w[1]), qp.CNOT([w[0], w[2]]))),
    "prod(RX,Hadamard)": (2, lambda p, w: qp.prod(qp.RX(p[1], w[0]), qp.Hadamard(w[1]))),
    "s_prod(i, X)": (1, lambda p, w: qp.s_prod(1j, qp.PauliX(w[0]))),
    "PauliRot[XYZ]": (3, lambda p, w: qp.PauliRot(p[1], "XYZ", wires=w)),
    "DoubleExcitation": (4, lambda p, w: qp.DoubleExcitation(p[1], wires=w)),
}

MEASUREMENTS = {
    1: lambda W: [qp.state(), qp.expval(qp.PauliZ(W[0])), qp.var(qp.PauliX(W[0])), qp.probs(wires=W)],
    2: lambda W: [qp.state(), qp.expval(qp.PauliZ(W[0]) @ qp.PauliX(W[1])), qp.var(qp.PauliY(W[1])), qp.probs(wires=[W[1]]), qp.expval(0.5 * qp.PauliX(W[0]) + 2 * qp.PauliZ(W[1])),
                   qp.density_matrix(wires=[W[0]]), qp.probs(wires=[W[1], W[0]])],
    3: lambda W: [qp.state(), qp.expval(qp.PauliY(W[2]) @ qp.PauliZ(W[0])), qp.var(qp.PauliZ(W[1])), qp.probs(wires=[W[2], W[0]]), qp.purity(wires=[W[1]]),
                   qp.expval(qp.Hermitian(np.array([[1.0, 0.5 - 0.25j], [0.5 + 0.25j, -2.0]]), wires=W[1])), qp.expval(qp.Projector([1, 0], wires=[W[0], W[2]])), qp.probs(wires=[W[2], W[0], W[1]]), qp.probs(wires=[W[1], W[2], W[0]]),
                   qp.expval(qp.PauliZ(W[2]) @ qp.Projector([1], wires=[W[0]]) @ qp.PauliX(W[1]))],
    4: lambda W: [qp.state(), qp.expval(qp.PauliX(W[3]) @ qp.PauliX(W[0])), qp.probs(wires=[W[1], W[3]]), qp.var(qp.PauliZ(W[2]) @ qp.PauliZ(W[3])), qp.probs(wires=[W[3], W[0], W[2]]), qp.probs(wires=[W[2], W[3], W[1], W[0]])],
}
LABELS = [["q0"], ["b", 7], [3, "aux", 0], ["x", 2, "y", -1]]


def circuits(tier):
    out = []
    for kname, (k, fn) in KERNELS.items():
        for n in range(max(k, 1), 5):
            if tier == "quick" and n > max(k + 1, 2) and not (k == 1 and n == 3 and kname in ("Hadamard", "RX", "PauliZ", "PhaseShift")):
                continue
            if n == 4 and k <= 2 and tier == "quick":
                continue
            places = list(itertools.permutations(range(n), k))
            if tier == "quick":
                places = places[:: max(1, len(places) // 3)]
            for pl in places:
                out.append((kname, n, tuple(pl), "int"))
        out.append((kname, max(k, 2), tuple(range(k)), "str"))
    extra = ["StatePrep prefix", "BasisState prefix", "broadcast RX", "broadcast CRot", "broadcast PhaseShift", "long mixed circuit"]
    return out, extra


def build_circuit(item, ps):
    kname, n, pl, lab = item
    W = list(range(n)) if lab == "int" else LABELS[n - 1]
    ops = prefix(n, ps, W) + [KERNELS[kname][1](ps, [W[q] for q in pl])]
    # a second gate after the kernel so that errors in the written-back state layout matter
    ops.append(qp.RY(ps[0], wires=W[pl[-1]]))
    return ops, W, MEASUREMENTS[n](W)


def _num_circuit(item, params):
    ops, W, mps = build_circuit(item, params)
    tape = qp.tape.QuantumScript(ops, mps)
    res = qp.devices.qubit.simulate(tape)
    psi = np.asarray(simx.oracle_state(ops, W), dtype=complex)
    worst = 0.0
    for r, mp in zip(res, mps):
        exp = np.asarray(simx.oracle_measure(psi, mp, W), dtype=complex)
        worst = max(worst, float(np.max(np.abs(np.asarray(r, dtype=complex).reshape(exp.shape) - exp))))
    return worst > 1e-6, f"{item} at {params}: max|default.qubit - matrix route| = {worst:.3g}"


def replay(p):
    if p.get("extra"):
        return _num_extra(p["extra"], p["params"])
    return _num_circuit(tuple(p["item"][:2]) + (tuple(p["item"][2]), p["item"][3]), p["params"])


def work(item):
    kname, n, pl, lab = item
    name = f"{kname} on wires {list(pl)} of {n} ({lab} labels)"

    def build(S):
        ps = [S.param(x) for x in PN]
        ops, W, mps = build_circuit(item, ps)
        tape = qp.tape.QuantumScript(ops, mps)
        st, res = simx.run_tape(tape)
        psi = simx.oracle_state(ops, W)
        return res, psi, mps, W

    def consume(S, v, i):
        res, psi, mps, W = v

        def rp(model):
            p = [model["params"].get(x, 0.0) for x in PN]
            ok, obs = _num_circuit(item, p)
            return ok, {"item": [kname, n, list(pl), lab], "params": p, "observed": obs}

        out = []
        for r, mp in zip(res, mps):
            exp = sx.arr(simx.oracle_measure(psi, mp, W))
            got = sx.arr(np.asarray(r, dtype=object)).reshape(exp.shape)
            out.append(obl.prove(S, f"{name}: {type(mp).__name__}{'(' + str(mp.obs) + ')' if mp.obs is not None else list(mp.wires)} == matrix route", got, exp, replay=rp,
                                 signature=f"{kname}:{type(mp).__name__}", timeout=60))
        return out

    return obl.run_instance(name, build, consume)


# ------------------------------------------------------------------ extra circuits
def extra_ops(kind, ps):
    W = [0, 1, 2]
    if kind == "StatePrep prefix":
        amp = np.array([0.5, 0.5j, -0.5, 0.5, 0, 0, 0, 0]) / np.sqrt(1.0)
        ops = [qp.StatePrep(amp, wires=W), qp.RX(ps[0], 1), qp.CNOT([1, 2]), qp.CRX(ps[1], [2, 0]), qp.Hadamard(1)]
    elif kind == "BasisState prefix":
        ops = [qp.BasisState(np.array([1, 0, 1]), wires=W), qp.RY(ps[0], 0), qp.Toffoli([0, 2, 1]), qp.Rot(ps[0], ps[1], ps[2], 1), qp.SWAP([0, 2])]
    elif kind == "long mixed circuit":
        a, b, c = ps
        ops = [qp.Hadamard(0), qp.RX(a, 0), qp.CNOT([0, 1]), qp.RY(b, 1), qp.IsingXX(c, [0, 1]), qp.T(1), qp.PhaseShift(a, 1), qp.Rot(a, b, c, 0), qp.CRZ(b, [1, 0]),
               qp.Toffoli([0, 1, 2]), qp.SWAP([0, 2]), qp.S(2), qp.CZ([2, 1]), qp.PauliY(0), qp.MultiRZ(c, [0, 1, 2])]
    else:
        raise KeyError(kind)
    mps = [qp.state(), qp.expval(qp.PauliZ(0) @ qp.PauliY(2)), qp.probs(wires=[1, 2]), qp.var(qp.PauliX(1)), qp.expval(0.3 * qp.PauliZ(0) - 1.5 * (qp.PauliX(1) @ qp.PauliX(2)))]
    return ops, W, mps


def _num_extra(kind, params):
    if kind.startswith("broadcast"):
        ok, obs = _broadcast(kind, None, params)
        return ok, obs
    ops, W, mps = extra_ops(kind, params)
    res = qp.devices.qubit.simulate(qp.tape.QuantumScript(ops, mps))
    psi = np.asarray(simx.oracle_state(ops[1:], W), dtype=complex) if False else None
    # oracle with state-preparation handled by its documented meaning
    psi = _prep_then(ops, W)
    worst = 0.0
    for r, mp in zip(res, mps):
        exp = np.asarray(simx.oracle_measure(psi, mp, W), dtype=complex)
        worst = max(worst, float(np.max(np.abs(np.asarray(r, dtype=complex).reshape(exp.shape) - exp))))
    return worst > 1e-6, f"{kind} at {params}: max|default.qubit - matrix route| = {worst:.3g}"


def _prep_then(ops, W):
    first = ops[0]
    if first.name == "StatePrep":
        psi0 = np.asarray(first.parameters[0], dtype=object)
        rest = ops[1:]
    elif first.name == "BasisState":
        bits = [int(b) for b in first.parameters[0]]
        psi0 = np.zeros(2 ** len(W), dtype=object)
        psi0[int("".join(map(str, bits)), 2)] = 1
        rest = ops[1:]
    else:
        return simx.oracle_state(ops, W)
    psi = psi0
    for op in rest:
        ws = list(op.wires)
        psi = np.dot(sx.embed(sx.arr(qp.matrix(op, wire_order=ws)), ws, W), psi)
    return psi


def _broadcast(kind, S, params):
    """batched parameter: result[k] == unbatched result at element k"""
    def circuit(x, y):
        mid = {"broadcast RX": lambda: qp.RX(x, wires=1), "broadcast CRot": lambda: qp.CRot(x, y, x, wires=[0, 2]), "broadcast PhaseShift": lambda: qp.PhaseShift(x, wires=2)}[kind]()
        return [qp.RY(y, 0), qp.CNOT([0, 1]), qp.Hadamard(2), mid, qp.CNOT([1, 2]), qp.RX(y, 2)]

    mps = [qp.state(), qp.expval(qp.PauliZ(1) @ qp.PauliX(2)), qp.probs(wires=[2, 0]), qp.var(qp.PauliY(1))]
    W = [0, 1, 2]
    if S is None:
        x1, x2, y = params
        res = qp.devices.qubit.simulate(qp.tape.QuantumScript(circuit(np.array([x1, x2]), y), mps))
        worst = 0.0
        for k, xv in enumerate((x1, x2)):
            psi = np.asarray(simx.oracle_state(circuit(xv, y), W), dtype=complex)
            for r, mp in zip(res, mps):
                exp = np.asarray(simx.oracle_measure(psi, mp, W), dtype=complex)
                worst = max(worst, float(np.max(np.abs(np.asarray(r, dtype=complex)[k].reshape(exp.shape) - exp))))
        return worst > 1e-6, f"{kind} at x=[{x1},{x2}], y={y}: max|batched - per-element matrix route| = {worst:.3g}"
    x1, x2, y = S.param("a", wrap=False), S.param("b", wrap=False), S.param("g")
    xb = np.array([x1, x2], dtype=object)
    st, res = simx.run_tape(qp.tape.QuantumScript(circuit(xb, y), mps))
    exps = []
    for xv in (S.param("a"), S.param("b")):
        psi = simx.oracle_state(circuit(xv, y), W)
        exps.append([sx.arr(simx.oracle_measure(psi, mp, W)) for mp in mps])
    return res, exps, mps


def work_extra(kind):
    name = kind

    def build(S):
        if kind.startswith("broadcast"):
            return ("b",) + tuple(_broadcast(kind, S, None))
        ps = [S.param(x) for x in PN]
        ops, W, mps = extra_ops(kind, ps)
        st, res = simx.run_tape(qp.tape.QuantumScript(ops, mps))
        psi = _prep_then(ops, W)
        return ("c", res, psi, mps, W)

    def consume(S, v, i):
        def rp(model):
            p = [model["params"].get(x, 0.0) for x in PN]
            ok, obs = _num_extra(kind, p)
            return ok, {"extra": kind, "params": p, "observed": obs}

        out = []
        if v[0] == "b":
            _, res, exps, mps = v
            for j, mp in enumerate(mps):
                for k in range(2):
                    exp = exps[k][j]
                    got = np.asarray(sx.arr(np.asarray(res[j], dtype=object))[k], dtype=object).reshape(np.asarray(exp, dtype=object).shape)
                    out.append(obl.prove(S, f"{name}: batch element {k} of {type(mp).__name__} == unbatched matrix route", got, exp, replay=rp, signature=f"{kind}:{type(mp).__name__}", timeout=60))
            return out
        _, res, psi, mps, W = v
        for r, mp in zip(res, mps):
            exp = sx.arr(simx.oracle_measure(psi, mp, W))
            got = sx.arr(np.asarray(r, dtype=object)).reshape(exp.shape)
            out.append(obl.prove(S, f"{name}: {type(mp).__name__} == matrix route", got, exp, replay=rp, signature=f"{kind}:{type(mp).__name__}", timeout=120))
        return out

    return obl.run_instance(name, build, consume)


def _dispatch(it):
    return work_extra(it[1]) if it[0] == "extra" else work(it[1])


def run(ctx):
    ctx.level = "proof"
    circ, extra = circuits(ctx.tier)
    items = [("k", c) for c in circ] + [("extra", e) for e in extra]
    if ctx.only:
        items = [it for it in items if ctx.only in str(it[1])]
    ctx.shapes = len(items)
    import importlib

    AO = importlib.import_module("pennylane.devices.qubit.apply_operation")
    SIM = importlib.import_module("pennylane.devices.qubit.simulate")
    ME = importlib.import_module("pennylane.devices.qubit.measure")
    ctx.encode(AO.apply_operation, AO.apply_operation_einsum, AO.apply_operation_tensordot, SIM.get_final_state, SIM.measure_final_state, ME.measure)
    ctx.bound(parameters="all real angles (3 symbols shared by prefix and kernel)", wires="1-4 wires, every target-wire placement (quick: a third of the placements), integer and string labels",
              kernels=list(KERNELS), measurements="state, expval (Pauli words, sums, Hermitian, Projector), var, probs (subsets/permuted), density_matrix, purity",
              outside="entropies and mutual information (log), sparse / >8-wire kernels behind the wire-count thresholds, other interfaces, finite shots, mid-circuit measurements (C21)")
    ctx.assume(*sx.SHIM_NOTES)
    ctx.trust("oracle: own embedding of qp.matrix(op) (leaf matrices are C02/C01/C03's subject) applied to |0..0>, own measurement formulas in vf/simx.py")
    ctx.rule = "one obligation per (circuit, measurement); non-trivial = mentions a symbolic angle"
    ctx.pmap(_dispatch, items, timeout_each=400 if ctx.tier == "quick" else 1500)
