"""C17 Optimisation passes preserve semantics and accept all valid circuits (E1, forking mode).  See checks/_passes.py."""
from checks import _passes as P
from vf import symx as sx
import pennylane as qp

replay = P.replay


def sem_only(it):
    return [r for r in P.work(it) if not r["name"].startswith("[immutability]")]


def run(ctx):
    ctx.level = "proof"
    items = P.items_for(ctx)
    ctx.shapes = len(items)
    ctx.encode(qp.transforms.cancel_inverses, qp.transforms.merge_rotations, qp.transforms.commute_controlled, qp.transforms.undo_swaps,
               qp.transforms.combine_global_phases, qp.transforms.remove_barrier, qp.compile)
    ctx.bound(parameters="all real angles (3 symbols)", circuits="55 hand-written + 60 (thorough 600 + all 2-/3-gate words over 10-20 gates) generated skeletons of <= 6 gates on <= 3 wires",
              passes=list(P.PASSES), outside="single_qubit_fusion / unitary_to_rot (arctan2), pattern_matching, rz_phase_gradient (round), rowcol/parity/ZX passes (pyzx), merge_amplitude_embedding; "
                                           "merge_rotations on Rot pairs (fuse_rot_angles uses arctan2: listed unsupported)")
    ctx.assume(*sx.SHIM_NOTES, "value-dependent branches are forked with tolerance comparisons modelled as equalities")
    ctx.rule = "one obligation per (circuit, pass, explored path): [semantics] records only (the [immutability] records of the same runs belong to C18)"

    ctx.pmap(sem_only, items, timeout_each=300)
