"""C21 Mid-circuit measurement methods agree with the exact semantics (E1, analytic mode).

Dynamic circuits with SYMBOLIC gate angles (mid-circuit measurements with reset and postselection, classically controlled
operations with else-branches, measurement-value arithmetic, repeated measurements of a wire) are evaluated by
  (A) the REAL defer_measurements transform followed by the lifted default.qubit simulator (its real post-processing applied), and
  (B) the REAL tree-traversal simulator (devices.qubit.simulate.simulate_tree_mcm) in analytic mode, whose branch-pruning
      comparisons on symbolic probabilities fork the execution (every prune / no-prune pattern is explored).
The exact semantics is the branch oracle of vf.dynsim: for every outcome assignment the unnormalised branch state is computed by
the matrix route; results are sums over branches divided by the total weight (postselection renormalises).  z3 proves for ALL
angles:  returned * weight == numerator  (and the corresponding identity for variances).
"""
from __future__ import annotations

import importlib

import numpy as np
import pennylane as qp

from vf import symx as sx, obl, simx, dynsim

PN = ["a", "b", "g"]
SIM = importlib.import_module("pennylane.devices.qubit.simulate")


def _c_basic(p):
    qp.RX(p[0], 0)
    m0 = qp.measure(0)
    qp.cond(m0, qp.RY)(p[1], wires=1)
    qp.CNOT([1, 0])
    return [m0]


def _c_reset(p):
    qp.RY(p[0], 0)
    m0 = qp.measure(0, reset=True)
    qp.cond(m0, qp.PauliX)(wires=1)
    qp.RX(p[1], 0)
    qp.CNOT([0, 1])
    return [m0]


def _c_else(p):
    qp.RX(p[0], 0)
    qp.Hadamard(1)
    m0 = qp.measure(0)
    qp.cond(m0, qp.RZ, qp.RY)(p[1], wires=1)
    return [m0]


def _c_two(p):
    qp.RX(p[0], 0)
    qp.RY(p[1], 1)
    m0 = qp.measure(0)
    m1 = qp.measure(1)
    qp.cond(m0 & m1, qp.RX)(p[2], wires=2)
    qp.cond(m0 + m1 == 1, qp.PauliX)(wires=2)
    return [m0, m1]


def _c_entangled(p):
    qp.Hadamard(0)
    qp.CRY(p[0], [0, 1])
    m0 = qp.measure(1)
    qp.cond(~m0, qp.RX)(p[1], wires=0)
    return [m0]


def _c_postselect(p):
    qp.RX(p[0], 0)
    qp.RY(p[1], 1)
    qp.CNOT([0, 1])
    m0 = qp.measure(0, postselect=1)
    qp.cond(m0, qp.RZ)(p[2], wires=1)
    qp.Hadamard(1)
    return [m0]


def _c_twice(p):
    qp.RX(p[0], 0)
    m0 = qp.measure(0)
    qp.RY(p[1], 0)
    m1 = qp.measure(0, reset=True)
    qp.cond(m0 ^ m1, qp.PauliX)(wires=1)
    qp.RX(p[2], 1)
    return [m0, m1]


def _c_postselect_reset(p):
    qp.RY(p[0], 0)
    qp.CNOT([0, 1])
    m0 = qp.measure(1, reset=True, postselect=0)
    qp.RX(p[1], 1)
    m1 = qp.measure(0)
    qp.cond(m1, qp.RY)(p[2], wires=1)
    return [m0, m1]


def _c_late_postselect(p):
    qp.RX(p[0], 0)
    m0 = qp.measure(0)
    qp.cond(m0, qp.RY)(p[1], wires=1)
    qp.RX(p[2], 1)
    m1 = qp.measure(1, postselect=1)
    qp.cond(m1, qp.PauliX)(wires=0)
    return [m0, m1]


CIRCUITS = {"second MCM postselected, success probability depends on the first outcome": _c_late_postselect, "cond RY": _c_basic, "reset + cond X": _c_reset, "cond with else branch": _c_else, "two MCMs, & and + arithmetic": _c_two, "MCM on an entangled pair, ~m": _c_entangled,
            "postselect=1": _c_postselect, "same wire measured twice, m0^m1": _c_twice, "postselect=0 with reset, then second MCM": _c_postselect_reset}

MEAS = {
    "expval Z1, probs[0]": lambda ms: [qp.expval(qp.PauliZ(1)), qp.probs(wires=[0])],
    "expval X0@Z1, var Z1": lambda ms: [qp.expval(qp.PauliX(0) @ qp.PauliZ(1)), qp.var(qp.PauliZ(1))],
    "expval m0, probs(op=m0)": lambda ms: [qp.expval(ms[0]), qp.probs(op=ms[0])],
    "var m0, expval Y1": lambda ms: [qp.var(ms[0]), qp.expval(qp.PauliY(1))],
    "mcm arithmetic / joint probs": lambda ms: ([qp.expval(2 * ms[0] - ms[1]), qp.probs(op=[ms[0], ms[1]]), qp.var(ms[0] + ms[1])] if len(ms) > 1 else [qp.expval(3 * ms[0] + 1), qp.probs(wires=[0, 1])]),
}
MEAS["two variances: var Z0, var X1"] = lambda ms: [qp.var(qp.PauliZ(0)), qp.var(qp.PauliX(1))]
MEAS["var m0, var Z1, expval Z0"] = lambda ms: [qp.var(ms[0]), qp.var(qp.PauliZ(1)), qp.expval(qp.PauliZ(0))]
MEAS["probs over an extra idle wire, expval Z(idle)"] = lambda ms: [qp.probs(wires=[0, 1, 3]), qp.expval(qp.PauliZ(3))]
METHODS = ["deferred", "tree-traversal"]


def build_tape(cname, mname, p):
    with qp.queuing.AnnotatedQueue() as q:
        ms = CIRCUITS[cname](p)
        MEAS[mname](ms)
    return qp.tape.QuantumScript.from_queue(q)


def run_method(tape, method):
    if method == "deferred":
        tapes, fn = qp.defer_measurements(tape)
        outs = []
        for t in tapes:
            _, res = simx.run_tape(t)
            outs.append(res if len(t.measurements) > 1 else res[0])
        res = fn(tuple(outs))
    else:
        SIM.float = lambda v: v  # shim: float(prob) keeps the solver term (the comparison with the pruning threshold forks)
        try:
            res = SIM.simulate_tree_mcm(tape.map_to_standard_wires())
        finally:
            SIM.__dict__.pop("float", None)
    return tuple(res) if isinstance(res, (tuple, list)) else (res,)


def _flat(x):
    return [v for v in sx.arr(np.asarray(x, dtype=object)).ravel()]


def _num(cname, mname, params, method):
    tape = build_tape(cname, mname, list(params))
    W = list(range(len(tape.wires)))
    tw = tape.map_to_standard_wires()
    try:
        if method == "deferred":
            got = qp.execute([tape], qp.device("default.qubit"), mcm_method="deferred")[0] if False else None
            tapes, fn = qp.defer_measurements(tape)
            got = fn(tuple(qp.devices.qubit.simulate(t) for t in tapes))
        else:
            got = SIM.simulate_tree_mcm(tw)
    except Exception as e:
        return True, f"{method} on {cname} [{mname}] at {list(params)}: raised {e!r}"
    got = tuple(got) if isinstance(got, (tuple, list)) else (got,)
    exp, total = dynsim.exact_results(tw, W)
    total = complex(total).real
    worst = 0.0
    for g, (kind, num) in zip(got, exp):
        if kind == "ratio":
            e = np.asarray(num, dtype=complex).ravel() / total
        else:
            e = np.asarray([complex(num[0]) / total - (complex(num[1]) / total) ** 2])
        g = np.asarray(g, dtype=complex).ravel()
        if g.shape != e.shape:
            return True, f"{method} on {cname} [{mname}]: result shape {g.shape} vs {e.shape}"
        d = float(np.max(np.abs(g - e)))
        if not np.isfinite(d):
            d = 9.9
        worst = max(worst, d)
    return worst > 1e-7, f"{method} on {cname} [{mname}] at {list(params)}: max|returned - exact branch average| = {worst:.3g}"


def replay(p):
    return _num(p["circuit"], p["meas"], p["params"], p["method"])


def work(item):
    cname, mname, method = item
    name = f"{method} on {cname} [{mname}]"
    sx.install_shims()

    def b(S):
        ps = [S.param(x) for x in PN]
        tape = build_tape(cname, mname, ps)
        has_ps = any(op.postselect is not None for op in dynsim.mcms_of(tape))
        try:
            got = run_method(tape, method)
        except ZeroDivisionError:
            if has_ps:  # the library sets the norm to exactly 0 and produces deliberately invalid (nan) results
                raise sx.OutOfBound("paths on which a postselected outcome has probability zero are excluded (the library returns invalid results there by design)")
            raise
        except sx.Unsupported as e:
            if has_ps and "non-finite" in str(e):
                raise sx.OutOfBound("paths on which a postselected outcome has probability zero are excluded (the library returns invalid results there by design)")
            raise
        tw = tape.map_to_standard_wires()
        exp, total = dynsim.exact_results(tw, list(range(len(tw.wires))))
        return tape, got, exp, total

    def consume(S, v, i):
        tape, got, exp, total = v

        def rp(model):
            p = [model["params"].get(x, 0.0) for x in PN]
            ok, obs = _num(cname, mname, p, method)
            return ok, {"circuit": cname, "meas": mname, "params": p, "method": method, "observed": obs}

        sig = f"{method}:{cname}:{mname}"
        out = []
        if any(op.postselect is not None for op in dynsim.mcms_of(tape)):
            flat = [x for g in got for x in np.asarray(g, dtype=object).ravel()]
            if any(not isinstance(x, sx.SymC) and not np.isfinite(complex(x)) for x in flat):
                return []  # zero-probability postselection path: the library returns nan by design (excluded, see assumptions)
        if len(got) != len(exp):
            import z3

            return [obl.prove_claim(S, f"{name} (path {i}): one result per measurement; got {len(got)}, expected {len(exp)}", z3.BoolVal(False), replay=rp, signature=sig, symbols=PN)]
        for k, (g, (kind, num)) in enumerate(zip(got, exp)):
            mpn = type(tape.measurements[k]).__name__
            gf = _flat(g)
            if kind == "ratio":
                nf = _flat(num)
                if len(gf) != len(nf):
                    import z3

                    out.append(obl.prove_claim(S, f"{name} (path {i}): result {k} has {len(nf)} entries; got {len(gf)}", z3.BoolVal(False), replay=rp, signature=sig, symbols=PN))
                    continue
                lhs, rhs = [x * total for x in gf], nf
            else:
                e2, e1 = num
                lhs, rhs = [gf[0] * total * total], [e2 * total - e1 * e1]
            rec = obl.prove(S, f"{name} (path {i}): result {k} ({mpn}) * weight == exact branch sum", lhs, rhs, replay=rp, signature=sig, timeout=90)
            if rec["status"] == "inconclusive" and "does not reproduce" in rec.get("detail", ""):
                rec = obl.prove(S, f"{name} (path {i}): result {k} ({mpn}) * weight == exact branch sum up to 1e-9", lhs, rhs, replay=rp, signature=sig, timeout=90, tol=1e-9)
            out.append(rec)
        return out

    try:
        return obl.run_instance(name, b, consume, max_paths=64)
    except (TypeError, AttributeError, IndexError, KeyError, ValueError, NotImplementedError) as e:
        import traceback

        tb = traceback.format_exc(limit=6)[-700:]
        try:
            ok, obs = _num(cname, mname, [0.3, -0.8, 1.9], method)
        except Exception as e2:
            ok, obs = False, f"replay raised {e2!r}"
        if ok:
            return [{"name": name + ": returns the exact results", "status": "violated", "symbols": PN, "nontrivial": True, "queries": 0, "signature": f"{method}:{cname}:{mname}", "detail": obs,
                     "replay": {"circuit": cname, "meas": mname, "params": [0.3, -0.8, 1.9], "method": method, "observed": obs}}]
        return [{"name": name, "status": "unsupported", "detail": f"{e!r} {tb}"}]


def run(ctx):
    ctx.level = "proof"
    items = [(c, m, meth) for c in CIRCUITS for m in MEAS for meth in METHODS]
    if ctx.only:
        items = [it for it in items if ctx.only in f"{it[2]} on {it[0]} [{it[1]}]"]
    ctx.shapes = len(items)
    ctx.encode(qp.defer_measurements, SIM.simulate_tree_mcm, SIM.get_final_state, SIM.measure_final_state)
    ctx.bound(parameters="all real gate angles (3 symbols)", circuits=list(CIRCUITS), measurements=list(MEAS), methods=METHODS, mcms="1-2 mid-circuit measurements, all outcome branches",
              outside="finite shots (one-shot / tree-traversal sampling, hw-like vs fill-shots postselection: statistical), dynamic_one_shot, jax / capture paths, broadcasting, more than 2 MCMs")
    ctx.assume(*sx.SHIM_NOTES, "shim: the builtin float() used on branch probabilities inside devices.qubit.simulate is the identity on solver terms",
               "paths on which a postselected outcome has probability zero are excluded: the library deliberately returns invalid (nan) results there",
               "oracle: vf.dynsim branch enumeration (matrix route); results compared after multiplying with the total branch weight (no division in the oracle)")
    ctx.rule = "one obligation per (circuit, measurement list, method, path, result); non-trivial = mentions a symbolic angle"
    ctx.pmap(work, items, timeout_each=900)
