"""C24 Circuit cutting reproduces the uncut expectation value (E1, partial: manually placed wire cuts, symbolic gate angles).

Every cut wire carries an X or S type rotation just before the cut, so that all four channels (I, X, Y, Z) of the cut contribute
(with real amplitudes only, the Y channel of a cut vanishes identically and a defect in it would be invisible).

Circuits with SYMBOLIC gate angles and qp.WireCut markers (one cut, two cuts on different wires, two cuts on the same wire, a cut
next to a measured wire, three fragments) go through the REAL qp.cut_circuit: graph construction, fragment extraction, expansion
into the preparation / measurement configurations, and the tensor-network post-processing.  Every fragment circuit is evaluated by
the matrix-route ORACLE (products of qp.matrix and own measurement formulas, with the angles symbolic), the REAL post-processing
function contracts the fragment results, and z3 proves for all angle values
    cut_circuit(tape) post-processed  ==  expectation value of the uncut circuit.
Structural: no fragment circuit is wider than the device wires it was mapped to.
Outside: automatic cut placement (kahypar / graph partitioning), cut_circuit_mc (sampling), shots, gates cut by WireCut on more
than one wire at once, opt_einsum contraction paths (use_opt_einsum=False is the default and the one checked).
"""
from __future__ import annotations

import numpy as np
import pennylane as qp

from vf import symx as sx, obl, simx

PN = ["a", "b", "g"]
CIRCUITS = {
    "one cut, 3 wires": (3, lambda p: [qp.RX(p[0], 0), qp.RY(p[1], 1), qp.CNOT([0, 1]), qp.RX(p[2], 1), qp.WireCut(wires=1), qp.CNOT([1, 2]), qp.RZ(p[2], 2), qp.RX(p[0], 2)], lambda: qp.PauliZ(0) @ qp.PauliZ(2)),
    "two cuts on different wires, 4 wires": (4, lambda p: [qp.RX(p[0], 0), qp.RY(p[1], 1), qp.CNOT([0, 1]), qp.CRZ(p[2], [1, 2]), qp.S(1), qp.RX(p[1], 2), qp.WireCut(wires=1), qp.WireCut(wires=2), qp.CNOT([1, 3]), qp.CZ([2, 3]), qp.RY(p[0], 3)],
                                             lambda: qp.PauliZ(0) @ qp.PauliX(3)),
    "two cuts on the same wire": (3, lambda p: [qp.RX(p[0], 0), qp.CNOT([0, 1]), qp.WireCut(wires=1), qp.RY(p[1], 1), qp.CNOT([1, 2]), qp.WireCut(wires=1), qp.RZ(p[2], 1), qp.CNOT([0, 1])],
                                  lambda: qp.PauliZ(1) @ qp.PauliY(2)),
    "cut next to the measured wire": (3, lambda p: [qp.Hadamard(0), qp.CRY(p[0], [0, 1]), qp.SX(1), qp.WireCut(wires=1), qp.RX(p[1], 1), qp.IsingXX(p[2], [1, 2])], lambda: qp.PauliX(1) @ qp.PauliZ(2) @ qp.PauliZ(0)),
    "three fragments in a chain": (4, lambda p: [qp.RY(p[0], 0), qp.CNOT([0, 1]), qp.RX(p[2], 1), qp.WireCut(wires=1), qp.RX(p[1], 1), qp.CNOT([1, 2]), qp.S(2), qp.WireCut(wires=2), qp.RZ(p[2], 2), qp.CNOT([2, 3]), qp.RY(p[0], 3)],
                                   lambda: qp.PauliZ(0) @ qp.PauliZ(3)),
}


def oracle_expvals(t):
    Wt = list(t.wires)
    psi = simx.oracle_state(t.operations, Wt)
    r = [np.asarray(simx.oracle_measure(psi, mp, Wt), dtype=object).ravel()[0] for mp in t.measurements]
    return tuple(r) if len(r) > 1 else r[0]


def evaluate(cname, p):
    n, build, obs = CIRCUITS[cname]
    tape = qp.tape.QuantumScript(build(p), [qp.expval(obs())])
    tapes, fn = qp.cut_circuit(tape, device_wires=qp.wires.Wires(list(range(n))))
    got = fn(tuple(oracle_expvals(t) for t in tapes))
    W = list(range(n))
    psi = simx.oracle_state([o for o in tape.operations if o.name != "WireCut"], W)
    want = simx.oracle_measure(psi, tape.measurements[0], W)
    widths = [len(t.wires) for t in tapes]
    return tapes, widths, got, want


def _num(cname, params):
    p = [float(v) for v in params]
    n = CIRCUITS[cname][0]
    try:
        tapes, widths, got, want = evaluate(cname, p)
    except Exception as e:  # noqa: BLE001
        return True, f"cut_circuit on '{cname}': raised {e!r}"
    if max(widths) > n:
        return True, f"cut_circuit on '{cname}': a fragment uses {max(widths)} wires, the device has {n}"
    d = abs(complex(np.asarray(got).ravel()[0]) - complex(np.asarray(want).ravel()[0]))
    return d > 1e-9, f"cut_circuit on '{cname}' at {dict(zip(PN, p))}: recombined value {complex(np.asarray(got).ravel()[0]).real:.6g}, uncut circuit {complex(np.asarray(want).ravel()[0]).real:.6g}"


def replay(p):
    return _num(p["circuit"], p["params"])


def work(cname):
    name = f"cut_circuit on '{cname}'"
    n = CIRCUITS[cname][0]
    sx.install_shims()

    def b(S):
        p = [S.param(x) for x in PN]
        return evaluate(cname, p)

    def consume(S, v, i):
        tapes, widths, got, want = v

        def rp(model):
            params = [model["params"].get(x, 0.0) for x in PN]
            ok, obs = _num(cname, params)
            return ok, {"circuit": cname, "params": params, "observed": obs}

        ok_w = max(widths) <= n
        rec = {"name": f"{name}: {len(tapes)} fragment circuits, none wider ({max(widths)}) than the device ({n} wires)", "status": "discharged" if ok_w else "violated", "symbols": PN, "nontrivial": True, "queries": 1,
               "detail": f"fragment widths {sorted(set(widths))}"}
        if not ok_w:
            rec.update(signature=f"width:{cname}", replay={"circuit": cname, "params": [0.3, -0.8, 1.9], "observed": f"fragment widths {widths}"})
        g = sx.arr(np.asarray(got, dtype=object)).ravel()
        w = sx.arr(np.asarray(want, dtype=object)).ravel()
        return [rec, obl.prove(S, f"{name}: post-processed fragment results == expectation value of the uncut circuit, for all angles", list(g), list(w), replay=rp, signature=f"cut:{cname}", timeout=180, tol=1e-9, over=list(w))]

    try:
        return obl.run_instance(name, b, consume, max_paths=8)
    except (TypeError, AttributeError, IndexError, KeyError, ValueError, NotImplementedError) as e:
        import traceback

        tb = traceback.format_exc(limit=6)[-500:]
        ok, obs = _num(cname, [0.3, -0.8, 1.9])
        if ok:
            return [{"name": name, "status": "violated", "symbols": PN, "nontrivial": True, "queries": 1, "signature": f"cut:{cname}", "detail": obs, "replay": {"circuit": cname, "params": [0.3, -0.8, 1.9], "observed": obs}}]
        return [{"name": name, "status": "unsupported", "detail": f"{e!r} {tb}"}]


def run(ctx):
    ctx.level = "other"
    items = list(CIRCUITS)
    if ctx.only:
        items = [it for it in items if ctx.only in it]
    ctx.shapes = len(items)
    ctx.encode(qp.cut_circuit, qp.qcut.tape_to_graph, qp.qcut.fragment_graph, qp.qcut.expand_fragment_tape, qp.qcut.qcut_processing_fn)
    ctx.bound(angles="all real values of 3 gate angles", circuits=list(CIRCUITS), cuts="manually placed WireCut markers: one, two on different wires, two on the same wire, next to a measured wire, a chain of three fragments",
              outside="automatic cut placement (graph partitioning), cut_circuit_mc (sampling), shots, opt_einsum contraction paths, more than 4 wires")
    ctx.assume(*sx.SHIM_NOTES[:3], "fragment circuits are evaluated by the matrix-route oracle (vf.simx), the real post-processing contracts the symbolic results", "tolerance 1e-9: the post-processing carries floating normalisation factors")
    ctx.rule = "per circuit: one z3 identity over all angles plus a structural fragment-width obligation (fragments fit the device)"
    ctx.pmap(work, items, timeout_each=900)
