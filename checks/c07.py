"""C07 Operator class attribute claims are true (E1).

The members of every attribute set in pennylane/ops/qubit/attributes.py are read at run time and
instantiated through the registry; each claim is proved for all parameter values."""
from __future__ import annotations

import itertools

import numpy as np
import pennylane as qp
from pennylane.ops.qubit import attributes as A

from vf import symx as sx, obl, registry

SETS = ["self_inverses", "symmetric_over_all_wires", "symmetric_over_control_wires", "diagonal_in_z_basis",
        "composable_rotations", "has_unitary_generator", "supports_broadcasting"]
PN = ["a", "b", "g"]


def permute_matrix(M, perm):
    """matrix of the same operator after relabelling wire k -> perm[k] (own re-indexing, the oracle)"""
    M = np.asarray(M, dtype=object)
    N = M.shape[0]
    n = N.bit_length() - 1

    def pidx(i):
        bits = [(i >> (n - 1 - k)) & 1 for k in range(n)]
        nb = [0] * n
        for k in range(n):
            nb[perm[k]] = bits[k]
        return int("".join(map(str, nb)), 2)

    out = np.empty_like(M)
    for i in range(N):
        for j in range(N):
            out[pidx(i), pidx(j)] = M[i, j]
    return out


def transpositions(idx):
    return [(i, j) for i, j in itertools.combinations(idx, 2)]


def members():
    """(set name, instance) pairs + unsupported names"""
    reg = registry.instances()
    bycls = {}
    for i in reg:
        bycls.setdefault(i.cls, []).append(i)
    # a registry class may have a bare key equal to the class plus variants; avoid duplicate Identity
    pairs, unsup = [], []
    alias = {"SQISW": "SISWAP"}
    for sname in SETS:
        for m in sorted(getattr(A, sname)):
            cls = alias.get(m, m)
            insts = bycls.get(cls)
            if cls == "DiagonalQubitUnitary" and sname == "diagonal_in_z_basis":
                pairs.append((sname, "DiagonalQubitUnitary"))
                continue
            if cls == "QubitUnitary" and sname == "supports_broadcasting":
                pairs.append((sname, "QubitUnitary"))
                continue
            if cls == "ControlledQubitUnitary" and sname == "supports_broadcasting":
                for v in ("cv=1", "cv=0", "2 controls cv=(0,1)", "2 controls cv=(1,0), controls after target"):
                    pairs.append((sname, f"ControlledQubitUnitary[{v}]"))
                continue
            if not insts:
                unsup.append((sname, m))
                continue
            for i in insts:
                pairs.append((sname, i.key))
    return pairs, unsup


def _num(sname, key, params, params2=None):
    """numeric re-evaluation of the claim on the unmodified library -> (violated?, observed text)"""
    inst = registry.by_key()[key]
    n = inst.nwires
    wires = list(range(n))
    fm = lambda op: np.asarray(qp.matrix(op, wire_order=wires), dtype=complex)
    if sname == "self_inverses":
        M = fm(inst.build(params))
        d = np.max(np.abs(M @ M - np.eye(2 ** n)))
    elif sname in ("symmetric_over_all_wires", "symmetric_over_control_wires"):
        M = fm(inst.build(params))
        idx = wires if sname == "symmetric_over_all_wires" else wires[:-1]
        d = 0.0
        for (i, j) in transpositions(idx):
            perm = list(range(n))
            perm[i], perm[j] = j, i
            d = max(d, np.max(np.abs(np.asarray(permute_matrix(M, perm), dtype=complex) - M)))
    elif sname == "diagonal_in_z_basis":
        M = fm(inst.build(params))
        d = np.max(np.abs(M - np.diag(np.diag(M))))
    elif sname == "composable_rotations":
        M1, M2 = fm(inst.build(params)), fm(inst.build(params2))
        if inst.cls == "Rot":
            Pm = M1 @ M2
            d = max(np.max(np.abs(Pm.conj().T @ Pm - np.eye(2))), abs(np.linalg.det(Pm) - 1))
        else:
            M12 = fm(inst.build([x + y for x, y in zip(params, params2)]))
            d = np.max(np.abs(M1 @ M2 - M12))
    elif sname == "has_unitary_generator":
        G, c = qp.generator(inst.build(params), "prefactor")
        Gm = fm(G) * c
        GG = Gm.conj().T @ Gm
        lam = GG[0, 0]
        d = np.max(np.abs(GG - lam * np.eye(2 ** n))) + (1.0 if abs(lam) < 1e-9 else 0.0)
    elif sname == "supports_broadcasting":
        arrs = [np.array([x, y]) for x, y in zip(params, params2)]
        Mb = np.asarray(qp.matrix(inst.build(arrs), wire_order=wires), dtype=complex)
        d = max(np.max(np.abs(Mb[0] - fm(inst.build(params)))), np.max(np.abs(Mb[1] - fm(inst.build(params2)))))
    else:
        raise KeyError(sname)
    d = float(d)
    return d > 1e-6, f"{sname}({key}) defect {d:.3g} at params {list(map(float, params))}" + (f", {list(map(float, params2))}" if params2 else "")


CQU_VARIANTS = {"cv=1": ([1, 0], [1]), "cv=0": ([1, 0], [0]), "2 controls cv=(0,1)": ([1, 2, 0], [0, 1]), "2 controls cv=(1,0), controls after target": ([2, 0, 1], [1, 0])}


def _cqu(U, cw, cv):
    return qp.ControlledQubitUnitary(U, wires=cw, control_values=cv, unitary_check=False) if "unitary_check" in qp.ControlledQubitUnitary.__init__.__code__.co_varnames else qp.ControlledQubitUnitary(U, wires=cw, control_values=cv)


def _cqu_num(name, variant, vals):
    """batched ControlledQubitUnitary against its per-element matrices on plain numbers"""
    cw, cv = CQU_VARIANTS[variant]
    order = sorted(cw)
    Un = np.array([[[complex(vals.get(f"u{b}{r}{c}_re", 0.3 * (b + 1) - 0.2 * r), vals.get(f"u{b}{r}{c}_im", 0.1 * c - 0.4 * b)) for c in range(2)] for r in range(2)] for b in range(2)])
    Mbn = np.asarray(qp.matrix(_cqu(Un, cw, cv), wire_order=order), dtype=complex)
    d = max(float(np.max(np.abs(Mbn[b] - np.asarray(qp.matrix(_cqu(Un[b], cw, cv), wire_order=order), dtype=complex)))) for b in range(2))
    return d > 1e-9, f"{name}: batched matrix differs from the per-element matrices by {d:.3g}"


def replay(payload):
    key = payload["key"]
    if key.startswith("ControlledQubitUnitary["):
        return _cqu_num(f"{payload['set']}:{key}", key[len("ControlledQubitUnitary["):-1], payload.get("values", {}))
    return _num(payload["set"], payload["key"], payload["params"], payload.get("params2"))


def work(item):
    sname, key = item
    name = f"{sname}:{key}"
    if key == "DiagonalQubitUnitary":
        def build(S):
            d = np.array([np.exp(1j * S.param(f"t{k}", wrap=False)) for k in range(4)], dtype=object)
            return sx.arr(qp.DiagonalQubitUnitary(d, wires=[0, 1]).matrix()), d

        def consume(S, v, i):
            M, d = v
            off = [M[r, c] for r in range(4) for c in range(4) if r != c]
            return [obl.prove(S, f"{name}: off-diagonal entries vanish, diagonal == data (symbolic phases)", off + [M[k, k] - d[k] for k in range(4)])]

        return obl.run_instance(name, build, consume)
    if key == "QubitUnitary":
        def build(S):
            U = np.array([[[S.cplx(f"u{b}{r}{c}") for c in range(2)] for r in range(2)] for b in range(2)], dtype=object)
            op = qp.QubitUnitary(U, wires=0, unitary_check=False)
            return sx.arr(op.matrix()), U

        def consume(S, v, i):
            return [obl.prove(S, f"{name}: batched matrix == stack of elements (symbolic entries)", v[0], v[1], twin=False)]

        return obl.run_instance(name, build, consume)
    if key.startswith("ControlledQubitUnitary["):
        variant = key[len("ControlledQubitUnitary["):-1]
        cfg = {"cv=1": ([1, 0], [1]), "cv=0": ([1, 0], [0]), "2 controls cv=(0,1)": ([1, 2, 0], [0, 1]), "2 controls cv=(1,0), controls after target": ([2, 0, 1], [1, 0])}[variant]
        cw, cv = cfg
        order = sorted(cw)

        def cqu(U):
            return qp.ControlledQubitUnitary(U, wires=cw, control_values=cv, unitary_check=False) if "unitary_check" in qp.ControlledQubitUnitary.__init__.__code__.co_varnames else qp.ControlledQubitUnitary(U, wires=cw, control_values=cv)

        def build(S):
            U = np.array([[[S.cplx(f"u{b}{r}{c}") for c in range(2)] for r in range(2)] for b in range(2)], dtype=object)
            Mb = sx.arr(qp.matrix(cqu(U), wire_order=order))
            Ms = [sx.arr(qp.matrix(cqu(U[b]), wire_order=order)) for b in range(2)]
            return Mb, Ms, U

        def consume(S, v, i):
            Mb, Ms, U = v

            def rp(model):
                vals = {k_: float(v_) for k_, v_ in model.get("vars", {}).items() if k_.startswith("u")}
                ok, obs = _cqu_num(name, variant, vals)
                return ok, {"set": sname, "key": key, "params": [], "values": vals, "observed": obs}

            return [obl.prove(S, f"{name}: batched matrix == stack of per-element matrices (symbolic unitary entries)", Mb, np.stack(Ms), replay=rp, signature=f"{sname}:{key}", twin=False)]

        try:
            return obl.run_instance(name, build, consume)
        except (TypeError, ValueError, AttributeError, IndexError) as e:
            return [obl.unsupported(name, e)]
    inst = registry.by_key()[key]
    n = inst.nwires
    wires = list(range(n))
    names = PN[:inst.nparams]
    names2 = [x + "2" for x in names]

    def M_of(ps):
        return sx.arr(qp.matrix(inst.build(ps), wire_order=wires))

    def build(S):
        ps = [S.param(x) for x in names]
        out = {"M": M_of(ps)}
        if sname == "composable_rotations":
            ps2 = [S.param(x) for x in names2]
            out["M2"] = M_of(ps2)
            if inst.cls != "Rot":
                out["M12"] = M_of([x + y for x, y in zip(ps, ps2)])
        if sname == "has_unitary_generator":
            G, c = qp.generator(inst.build(ps), "prefactor")
            out["G"] = sx.arr(qp.matrix(G, wire_order=wires)) * c
        if sname == "supports_broadcasting":
            ps2 = [S.param(x) for x in names2]
            out["M2"] = M_of(ps2)
            pb = [np.array([S.param(x, wrap=False), S.param(y, wrap=False)], dtype=object) for x, y in zip(names, names2)]
            out["Mb"] = sx.arr(qp.matrix(inst.build(pb), wire_order=wires))
        return out

    def consume(S, v, i):
        M = v["M"]
        if names:
            obl.validate(S, M, lambda th: qp.matrix(inst.build([th[x] for x in names]), wire_order=wires), names=names, what=name)

        def rp(model):
            p1 = [model["params"].get(x, 0.0) for x in names]
            p2 = [model["params"].get(x, 0.0) for x in names2]
            ok, obs = _num(sname, key, p1, p2)
            return ok, {"set": sname, "key": key, "params": p1, "params2": p2, "observed": obs}

        kw = dict(replay=rp, signature=name)
        N = 2 ** n
        if sname == "self_inverses":
            return [obl.prove(S, f"{name}: M.M == I", np.dot(M, M), np.eye(N), **kw)]
        if sname in ("symmetric_over_all_wires", "symmetric_over_control_wires"):
            idx = wires if sname == "symmetric_over_all_wires" else wires[:-1]
            recs = []
            for (a, b) in transpositions(idx):
                perm = list(range(n))
                perm[a], perm[b] = b, a
                recs.append(obl.prove(S, f"{name}: invariant under swapping wires {a}<->{b}", permute_matrix(M, perm), M, **kw))
            if not recs:
                recs.append(obl.prove(S, f"{name}: single wire, nothing to permute", [S.lift(0)], **kw))
            return recs
        if sname == "diagonal_in_z_basis":
            off = [M[r, c] for r in range(N) for c in range(N) if r != c]
            return [obl.prove(S, f"{name}: off-diagonal entries vanish", off, **kw)]
        if sname == "composable_rotations":
            Pm = np.dot(M, v["M2"])
            if inst.cls == "Rot":
                det = Pm[0, 0] * Pm[1, 1] - Pm[0, 1] * Pm[1, 0]
                return [obl.prove(S, f"{name}: Rot(a).Rot(b) is unitary with det 1 (docstring: angles do not add)",
                                  list(np.dot(sx.dagger(Pm), Pm).ravel()) + [det], list(np.eye(2).ravel()) + [1], **kw)]
            return [obl.prove(S, f"{name}: U(a)U(b) == U(a+b)", Pm, v["M12"], **kw)]
        if sname == "has_unitary_generator":
            G = v["G"]
            GG = np.dot(sx.dagger(G), G)
            lam = GG[0, 0]
            polys = [GG[r, c] - (lam if r == c else 0) for r in range(N) for c in range(N)]
            lamc = lam.const_complex()
            if lamc is None or abs(lamc) < 1e-12:
                return [{"name": f"{name}: generator proportional to a unitary", "status": "inconclusive", "symbols": [], "detail": f"G^dagger G[0,0] = {lam!r}"}]
            return [obl.prove(S, f"{name}: G^dagger G == lambda*I (lambda={lamc.real:.4g})", polys, **kw)]
        if sname == "supports_broadcasting":
            return [obl.prove(S, f"{name}: batched matrix == stack of per-element matrices", v["Mb"], np.stack([M, v["M2"]]), **kw)]
        raise KeyError(sname)

    return obl.run_instance(name, build, consume)


def run(ctx):
    ctx.level = "proof"
    pairs, unsup = members()
    if ctx.only:
        pairs = [p for p in pairs if ctx.only in f"{p[0]}:{p[1]}"]
    for sname, m in unsup:
        ctx.add({"name": f"{sname}:{m}", "status": "unsupported", "detail": "no closed-form symbolic matrix (embedding/state preparation/numeric unitary)"})
    ctx.shapes = len(pairs)
    ctx.encode(A.Attribute, qp.matrix, qp.generator)
    ctx.extra["attribute_sets"] = {s: sorted(getattr(A, s)) for s in SETS}
    ctx.bound(parameters="all real values", batch="2 symbolic elements", variable_wire="same instance family as C02")
    ctx.assume(*sx.SHIM_NOTES)
    ctx.rule = "one obligation per (attribute set, member instance[, wire transposition]); non-trivial = mentions a symbolic variable"
    ctx.pmap(work, pairs, timeout_each=300)
