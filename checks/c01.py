"""C01 Operator representations describe one and the same linear map (E1).

Per registry instance, for all parameter values:
 (a) matrix == product of the matrices of op.decomposition()
 (b) D.M.D^dagger == diag(eigvals) with D from diagonalizing_gates()   (closed-form eigvals only)
 (c) U(0) == I and dU/dtheta == i*coeff*G*U  with (G, coeff) = qp.generator(op, 'prefactor')
 (d) qp.matrix(op, wire_order=w) == own re-indexing of op.matrix(), permuted/extended/string labels
 (f) pauli_rep matrix == matrix   (parameter-free ops that expose one)
and availability flags: has_X true => X is produced; has_X false => the documented *UndefinedError."""
from __future__ import annotations

import numpy as np
import pennylane as qp

from vf import symx as sx, obl, registry
from vf.common import DISCHARGED, VIOLATED, UNSUPPORTED

PN = ["a", "b", "g"]
LABELS = ["q0", "aux", "b", 7]


def _flags(op):
    """availability flags honoured?  -> list of problems (concrete, structural)"""
    probs = []
    chk = [("has_matrix", lambda: op.matrix(), qp.operation.MatrixUndefinedError),
           ("has_decomposition", lambda: op.decomposition(), qp.operation.DecompositionUndefinedError),
           ("has_diagonalizing_gates", lambda: op.diagonalizing_gates(), qp.operation.DiagGatesUndefinedError),
           ("has_generator", lambda: op.generator(), qp.operation.GeneratorUndefinedError)]
    for flag, fn, err in chk:
        have = getattr(op, flag, None)
        if have is None:
            continue
        try:
            with qp.QueuingManager.stop_recording():
                fn()
            produced = True
            wrong_err = None
        except err:
            produced = False
            wrong_err = None
        except Exception as e:  # some other exception
            produced = False
            wrong_err = repr(e)
        if have and not produced:
            probs.append(f"{flag}=True but not produced ({wrong_err or err.__name__})")
        if (not have) and (produced or wrong_err):
            probs.append(f"{flag}=False but " + ("a value was produced" if produced else f"raised {wrong_err} instead of {err.__name__}"))
    return probs


def _num(kind, key, params, extra=None):
    """numeric re-evaluation on the unmodified library"""
    inst = registry.by_key()[key]
    n = inst.nwires
    wires = list(range(n))
    op = inst.build(params)
    M = np.asarray(qp.matrix(op, wire_order=wires), dtype=complex)
    if kind == "decomposition":
        with qp.QueuingManager.stop_recording():
            dec = op.decomposition()
        D = np.asarray(obl.mat_of_ops(dec, wires), dtype=complex)
        d = np.max(np.abs(D - M))
    elif kind == "eigvals":
        with qp.QueuingManager.stop_recording():
            dg = op.diagonalizing_gates()
        Dm = np.asarray(obl.mat_of_ops(dg, wires), dtype=complex)
        ev = np.asarray(op.eigvals(), dtype=complex)
        if len(ev) == 1 and M.shape[0] > 1:
            ev = np.repeat(ev, M.shape[0])
        d = np.max(np.abs(Dm @ M @ Dm.conj().T - np.diag(ev)))
    elif kind == "generator":
        G, c = qp.generator(op, "prefactor")
        Gm = np.asarray(qp.matrix(G, wire_order=wires), dtype=complex) * c
        h = 1e-6
        Mp = np.asarray(qp.matrix(inst.build([params[0] + h]), wire_order=wires), dtype=complex)
        Mm = np.asarray(qp.matrix(inst.build([params[0] - h]), wire_order=wires), dtype=complex)
        M0 = np.asarray(qp.matrix(inst.build([0.0]), wire_order=wires), dtype=complex)
        d = max(np.max(np.abs((Mp - Mm) / (2 * h) - 1j * Gm @ M)) - 1e-5, np.max(np.abs(M0 - np.eye(2 ** n))))
    elif kind == "wire_order":
        labels, wo = extra["labels"], extra["wire_order"]
        opl = inst.build(params, wires=labels)
        got = np.asarray(qp.matrix(opl, wire_order=wo), dtype=complex)
        exp = np.asarray(sx.embed(np.asarray(qp.matrix(op, wire_order=wires)), labels, wo), dtype=complex)
        d = np.max(np.abs(got - exp))
    elif kind == "pauli_rep":
        pr = op.pauli_rep
        d = np.max(np.abs(np.asarray(pr.to_mat(wire_order=wires), dtype=complex) - M))
    else:
        raise KeyError(kind)
    d = float(d)
    return d > 1e-6, f"{kind}({key}) defect {d:.3g} at params {list(map(float, params))} {extra or ''}"


def replay(payload):
    if payload["kind"] == "flags":
        inst = registry.by_key()[payload["key"]]
        probs = _flags(inst.build(payload["params"]))
        return bool(probs), "; ".join(probs)
    return _num(payload["kind"], payload["key"], payload["params"], payload.get("extra"))


def wire_orders(n):
    """(labels, wire_order) variants: ints reversed, strings with an extra wire, mixed"""
    out = []
    ints = list(range(n))
    if n > 1:
        out.append((ints, ints[::-1]))
        out.append((ints, ints[1:] + ints[:1]))
    out.append((ints, [n] + ints))
    lab = LABELS[:n] if n <= len(LABELS) else [f"w{i}" for i in range(n)]
    out.append((lab, lab[::-1] + ["extra"]) if n < 4 else (lab, lab[::-1]))
    return out


def work(key):
    inst = registry.by_key()[key]
    n = inst.nwires
    wires = list(range(n))
    names = PN[:inst.nparams]
    recs = []

    # availability flags (concrete, on generic angles)
    try:
        gen = [0.37, -1.21, 2.53][:inst.nparams]
        probs = _flags(inst.build(gen))
        rec = {"name": f"{key}: availability flags honoured", "symbols": [], "nontrivial": False, "solver": "concrete structural check"}
        if probs:
            rec.update(status=VIOLATED, signature=f"{key}:flags", detail="; ".join(probs), replay={"kind": "flags", "key": key, "params": gen})
        else:
            rec.update(status=DISCHARGED)
        recs.append(rec)
    except Exception as e:
        recs.append(obl.harness_error(f"{key}: flags", e))

    def build(S):
        ps = [S.param(x) for x in names]
        op = inst.build(ps)
        out = {"M": sx.arr(qp.matrix(op, wire_order=wires)), "un": []}
        # (a) decomposition
        if op.has_decomposition:
            try:
                with qp.QueuingManager.stop_recording():
                    dec = op.decomposition()
                out["dec"] = sx.arr(obl.mat_of_ops(dec, wires))
                out["dec_names"] = [d.name for d in dec]
            except sx.Granularity:
                raise
            except (sx.Unsupported, TypeError, ValueError, AttributeError) as e:
                out["un"].append(("decomposition", e))
        # (b) eigvals + diagonalizing gates
        if op.has_diagonalizing_gates:
            try:
                with qp.QueuingManager.stop_recording():
                    dg = op.diagonalizing_gates()
                ev = op.eigvals()
                out["Dm"] = sx.arr(obl.mat_of_ops(dg, wires))
                out["ev"] = sx.arr(ev)
            except sx.Granularity:
                raise
            except (sx.Unsupported, TypeError, ValueError, AttributeError, qp.operation.EigvalsUndefinedError, np.linalg.LinAlgError) as e:
                out["un"].append(("eigvals", e))
        # (c) generator
        if inst.nparams == 1 and op.has_generator:
            try:
                G, c = qp.generator(op, "prefactor")
                out["G"] = sx.arr(qp.matrix(G, wire_order=wires)) * c
            except sx.Granularity:
                raise
            except (sx.Unsupported, TypeError, ValueError, AttributeError) as e:
                out["un"].append(("generator", e))
        # (d) wire orders
        out["wo"] = []
        for labels, wo in wire_orders(n):
            opl = inst.build(ps, wires=labels)
            out["wo"].append((labels, wo, sx.arr(qp.matrix(opl, wire_order=wo))))
        # (f) pauli rep
        if inst.nparams == 0 and getattr(op, "pauli_rep", None) is not None:
            try:
                out["pr"] = sx.arr(op.pauli_rep.to_mat(wire_order=wires))
            except Exception as e:
                out["un"].append(("pauli_rep", e))
        return out

    def consume(S, v, i):
        rs = []
        M = v["M"]
        if names:
            obl.validate(S, M, lambda th: qp.matrix(inst.build([th[x] for x in names]), wire_order=wires), names=names, what=key)
        for kind, e in v["un"]:
            rs.append(obl.unsupported(f"{key}: {kind}", e))

        def rp(kind, extra=None):
            def f(model):
                p = [model["params"].get(x, 0.0) for x in names]
                ok, obs = _num(kind, key, p, extra)
                return ok, {"kind": kind, "key": key, "params": p, "extra": extra, "observed": obs}
            return f

        if "dec" in v:
            rs.append(obl.prove(S, f"{key}: matrix == product of decomposition {v['dec_names']}", M, v["dec"], replay=rp("decomposition"), signature=f"{key}:decomposition"))
        if "Dm" in v:
            Dm, ev = v["Dm"], v["ev"]
            lhs = np.dot(Dm, np.dot(M, sx.dagger(Dm)))
            rhs = np.zeros(lhs.shape, dtype=object)
            if len(ev) == 1 and lhs.shape[0] > 1:  # wire-less operators (GlobalPhase): one eigenvalue for the whole space
                ev = np.array([ev[0]] * lhs.shape[0], dtype=object)
            for k in range(len(ev)):
                rhs[k, k] = ev[k]
            rs.append(obl.prove(S, f"{key}: D.M.D^dagger == diag(eigvals)", lhs, rhs, replay=rp("eigvals"), signature=f"{key}:eigvals"))
        if "G" in v:
            G = v["G"]
            dM = sx.d_dparam(S, M, names[0])
            rhs = np.dot(G, M) * S.I()
            M0 = sx.at_param_zero(S, M, names[0])
            rs.append(obl.prove(S, f"{key}: U(0)==I and dU/dtheta == i*G*U (=> U = exp(i*theta*G))",
                                list(dM.ravel()) + list(M0.ravel()), list(rhs.ravel()) + list(sx.arr(np.eye(M.shape[0])).ravel()),
                                replay=rp("generator"), signature=f"{key}:generator"))
        for labels, wo, got in v["wo"]:
            exp = sx.embed(M, labels, wo)
            ex = {"labels": labels, "wire_order": wo}
            rs.append(obl.prove(S, f"{key}: qp.matrix(wires={labels}, wire_order={wo}) == re-indexed matrix", got, exp,
                                replay=rp("wire_order", ex), signature=f"{key}:wire_order"))
        if "pr" in v:
            rs.append(obl.prove(S, f"{key}: pauli_rep matrix == matrix", v["pr"], M, replay=rp("pauli_rep"), signature=f"{key}:pauli_rep"))
        return rs

    return recs + obl.run_instance(key, build, consume)


def run(ctx):
    ctx.level = "proof"
    insts = registry.instances()
    if ctx.only:
        insts = [i for i in insts if ctx.only in i.key]
    ctx.shapes = len(insts)
    ctx.encode(qp.matrix, qp.generator, qp.math.expand_matrix, qp.operation.Operator.matrix)
    ctx.encode(*{getattr(qp, i.cls) for i in insts})
    ctx.bound(parameters="all real values", wire_orders="reversed, rotated, extended by one wire, string labels",
              outside="sparse matrices, fractional powers, numeric eigvals fallbacks (listed unsupported), capability of templates")
    ctx.assume(*sx.SHIM_NOTES, "generator obligation: by uniqueness of the linear ODE U'=iGU, U(0)=I the matrix equals exp(i*theta*G) for every theta")
    ctx.rule = "one obligation per (instance, representation pair); non-trivial = mentions a symbolic variable; flag checks are concrete and counted trivial"
    ctx.pmap(work, [i.key for i in insts], timeout_each=300 if ctx.tier == "quick" else 1500)
