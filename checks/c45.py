"""C45 Wires behave as an ordered set of labels (E2: CrossHair over the real Wires class)."""
from vf.e2check import make

run, replay = make(
    ["c45_wires.py"],
    encode=["pennylane.wires:Wires", "pennylane.wires:_process"],
    bounds=dict(label_lists="<=4 symbolic int labels per Wires object (<=3 for binary/ternary operations)",
                mixed_labels="symbolic selections from a fixed pool of 8 int/str/tuple labels",
                subset_indices="distinct and in range (out-of-range / repeated indices are read as preconditions of subset)",
                outside="jax/numpy-array inputs to the constructor, select_random, pytree flattening"),
    assumptions=["oracle: Python set / list operations on the label lists"],
)
