"""C47 Resource estimation composes additively (vf.symbit: the real estimator on z3 integers).

(1) Inductive step on the real `WireResourceManager`: arbitrary non-negative symbolic `zeroed`, `any_state`, `algo_wires`,
    free `tight_budget`, ONE `grab_zeroed(n)` / `free_wires(n)` with symbolic n >= 0.  Proved on every path: counters stay
    >= 0, total_wires >= algo_wires, the total never decreases and is conserved unless new wires had to be added (by exactly
    the shortfall), any_state moves by exactly n, the documented ValueErrors are raised exactly in the documented cases.
(2) Additivity with SYMBOLIC repetition counts: the real `estimate` is run on `Resources{A: n, B: m}` (and on `n*A`-style
    workflows) with n, m z3 integers >= 0 and symbolic initial zeroed / any_state budgets; every gate count of the result is
    proved equal to n*count_A + m*count_B (count_A from estimating A alone), the wire totals satisfy the accounting identity
    any_state_final = any_state_initial + n*net(A) + m*net(B), nothing goes negative, total >= algorithmic wires.
(3) Repetition: `Pow(A, z)` and `Pow(Pow(A, z0), z)` with symbolic exponents: counts = z*counts(A) resp. z*z0*counts(A) for
    operators without their own power rule.
"""
from __future__ import annotations

import itertools
import warnings

import z3

import pennylane.estimator as qre
from pennylane.estimator.estimate import estimate
from pennylane.estimator.resources_base import Resources
from pennylane.estimator.wires_manager import WireResourceManager

from vf import symbit as sb
from vf.common import DISCHARGED, VIOLATED, INCONCLUSIVE, HARNESS_ERROR

warnings.filterwarnings("ignore")

OPS = {
    "QFT3": lambda: qre.QFT(3), "Toffoli": lambda: qre.Toffoli(), "MCX5": lambda: qre.MultiControlledX(5, 1), "MCX3": lambda: qre.MultiControlledX(3, 0),
    "SemiAdder4": lambda: qre.SemiAdder(4), "RX": lambda: qre.RX(1e-3), "CRY": lambda: qre.CRY(), "QROM": lambda: qre.QROM(8, 4),
    "AdjQFT": lambda: qre.Adjoint(qre.QFT(2)), "CtrlSemi": lambda: qre.Controlled(qre.SemiAdder(3), 1, 0), "PowT3": lambda: qre.Pow(qre.T(), 3),
    "PowQFT3": lambda: qre.Pow(qre.QFT(2), 3), "AdjSemi": lambda: qre.Adjoint(qre.SemiAdder(4)), "Square": lambda: qre.OutOfPlaceSquare(3),
    "IntCmp": lambda: qre.IntegerComparator(5, 3), "AdjQROM": lambda: qre.Adjoint(qre.QROM(8, 4)), "SelectPauliRot": lambda: qre.SelectPauliRot("Z", 3, 1e-3),
    "PowPowQFT": lambda: qre.Pow(qre.Pow(qre.QFT(2), 3), 2), "CtrlQROM": lambda: qre.Controlled(qre.QROM(8, 4), 2, 1), "PhaseGrad": lambda: qre.PhaseGradient(4),
    # net-positive / net-NEGATIVE wire bookkeeping (an un-computation releases the wires its partner left allocated)
    "Alias": lambda: qre.AliasSampling(num_coeffs=3), "AdjAlias": lambda: qre.Adjoint(qre.AliasSampling(num_coeffs=3)),
}
QUICK_OPS = ["QFT3", "MCX5", "SemiAdder4", "QROM", "AdjQFT", "CtrlSemi", "PowQFT3", "AdjQROM", "PowPowQFT", "IntCmp", "Alias", "AdjAlias"]
POW_BASES = {"QFT2": lambda: qre.QFT(2), "SemiAdder3": lambda: qre.SemiAdder(3), "MCX4": lambda: qre.MultiControlledX(4, 1), "CRY": lambda: qre.CRY(),
             "QROM": lambda: qre.QROM(4, 3), "AdjQFT2": lambda: qre.Adjoint(qre.QFT(2)), "CtrlSemi": lambda: qre.Controlled(qre.SemiAdder(2), 1, 0)}


def _counts(res):
    out = {}
    for g, v in res.gate_types.items():
        out[g] = out.get(g, 0) + v
    return out


def _concrete(op, zeroed=0, any_state=0):
    r = estimate(op, zeroed_wires=zeroed, any_state_wires=any_state)
    return r


# ------------------------------------------------------------------ (1) wire manager step
def wm_work(kind):
    name = f"WireResourceManager.{kind} from an arbitrary state"

    def build(S):
        zeroed, any_state, algo, n = S.int("zeroed", 0), S.int("any_state", 0), S.int("algo", 0), S.int("n", 0)
        tight = S.bit("tight")
        m = WireResourceManager(zeroed, any_state, algo, tight)
        total0 = m.total_wires
        try:
            getattr(m, kind)(n)
            raised = False
        except ValueError:
            raised = True
        return dict(pre=(zeroed, any_state, algo, n, tight, total0), m=m, raised=raised)

    def claims(S, v):
        zeroed, any_state, algo, n, tight, total0 = v["pre"]
        m = v["m"]
        Z0, Y0, A0, N, T = sb.zi(zeroed), sb.zi(any_state), sb.zi(algo), sb.zi(n), sb.z(tight)
        if v["raised"]:
            if kind == "grab_zeroed":
                return [("ValueError only when tight_budget and n > zeroed", z3.And(T, N > Z0))]
            return [("ValueError only when n > any_state", N > Y0)]
        Z1, Y1, A1, TOT1 = sb.zi(m.zeroed), sb.zi(m.any_state), sb.zi(m.algo_wires), sb.zi(m.total_wires)
        out = [("counters stay non-negative", z3.And(Z1 >= 0, Y1 >= 0, A1 >= 0)), ("algorithmic wires untouched", A1 == A0),
               ("total_wires >= algo_wires", TOT1 >= A1), ("total never decreases", TOT1 >= sb.zi(total0)), ("total = zeroed + any_state + algo", TOT1 == Z1 + Y1 + A1)]
        if kind == "grab_zeroed":
            out += [("any_state grows by exactly n", Y1 == Y0 + N),
                    ("new wires are added exactly by the shortfall", TOT1 - sb.zi(total0) == z3.If(N > Z0, N - Z0, 0)),
                    ("no error although tight budget exceeded", z3.Not(z3.And(T, N > Z0)))]
        else:
            out += [("any_state shrinks and zeroed grows by exactly n", z3.And(Y1 == Y0 - N, Z1 == Z0 + N)), ("total conserved", TOT1 == sb.zi(total0)),
                    ("no error although more wires freed than available", N <= Y0)]
        return out

    return _prove(name, build, claims, {"kind": "wm", "method": kind}, ["zeroed", "any_state", "algo", "n", "tight"])


# ------------------------------------------------------------------ (2) additivity with symbolic counts
def add_work(item):
    ka, kb = item
    name = f"estimate(Resources{{{ka}: n, {kb}: m}})"
    A, B = OPS[ka](), OPS[kb]()
    BIG = 10 ** 6
    ra, rb = _concrete(A, any_state=BIG), _concrete(B, any_state=BIG)
    ca, cb = _counts(ra), _counts(rb)
    net_a, net_b = ra.any_state_wires - BIG, rb.any_state_wires - BIG
    algo = max(ra.algo_wires, rb.algo_wires)

    def build(S):
        n, m = S.int("n", 0), S.int("m", 0)
        z0, y0 = S.int("zeroed0", 0), S.int("any0", 0)
        gt = {A.resource_rep_from_op(): n}
        rb_ = B.resource_rep_from_op()
        if rb_ in gt:
            gt[rb_] = n + m
        else:
            gt[rb_] = m
        w = Resources(zeroed_wires=0, any_state_wires=0, algo_wires=algo, gate_types=gt)
        try:
            r = estimate(w, zeroed_wires=z0, any_state_wires=y0)
            return dict(r=r, pre=(n, m, z0, y0), raised=None)
        except ValueError as e:
            return dict(r=None, pre=(n, m, z0, y0), raised=str(e)[:80])

    def claims(S, v):
        n, m, z0, y0 = v["pre"]
        N, M, Z0, Y0 = sb.zi(n), sb.zi(m), sb.zi(z0), sb.zi(y0)
        if v["raised"]:
            # freeing more any_state wires than available: only possible if some prefix of the bookkeeping is net-negative
            return [("ValueError only for workflows that release more than they hold", z3.BoolVal(net_a < 0 or net_b < 0 or "Freeing" in v["raised"]))]
        r = v["r"]
        got = _counts(r)
        out = []
        for g in set(got) | set(ca) | set(cb):
            out.append((f"count[{g.name}] = n*{ca.get(g, 0)} + m*{cb.get(g, 0)}", sb.zi(got.get(g, 0)) == N * ca.get(g, 0) + M * cb.get(g, 0)))
        Z1, Y1 = sb.zi(r.zeroed_wires), sb.zi(r.any_state_wires)
        out += [("wire counters non-negative", z3.And(Z1 >= 0, Y1 >= 0)), ("algorithmic wires reported unchanged", z3.BoolVal(r.algo_wires == algo)),
                ("any_state accounts for every allocation: any0 + n*net(A) + m*net(B)", Y1 == Y0 + N * net_a + M * net_b),
                ("auxiliary wires never disappear", Z1 + Y1 >= Z0 + Y0)]
        return out

    return _prove(name, build, claims, {"kind": "add", "ops": [ka, kb]}, ["n", "m", "zeroed0", "any0"])


def scalar_work(ka):
    """n * A through the public operator arithmetic (ResourceOperator.__rmul__ / Resources.__mul__)"""
    name = f"estimate(n * {ka}) and estimate(({ka} add_series {ka}).multiply_series(n))"
    A = OPS[ka]()
    ca = _counts(_concrete(A, any_state=10 ** 6))

    def build(S):
        n = S.int("n", 1, 5000)  # bounded so that a net-negative operator cannot exhaust the 10^6 any_state wires it is given
        w1 = n * A
        r1 = estimate(w1, any_state_wires=10 ** 6)
        w2 = (1 * A).add_series(1 * A).multiply_series(n)
        r2 = estimate(w2, any_state_wires=10 ** 6)
        return r1, r2, n

    def claims(S, v):
        r1, r2, n = v
        N = sb.zi(n)
        out = []
        g1, g2 = _counts(r1), _counts(r2)
        for g in set(g1) | set(g2) | set(ca):
            out.append((f"(n*A) count[{g.name}] = n*{ca.get(g, 0)}", sb.zi(g1.get(g, 0)) == N * ca.get(g, 0)))
            out.append((f"((A+A)*n) count[{g.name}] = 2n*{ca.get(g, 0)}", sb.zi(g2.get(g, 0)) == 2 * N * ca.get(g, 0)))
        return out

    return _prove(name, build, claims, {"kind": "scalar", "ops": [ka]}, ["n"])


# ------------------------------------------------------------------ (3) symbolic Pow exponents
def _has_own_pow_rule(op):
    from pennylane.estimator.resource_operator import ResourceOperator

    return type(op).pow_resource_decomp.__func__ is not ResourceOperator.pow_resource_decomp.__func__


def pow_work(kb):
    name = f"Pow({kb}, z) and Pow(Pow({kb}, z0), z) with symbolic exponents"
    base = POW_BASES[kb]()
    if _has_own_pow_rule(base):
        return [{"name": name, "status": "unsupported", "detail": "operator defines its own power rule (e.g. self-inverse or angle scaling): repetition is legitimately cheaper than z copies; not claimed"}]
    cb = _counts(_concrete(base, any_state=10 ** 6))

    def build(S):
        z, z0 = S.int("z", 1, 9), S.int("z0", 1, 9)
        r1 = estimate(qre.Pow(base, z), any_state_wires=10 ** 6)
        r2 = estimate(qre.Pow(qre.Pow(base, z0), z), any_state_wires=10 ** 6)
        return r1, r2, z, z0

    def claims(S, v):
        r1, r2, z, z0 = v
        Zz, Z0 = sb.zi(z), sb.zi(z0)
        g1, g2 = _counts(r1), _counts(r2)
        out = []
        for g in set(g1) | set(g2) | set(cb):
            out.append((f"Pow count[{g.name}] = z*{cb.get(g, 0)}", sb.zi(g1.get(g, 0)) == Zz * cb.get(g, 0)))
            out.append((f"Pow(Pow) count[{g.name}] = z*z0*{cb.get(g, 0)}", sb.zi(g2.get(g, 0)) == Zz * Z0 * cb.get(g, 0)))
        return out

    return _prove(name, build, claims, {"kind": "pow", "ops": [kb]}, ["z", "z0"])


# ------------------------------------------------------------------ plumbing
def _prove(name, build, claims, meta, symbols):
    try:
        paths = sb.explore(build, max_paths=3000)
    except sb.PathLimit as e:
        return [{"name": name, "status": INCONCLUSIVE, "detail": str(e), "symbols": symbols}]
    except (TypeError, NotImplementedError, AttributeError) as e:
        return [{"name": name, "status": "unsupported", "detail": f"real code not executable on symbolic integers: {e!r}"[:300]}]
    q, ts = 0, 0.0
    for S, v in paths:
        ts += S.solver_s
        if S.reachable() == "unsat":
            return [{"name": name, "status": HARNESS_ERROR, "detail": "unreachable path admitted"}]
        for label, claim in claims(S, v):
            st, model, dt = S.prove(claim, timeout_ms=30000)
            q += 1
            ts += dt
            if st == "sat":
                vals = S.model_values(model)
                payload = dict(meta, values=vals, claim=label)
                ok, obs = replay(payload)
                payload["observed"] = obs
                if ok:
                    return [{"name": name, "status": VIOLATED, "signature": f"{meta['kind']}:{meta.get('ops', meta.get('method'))}:{label.split('[')[0]}", "symbols": symbols, "queries": q,
                             "solver": "z3:sat", "replay": payload, "detail": f"{label}: reproduces concretely: {obs}"}]
                return [{"name": name, "status": INCONCLUSIVE, "symbols": symbols, "queries": q, "solver": "z3:sat",
                         "detail": f"{label}: model {vals} does not reproduce concretely ({obs})"}]
            if st != "unsat":
                return [{"name": name, "status": INCONCLUSIVE, "symbols": symbols, "queries": q, "detail": f"{label}: z3 unknown"}]
    return [{"name": name, "status": DISCHARGED, "queries": q, "solver": "z3:unsat", "solver_s": round(ts, 3), "time_s": round(ts, 3), "symbols": symbols,
             "detail": f"{len(paths)} feasible paths of the real code, {q} z3 queries, all unsat"}]


def replay(p):
    """concrete re-execution with the model's integers; plain Python comparison"""
    v = p["values"]
    kind = p["kind"]
    if kind == "wm":
        m = WireResourceManager(v["zeroed"], v["any_state"], v["algo"], bool(v.get("tight", 0)))
        t0 = m.total_wires
        n = v["n"]
        desc = f"WireResourceManager(zeroed={v['zeroed']}, any_state={v['any_state']}, algo={v['algo']}, tight={bool(v.get('tight', 0))}).{p['method']}({n})"
        try:
            getattr(m, p["method"])(n)
        except ValueError:
            legit = (v.get("tight", 0) and n > v["zeroed"]) if p["method"] == "grab_zeroed" else n > v["any_state"]
            return (not legit), desc + " raised ValueError"
        bad = []
        if min(m.zeroed, m.any_state) < 0 or m.total_wires < m.algo_wires or m.total_wires < t0 or m.algo_wires != v["algo"]:
            bad.append("negative counter / total below algo / total decreased")
        if p["method"] == "grab_zeroed":
            if m.any_state != v["any_state"] + n or m.total_wires - t0 != max(0, n - v["zeroed"]) or (v.get("tight", 0) and n > v["zeroed"]):
                bad.append("grab bookkeeping")
        else:
            if m.any_state != v["any_state"] - n or m.zeroed != v["zeroed"] + n or m.total_wires != t0 or n > v["any_state"]:
                bad.append("free bookkeeping")
        return bool(bad), desc + f" -> zeroed={m.zeroed} any_state={m.any_state} total={m.total_wires}: {bad}"
    if kind == "add":
        ka, kb = p["ops"]
        A, B = OPS[ka](), OPS[kb]()
        BIG = 10 ** 6
        ra, rb = _concrete(A, any_state=BIG), _concrete(B, any_state=BIG)
        ca, cb = _counts(ra), _counts(rb)
        n, m = v["n"], v["m"]
        gt = {A.resource_rep_from_op(): n}
        gt[B.resource_rep_from_op()] = gt.get(B.resource_rep_from_op(), 0) + m
        w = Resources(zeroed_wires=0, any_state_wires=0, algo_wires=max(ra.algo_wires, rb.algo_wires), gate_types=gt)
        try:
            r = estimate(w, zeroed_wires=v["zeroed0"], any_state_wires=v["any0"])
        except ValueError as e:
            return False, f"ValueError {e}"
        got = _counts(r)
        bad = {g.name: (got.get(g, 0), n * ca.get(g, 0) + m * cb.get(g, 0)) for g in set(got) | set(ca) | set(cb) if got.get(g, 0) != n * ca.get(g, 0) + m * cb.get(g, 0)}
        exp_any = v["any0"] + n * (ra.any_state_wires - BIG) + m * (rb.any_state_wires - BIG)
        wires_bad = r.any_state_wires != exp_any or r.zeroed_wires < 0 or r.zeroed_wires + r.any_state_wires < v["zeroed0"] + v["any0"]
        return bool(bad) or wires_bad, f"n={n} m={m} zeroed0={v['zeroed0']} any0={v['any0']}: gate counts (got, expected) {bad}; wires zeroed={r.zeroed_wires} any_state={r.any_state_wires} (expected any_state {exp_any})"
    if kind == "scalar":
        A = OPS[p["ops"][0]]()
        ca = _counts(_concrete(A, any_state=10 ** 6))
        n = v["n"]
        g1 = _counts(estimate(n * A, any_state_wires=10 ** 6))
        g2 = _counts(estimate((1 * A).add_series(1 * A).multiply_series(n), any_state_wires=10 ** 6))
        bad = {g.name: (g1.get(g, 0), g2.get(g, 0), n * ca.get(g, 0)) for g in set(g1) | set(g2) | set(ca) if g1.get(g, 0) != n * ca.get(g, 0) or g2.get(g, 0) != 2 * n * ca.get(g, 0)}
        return bool(bad), f"n={n}: (n*A, (A+A)*n, n*counts(A)) mismatches {bad}"
    if kind == "pow":
        base = POW_BASES[p["ops"][0]]()
        cb = _counts(_concrete(base, any_state=10 ** 6))
        z, z0 = v["z"], v["z0"]
        g1 = _counts(estimate(qre.Pow(base, z), any_state_wires=10 ** 6))
        g2 = _counts(estimate(qre.Pow(qre.Pow(base, z0), z), any_state_wires=10 ** 6))
        bad = {g.name: (g1.get(g, 0), z * cb.get(g, 0), g2.get(g, 0), z * z0 * cb.get(g, 0)) for g in set(g1) | set(g2) | set(cb)
               if g1.get(g, 0) != z * cb.get(g, 0) or g2.get(g, 0) != z * z0 * cb.get(g, 0)}
        return bool(bad), f"z={z} z0={z0}: (Pow, z*base, PowPow, z*z0*base) mismatches {bad}"
    raise KeyError(kind)


def _dispatch(item):
    k = item[0]
    return {"wm": wm_work, "add": add_work, "scalar": scalar_work, "pow": pow_work}[k](item[1])


def run(ctx):
    ctx.level = "proof"
    names = QUICK_OPS if ctx.tier == "quick" else list(OPS)
    pairs = list(itertools.combinations_with_replacement(names, 2))
    if ctx.tier == "quick":
        pairs = [p for i, p in enumerate(pairs) if i % 2 == 0 or p[0] == p[1]]
    items = [("wm", "grab_zeroed"), ("wm", "free_wires")] + [("add", p) for p in pairs] + [("scalar", k) for k in names] + [("pow", k) for k in POW_BASES]
    if ctx.only:
        items = [it for it in items if ctx.only in f"{it[0]}:{it[1]}"]
    ctx.shapes = len(items)
    from pennylane.estimator import estimate as E

    import importlib

    EM = importlib.import_module("pennylane.estimator.estimate")
    ctx.encode(WireResourceManager.grab_zeroed, WireResourceManager.free_wires, EM._update_counts_from_compressed_res_op, EM._resources_from_resource,
               EM._get_symbolic_resource_decomposition, Resources, qre.Pow)
    ctx.bound(wire_manager="arbitrary non-negative integers zeroed, any_state, algo_wires, n; tight_budget free",
              additivity=f"pairs over {len(names)} estimator operators (incl. Adjoint/Controlled/Pow and allocating templates); repetition counts n, m >= 0 (n in 1..5000 for the n*A arithmetic form) and initial zeroed/any_state budgets arbitrary non-negative integers",
              pow="exponents 1..9 (symbolic), nested once, 7 bases without their own power rule",
              outside="gate sets other than the default, custom decompositions in ResourceConfig, qfunc workflows (queuing), operators whose resource parameters would have to be symbolic")
    ctx.assume("count oracle: estimate(A) on A alone with a large any_state budget; net(A) = change of any_state_wires in that run",
               "a ValueError('Freeing more wires ...') is the documented outcome for workflows releasing more than they hold and is accepted")
    ctx.trust("z3 5.1.0", "vf.symbit lifting (sat models replayed concretely through the real estimator)")
    ctx.rule = "one obligation per (harness, operator tuple); non-trivial = symbolic counts/exponents/budgets occur in the proved formulas"
    ctx.pmap(_dispatch, items, timeout_each=900)
