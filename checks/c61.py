"""C61 Optimizers apply their documented update rules (E1).

The REAL step / step_and_cost / apply_grad of GradientDescent, Momentum, NesterovMomentum, Adagrad, RMSProp and Adam run for
2-3 steps on SYMBOLIC parameters.  The objective is a quadratic with symbolic coefficients, f(x) = sum_i (q_i x_i^2 / 2 + w_i x_i)
(so that its gradient q_i x_i + w_i depends on the evaluation point), supplied through a stub of the module-level
`get_gradient` with autograd's semantics: the returned gradient function evaluates at the arguments it is called with and
stores `forward` = f(those arguments).  Square roots are introduced by their defining equations.  z3 proves, for all parameter
values, objective coefficients and hyper-parameters (symbolic within their domains):
  * the parameters after every step equal the documented update formula (written here in terms of the previous iterate),
  * non-trainable positional arguments are passed through unchanged and do not shift the accumulator bookkeeping,
  * step_and_cost returns the objective value at the parameters BEFORE the step.
"""
from __future__ import annotations

import importlib

import numpy as np
import pennylane as qp
from pennylane import numpy as pnp

from vf import symx as sx, obl, poly as P


class TArr(np.ndarray):
    """object ndarray carrying `requires_grad` (what the optimizers look at)"""

    def __new__(cls, data, requires_grad=True):
        a = np.asarray(data, dtype=object).view(cls)
        a.requires_grad = requires_grad
        return a

    def __array_finalize__(self, obj):
        self.requires_grad = getattr(obj, "requires_grad", True)


OPTS = {
    "GradientDescent": lambda h: qp.GradientDescentOptimizer(stepsize=h["eta"]),
    "Momentum": lambda h: qp.MomentumOptimizer(stepsize=h["eta"], momentum=h["m"]),
    "NesterovMomentum": lambda h: qp.NesterovMomentumOptimizer(stepsize=h["eta"], momentum=h["m"]),
    "Adagrad": lambda h: qp.AdagradOptimizer(stepsize=h["eta"], eps=1e-8),
    "RMSProp": lambda h: qp.RMSPropOptimizer(stepsize=h["eta"], decay=h["m"], eps=1e-8),
    "Adam": lambda h: qp.AdamOptimizer(stepsize=h["eta"], beta1=h["m"], beta2=h["b2"], eps=1e-8),
}
EPS = 1e-8
# argument layouts: list of (size, trainable)
LAYOUTS = {"x[2]": [(2, True)], "x[1], y[2]": [(1, True), (2, True)], "data[2], w[2]": [(2, False), (2, True)], "w[1], data[1], v[1]": [(1, True), (1, False), (1, True)]}


def make_problem(S, layout, concrete=None):
    """-> (args, f, grad) where f/grad follow autograd's conventions for the trainable arguments"""
    args, qs, ws = [], [], []
    for ai, (n, tr) in enumerate(layout):
        if concrete is None:
            vals = [S.real(f"x{ai}_{k}") for k in range(n)]
            qs.append([S.real(f"q{ai}_{k}") for k in range(n)])
            ws.append([S.real(f"w{ai}_{k}") for k in range(n)])
        else:
            vals = [concrete[f"x{ai}_{k}"] for k in range(n)]
            qs.append([concrete[f"q{ai}_{k}"] for k in range(n)])
            ws.append([concrete[f"w{ai}_{k}"] for k in range(n)])
        args.append(TArr(vals, requires_grad=tr) if concrete is None else pnp.array(vals, requires_grad=tr))

    def f(*a):
        tot = 0
        for ai, arr in enumerate(a):
            for k in range(len(arr)):
                tot = tot + qs[ai][k] * arr[k] * arr[k] * 0.5 + ws[ai][k] * arr[k]
        return tot

    def grad_of(a):
        out = []
        for ai, arr in enumerate(a):
            if layout[ai][1]:
                g = np.empty(len(arr), dtype=object)
                for k in range(len(arr)):
                    g[k] = qs[ai][k] * arr[k] + ws[ai][k]
                out.append(g)
        return tuple(out) if len(out) != 1 else out[0]

    return args, f, grad_of


def install_oracle(mods, f, grad_of, calls):
    """replace the module-level get_gradient by an oracle with autograd's `forward` semantics"""
    def get_gradient(objective_fn):
        def g(*a, **k):
            calls.append([np.asarray(x, dtype=object).copy() for x in a])
            g.forward = objective_fn(*a, **k)
            return grad_of(a)

        g.forward = None
        return g

    saved = []
    for m in mods:
        if hasattr(m, "get_gradient"):
            saved.append((m, m.get_gradient))
            m.get_gradient = get_gradient
    return saved


def restore(saved):
    for m, fn in saved:
        m.get_gradient = fn


def _mods():
    return [importlib.import_module("pennylane.optimize." + n) for n in ("gradient_descent", "momentum", "nesterov_momentum", "adagrad", "rms_prop", "adam")]


def reference(oname, layout, args0, grad_of, f, h, nsteps, sqrt):
    """documented update rules; returns (list of iterates, list of costs prior to each step, list of gradient evaluation points)"""
    eta, m, b2 = h["eta"], h.get("m"), h.get("b2")
    x = [np.asarray(a, dtype=object).copy() for a in args0]
    tr = [i for i, (n, t) in enumerate(layout) if t]
    acc = {i: np.zeros(len(x[i]), dtype=object) for i in tr}
    acc2 = {i: np.zeros(len(x[i]), dtype=object) for i in tr}
    iters, costs, evalpts = [], [], []
    for t in range(1, nsteps + 1):
        costs.append(f(*x))
        if oname == "NesterovMomentum":
            pt = [x[i] - m * acc[i] if i in acc else x[i] for i in range(len(x))]
        else:
            pt = [xi.copy() for xi in x]
        evalpts.append(pt)
        g = grad_of(pt)
        g = (g,) if len(tr) == 1 else g
        for gi, i in enumerate(tr):
            gr = np.asarray(g[gi], dtype=object)
            if oname == "GradientDescent":
                x[i] = x[i] - eta * gr
            elif oname in ("Momentum", "NesterovMomentum"):
                acc[i] = m * acc[i] + eta * gr
                x[i] = x[i] - acc[i]
            elif oname == "Adagrad":
                acc[i] = acc[i] + gr * gr
                x[i] = x[i] - np.array([eta * gr[k] / sqrt(acc[i][k] + EPS) for k in range(len(gr))], dtype=object)
            elif oname == "RMSProp":
                acc[i] = m * acc[i] + (1 - m) * gr * gr
                x[i] = x[i] - np.array([eta * gr[k] / sqrt(acc[i][k] + EPS) for k in range(len(gr))], dtype=object)
            elif oname == "Adam":
                acc[i] = m * acc[i] + (1 - m) * gr
                acc2[i] = b2 * acc2[i] + (1 - b2) * gr * gr
                eta_t = eta * sqrt(1 - b2 ** t) / (1 - m ** t)
                x[i] = x[i] - np.array([eta_t * acc[i][k] / (sqrt(acc2[i][k]) + EPS) for k in range(len(gr))], dtype=object)
        iters.append([xi.copy() for xi in x])
    return iters, costs, evalpts


HYPER_CONCRETE = {"eta": 0.1, "m": 0.9, "b2": 0.99}


def _run_real(oname, layout, args, f, h, nsteps, use_cost):
    opt = OPTS[oname](h)
    cur = list(args)
    iters, costs = [], []
    for _ in range(nsteps):
        if use_cost:
            new, c = opt.step_and_cost(f, *cur)
            costs.append(c)
        else:
            new = opt.step(f, *cur)
        new = [new] if len(cur) == 1 else list(new)
        iters.append([np.asarray(a, dtype=object).copy() for a in new])
        cur = [TArr(np.asarray(a, dtype=object), requires_grad=layout[i][1]) if not hasattr(a, "requires_grad") or isinstance(a, TArr) or np.asarray(a).dtype == object else a for i, a in enumerate(new)]
    return iters, costs


def _num(oname, lname, vals, nsteps, hyper):
    import math

    layout = LAYOUTS[lname]
    args, f, grad_of = make_problem(None, layout, concrete=vals)
    calls = []
    saved = install_oracle(_mods(), f, grad_of, calls)
    try:
        opt = OPTS[oname](hyper)
        cur = list(args)
        iters, costs = [], []
        for _ in range(nsteps):
            new, c = opt.step_and_cost(f, *cur)
            costs.append(float(c))
            new = [new] if len(cur) == 1 else list(new)
            iters.append([np.asarray(a, dtype=float) for a in new])
            cur = [pnp.array(np.asarray(a, dtype=float), requires_grad=layout[i][1]) for i, a in enumerate(new)]
    finally:
        restore(saved)
    ref_iters, ref_costs, _ = reference(oname, layout, [np.asarray(a, dtype=float) for a in args], lambda a: grad_of([np.asarray(z, dtype=object) for z in a]), f, hyper, nsteps, math.sqrt)
    worst = 0.0
    for it, rit in zip(iters, ref_iters):
        for a, b in zip(it, rit):
            worst = max(worst, float(np.max(np.abs(a - np.asarray(b, dtype=float)))))
    cw = max(abs(c - float(rc)) for c, rc in zip(costs, ref_costs))
    return (worst > 1e-6 or cw > 1e-6), f"{oname} on {lname} after {nsteps} steps at {vals} hyper={hyper}: max|params - documented rule| = {worst:.3g}, max|returned cost - f(params before step)| = {cw:.3g}"


def replay(p):
    if p.get("kind") == "roto":
        return _roto_num(p["which"], p["freq"], p["values"]["a"], p["values"]["b"], p["values"]["c"], p["f0"])
    return _num(p["opt"], p["layout"], p["values"], p["steps"], p["hyper"])


def work(item):
    oname, lname, nsteps, sym_hyper = item
    layout = LAYOUTS[lname]
    name = f"{oname} on args ({lname}), {nsteps} steps, {'symbolic' if sym_hyper else 'default'} hyper-parameters"

    def b(S):
        if sym_hyper:
            h = {"eta": S.real("eta"), "m": S.real("m"), "b2": S.real("b2")}
            for k in ("eta", "m", "b2"):
                S.constrain(">0", h[k].p)
                S.constrain(">0", P.sub(P.ONE, h[k].p))
        else:
            h = dict(HYPER_CONCRETE)
        args, f, grad_of = make_problem(S, layout)
        calls = []
        saved = install_oracle(_mods(), f, grad_of, calls)
        try:
            iters, costs = _run_real(oname, layout, args, f, h, nsteps, True)
        finally:
            restore(saved)
        ref_iters, ref_costs, evalpts = reference(oname, layout, args, grad_of, f, h, nsteps, lambda v: sx.arr(v).item().sqrt() if isinstance(sx.arr(v).item(), sx.SymC) else np.sqrt(v))
        return iters, costs, ref_iters, ref_costs, calls, evalpts

    def consume(S, v, i):
        iters, costs, ref_iters, ref_costs, calls, evalpts = v

        def rp(model):
            vals = {k: x for k, x in model.get("vars", {}).items() if k[0] in "xqw"}
            for ai, (n, tr) in enumerate(layout):
                for k in range(n):
                    for pre in "xqw":
                        vals.setdefault(f"{pre}{ai}_{k}", 0.5)
            hyper = {k: model.get("vars", {}).get(k, HYPER_CONCRETE[k]) for k in ("eta", "m", "b2")} if sym_hyper else dict(HYPER_CONCRETE)
            ok, obs = _num(oname, lname, vals, nsteps, hyper)
            return ok, {"opt": oname, "layout": lname, "values": vals, "steps": nsteps, "hyper": hyper, "observed": obs}

        out = []
        for t in range(nsteps):
            lhs = [x for a in iters[t] for x in sx.arr(a).ravel()]
            rhs = [x for a in ref_iters[t] for x in sx.arr(a).ravel()]
            out.append(obl.prove(S, f"{name}: parameters after step {t + 1} == documented update rule", lhs, rhs, replay=rp, signature=f"{oname}:params", timeout=120, tol=1e-9 if oname in ("Adagrad", "RMSProp", "Adam") else None))
            out.append(obl.prove(S, f"{name}: step_and_cost #{t + 1} returns the objective at the parameters before the step", [costs[t]], [ref_costs[t]], replay=rp, signature=f"{oname}:cost", timeout=120))
        if calls:
            lhs = [x for c in calls for a in c for x in sx.arr(a).ravel()]
            rhs = [x for c in evalpts for a in c for x in sx.arr(a).ravel()]
            if len(lhs) == len(rhs):
                out.append(obl.prove(S, f"{name}: gradient evaluated at the documented point in every step", lhs, rhs, replay=rp, signature=f"{oname}:evalpoint", timeout=120))
        return out

    try:
        return obl.run_instance(name, b, consume)
    except (TypeError, AttributeError, IndexError, KeyError, ValueError) as e:
        import traceback

        return [{"name": name, "status": "unsupported", "detail": f"{e!r} {traceback.format_exc(limit=6)[-600:]}"}]


# ------------------------------------------------------------------ Rotosolve / Rotoselect closed forms
ROTO_FREQS = [1.0, 0.5, 2.0, 1.5, 0.25, 3.0]


def _sinusoid(S, a, b, c, f):
    def E(x):
        t = S.lift(x) if not isinstance(x, sx.SymC) else x
        if isinstance(t, np.ndarray):
            t = t.item()
        t = t * f
        return a * t.cos() + b * t.sin() + c

    return E


def _roto_num(kind, f, a, b, c, give_f0):
    """concrete replay: the real closed form against a dense scan of one period"""
    E = lambda x: a * np.cos(f * x) + b * np.sin(f * x) + c
    if kind == "rotosolve":
        x_min, y_min = qp.RotosolveOptimizer.min_analytic(E, f, E(0.0) if give_f0 else None)
    else:
        from pennylane.optimize.rotoselect import RotoselectOptimizer

        x = RotoselectOptimizer._rotosolve(lambda xs, generators: E(xs[1]), [0.3, 0.7], None, 1)
        x_min, y_min = float(x[1]), None
    true_min = c - np.hypot(a, b)
    bad = []
    if abs(E(x_min) - true_min) > 1e-7 * max(1.0, abs(true_min)):
        bad.append(f"objective at the returned position is {E(x_min):.9g}, the minimum is {true_min:.9g}")
    if y_min is not None and abs(y_min - true_min) > 1e-7 * max(1.0, abs(true_min)):
        bad.append(f"returned minimum value {y_min:.9g}, true minimum {true_min:.9g}")
    if not (-np.pi / f - 1e-9 < x_min <= np.pi / f + 1e-9):
        bad.append(f"returned position {x_min:.9g} outside (-pi/f, pi/f] = ({-np.pi / f:.6g}, {np.pi / f:.6g}]")
    return bool(bad), f"{kind} closed form, frequency {f}, objective {a:.6g}*cos(f x) + {b:.6g}*sin(f x) + {c:.6g}: " + ("; ".join(bad) or "agrees with the true minimum")


def roto_work(item):
    import z3

    kind, f, give_f0 = item
    name = f"{kind} closed form, frequency {f}" + (", f0 supplied" if give_f0 else "")
    if kind == "rotoselect":
        RS = importlib.import_module("pennylane.optimize.rotoselect")
        RS.float = lambda v: v  # shim: float(objective value) keeps the solver term

    def b(S):
        a, bb, c = S.real("a"), S.real("b"), S.real("c")
        E = _sinusoid(S, a, bb, c, f)
        if kind == "rotosolve":
            x_min, y_min = qp.RotosolveOptimizer.min_analytic(E, f, E(0.0) if give_f0 else None)
        else:
            x = RS.RotoselectOptimizer._rotosolve(lambda xs, generators: E(xs[1]), [S.real("x0"), S.real("x1")], None, 1)
            x_min, y_min = x[1], None
        xa = S.param("xany", wrap=False)
        return x_min, y_min, E(x_min), E(xa), (a, bb, c)

    def consume(S, v, i):
        x_min, y_min, e_min, e_any, (a, bb, c) = v

        def rp(model):
            vals = {k: model.get("vars", {}).get(k, 0.0) for k in ("a", "b", "c")}
            ok, obs = _roto_num(kind, f, vals["a"], vals["b"], vals["c"], give_f0)
            return ok, {"kind": "roto", "which": kind, "freq": f, "f0": give_f0, "values": vals, "observed": obs}

        sig = f"{kind}:closed-form"
        out = []
        za = S.z3poly
        out.append(obl.prove_claim(S, f"{name} (path {i}): objective(x) >= objective(returned position) for every x", za(e_any.p) >= za(e_min.p), replay=rp, signature=sig,
                                   used_polys=[e_any.p, e_min.p], symbols=["a", "b", "c", "xany"]))
        if y_min is not None:
            out.append(obl.prove(S, f"{name} (path {i}): returned minimum value == objective(returned position)", [y_min], [e_min], replay=lambda m: rp(m), signature=sig, timeout=60))
        PI = S.zvar(S.PIv)
        fz = z3.RealVal(str(sx.F(f)))
        xm = za(x_min.p)
        out.append(obl.prove_claim(S, f"{name} (path {i}): returned position lies in (-pi/f, pi/f]", z3.And(xm * fz > -PI, xm * fz <= PI), replay=rp, signature=sig, used_polys=[x_min.p], symbols=["a", "b", "c"]))
        return out

    try:
        return obl.run_instance(name, b, consume)
    except (TypeError, AttributeError, IndexError, KeyError, ValueError) as e:
        import traceback

        return [{"name": name, "status": "unsupported", "detail": f"{e!r} {traceback.format_exc(limit=6)[-600:]}"}]
    finally:
        if kind == "rotoselect":
            RS.__dict__.pop("float", None)


def _dispatch(it):
    return roto_work(it[1:]) if it[0] == "roto" else work(it)


def run(ctx):
    ctx.level = "proof"
    items = []
    for o in OPTS:
        for l in LAYOUTS:
            items.append((o, l, 3 if o in ("GradientDescent", "Momentum", "NesterovMomentum") else (1 if o == "Adam" else 2), False))  # Adam over 2 steps: z3 answers unknown (nested square roots) - outside
        items.append((o, "x[2]", 1 if o == "Adam" else 2, True))
        items.append((o, "data[2], w[2]", 1 if o == "Adam" else 2, True))
    items += [("roto", "rotosolve", f, g) for f in ROTO_FREQS for g in (False, True)] + [("roto", "rotoselect", 1.0, False)]
    if ctx.only:
        items = [it for it in items if ctx.only in f"{it[0]} {it[1]}"]
    ctx.shapes = len(items)
    ctx.encode(qp.GradientDescentOptimizer.step_and_cost, qp.GradientDescentOptimizer.apply_grad, qp.MomentumOptimizer.apply_grad, qp.NesterovMomentumOptimizer.compute_grad,
               qp.AdagradOptimizer.apply_grad, qp.RMSPropOptimizer.apply_grad, qp.AdamOptimizer.apply_grad, qp.RotosolveOptimizer.min_analytic, qp.RotoselectOptimizer._rotosolve)
    ctx.bound(parameters="all real parameter values and objective coefficients (quadratic objective with symbolic coefficients)", steps="2-3 consecutive steps from a fresh optimizer",
              hyper_parameters="defaults (0.1, 0.9, 0.99) and symbolic eta, momentum/decay/beta1, beta2 in (0,1)", layouts=list(LAYOUTS),
              rotosolve=f"closed-form single-frequency minimiser min_analytic for frequencies {ROTO_FREQS} and Rotoselect._rotosolve: objective a*cos(f x)+b*sin(f x)+c with symbolic a, b, c",
              outside="QNGOptimizer (metric tensor), Rotosolve multi-frequency substeps (numeric brute/shgo minimisation) and the Rotosolve/Rotoselect step loops, SPSA, ShotAdaptive, Riemannian, autograd itself (stubbed by the gradient oracle)")
    ctx.assume("stub: the module-level get_gradient of the optimizer modules is replaced by an oracle with autograd's semantics (gradient and `forward` at the call arguments)",
               "sqrt(x): fresh r >= 0 with r*r == x; Adagrad/RMSProp/Adam are proved up to 1e-9", "parameters are object ndarrays carrying requires_grad")
    ctx.trust("reference update rules written from the class docstrings in checks/c61.py")
    ctx.rule = "one obligation per (optimizer, argument layout, step, claim); non-trivial = mentions symbolic parameters"
    ctx.pmap(_dispatch, items, timeout_each=600)
