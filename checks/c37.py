"""C37 Higher-order derivatives are correct (E1): param_shift_hessian against the symbolic second derivative.

Circuits with 1-4 symbolic trainable parameters go through the REAL qp.gradients.param_shift_hessian (default, diagonal_shifts /
off_diagonal_shifts given as exact multiples of pi/4, argnum masks); the generated tapes are evaluated by the matrix-route oracle,
the REAL post-processing assembles the Hessian, and z3 proves H[i][j] == d^2 result / d theta_i d theta_j for ALL parameter values."""
from __future__ import annotations

import numpy as np
import pennylane as qp

from checks import c34
from vf import symx as sx, obl

X, Y, Z = qp.PauliX, qp.PauliY, qp.PauliZ
MEAS = {
    "expval Z0": lambda: [qp.expval(Z(0))],
    "expval Z0@X1": lambda: [qp.expval(Z(0) @ X(1))],
    "probs[1]": lambda: [qp.probs(wires=[1])],
    "expval Z0, expval Y1": lambda: [qp.expval(Z(0)), qp.expval(Y(1))],
    "var Z1": lambda: [qp.var(Z(1))],
    "expval 0.5*Z0 + 1.5*X1": lambda: [qp.expval(0.5 * Z(0) + 1.5 * X(1))],
}
CIRC = ["RX.RY.CNOT", "RY.CNOT.RZ.RX", "H.CRX.RY", "IsingXX.PhaseShift", "four rotations", "Rot.CNOT", "SingleExcitation.IsingZZ", "RY.CRZ.CRY"]
METHODS = {
    "param_shift_hessian": lambda t: qp.gradients.param_shift_hessian(t),
    "param_shift_hessian(diagonal_shifts=pi/4)": lambda t: qp.gradients.param_shift_hessian(t, diagonal_shifts=[(np.pi / 4,)] * len(t.trainable_params)),
    "param_shift_hessian(off_diagonal_shifts=pi/4)": lambda t: qp.gradients.param_shift_hessian(t, off_diagonal_shifts=[(np.pi / 4,)] * len(t.trainable_params)),
}
_REJECT_OK = (ValueError, qp.exceptions.QuantumFunctionError, NotImplementedError)


def hess_entry(hess, nm, npar, m, i, j):
    """entry (i, j) of measurement m as a flat object vector"""
    h = hess if nm == 1 else hess[m]
    if npar == 1:
        return np.asarray(h, dtype=object).ravel()
    return np.asarray(h[i][j], dtype=object).ravel()


def _num(cname, mname, meth, occ):
    build, symmap = c34.CIRCUITS[cname]
    ops = build(list(occ))
    mps = MEAS[mname]()
    tape = qp.tape.QuantumScript(ops, mps)
    tape.trainable_params = c34._placeholder_positions(ops, symmap)
    try:
        tapes, fn = METHODS[meth](tape)
    except _REJECT_OK as e:
        return False, f"rejected {e!r}"
    hess = fn(tuple(qp.devices.qubit.simulate(t) for t in tapes))
    npar, nm = len(tape.trainable_params), len(mps)
    h = 1e-4

    def run(vals):
        r = qp.devices.qubit.simulate(qp.tape.QuantumScript(build(vals), MEAS[mname]()))
        return [np.asarray(x, dtype=float).ravel() for x in (r if isinstance(r, tuple) else (r,))]

    worst = 0.0
    for i in range(npar):
        for j in range(npar):
            def sh(di, dj):
                v = list(occ)
                v[i] += di
                v[j] += dj
                return run(v)
            pp, pm, mp_, mm = sh(h, h), sh(h, -h), sh(-h, h), sh(-h, -h)
            for m in range(nm):
                fd = (pp[m] - pm[m] - mp_[m] + mm[m]) / (4 * h * h)
                got = np.asarray(hess_entry(hess, nm, npar, m, i, j), dtype=float)
                worst = max(worst, float(np.max(np.abs(got - fd))))
    return worst > 1e-4, f"{meth} on {cname} [{mname}] at {list(occ)}: max|hessian - finite difference| = {worst:.3g}"


def replay(p):
    return _num(p["circuit"], p["meas"], p["method"], p["params"])


def work(item):
    cname, mname, meth = item
    name = f"{meth} on {cname} [{mname}]"
    build, symmap = c34.CIRCUITS[cname]
    nocc = len(symmap)

    def b(S):
        occ = [S.param(f"t{k}") for k in range(nocc)]
        ops = build(occ)
        tape = qp.tape.QuantumScript(ops, MEAS[mname]())
        tape.trainable_params = c34.trainable_positions(ops)
        ref = c34.oracle_results(tape)
        try:
            tapes, fn = METHODS[meth](tape)
        except _REJECT_OK as e:
            return ("rejected", repr(e))
        hess = fn(tuple(c34.oracle_results(t) for t in tapes))
        return ("ok", hess, ref, len(tape.measurements), len(tape.trainable_params), len(tapes))

    def consume(S, v, i):
        if v[0] == "rejected":
            return [{"name": f"{name}: rejected with a documented error", "status": "discharged", "symbols": [], "nontrivial": False, "queries": 0, "detail": v[1][:200]}]
        _, hess, ref, nm, npar, nt = v
        refs = [sx.arr(np.asarray(r, dtype=object)).ravel() for r in (ref if nm > 1 else (ref,))]

        def rp(model):
            occ = [model["params"].get(f"t{k}", 0.0) for k in range(nocc)]
            ok, obs = _num(cname, mname, meth, occ)
            return ok, {"circuit": cname, "meas": mname, "method": meth, "params": occ, "observed": obs}

        out = []
        for a in range(npar):
            for c in range(a, npar):
                lhs, rhs = [], []
                for m in range(nm):
                    d2 = sx.d_dparam(S, sx.d_dparam(S, refs[m], f"t{a}"), f"t{c}")
                    lhs += list(sx.arr(hess_entry(hess, nm, npar, m, a, c)))
                    rhs += list(d2)
                    if a != c:
                        lhs += list(sx.arr(hess_entry(hess, nm, npar, m, c, a)))
                        rhs += list(d2)
                rec = obl.prove(S, f"{name}: H[{a}][{c}] (and transpose) == true second derivative ({nt} tapes)", lhs, rhs, replay=rp, signature=f"{meth}:{cname}:{mname}", timeout=180)
                if rec["status"] == "inconclusive" and "does not reproduce" in rec.get("detail", ""):
                    # products of two multi-term rule coefficients are floats that are not exactly algebraic: prove closeness
                    rec = obl.prove(S, f"{name}: H[{a}][{c}] (and transpose) == true second derivative up to 1e-7 ({nt} tapes, float products of rule coefficients)", lhs, rhs,
                                    replay=rp, signature=f"{meth}:{cname}:{mname}", timeout=60, tol=1e-7)
                out.append(rec)
        return out

    try:
        return obl.run_instance(name, b, consume)
    except (TypeError, AttributeError, IndexError, KeyError, np.linalg.LinAlgError) as e:
        import traceback

        return [{"name": name, "status": "unsupported", "detail": f"{e!r} {traceback.format_exc(limit=5)[-500:]}"}]


def run(ctx):
    ctx.level = "proof"
    items = []
    for c in CIRC:
        for m in MEAS:
            for meth in METHODS:
                if ctx.tier == "quick" and meth != "param_shift_hessian" and (m not in ("expval Z0@X1", "probs[1]") or c in ("four rotations", "Rot.CNOT", "RY.CRZ.CRY")):
                    continue
                if ctx.tier == "quick" and c in ("four rotations", "RY.CRZ.CRY") and m in ("var Z1", "expval Z0, expval Y1"):
                    continue
                items.append((c, m, meth))
    if ctx.only:
        items = [it for it in items if ctx.only in " ".join(it)]
    ctx.shapes = len(items)
    import importlib

    HS = importlib.import_module("pennylane.gradients.parameter_shift_hessian")
    ctx.encode(HS.param_shift_hessian, HS.expval_hessian_param_shift)
    ctx.bound(parameters="all real values; one symbol per trainable tape parameter (1-4)", circuits=CIRC, measurements=list(MEAS), methods=list(METHODS),
              outside="nested autodiff of QNodes (backprop/jax), hessians of operators with numeric generators, finite shots")
    ctx.assume(*sx.SHIM_NOTES, "custom shifts are exact multiples of pi/4")
    ctx.rule = "one obligation per (circuit, measurement, method, Hessian entry pair); non-trivial = mentions a symbolic parameter"
    ctx.pmap(work, items, timeout_each=900)
