"""C57 State-preparation primitives prepare the requested state (E1, partial: the device primitives with SYMBOLIC amplitudes).

StatePrep, AmplitudeEmbedding (with pad_with and normalize) and BasisState / BasisEmbedding are placed at the start of a circuit on
wire subsets given in sorted and non-sorted order inside a 3-wire register, followed by gates with symbolic angles; the REAL
default.qubit simulator (lifted) returns the final state.  The target amplitudes are SYMBOLIC complex numbers x_i (normalised by a
solver constraint sum |x_i|^2 == 1, or arbitrary when normalize=True).  z3 proves for all amplitudes and angles, entry by entry:
    final state == G * embed(x)        embed(x)[b] = x[index formed by the bits of b on the listed wires, in the listed order]
                                        if every other wire carries 0, else 0;   G = the matrix product of the following gates,
with padding (missing amplitudes equal pad_with) and normalisation (state * ||x|| == x, ||x|| by its defining equation).
BasisState / BasisEmbedding: all bit patterns on the listed wires (enumerated), symbolic gates afterwards.
Outside: the decompositions (MottonenStatePreparation and the other templates compute angles with arccos / arctan2 of the
amplitudes), MPSPrep, Superposition, QROMStatePreparation, SumOfSlatersPrep, MultiplexerStatePreparation, CosineWindow,
PartialUnaryStatePreparation, mid-circuit state preparation, default.mixed.
"""
from __future__ import annotations

import itertools

import numpy as np
import pennylane as qp

from vf import symx as sx, obl, simx

W = [0, 1, 2]
PN = ["a", "b"]
WIRE_SETS = [[0], [1], [2], [0, 1], [1, 0], [2, 0], [0, 2], [1, 2], [2, 1], [0, 1, 2], [2, 1, 0], [1, 2, 0], [2, 0, 1]]
TAILS = {
    "RX.CNOT": lambda p: [qp.RX(p[0], 1), qp.CNOT([1, 2]), qp.RY(p[1], 0)],
    "none": lambda p: [],
}


def embed(x, ws):
    """amplitudes over W with wires ws carrying x (index bits in the order of ws), the other wires |0>"""
    out = np.zeros(2 ** len(W), dtype=object)
    k = len(ws)
    for idx in range(2 ** k):
        bits = [(idx >> (k - 1 - j)) & 1 for j in range(k)]
        full = 0
        for w in W:
            b = bits[ws.index(w)] if w in ws else 0
            full = full * 2 + b
        out[full] = x[idx]
    return out


def tail_matrix(tail_ops):
    U = np.eye(2 ** len(W), dtype=object)
    for op in tail_ops:
        M = qp.matrix(op, wire_order=list(op.wires))
        M = sx.arr(M) if sx.is_symbolic(M) else np.asarray(M, dtype=object)
        U = np.dot(sx.embed(M, list(op.wires), W), U)
    return U


def amplitudes(S, n, normalised, concrete=None):
    if concrete is not None:
        x = np.array([complex(concrete.get(f"x{i}_re", 0.2 + 0.1 * i), concrete.get(f"x{i}_im", 0.3 - 0.15 * i)) for i in range(n)])
        return x / np.linalg.norm(x) if normalised else x
    x = np.array([S.cplx(f"x{i}") for i in range(n)], dtype=object)
    if normalised:
        n2 = sum((v * v.conjugate() for v in x), 0)
        S.constrain("==0", (n2 - 1).p)
    return x


def build(S, kind, ws, tail, opt, concrete=None):
    """-> (tape, expected final amplitudes, scale): the claim is  state * scale == expected"""
    k = len(ws)
    p = [S.param(x) for x in PN] if concrete is None else [concrete.get(x, 0.0) for x in PN]
    tail_ops = TAILS[tail](p)
    scale = 1
    if kind in ("StatePrep", "AmplitudeEmbedding"):
        pad, norm = opt
        n = 2 ** k if pad is None else 2 ** k - 1 - (1 if k > 1 else 0)
        x = amplitudes(S, n, normalised=not norm and pad is None, concrete=concrete)
        full = list(x) + [pad] * (2 ** k - n)
        kwargs = {}
        if pad is not None:
            kwargs["pad_with"] = pad
        if norm or pad is not None:
            kwargs["normalize"] = True
        if kind == "StatePrep":
            op = qp.StatePrep(np.array(x, dtype=object if concrete is None else complex), wires=ws, **kwargs)
        else:
            op = qp.AmplitudeEmbedding(np.array(x, dtype=object if concrete is None else complex), wires=ws, **kwargs)
        target = np.array(full, dtype=object)
        if kwargs.get("normalize"):
            n2 = sum((v * (v.conjugate() if isinstance(v, sx.SymC) else np.conj(v)) for v in full), 0)
            scale = n2.sqrt() if isinstance(n2, sx.SymC) else np.sqrt(complex(n2).real)
        exp0 = embed(target, ws)
    else:
        bits = opt
        op = qp.BasisState(np.array(bits), wires=ws) if kind == "BasisState" else qp.BasisEmbedding(np.array(bits), wires=ws)
        idx = 0
        for b in bits:
            idx = idx * 2 + b
        t = np.zeros(2 ** k, dtype=object)
        t[idx] = 1
        exp0 = embed(t, ws)
    tape = qp.tape.QuantumScript([op] + tail_ops + [qp.Identity(w) for w in W], [qp.state()])
    exp = np.dot(tail_matrix(tail_ops), exp0)
    return tape, exp, scale


def final_state(tape, symbolic):
    if symbolic:
        _, res = simx.run_tape(tape)
        return sx.arr(np.asarray(res[0] if isinstance(res, (list, tuple)) else res, dtype=object)).ravel()
    dev = qp.device("default.qubit", wires=W)
    return np.asarray(dev.execute(tape), dtype=complex).ravel()


def _num(kind, ws, tail, opt, vals):
    try:
        tape, exp, scale = build(None, kind, ws, tail, opt, concrete=vals)
        got = final_state(tape, False)
    except Exception as e:  # noqa: BLE001
        return True, f"{kind}(wires={ws}, options {opt}) + {tail}: raised {e!r}"
    d = float(np.max(np.abs(got * complex(scale) - np.asarray(exp, dtype=complex))))
    return d > 1e-9, f"{kind}(wires={ws}, options {opt}) followed by {tail} on default.qubit(wires={W}): max |state * norm - G embed(x)| = {d:.3g}"


def replay(p):
    return _num(p["kind"], list(p["ws"]), p["tail"], tuple(p["opt"]) if isinstance(p["opt"], list) else p["opt"], p["values"])


def work(item):
    kind, ws, tail, opt = item
    name = f"{kind}(wires={ws}, {'bits ' + str(list(opt)) if kind.startswith('Basis') else 'pad_with=' + str(opt[0]) + ', normalize=' + str(opt[1])}) then {tail}"
    sx.install_shims()

    def b(S):
        tape, exp, scale = build(S, kind, ws, tail, opt)
        return final_state(tape, True), exp, scale

    def consume(S, v, i):
        got, exp, scale = v

        def rp(model):
            vals = {**model.get("vars", {}), **model.get("params", {})}
            ok, obs = _num(kind, ws, tail, opt, vals)
            return ok, {"kind": kind, "ws": ws, "tail": tail, "opt": list(opt), "values": {k: v for k, v in vals.items() if k[0] in "xab"}, "observed": obs}

        lhs = [g * scale for g in got]
        return [obl.prove(S, f"{name} (path {i}): final state * norm == gates * embedding of the amplitudes, all 8 entries", lhs, list(exp), replay=rp, signature=f"{kind}:{ws}", timeout=90, over=list(exp))]

    try:
        return obl.run_instance(name, b, consume, max_paths=16)
    except (TypeError, AttributeError, IndexError, KeyError, ValueError, NotImplementedError) as e:
        import traceback

        tb = traceback.format_exc(limit=6)[-600:]
        ok, obs = _num(kind, ws, tail, opt, {"a": 0.4, "b": -1.1})
        if ok:
            return [{"name": name, "status": "violated", "symbols": ["x", "a", "b"], "nontrivial": True, "queries": 1, "signature": f"{kind}:{ws}", "detail": obs,
                     "replay": {"kind": kind, "ws": ws, "tail": tail, "opt": list(opt), "values": {"a": 0.4, "b": -1.1}, "observed": obs}}]
        return [{"name": name, "status": "unsupported", "detail": f"{e!r} {tb}"}]


def run(ctx):
    ctx.level = "other"
    items = []
    for ws in WIRE_SETS:
        for kind in ("StatePrep", "AmplitudeEmbedding"):
            if kind == "StatePrep":  # AmplitudeEmbedding validates the norm of its input numerically (a symbolic unit-norm constraint is invisible to it)
                items.append((kind, ws, "RX.CNOT", (None, False)))
            if len(ws) <= 2 or ctx.tier == "thorough" or kind == "AmplitudeEmbedding":
                items.append((kind, ws, "RX.CNOT", (None, True)))
            if len(ws) >= 2 and (len(ws) == 2 or ctx.tier == "thorough"):
                items.append((kind, ws, "none", (0.0, False)))
                items.append((kind, ws, "RX.CNOT", (0.5, False)))
        if len(ws) >= 2:
            for bits in itertools.product([0, 1], repeat=len(ws)):
                if ctx.tier == "quick" and sum(bits) not in (1, len(ws) - 1):
                    continue
                items.append(("BasisState", ws, "RX.CNOT", bits))
                items.append(("BasisEmbedding", ws, "RX.CNOT", bits))
    if ctx.only:
        items = [it for it in items if ctx.only in str(it)]
    ctx.shapes = len(items)
    from pennylane.devices.qubit import create_initial_state

    ctx.encode(qp.StatePrep, qp.AmplitudeEmbedding, qp.BasisState, qp.BasisEmbedding, create_initial_state)
    ctx.bound(register="3 wires", wire_subsets=WIRE_SETS, amplitudes="all complex amplitudes (symbolic; unit norm by constraint, or arbitrary with normalize=True)", padding=[None, 0.0, 0.5],
              followed_by=list(TAILS), basis_states="all bit patterns on the listed wires (quick: weight 1 and k-1)",
              outside="decompositions of the preparation templates (angles from arccos / arctan2 of the amplitudes), MPSPrep, Superposition, QROMStatePreparation, SumOfSlatersPrep, "
                      "MultiplexerStatePreparation, CosineWindow, PartialUnaryStatePreparation, mid-circuit preparation, default.mixed, more than 3 wires")
    ctx.assume(*sx.SHIM_NOTES[:3], "sqrt by its defining equation (normalisation)", "oracle: embedding by bit positions in the listed wire order; gates by qp.matrix products")
    ctx.rule = "one obligation per (template, wire subset, options, path); non-trivial = mentions symbolic amplitudes or angles"
    ctx.pmap(work, items, timeout_each=600)
