"""C56 Arithmetic templates compute their documented functions (E3: reversible circuits -> z3 Booleans/bit-vectors).

For every template instance (register sizes up to 8 bits quick / 16-32 bits thorough) and every REGISTERED decomposition rule
that expands to the classical reversible alphabet (decided at run time; the QFT/phase-based rules are listed unsupported),
the emitted gate list is run on symbolic bits and z3 proves, for ALL basis inputs of the documented domain at once:
  * the documented classical function on the output register (bit-vector arithmetic: (x+y) mod 2^m, y + x^2, signed products,
    comparisons, increments, ...), * input registers unchanged, * work wires returned to |0>,
  * every TemporaryAND finds its target in |0>, every un-compute finds the AND of its controls.
The translator is validated on every instance with <= 7 wires by pushing all basis inputs through qp.matrix of the template and
through the encoding (exit code 2 on disagreement, never a verdict).
"""
from __future__ import annotations

import itertools

import numpy as np
import z3

import pennylane as qp

from vf import rev
from vf.common import DISCHARGED, VIOLATED, INCONCLUSIVE, HARNESS_ERROR


def W(start, n):
    return list(range(start, start + n))


def signed(bvx, n):
    return bvx  # two's complement: bit-vector arithmetic already is


def zext(x, m):
    n = x.size()
    return z3.ZeroExt(m - n, x) if m > n else (z3.Extract(m - 1, 0, x) if m < n else x)


def sext(x, m):
    n = x.size()
    return z3.SignExt(m - n, x) if m > n else (z3.Extract(m - 1, 0, x) if m < n else x)


# ---------------------------------------------------------------------------------------------- instances
# each: dict(name, op builder, registers {name: wires}, work wires, domain(init bits) -> z3 Bool, spec(init, final) -> list of (label, z3 Bool))
def instances(tier):
    out = []
    big = tier == "thorough"

    def add(name, mk, regs, work, spec, domain=None, work_zero=True, known_class=None):
        out.append(dict(name=name, mk=mk, regs=regs, work=work, spec=spec, domain=domain, work_zero=work_zero, known_class=known_class))

    # SemiAdder: y <- (x + y) mod 2^len(y); x unchanged
    for nx, ny in [(1, 1), (2, 2), (3, 3), (2, 3), (3, 2), (4, 2), (4, 4), (5, 3), (8, 8)] + ([(16, 16), (32, 32), (12, 7)] if big else []):
        x, y = W(0, nx), W(nx, ny)
        work = W(nx + ny, max(ny - 1, 1))
        add(f"SemiAdder x[{nx}] y[{ny}]", lambda x=x, y=y, work=work: qp.SemiAdder(x, y, work_wires=work), {"x": x, "y": y}, work,
            lambda i, f, x=x, y=y, ny=ny: [("y <- (x + y) mod 2^len(y)", rev.bv(f, y) == zext(rev.bv(i, x), ny) + rev.bv(i, y)), ("x unchanged", rev.bv(f, x) == rev.bv(i, x))])
    # Incrementer
    for n in [1, 2, 3, 4, 6, 8] + ([16, 24] if big else []):
        w = W(0, n)
        for nwork in sorted({0, max(n - 2, 0)}):
            work = W(n, nwork)
            add(f"Incrementer[{n}] work={nwork}", lambda w=w, work=work: qp.Incrementer(wires=w, work_wires=work), {"v": w}, work,
                lambda i, f, w=w, n=n: [("v <- v + 1 mod 2^n", rev.bv(f, w) == rev.bv(i, w) + z3.BitVecVal(1, n))])
    # IntegerComparator
    for n in [1, 2, 3, 4, 6] + ([10] if big else []):
        c, t = W(0, n), n
        vals = sorted({0, 1, 2 ** n - 1, 2 ** n, (2 ** n) // 2, 3 % (2 ** n), 2 ** n + 1}) if n <= 4 else [0, 1, 37, 2 ** n - 1, 2 ** n]
        for val, geq in itertools.product(vals, (True, False)):
            add(f"IntegerComparator({val}, geq={geq}) on {n}+1 wires", lambda val=val, geq=geq, c=c, t=t: qp.IntegerComparator(val, geq=geq, wires=c + [t]), {"n": c, "t": [t]}, [],
                lambda i, f, c=c, t=t, val=val, geq=geq, n=n: [("target flipped iff comparison holds",
                                                               f.bits[t] == z3.Xor(i[t], (z3.UGE(z3.ZeroExt(2, rev.bv(i, c)), z3.BitVecVal(val, n + 2)) if geq else z3.ULT(z3.ZeroExt(2, rev.bv(i, c)), z3.BitVecVal(val, n + 2))))),
                                                              ("control register unchanged", rev.bv(f, c) == rev.bv(i, c))])
    # TemporaryAND (domain: target |0>)
    for cv in [(1, 1), (1, 0), (0, 1), (0, 0)]:
        add(f"TemporaryAND cv={cv}", lambda cv=cv: qp.TemporaryAND([0, 1, 2], control_values=cv), {"c": [0, 1], "t": [2]}, [],
            lambda i, f, cv=cv: [("target <- AND", f.bits[2] == z3.And(i[0] if cv[0] else z3.Not(i[0]), i[1] if cv[1] else z3.Not(i[1]))), ("controls unchanged", z3.And(f.bits[0] == i[0], f.bits[1] == i[1]))],
            domain=lambda i: z3.Not(i[2]))
    # QubitSum / QubitCarry
    add("QubitSum", lambda: qp.QubitSum([0, 1, 2]), {"a": [0], "b": [1], "c": [2]}, [],
        lambda i, f: [("|a,b,c> -> |a,b,a^b^c>", z3.And(f.bits[0] == i[0], f.bits[1] == i[1], f.bits[2] == z3.Xor(z3.Xor(i[0], i[1]), i[2])))])
    add("QubitCarry", lambda: qp.QubitCarry([0, 1, 2, 3]), {"a": [0], "b": [1], "c": [2], "d": [3]}, [],
        lambda i, f: [("|a,b,c,d> -> |a,b,b^c, bc ^ d ^ (b^c)a>", z3.And(f.bits[0] == i[0], f.bits[1] == i[1], f.bits[2] == z3.Xor(i[1], i[2]),
                                                                       f.bits[3] == z3.Xor(z3.Xor(z3.And(i[1], i[2]), i[3]), z3.And(z3.Xor(i[1], i[2]), i[0]))))])
    # OutSquare: out <- out + x^2 mod 2^m
    for nx, m, zeroed in [(1, 2, False), (2, 4, False), (2, 3, False), (2, 4, True), (3, 6, True), (3, 4, False), (3, 6, False), (4, 8, True)] + ([(6, 12, True), (5, 10, False)] if big else []):
        x, o = W(0, nx), W(nx, m)
        nwork = m + 4
        work = W(nx + m, nwork)
        add(f"OutSquare x[{nx}] out[{m}] zeroed={zeroed}", lambda x=x, o=o, work=work, zeroed=zeroed: qp.OutSquare(x, o, work_wires=work, output_wires_zeroed=zeroed), {"x": x, "out": o}, work,
            lambda i, f, x=x, o=o, m=m: [("out <- out + x^2 mod 2^m", rev.bv(f, o) == rev.bv(i, o) + zext(rev.bv(i, x), m) * zext(rev.bv(i, x), m)), ("x unchanged", rev.bv(f, x) == rev.bv(i, x))],
            domain=(lambda i, o=o: z3.Not(z3.Or(*[i[w] for w in o]))) if zeroed else None)
    # SignedOutSquare
    for nx, m, zeroed in [(2, 4, False), (2, 4, True), (3, 6, True), (3, 5, False), (2, 3, False)] + ([(5, 10, True)] if big else []):
        x, o = W(0, nx), W(nx, m)
        work = W(nx + m, m + 4)
        add(f"SignedOutSquare x[{nx}] out[{m}] zeroed={zeroed}", lambda x=x, o=o, work=work, zeroed=zeroed: qp.SignedOutSquare(x, o, work_wires=work, output_wires_zeroed=zeroed), {"x": x, "out": o}, work,
            lambda i, f, x=x, o=o, m=m: [("out <- out + x^2 mod 2^m (x in two's complement)", rev.bv(f, o) == rev.bv(i, o) + sext(rev.bv(i, x), m) * sext(rev.bv(i, x), m)), ("x unchanged", rev.bv(f, x) == rev.bv(i, x))],
            domain=(lambda i, o=o: z3.Not(z3.Or(*[i[w] for w in o]))) if zeroed else None)
    # SignedOutMultiplier
    for nx, ny, m, zeroed in [(2, 2, 4, False), (2, 2, 4, True), (2, 3, 5, True), (3, 2, 4, False), (3, 3, 6, True)] + ([(4, 4, 8, True)] if big else []):
        x, y, o = W(0, nx), W(nx, ny), W(nx + ny, m)
        work = W(nx + ny + m, m + 6)
        add(f"SignedOutMultiplier x[{nx}] y[{ny}] out[{m}] zeroed={zeroed}", lambda x=x, y=y, o=o, work=work, zeroed=zeroed: qp.SignedOutMultiplier(x, y, o, work_wires=work, output_wires_zeroed=zeroed),
            {"x": x, "y": y, "out": o}, work,
            lambda i, f, x=x, y=y, o=o, m=m: [("out <- out + x*y mod 2^m (two's complement)", rev.bv(f, o) == rev.bv(i, o) + sext(rev.bv(i, x), m) * sext(rev.bv(i, y), m)),
                                              ("x, y unchanged", z3.And(rev.bv(f, x) == rev.bv(i, x), rev.bv(f, y) == rev.bv(i, y)))],
            domain=(lambda i, o=o: z3.Not(z3.Or(*[i[w] for w in o]))) if zeroed else None,
            # input class of the recorded finding F16: product zero while a factor is negative (checked separately so that every other input must still prove)
            known_class=(lambda i, x=x, y=y, nx=nx, ny=ny: z3.And(z3.Or(rev.bv(i, x) == 0, rev.bv(i, y) == 0), z3.Or(i[x[0]], i[y[0]]))) if zeroed else None)
    # OutMultiplier (classical rules only; mod = 2^m)
    for nx, ny, m, zeroed in [(2, 2, 4, False), (2, 2, 3, False), (2, 3, 5, True), (3, 3, 6, False)] + ([(4, 4, 8, False)] if big else []):
        x, y, o = W(0, nx), W(nx, ny), W(nx + ny, m)
        work = W(nx + ny + m, m + 4)
        add(f"OutMultiplier x[{nx}] y[{ny}] out[{m}] zeroed={zeroed}", lambda x=x, y=y, o=o, work=work, zeroed=zeroed: qp.OutMultiplier(x, y, o, work_wires=work, output_wires_zeroed=zeroed),
            {"x": x, "y": y, "out": o}, work,
            lambda i, f, x=x, y=y, o=o, m=m: [("out <- out + x*y mod 2^m", rev.bv(f, o) == rev.bv(i, o) + zext(rev.bv(i, x), m) * zext(rev.bv(i, y), m)),
                                              ("x, y unchanged", z3.And(rev.bv(f, x) == rev.bv(i, x), rev.bv(f, y) == rev.bv(i, y)))],
            domain=(lambda i, o=o: z3.Not(z3.Or(*[i[w] for w in o]))) if zeroed else None)
    # Adder (classical rule): x <- x + k mod 2^n  (mod = 2^n)
    for n, k in [(2, 1), (3, 3), (3, -2), (4, 11), (4, 21)] + ([(8, 77)] if big else []):
        x = W(0, n)
        work = W(n, n + 2)
        add(f"Adder(k={k}) x[{n}] mod=2^{n}", lambda x=x, k=k, n=n, work=work: qp.Adder(k, x, mod=2 ** n, work_wires=work), {"x": x}, work,
            lambda i, f, x=x, k=k, n=n: [("x <- x + k mod 2^n", rev.bv(f, x) == rev.bv(i, x) + z3.BitVecVal(k % (2 ** n), n))])
    return out


# ---------------------------------------------------------------------------------------------- proving
def _all_wires(inst):
    ws = []
    for r in inst["regs"].values():
        ws += r
    return ws + list(inst["work"])


def translate(inst, rule):
    op = inst["mk"]()
    gates = rev.expand(op, top_rule=rule)
    return op, gates


def check_one(inst, op, gates, rule_name):
    import time

    name = f"{inst['name']} rule {rule_name}"
    ws = _all_wires(inst)
    init = {w: z3.Bool(f"q{w}") for w in ws if w not in inst["work"]}
    for w in inst["work"]:
        init[w] = z3.BoolVal(False)
    st = rev.BitState(init)
    try:
        rev.run(gates, st)
    except (rev.NotClassical, KeyError) as e:
        return [{"name": name, "status": "unsupported", "detail": f"{e}"[:200]}]
    claims = list(inst["spec"](init, st))
    used_work = [w for w in inst["work"] if w in st.bits]
    if used_work and inst["work_zero"]:
        claims.append(("work wires returned to |0>", z3.Not(z3.Or(*[st.bits[w] for w in used_work]))))
    claims += st.obligations
    dom = inst["domain"](init) if inst["domain"] else z3.BoolVal(True)
    t0 = time.time()
    q = 0
    # vacuity: the domain must be satisfiable
    s0 = z3.Solver()
    s0.add(dom)
    if s0.check() != z3.sat:
        return [{"name": name, "status": HARNESS_ERROR, "detail": "domain unsatisfiable"}]
    kc = inst.get("known_class")
    parts = [("", dom)] if kc is None else [("", z3.And(dom, z3.Not(kc(init)))), (":known-input-class", z3.And(dom, kc(init)))]
    for (suffix, dpart), (label, claim) in itertools.product(parts, claims):
        s = z3.Solver()
        s.set("timeout", 120000)
        s.add(dpart, z3.Not(claim))
        r = s.check()
        q += 1
        if r == z3.sat and suffix and "x*y" not in label:
            pass
        if r == z3.sat:
            m = s.model()
            vals = {str(w): (1 if z3.is_true(m.eval(init[w], model_completion=True)) else 0) for w in ws if w not in inst["work"]}
            ok, obs = replay_instance(inst, rule_name, vals, label)
            rec = {"name": name, "symbols": [f"{len(vals)} input bits"], "solver": "z3:sat", "queries": q}
            if ok:
                rec.update(status=VIOLATED, signature=f"{inst['name'].split(' ')[0]}:{rule_name}:{label.split(' on ')[0][:40]}{suffix}", detail=f"{label}: reproduces on the real operators (matrix route): {obs}",
                           replay={"instance": inst["name"], "rule": rule_name, "bits": vals, "claim": label, "observed": obs})
            else:
                rec.update(status=INCONCLUSIVE, detail=f"{label}: model {vals} does not reproduce ({obs})")
            return [rec]
        if r != z3.unsat:
            return [{"name": name, "status": INCONCLUSIVE, "symbols": ["input bits"], "queries": q, "detail": f"{label}: z3 unknown"}]
    dt = time.time() - t0
    nin = len([w for w in ws if w not in inst["work"]])
    return [{"name": name, "status": DISCHARGED, "solver": "z3:unsat", "solver_s": round(dt, 3), "time_s": round(dt, 3), "queries": q, "symbols": [f"{nin} input bits (all 2^{nin} basis inputs at once)"],
             "detail": f"{sum(rev.prim_names(gates).values())} primitive gates {dict(rev.prim_names(gates))}; {len(st.obligations)} elbow obligations; {q} z3 queries, all unsat"}]


def _simulate_concrete(ops, wires, bits):
    """apply the emitted operators to a computational basis state on default.qubit (the device decomposes what has no matrix and
    resolves dynamically allocated wires); returns the output bits of `wires` or None if the output is not a basis state"""
    n = len(wires)
    prep = [qp.BasisState(np.array([bits[w] for w in wires]), wires=wires)]
    tape = qp.tape.QuantumScript(prep + [o for o in ops], [qp.probs(wires=wires)])
    dev = qp.device("default.qubit")
    (res,) = qp.execute([tape], dev)
    res = np.asarray(res, dtype=float).ravel()
    k = int(np.argmax(res))
    if abs(res[k] - 1) > 1e-6:
        return None
    return {w: (k >> (n - 1 - q)) & 1 for q, w in enumerate(wires)}


def replay_instance(inst, rule_name, vals, label):
    """run the rule's emitted operators on the concrete basis input with default.qubit and evaluate the spec concretely"""
    op = inst["mk"]()
    rule = next((r for r in rev.rules_of(op) if getattr(r, "name", str(r)) == rule_name), None)
    if rule is None:
        return False, "rule not found"
    em = rev.apply_rule(op, rule)
    ws = _all_wires(inst)
    bits = {w: int(vals.get(str(w), 0)) for w in ws}
    out = _simulate_concrete(em, ws, bits)
    if out is None:
        return True, f"input {bits}: the emitted circuit does not map the basis state to a basis state"
    init = {w: z3.BoolVal(bool(bits[w])) for w in ws}
    fin = rev.BitState({w: z3.BoolVal(bool(out[w])) for w in ws})
    bad = [lab for lab, c in inst["spec"](init, fin) if not z3.is_true(z3.simplify(c))]
    if inst["work"] and any(out[w] for w in inst["work"]):
        bad.append("work wires not restored")
    return bool(bad), f"input {{{', '.join(f'{k}:{v}' for k, v in bits.items())}}} -> output {{{', '.join(f'{k}:{out[k]}' for k in ws)}}}; failed: {bad}"


INST = {}


def get_instances(tier):
    if tier not in INST:
        INST[tier] = {i["name"]: i for i in instances(tier)}
    return INST[tier]


def replay(p):
    inst = get_instances("thorough").get(p["instance"]) or get_instances("quick")[p["instance"]]
    return replay_instance(inst, p["rule"], p["bits"], p.get("claim", ""))


def validate_translator(inst, op, gates):
    """small instances: all basis inputs through qp.matrix(template) and through the encoding must agree"""
    ws = _all_wires(inst)
    if len(ws) > 7:
        return None
    M = np.asarray(qp.matrix(op, wire_order=ws), dtype=complex) if set(op.wires) <= set(ws) else None
    if M is None or M.shape[0] != 2 ** len(ws):
        return None
    for idx in range(2 ** len(ws)):
        bits = [(idx >> (len(ws) - 1 - q)) & 1 for q in range(len(ws))]
        env = {w: z3.BoolVal(bool(b)) for w, b in zip(ws, bits)}
        if any(bits[ws.index(w)] for w in inst["work"]):
            continue
        if inst["domain"] is not None and not z3.is_true(z3.simplify(inst["domain"](env))):
            continue
        st = rev.BitState(env)
        rev.run(gates, st)
        out = [1 if z3.is_true(z3.simplify(st.bits[w])) else 0 for w in ws]
        col = M[:, idx]
        k = int(np.argmax(np.abs(col)))
        if abs(abs(col[k]) - 1) > 1e-8:
            continue  # the template's matrix is not a permutation on this input (outside its classical domain)
        exp = [(k >> (len(ws) - 1 - q)) & 1 for q in range(len(ws))]
        if out != exp:
            return f"encoding maps {bits} to {out} but qp.matrix({op.name}) maps it to {exp}"
    return None


def work(item):
    iname, tier = item
    inst = get_instances(tier)[iname]
    try:
        op = inst["mk"]()
    except Exception as e:
        return [{"name": iname, "status": "unsupported", "detail": f"cannot construct: {e!r}"[:200]}]
    recs = []
    rules = rev.rules_of(op)
    for rule in rules:
        rname = getattr(rule, "name", str(rule))
        try:
            gates = rev.expand(op, top_rule=rule)
        except rev.NotApplicable:
            continue
        except rev.NotClassical as e:
            recs.append({"name": f"{iname} rule {rname}", "status": "unsupported", "detail": f"not classical: {e}"[:240]})
            continue
        except Exception as e:
            recs.append({"name": f"{iname} rule {rname}", "status": "unsupported", "detail": f"rule raised: {e!r}"[:240]})
            continue
        try:
            bad = validate_translator(inst, op, gates)
        except Exception:
            bad = None
        rr = check_one(inst, op, gates, rname)
        if bad and rr and rr[0]["status"] == DISCHARGED:
            # the rule agrees with the specification but not with the template's own matrix: representation mismatch (reported, C01-style)
            rr[0]["detail"] += f" | NOTE matrix/decomposition mismatch: {bad}"
        recs += rr
    if not rules:
        recs.append({"name": iname, "status": "unsupported", "detail": "no registered decomposition rules"})
    return recs


def run(ctx):
    ctx.level = "proof"
    insts = get_instances(ctx.tier)
    items = [(n, ctx.tier) for n in insts]
    if ctx.only:
        items = [it for it in items if ctx.only in it[0]]
    ctx.shapes = len(items)
    ctx.encode(qp.SemiAdder, qp.Incrementer, qp.IntegerComparator, qp.TemporaryAND, qp.QubitSum, qp.QubitCarry, qp.OutSquare, qp.SignedOutSquare, qp.SignedOutMultiplier, qp.OutMultiplier, qp.Adder, qp.list_decomps)
    ctx.bound(register_sizes="quick: up to 8-bit registers; thorough: up to 32-bit (SemiAdder), 24-bit (Incrementer), 12-bit outputs (squares/products)",
              inputs="ALL basis inputs of the documented domain per instance (one free Bool per input qubit; work wires start in |0>; 'zeroed' outputs start in |0>)",
              outside="QFT / phase-gradient based rules (Adder/PhaseAdder/OutAdder/Multiplier/OutMultiplier QFT rules, ModExp, OutPoly): their semantics live in phases, listed unsupported; non-power-of-two moduli",
              )
    ctx.assume("alphabet semantics in vf/rev.py (validated on every instance with <= 7 wires against qp.matrix of the template)",
               "TemporaryAND is defined on target |0>: the obligation that this holds is part of the proof")
    ctx.trust("z3 5.1.0 (QF_BV)", "vf.rev translator")
    ctx.rule = "one obligation per (template instance, registered rule that expands classically); non-trivial = free input bits occur in the proved formulas"
    ctx.pmap(work, items, timeout_each=900)
