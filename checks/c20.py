"""C20 Measurement splitting and diagonalisation preserve results (E1).

A fixed entangling 3-wire circuit with symbolic angles carries measurement lists whose observables have SYMBOLIC coefficients,
scalar offsets and s_prod factors.  The REAL transform (split_non_commuting with every grouping strategy, split_to_single_terms,
diagonalize_measurements with several supported bases, broadcast_expand) is applied; the results of every produced tape are
computed by the independent matrix-route oracle (vf.simx: own state evolution + <psi|O|psi> / var / probs), the REAL
post-processing function is applied to them, and z3 proves equality with the oracle's results for the ORIGINAL tape, for all
angles and coefficients.  A transform may reject a tape with an error; it may not return a wrong number.
"""
from __future__ import annotations

import numpy as np
import pennylane as qp

from vf import symx as sx, obl, simx

W = [0, 1, 2]
PN = ["a", "b", "g"]
CN = ["c0", "c1", "c2", "c3"]


def prefix(ps):
    return [qp.RY(ps[0], 0), qp.CNOT([0, 1]), qp.RX(ps[1], 1), qp.CNOT([1, 2]), qp.RZ(ps[2], 2), qp.RY(ps[1], 2), qp.Hadamard(0), qp.CRX(ps[2], [2, 0])]


X, Y, Z, I, H = qp.PauliX, qp.PauliY, qp.PauliZ, qp.Identity, qp.Hadamard
HERM = np.array([[1.0, 0.5 - 0.25j], [0.5 + 0.25j, -2.0]])

# name -> builder(c) -> list of measurement processes
MLISTS = {
    "expval X0, Z0": lambda c: [qp.expval(X(0)), qp.expval(Z(0))],
    "expval X0@Y1, Z0@Z1, X2": lambda c: [qp.expval(X(0) @ Y(1)), qp.expval(Z(0) @ Z(1)), qp.expval(X(2))],
    "expval sum(c0 X0 + c1 Z0@Z1 + c2 I), Y1": lambda c: [qp.expval(c[0] * X(0) + c[1] * (Z(0) @ Z(1)) + c[2] * I(0)), qp.expval(Y(1))],
    "expval Hamiltonian(c0 XZ, c1 Y1, c2 Z0, c3 Z1)": lambda c: [qp.expval(qp.Hamiltonian([c[0], c[1], c[2], c[3]], [X(0) @ Z(1), Y(1), Z(0), Z(1)]))],
    "expval Z0+0.5 X1, Y1, Z0 (repeat)": lambda c: [qp.expval(Z(0) + 0.5 * X(1)), qp.expval(Y(1)), qp.expval(Z(0))],
    "expval Z0, Z0+c0 X1, Z0 (repeats)": lambda c: [qp.expval(Z(0)), qp.expval(Z(0) + c[0] * X(1)), qp.expval(Z(0)), qp.expval(X(1))],
    "var Z0, expval X0": lambda c: [qp.var(Z(0)), qp.expval(X(0))],
    "var X0@Z1, var Y1, var X0@Z1": lambda c: [qp.var(X(0) @ Z(1)), qp.var(Y(1)), qp.var(X(0) @ Z(1))],
    "var I0": lambda c: [qp.var(I(0))],
    "var I0, expval X1": lambda c: [qp.var(I(0)), qp.expval(X(1))],
    "expval I0": lambda c: [qp.expval(I(0))],
    "expval c0*I2": lambda c: [qp.expval(c[0] * I(2))],
    "expval c0 Y0 + c1 I0": lambda c: [qp.expval(c[0] * Y(0) + c[1] * I(0))],
    "expval c0 (I1@I0) + c1 (X0@Y1)": lambda c: [qp.expval(c[0] * (I(1) @ I(0)) + c[1] * (X(0) @ Y(1)))],
    "probs[0,1], expval X0": lambda c: [qp.probs(wires=[0, 1]), qp.expval(X(0))],
    "probs[2,0], expval Z2, expval Y0": lambda c: [qp.probs(wires=[2, 0]), qp.expval(Z(2)), qp.expval(Y(0))],
    "expval X0@Y1, X0": lambda c: [qp.expval(X(0) @ Y(1)), qp.expval(X(0))],
    "expval X0@Y1, X0, Y1@Z2": lambda c: [qp.expval(X(0) @ Y(1)), qp.expval(X(0)), qp.expval(Y(1) @ Z(2))],
    "expval H0": lambda c: [qp.expval(H(0))],
    "expval X0@H1, H1": lambda c: [qp.expval(X(0) @ H(1)), qp.expval(H(1))],
    "expval s_prod(c0, X0@X1), c1*Y2": lambda c: [qp.expval(qp.s_prod(c[0], X(0) @ X(1))), qp.expval(c[1] * Y(2))],
    "expval nested sum": lambda c: [qp.expval(c[0] * (X(0) + c[1] * Z(1)) + c[2] * (Y(2) @ X(0)))],
    "var Y0@Y1, expval Hermitian0": lambda c: [qp.var(Y(0) @ Y(1)), qp.expval(qp.Hermitian(HERM, wires=0))],
    "expval Hermitian1, X1": lambda c: [qp.expval(qp.Hermitian(HERM, wires=1)), qp.expval(X(1))],
    "expval Projector[1,0] on 0,2 ; X0": lambda c: [qp.expval(qp.Projector([1, 0], wires=[0, 2])), qp.expval(X(0))],
    "expval Z0@Z1@Z2, X0@X1@X2, Y0@Y1@Y2": lambda c: [qp.expval(Z(0) @ Z(1) @ Z(2)), qp.expval(X(0) @ X(1) @ X(2)), qp.expval(Y(0) @ Y(1) @ Y(2))],
    "expval sum with duplicate terms": lambda c: [qp.expval(c[0] * X(0) + c[1] * X(0) + c[2] * Z(1) + Z(1))],
}

TRANSFORMS = {
    "split_non_commuting(default)": lambda t: qp.transforms.split_non_commuting(t),
    "split_non_commuting(wires)": lambda t: qp.transforms.split_non_commuting(t, grouping_strategy="wires"),
    "split_non_commuting(qwc)": lambda t: qp.transforms.split_non_commuting(t, grouping_strategy="qwc"),
    "split_non_commuting(None)": lambda t: qp.transforms.split_non_commuting(t, grouping_strategy=None),
    "split_to_single_terms": lambda t: qp.transforms.split_to_single_terms(t),
    "diagonalize_measurements": lambda t: qp.transforms.diagonalize_measurements(t),
    "diagonalize_measurements(supported=[Y,Z])": lambda t: qp.transforms.diagonalize_measurements(t, supported_base_obs=[qp.Y, qp.Z]),
    "diagonalize_measurements(supported=[X,Z])": lambda t: qp.transforms.diagonalize_measurements(t, supported_base_obs=[qp.X, qp.Z]),
    "diagonalize_measurements(to_eigvals)": lambda t: qp.transforms.diagonalize_measurements(t, to_eigvals=True),
}
# transforms documented to reject some inputs: an exception is an accepted outcome
_REJECT_OK = (ValueError, qp.exceptions.QuantumFunctionError, NotImplementedError, qp.operation.DiagGatesUndefinedError)


def oracle_results(tape):
    psi = simx.oracle_state(list(tape.operations), W)
    out = []
    for mp in tape.measurements:
        if mp.obs is None and type(mp).__name__ == "ExpectationMP":
            # measurement given by eigenvalues on wires in the computational basis (to_eigvals=True)
            ev = sx.arr(mp.eigvals())
            pr = sx.arr(simx.oracle_measure(psi, qp.probs(wires=mp.wires), W))
            out.append(np.dot(ev, pr))
        elif mp.obs is None and type(mp).__name__ == "VarianceMP":
            ev = sx.arr(mp.eigvals())
            pr = sx.arr(simx.oracle_measure(psi, qp.probs(wires=mp.wires), W))
            out.append(np.dot(ev * ev, pr) - np.dot(ev, pr) ** 2)
        else:
            out.append(sx.arr(simx.oracle_measure(psi, mp, W)))
    return tuple(out) if len(out) != 1 else out[0]


def _num(mname, tname, params, coeffs):
    ops = prefix(params)
    mps = MLISTS[mname](coeffs)
    tape = qp.tape.QuantumScript(ops, mps)
    ref = qp.devices.qubit.simulate(qp.tape.QuantumScript(ops, mps))
    try:
        tapes, fn = TRANSFORMS[tname](tape)
    except _REJECT_OK as e:
        return False, f"rejected: {e!r}"
    res = fn(tuple(qp.devices.qubit.simulate(t) for t in tapes))
    if len(mps) == 1:
        res, ref = (res,), (ref,) if not isinstance(ref, tuple) else ref
    worst = 0.0
    for r, b in zip(res, ref):
        worst = max(worst, float(np.max(np.abs(np.asarray(r, dtype=complex) - np.asarray(b, dtype=complex)))))
    return worst > 1e-6, f"{tname} on [{mname}] at angles={params} coeffs={coeffs}: transformed={[np.round(np.asarray(r, dtype=complex), 4).tolist() for r in res]} direct={[np.round(np.asarray(b, dtype=complex), 4).tolist() for b in ref]}"


def replay(p):
    if p.get("kind") == "broadcast":
        return _num_broadcast(p["params"])
    return _num(p["mlist"], p["transform"], p["params"], p["coeffs"])


def work(item):
    mname, tname = item
    name = f"{tname} on [{mname}]"

    def build(S):
        ps = [S.param(x) for x in PN]
        cs = [np.array(S.real(x), dtype=object) for x in CN]
        ops = prefix(ps)
        mps = MLISTS[mname](cs)
        tape = qp.tape.QuantumScript(ops, mps)
        ref = oracle_results(tape)
        try:
            tapes, fn = TRANSFORMS[tname](tape)
        except _REJECT_OK as e:
            return ("rejected", repr(e))
        outs = tuple(oracle_results(t) for t in tapes)
        res = fn(outs)
        return ("ok", res, ref, len(mps), len(tapes))

    def consume(S, v, i):
        if v[0] == "rejected":
            return [{"name": f"{name}: rejected with the documented error", "status": "discharged", "symbols": [], "nontrivial": False, "queries": 0, "detail": v[1][:160]}]
        _, res, ref, nm, nt = v

        def rp(model):
            ps = [model["params"].get(x, 0.0) for x in PN]
            fr = model.get("vars", {})
            cs = [fr.get(x, 1.0) for x in CN]
            ok, obs = _num(mname, tname, ps, cs)
            return ok, {"mlist": mname, "transform": tname, "params": ps, "coeffs": cs, "observed": obs}

        if nm == 1:
            res, ref = (res,), (ref,)
        out = []
        for j, (r, b) in enumerate(zip(res, ref)):
            b = sx.arr(b)
            r = sx.arr(np.asarray(r, dtype=object)).reshape(b.shape)
            out.append(obl.prove(S, f"{name}: measurement {j} ({nt} tape(s)) == direct result", r, b, replay=rp, signature=f"{tname.split('(')[0]}:{mname}", timeout=90))
        return out

    try:
        return obl.run_instance(name, build, consume)
    except (TypeError, AttributeError, IndexError, KeyError) as e:
        import traceback

        return [{"name": name, "status": "unsupported", "detail": f"{e!r} {traceback.format_exc(limit=4)[-400:]}"}]


# ------------------------------------------------------------------ broadcast_expand
def _bc_ops(x, y):
    return [qp.RY(y, 0), qp.CNOT([0, 1]), qp.RX(x, 1), qp.CNOT([1, 2]), qp.CRot(x, y, x, wires=[2, 0]), qp.RZ(y, 2)]


def _bc_mps():
    return [qp.expval(Z(0) @ X(1)), qp.probs(wires=[2, 0]), qp.var(Y(1)), qp.expval(0.5 * X(2) + 1.5 * Z(0))]


def _num_broadcast(params):
    x1, x2, y = params
    tape = qp.tape.QuantumScript(_bc_ops(np.array([x1, x2]), y), _bc_mps())
    tapes, fn = qp.transforms.broadcast_expand(tape)
    res = fn(tuple(qp.devices.qubit.simulate(t) for t in tapes))
    worst = 0.0
    for k, xv in enumerate((x1, x2)):
        ref = qp.devices.qubit.simulate(qp.tape.QuantumScript(_bc_ops(xv, y), _bc_mps()))
        for r, b in zip(res, ref):
            worst = max(worst, float(np.max(np.abs(np.asarray(r, dtype=complex)[k] - np.asarray(b, dtype=complex)))))
    return worst > 1e-6, f"broadcast_expand at x=[{x1},{x2}] y={y}: max deviation from per-element results {worst:.3g}"


def work_broadcast(_):
    name = "broadcast_expand on a batched 3-wire circuit"

    def build(S):
        x1, x2, y = S.param("a", wrap=False), S.param("b", wrap=False), S.param("g")
        tape = qp.tape.QuantumScript(_bc_ops(np.array([x1, x2], dtype=object), y), _bc_mps())
        tapes, fn = qp.transforms.broadcast_expand(tape)
        res = fn(tuple(oracle_results(t) for t in tapes))
        refs = [oracle_results(qp.tape.QuantumScript(_bc_ops(xv, y), _bc_mps())) for xv in (S.param("a"), S.param("b"))]
        return res, refs, len(tapes)

    def consume(S, v, i):
        res, refs, nt = v

        def rp(model):
            ps = [model["params"].get(x, 0.0) for x in PN]
            ok, obs = _num_broadcast(ps)
            return ok, {"kind": "broadcast", "params": ps, "observed": obs}

        out = [{"name": f"{name}: one tape per batch element", "status": "discharged" if nt == 2 else "violated", "symbols": [], "nontrivial": False, "queries": 0,
                "signature": "broadcast:ntapes", "replay": {"kind": "broadcast", "params": [0.3, 0.7, 1.1]}}]
        for j in range(len(refs[0])):
            for k in range(2):
                b = sx.arr(refs[k][j])
                r = np.asarray(sx.arr(np.asarray(res[j], dtype=object))[k], dtype=object).reshape(b.shape)
                out.append(obl.prove(S, f"{name}: measurement {j}, batch element {k} == unbatched result", r, b, replay=rp, signature=f"broadcast:{j}", timeout=90))
        return out

    return obl.run_instance(name, build, consume)


def _dispatch(it):
    return work_broadcast(None) if it[0] == "broadcast" else work(it)


def run(ctx):
    ctx.level = "proof"
    items = [(m, t) for m in MLISTS for t in TRANSFORMS] + [("broadcast", "broadcast_expand")]
    if ctx.only:
        items = [it for it in items if ctx.only in f"{it[1]} on [{it[0]}]"]
    ctx.shapes = len(items)
    import importlib

    SNC = importlib.import_module("pennylane.transforms.split_non_commuting")
    DM = importlib.import_module("pennylane.transforms.diagonalize_measurements")
    ctx.encode(SNC.split_non_commuting, SNC._split_all_multi_term_obs_mps, SNC._processing_fn_with_grouping, SNC._processing_fn_no_grouping, DM.diagonalize_measurements, DM._diagonalize_observable,
               qp.transforms.split_to_single_terms, qp.transforms.broadcast_expand)
    ctx.bound(angles="all real values (3 symbols)", coefficients="all real values (4 symbols) for Hamiltonian/Sum coefficients, offsets and s_prod factors",
              measurement_lists=list(MLISTS), transforms=list(TRANSFORMS) + ["broadcast_expand"],
              outside="sign_expand (eigendecomposition), batch_input/batch_params (QNode-level), sample/counts (finite shots), shot-distribution options of split_non_commuting")
    ctx.assume(*sx.SHIM_NOTES, "results of the produced tapes are computed by the matrix-route oracle of vf/simx.py (the device kernels are C26's subject)")
    ctx.rule = "one obligation per (measurement list, transform, measurement); non-trivial = mentions symbolic angles/coefficients"
    ctx.pmap(_dispatch, items, timeout_each=400)
