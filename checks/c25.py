"""C25 Noise insertion and error mitigation follow their definitions (E1).

(a) fold_global: circuits with SYMBOLIC gate angles are folded with scale factors 1, 2, 3, 1.5, 2.5, 3.4, 5; z3 proves for all
    angles that the folded circuit has the SAME unitary, and the number of operations equals the documented count
    n + 2n*floor((s-1)/2) + 2*round(frac * n / 2).
(b) insert / add_noise: the transformed circuit contains exactly the original operations in order plus the requested channel at
    the positions the arguments select (start / end / all / after or before given operation types; noise-model conditions), compared
    with a positional model; with a SYMBOLIC noise strength p the lifted default.mixed results are proved equal to the noiseless
    default.qubit results at p = 0 (the strength symbol is set to zero in the proved identity), for all gate angles.
(c) extrapolation: richardson_extrapolate and poly_extrapolate on data y_i = sum_k c_k x_i^k with SYMBOLIC coefficients c_k (order
    up to the documented one) return c_0 (proved up to 1e-7: the normal equations are solved in floating point);
    exponential_extrapolate needs log / exp of solver terms: outside.
"""
from __future__ import annotations

import math as pymath

import numpy as np
import pennylane as qp

from vf import symx as sx, obl, simx
from checks import c28

PN = ["a", "b", "g"]
CIRCUITS = {
    "RX.RY.CNOT.RZ": lambda p: [qp.RX(p[0], 0), qp.RY(p[1], 1), qp.CNOT([0, 1]), qp.RZ(p[2], 0)],
    "H.CRX.S.T.IsingXX": lambda p: [qp.Hadamard(0), qp.CRX(p[0], [0, 1]), qp.S(0), qp.T(1), qp.IsingXX(p[1], [0, 1])],
    "Rot.SX.CZ": lambda p: [qp.Rot(p[0], p[1], p[2], 0), qp.SX(1), qp.CZ([1, 0])],
}
SCALES = [1, 2, 3, 1.5, 2.5, 3.4, 5, 2.9, 4.95, 1.1]  # incl. fractions whose partial fold rounds up to the whole circuit / down to nothing
MEAS = lambda: [qp.expval(qp.PauliZ(0) @ qp.PauliX(1)), qp.probs(wires=[1])]


def expected_len(n, s):
    k = int(pymath.floor((s - 1) / 2))
    frac = (s - 1) - 2 * k
    return n + 2 * n * k + 2 * int(round(frac * n / 2))


def _num_fold(cname, s, params):
    ops = CIRCUITS[cname](list(params))
    tape = qp.tape.QuantumScript(ops, MEAS())
    (ft,), fn = qp.noise.fold_global(tape, s)
    W = list(tape.wires)
    d = float(np.max(np.abs(np.asarray(qp.matrix(ft, wire_order=W), dtype=complex) - np.asarray(qp.matrix(tape, wire_order=W), dtype=complex))))
    n = len(ft.operations)
    return d > 1e-8 or n != expected_len(len(ops), s), f"fold_global({cname}, scale {s}) at {list(params)}: max|U_folded - U| = {d:.3g}; {n} operations, documented count {expected_len(len(ops), s)}"


def fold_work(item):
    cname, s = item
    name = f"fold_global({cname}, scale_factor={s})"
    sx.install_shims()

    def b(S):
        ps = [S.param(x) for x in PN]
        ops = CIRCUITS[cname](ps)
        tape = qp.tape.QuantumScript(ops, MEAS())
        (ft,), fn = qp.noise.fold_global(tape, s)
        W = list(tape.wires)
        return sx.arr(obl.mat_of_ops(ft.operations, W)), sx.arr(obl.mat_of_ops(ops, W)), len(ft.operations), len(ops), list(ft.measurements) == list(tape.measurements) or len(ft.measurements) == len(tape.measurements)

    def consume(S, v, i):
        Uf, U, nf, n, same_m = v

        def rp(model):
            p = [model["params"].get(x, 0.0) for x in PN]
            ok, obs = _num_fold(cname, s, p)
            return ok, {"kind": "fold", "circuit": cname, "scale": s, "params": p, "observed": obs}

        out = [obl.prove(S, f"{name}: folded circuit has the same unitary", Uf, U, replay=rp, signature=f"fold:{cname}", timeout=120)]
        ok = nf == expected_len(n, s) and same_m
        rec = {"name": f"{name}: {nf} operations == documented count", "status": "discharged" if ok else "violated", "symbols": PN, "nontrivial": True, "queries": 0, "detail": f"{nf} operations; documented {expected_len(n, s)}"}
        if not ok:
            okn, obs = _num_fold(cname, s, [0.3, -0.8, 1.9])
            rec.update(signature=f"fold:{cname}:count", replay={"kind": "fold", "circuit": cname, "scale": s, "params": [0.3, -0.8, 1.9], "observed": obs})
        out.append(rec)
        return out

    return obl.run_instance(name, b, consume)


# ---------------------------------------------------------------- insertion
INSERTS = {
    "insert(AmplitudeDamping, end)": dict(op=qp.AmplitudeDamping, position="end", before=False),
    "insert(PhaseDamping, start)": dict(op=qp.PhaseDamping, position="start", before=False),
    "insert(DepolarizingChannel, all)": dict(op=qp.DepolarizingChannel, position="all", before=False),
    "insert(BitFlip, all, before=True)": dict(op=qp.BitFlip, position="all", before=True),
    "insert(PhaseFlip, after RX and CNOT)": dict(op=qp.PhaseFlip, position=[qp.RX, qp.CNOT], before=False),
    "insert(AmplitudeDamping, before RY)": dict(op=qp.AmplitudeDamping, position=qp.RY, before=True),
}


def positional_model(ops, spec, p):
    """expected operation list: names and wires"""
    ch, pos, before = spec["op"], spec["position"], spec["before"]
    W = []
    for o in ops:
        for w in o.wires:
            if w not in W:
                W.append(w)
    out = []
    if pos == "start":
        out += [(ch.__name__, (w,)) for w in W]
    for o in ops:
        hit = pos == "all" or (isinstance(pos, list) and type(o) in pos) or (isinstance(pos, type) and isinstance(o, pos))
        if hit and before:
            out += [(ch.__name__, (w,)) for w in o.wires]
        out.append((o.name, tuple(o.wires)))
        if hit and not before:
            out += [(ch.__name__, (w,)) for w in o.wires]
    if pos == "end":
        out += [(ch.__name__, (w,)) for w in W]
    return out


def noisy_tape(cname, iname, ps, strength):
    ops = CIRCUITS[cname](ps)
    tape = qp.tape.QuantumScript(ops, MEAS())
    spec = INSERTS[iname]
    (nt,), _ = qp.noise.insert(tape, spec["op"], strength, position=spec["position"], before=spec["before"])
    return tape, nt, spec


def _num_insert(cname, iname, params, strength=0.0):
    tape, nt, spec = noisy_tape(cname, iname, list(params), strength)
    got = [(o.name, tuple(o.wires)) for o in nt.operations]
    exp = positional_model(tape.operations, spec, strength)
    if got != exp:
        return True, f"{iname} on {cname}: operations {got} != positional model {exp}"
    r0 = qp.device("default.qubit").execute(tape)
    r1 = qp.device("default.mixed", wires=list(tape.wires)).execute(nt)
    d = max(float(np.max(np.abs(np.asarray(a, dtype=float) - np.asarray(b, dtype=float)))) for a, b in zip(r0, r1))
    return d > 1e-8, f"{iname} on {cname} at {list(params)} with strength {strength}: max|noisy - noiseless| = {d:.3g}"


def insert_work(item):
    cname, iname = item
    name = f"{iname} on {cname}"
    sx.install_shims()

    def b(S):
        ps = [S.param(x) for x in PN]
        pstr = S.real("p")
        S.constrain("==0", pstr.p)  # the identity is claimed at zero strength
        tape, nt, spec = noisy_tape(cname, iname, ps, pstr)
        got = [(o.name, tuple(o.wires)) for o in nt.operations]
        exp = positional_model(tape.operations, spec, pstr)
        _, ref = simx.run_tape(tape)
        _, _, res = c28.run_mixed(nt)
        return got, exp, ref, res

    def consume(S, v, i):
        got, exp, ref, res = v

        def rp(model):
            p = [model["params"].get(x, 0.0) for x in PN]
            ok, obs = _num_insert(cname, iname, p, 0.0)
            return ok, {"kind": "insert", "circuit": cname, "insert": iname, "params": p, "observed": obs}

        ok = got == exp
        rec = {"name": f"{name}: original operations in order plus the channel exactly at the selected positions", "status": "discharged" if ok else "violated", "symbols": PN, "nontrivial": True, "queries": 0,
               "detail": f"{len(got)} operations" if ok else f"{got} != {exp}"}
        if not ok:
            okn, obs = _num_insert(cname, iname, [0.3, -0.8, 1.9], 0.1)
            rec.update(signature=f"insert:{iname}:positions", replay={"kind": "insert", "circuit": cname, "insert": iname, "params": [0.3, -0.8, 1.9], "observed": obs})
        out = [rec]
        for k, (a, r) in enumerate(zip(res, ref)):
            lhs = [x for x in sx.arr(np.asarray(a, dtype=object)).ravel()]
            rhs = [x for x in sx.arr(np.asarray(r, dtype=object)).ravel()]
            out.append(obl.prove(S, f"{name} (path {i}): result {k} at zero strength == noiseless result", lhs, rhs, replay=rp, signature=f"insert:{iname}:zero", timeout=120, tol=1e-7))
        return out

    try:
        return obl.run_instance(name, b, consume, max_paths=16)
    except (TypeError, AttributeError, IndexError, KeyError, ValueError) as e:
        import traceback

        tb = traceback.format_exc(limit=6)[-600:]
        ok, obs = _num_insert(cname, iname, [0.3, -0.8, 1.9], 0.0)
        if ok:
            return [{"name": name, "status": "violated", "symbols": PN, "nontrivial": True, "queries": 0, "signature": f"insert:{iname}", "detail": obs, "replay": {"kind": "insert", "circuit": cname, "insert": iname, "params": [0.3, -0.8, 1.9], "observed": obs}}]
        return [{"name": name, "status": "unsupported", "detail": f"{e!r} {tb}"}]


def add_noise_problem(cname):
    """add_noise with a noise model: channels exactly where the conditions select (structural, concrete angles)"""
    ops = CIRCUITS[cname]([0.3, -0.8, 1.9])
    tape = qp.tape.QuantumScript(ops, MEAS())
    c0 = qp.noise.op_eq(qp.RX) | qp.noise.op_eq(qp.RY)
    c1 = qp.noise.op_in([qp.CNOT, qp.CZ]) & qp.noise.wires_in([0, 1])  # true iff every wire of the operation is in the set
    n0 = qp.noise.partial_wires(qp.AmplitudeDamping, 0.2)

    def n1(op, **kw):
        for w in op.wires:
            qp.PhaseFlip(0.1, w)

    @qp.BooleanFn
    def small_angle(op, **kw):  # a parameter-dependent condition: the verdict differs between gates of the same name on the same wires
        return op.name == "RZ" and float(op.data[0]) < 1.0

    n2 = qp.noise.partial_wires(qp.PhaseDamping, 0.3)
    ops = ops + [qp.RZ(0.4, 0), qp.RZ(2.4, 0), qp.RZ(0.6, 0)]
    tape = qp.tape.QuantumScript(ops, MEAS())
    nm = qp.NoiseModel({c0: n0, c1: n1, small_angle: n2})
    (nt,), _ = qp.add_noise(tape, nm)
    got = [(o.name, tuple(o.wires)) for o in nt.operations]
    exp = []
    for o in ops:
        exp.append((o.name, tuple(o.wires)))
        if o.name in ("RX", "RY"):
            exp += [("AmplitudeDamping", tuple(o.wires))] if len(o.wires) == 1 else [("AmplitudeDamping", tuple(o.wires))]
        if o.name in ("CNOT", "CZ") and set(o.wires) <= {0, 1}:
            exp += [("PhaseFlip", (w,)) for w in o.wires]
        if o.name == "RZ" and float(o.data[0]) < 1.0:
            exp += [("PhaseDamping", tuple(o.wires))]
    return None if got == exp else f"add_noise on {cname}: {got} != {exp}"


def add_noise_work(cname):
    try:
        pr = add_noise_problem(cname)
    except Exception as e:  # noqa: BLE001
        pr = f"raised {e!r}"
    rec = {"name": f"add_noise(noise model with op_eq / op_in & wires_in conditions) on {cname}: channels exactly where the conditions select", "status": "violated" if pr else "discharged", "symbols": [], "nontrivial": False, "queries": 0, "detail": pr or "as selected"}
    if pr:
        rec.update(signature="add_noise", replay={"kind": "add_noise", "circuit": cname, "observed": pr})
    return [rec]


# ---------------------------------------------------------------- extrapolation
NODES = {"1,2,3": [1.0, 2.0, 3.0], "1,1.5,2,3": [1.0, 1.5, 2.0, 3.0], "1,3,5,7,9": [1.0, 3.0, 5.0, 7.0, 9.0]}


def _num_extra(kind, nname, order, coeffs):
    x = NODES[nname]
    y = [sum(c * xi ** k for k, c in enumerate(coeffs)) for xi in x]
    got = qp.noise.richardson_extrapolate(x, y) if kind == "richardson" else qp.noise.poly_extrapolate(x, y, order)
    d = abs(float(got) - coeffs[0])
    return d > 1e-6 * max(1.0, max(abs(c) for c in coeffs)), f"{kind}_extrapolate on nodes {x}, model coefficients {coeffs}: returned {float(got):.9g}, c0 = {coeffs[0]:.9g}"


def extra_work(item):
    kind, nname, order = item
    name = f"{kind}_extrapolate on nodes {nname}" + (f", order {order}" if kind == "poly" else "")
    sx.install_shims()
    x = NODES[nname]
    deg = len(x) - 1 if kind == "richardson" else order

    def b(S):
        cs = [S.real(f"c{k}") for k in range(deg + 1)]
        y = [sum((c * (xi ** k) for k, c in enumerate(cs)), 0) for xi in x]
        ya = np.array(y, dtype=object)
        got = qp.noise.richardson_extrapolate(x, ya) if kind == "richardson" else qp.noise.poly_extrapolate(x, ya, order)
        return got, cs[0]

    def consume(S, v, i):
        got, c0 = v

        def rp(model):
            cs = [float(model.get("vars", {}).get(f"c{k}", 0.0)) for k in range(deg + 1)]
            ok, obs = _num_extra(kind, nname, order, cs)
            return ok, {"kind": "extra", "which": kind, "nodes": nname, "order": order, "coeffs": cs, "observed": obs}

        g = sx.arr(np.asarray(got, dtype=object)).ravel()
        # exact up to the floating-point solution of the normal equations: bound the coefficients to |c| <= 10 and prove |got - c0| <= 1e-6
        for k in range(deg + 1):
            ck = S.params.get(f"c{k}")
        return [obl.prove(S, f"{name}: data following the degree-{deg} model extrapolate to its constant term (up to 1e-6 for |c_k| <= 10)", [g[0]], [c0], replay=rp, signature=f"extra:{kind}", timeout=60, tol=1e-6,
                          extra=bound_extra(S, deg))]

    try:
        return obl.run_instance(name, b, consume)
    except (TypeError, AttributeError, IndexError, KeyError, ValueError) as e:
        import traceback

        tb = traceback.format_exc(limit=6)[-600:]
        ok, obs = _num_extra(kind, nname, order, [0.7, -0.3, 0.2, 0.1, -0.05][: deg + 1])
        if ok:
            return [{"name": name, "status": "violated", "symbols": ["c"], "nontrivial": True, "queries": 0, "signature": f"extra:{kind}", "detail": obs,
                     "replay": {"kind": "extra", "which": kind, "nodes": nname, "order": order, "coeffs": [0.7, -0.3, 0.2, 0.1, -0.05][: deg + 1], "observed": obs}}]
        return [{"name": name, "status": "unsupported", "detail": f"{e!r} {tb}"}]


def bound_extra(S, deg):
    import z3

    out = []
    for k in range(deg + 1):
        idx = S.V.index.get(f"c{k}")
        if idx is not None:
            v = S.zvar(idx)
            out += [v <= 10, v >= -10]
    return out


def replay(p):
    k = p["kind"]
    if k == "fold":
        return _num_fold(p["circuit"], p["scale"], p["params"])
    if k == "insert":
        return _num_insert(p["circuit"], p["insert"], p["params"], 0.0)
    if k == "add_noise":
        pr = add_noise_problem(p["circuit"])
        return bool(pr), pr or "as selected"
    return _num_extra(p["which"], p["nodes"], p["order"], p["coeffs"])


def _dispatch(it):
    return {"fold": fold_work, "insert": insert_work, "add_noise": add_noise_work, "extra": extra_work}[it[0]](it[1])


def run(ctx):
    ctx.level = "other"
    items = [("fold", (c, s)) for c in CIRCUITS for s in SCALES]
    items += [("insert", (c, i)) for c in list(CIRCUITS)[: (3 if ctx.tier == "thorough" else 2)] for i in INSERTS]
    items += [("add_noise", c) for c in CIRCUITS]
    items += [("extra", ("richardson", n, None)) for n in NODES] + [("extra", ("poly", n, o)) for n in NODES for o in (1, 2) if o < len(NODES[n])]
    if ctx.only:
        items = [it for it in items if ctx.only in str(it)]
    ctx.shapes = len(items)
    ctx.encode(qp.noise.fold_global, qp.noise.insert, qp.add_noise, qp.noise.richardson_extrapolate, qp.noise.poly_extrapolate)
    ctx.bound(parameters="all real gate angles (3 symbols); model coefficients |c_k| <= 10", circuits=list(CIRCUITS), scale_factors=SCALES, insertions=list(INSERTS), nodes=NODES,
              outside="exponential_extrapolate (log / exp of solver terms), mitigate_with_zne on QNodes (device execution), noise strengths other than zero for the equality with the noiseless result, fold_global on circuits with channels (rejected by design)")
    ctx.assume(*sx.SHIM_NOTES, "positional model of insert / add_noise written from their documentation")
    ctx.rule = "fold: z3 unitary identity + structural count; insert: structural positions + z3 identity at zero strength; extrapolation: z3 identity up to 1e-6"
    ctx.pmap(_dispatch, items, timeout_each=900)
