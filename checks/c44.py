"""C44 Shots specifications are interpreted consistently (E2: CrossHair over the real Shots class)."""
from vf.e2check import make

run, replay = make(
    ["c44_shots.py"],
    encode=["pennylane.core.shots:Shots.__init__", "pennylane.core.shots:Shots.__add__", "pennylane.core.shots:Shots.__mul__",
            "pennylane.core.shots:Shots.bins", "pennylane.core.shots:valid_tuple"],
    bounds=dict(spec_length="<=4 entries", shot_values="1..6 (1..9 for float scaling)", copies="1..3", int_scalars="1..4",
                float_scalars="concrete 0.5, 1.5, 2.5 (symbolic floats are outside: CrossHair is inconclusive on int(a*k))",
                outside="empty sequences, abstract (traced) shot counts, longer specifications"),
    assumptions=["oracle: the expanded Python list of shot counts and its run-length encoding"],
)
