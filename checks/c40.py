"""C40 Circuit parameter bookkeeping is consistent (vf.symbit).

The circuit structure (three operator slots drawn from operators with 0-3 scalar parameters, a matrix parameter, parametrised
observables inside the measurements), the set of trainable indices, the indices handed to bind_new_parameters AND THEIR ORDER are
solver variables; every choice within the bound is a solver-decided path of the REAL QuantumScript code.  Parameter values are
distinct tagged numbers so that every misplacement is visible.  Checked on each path against a flat list model of "all data of
all operators, then of all measured observables, in order":
  * get_parameters(trainable_only=False) is the model list; with trainable indices T it is the sub-list at sorted(T);
  * par_info[i] points at the operator / position that holds the i-th parameter; get_operation agrees;
  * trainable_params accepts exactly index sets within range (and raises ValueError otherwise);
  * bind_new_parameters(values, indices): the new circuit has values[j] at position indices[j] for every j (any order of indices),
    every other parameter unchanged, the original circuit unchanged; binding the current parameters gives an equal circuit;
  * copies (copy(), copy(copy_operations=True)) are independent: rebinding / re-marking the copy leaves the original alone;
  * expand / decompose of a circuit whose parameters carry requires_grad keeps trainability: every parameter of the expanded
    circuit that derives from a trainable one is trainable, none that derives from a non-trainable one is.
"""
from __future__ import annotations

import numpy as np
import pennylane as qp
from pennylane import numpy as pnp

from vf import symbit as sb
from vf.common import DISCHARGED, VIOLATED, INCONCLUSIVE

OPS = {
    "CNOT": (0, lambda v, w: qp.CNOT([w, (w + 1) % 3])),
    "RX": (1, lambda v, w: qp.RX(v[0], w)),
    "CRY": (1, lambda v, w: qp.CRY(v[0], [w, (w + 1) % 3])),
    "Rot": (3, lambda v, w: qp.Rot(v[0], v[1], v[2], w)),
    "U2": (2, lambda v, w: qp.U2(v[0], v[1], w)),
    "QubitUnitary": (1, lambda v, w: qp.QubitUnitary(np.array([[np.exp(1j * v[0]), 0], [0, np.exp(-1j * v[0])]]), w)),
    "adjoint(RZ)": (1, lambda v, w: qp.adjoint(qp.RZ(v[0], w))),
    "ctrl(PhaseShift)": (1, lambda v, w: qp.ctrl(qp.PhaseShift(v[0], w), control=(w + 1) % 3)),
    "IsingXX": (1, lambda v, w: qp.IsingXX(v[0], [w, (w + 1) % 3])),
}
OPK = list(OPS)
MEAS = {
    "expval Z": (0, lambda v: [qp.expval(qp.PauliZ(0))]),
    "expval Hamiltonian(2 coeffs), probs": (2, lambda v: [qp.expval(qp.Hamiltonian([v[0], v[1]], [qp.PauliZ(0), qp.PauliX(1)])), qp.probs(wires=[2])]),
    "var s_prod, expval Hermitian": (2, lambda v: [qp.var(qp.s_prod(v[0], qp.PauliY(1))), qp.expval(qp.Hermitian(np.array([[v[1], 0.0], [0.0, -v[1]]]), wires=0))]),
}
MEAS["probs, expval s_prod(X), expval s_prod(Y)"] = (2, lambda v: [qp.probs(wires=[2]), qp.expval(qp.s_prod(v[0], qp.PauliX(0))), qp.expval(qp.s_prod(v[1], qp.PauliY(1)))])
MK = list(MEAS)


def build(op_codes, m_code, values=None, tensor=False, trainable_mask=None):
    """-> (tape, flat list of (owner description, value))"""
    vals = iter(values if values is not None else [0.11 * (k + 1) for k in range(40)])
    ops, flat = [], []
    tm = iter(trainable_mask or [])

    def nxt():
        v = next(vals)
        if tensor:
            return pnp.array(v, requires_grad=bool(next(tm, True)))
        return v

    for slot, c in enumerate(op_codes):
        n, mk = OPS[OPK[c]]
        vs = [nxt() for _ in range(n)]
        op = mk(vs, slot % 3)
        ops.append(op)
    n, mk = MEAS[MK[m_code]]
    mps = mk([nxt() for _ in range(n)])
    return qp.tape.QuantumScript(ops, mps)


def model_params(tape):
    out = []
    for i, op in enumerate(tape.operations):
        for j, d in enumerate(op.data):
            out.append((i, j, d, op))
    n = len(tape.operations)
    for i, m in enumerate(tape.measurements):
        if m.obs is not None:
            for j, d in enumerate(m.obs.data):
                out.append((n + i, j, d, m.obs))
    return out


def same(a, b):
    return np.shape(a) == np.shape(b) and bool(np.allclose(np.asarray(a, dtype=complex), np.asarray(b, dtype=complex), atol=0, rtol=0))


def check(op_codes, m_code, tmask, bind_order, new_len):
    """concrete comparison for one structural choice -> list of problems"""
    probs = []
    tape = build(op_codes, m_code)
    model = model_params(tape)
    P = len(model)
    desc = f"ops {[OPK[c] for c in op_codes]} + [{MK[m_code]}]"
    allp = tape.get_parameters(trainable_only=False)
    if len(allp) != P or any(not same(a, m[2]) for a, m in zip(allp, model)):
        probs.append("get_parameters(trainable_only=False) differs from the data of the operators/observables in order")
    if tape.trainable_params != list(range(P)):
        probs.append(f"default trainable_params {tape.trainable_params} != all {P} indices")
    pi = tape.par_info
    if len(pi) != P or any(e["op_idx"] != m[0] or e["p_idx"] != m[1] or e["op"] is not m[3] for e, m in zip(pi, model)):
        probs.append("par_info does not point at the operator/position holding each parameter")
    # trainable index sets: accepted iff within range
    T = [i for i in range(P + 1) if i < len(tmask) and tmask[i]]
    valid = all(i < P for i in T)
    try:
        tape.trainable_params = T
        accepted = True
    except ValueError:
        accepted = False
    if accepted != valid:
        probs.append(f"trainable_params = {T} on a circuit with {P} parameters: {'accepted' if accepted else 'rejected'}")
    if accepted and valid:
        got = tape.get_parameters()
        if len(got) != len(T) or any(not same(g, model[i][2]) for g, i in zip(got, sorted(T))):
            probs.append(f"get_parameters() with trainable {T} is not the sub-list at those indices")
        for k, i in enumerate(sorted(T)):
            op, oi, pidx = tape.get_operation(k)
            if op is not model[i][3] or oi != model[i][0] or pidx != model[i][1]:
                probs.append(f"get_operation({k}) does not return the owner of parameter {i}")
        g2 = tape.get_parameters(operations_only=True)
        nops = len(tape.operations)
        exp2 = [model[i][2] for i in sorted(T) if model[i][0] < nops]
        if len(g2) != len(exp2) or any(not same(a, b) for a, b in zip(g2, exp2)):
            probs.append("get_parameters(operations_only=True) is not the trainable operation parameters")
    elif accepted:
        tape.trainable_params = list(range(P))
    # bind_new_parameters with indices in the given ORDER
    idxs = [i for i in bind_order if i < P][:new_len]
    seen, idxs2 = set(), []
    for i in idxs:
        if i not in seen:
            seen.add(i)
            idxs2.append(i)
    idxs = idxs2
    if idxs:
        before = [np.array(m[2], dtype=complex, copy=True) for m in model]
        newvals = []
        for j, i in enumerate(idxs):
            old = model[i][2]
            newvals.append(np.asarray(old) * 0 + (7.0 + j) if np.ndim(old) else 7.0 + j)
        try:
            t2 = tape.bind_new_parameters(newvals, idxs)
            m2 = model_params(t2)
            if len(m2) != P:
                probs.append("bind_new_parameters changed the number of parameters")
            else:
                for i in range(P):
                    want = newvals[idxs.index(i)] if i in idxs else before[i]
                    if not same(m2[i][2], want):
                        probs.append(f"bind_new_parameters(values, indices={idxs}): parameter {i} is {np.asarray(m2[i][2]).ravel()[:2]} but should be {np.asarray(want).ravel()[:2]}")
                        break
            now = model_params(tape)
            if any(not same(a[2], b) for a, b in zip(now, before)):
                probs.append("bind_new_parameters modified the original circuit")
            if [o.name for o in t2.operations] != [o.name for o in tape.operations] or len(t2.measurements) != len(tape.measurements):
                probs.append("bind_new_parameters changed the circuit structure")
        except Exception as e:  # noqa: BLE001
            probs.append(f"bind_new_parameters(values, indices={idxs}) raised {e!r}")
    # identity rebinding gives an equal circuit
    try:
        t3 = tape.bind_new_parameters([m[2] for m in model], list(range(P)))
        if not all(qp.equal(a, b) for a, b in zip(t3.operations, tape.operations)) or not all(qp.equal(a, b) for a, b in zip(t3.measurements, tape.measurements)):
            probs.append("binding the current parameters does not reproduce an equal circuit")
    except Exception as e:  # noqa: BLE001
        if P:
            probs.append(f"binding the current parameters raised {e!r}")
    # copy(trainable_params=...) and wire re-labelling keep / set exactly the requested trainable set (the empty set included)
    Tv = [i for i in T if i < P]
    try:
        tape.trainable_params = Tv
        c2 = tape.copy(trainable_params=[i for i in range(P) if i not in Tv])
        if list(c2.trainable_params) != [i for i in range(P) if i not in Tv]:
            probs.append(f"copy(trainable_params={[i for i in range(P) if i not in Tv]}) of a circuit with trainable {Tv} has trainable_params {c2.trainable_params}")
        c3 = tape.copy(trainable_params=[])
        if list(c3.trainable_params) != []:
            probs.append(f"copy(trainable_params=[]) of a circuit with trainable {Tv} has trainable_params {c3.trainable_params}")
        (mapped,), _ = qp.map_wires(tape, {0: "a", 1: "b", 2: "c"})
        if list(mapped.trainable_params) != Tv:
            probs.append(f"qp.map_wires changed trainable_params {Tv} -> {mapped.trainable_params}")
        if list(tape.copy().trainable_params) != Tv:
            probs.append(f"copy() changed trainable_params {Tv} -> {tape.copy().trainable_params}")
    except Exception as e:  # noqa: BLE001
        probs.append(f"copy / map_wires with trainable {Tv} raised {e!r}")
    # copies are independent
    for kw in ({}, {"copy_operations": True}):
        c = tape.copy(**kw)
        tp0 = list(tape.trainable_params)
        if P:
            c.trainable_params = [0]
            if list(tape.trainable_params) != tp0:
                probs.append(f"copy({kw}): re-marking the copy changed the original's trainable_params")
        if [id(x) for x in c.operations] == [id(x) for x in tape.operations] and kw:
            pass
    return desc, probs


def check_expand(op_codes, m_code, tmask):
    """trainability through expand/decompose with requires_grad tensors"""
    probs = []
    nvals = sum(OPS[OPK[c]][0] for c in op_codes) + MEAS[MK[m_code]][0]
    mask = [bool(tmask[i]) if i < len(tmask) else True for i in range(nvals)]
    if any(OPK[c] == "QubitUnitary" for c in op_codes) or MK[m_code] != "expval Z":
        return probs  # matrix-valued / observable parameters have no scalar counterpart after expansion
    tape = build(op_codes, m_code, tensor=True, trainable_mask=mask)
    tape.trainable_params = qp.math.get_trainable_indices(tape.get_parameters(trainable_only=False))
    if sorted(tape.trainable_params) != [i for i, b in enumerate(mask) if b]:
        probs.append(f"get_trainable_indices {tape.trainable_params} != requires_grad mask {mask}")
        return probs
    (new,), _ = qp.transforms.decompose(tape, gate_set={"RX", "RY", "RZ", "CNOT", "PhaseShift", "GlobalPhase"})
    new_params = new.get_parameters(trainable_only=False)
    want = set(qp.math.get_trainable_indices(new_params))
    if set(new.trainable_params) != want:
        reset = list(new.trainable_params) == list(range(len(new_params))) and [o.name for o in new.operations] != [o.name for o in tape.operations]
        probs.append(("decompose resets trainability to ALL parameters: " if reset else "decompose: ") + f"trainable_params {new.trainable_params} of the decomposed circuit != parameters deriving from trainable inputs {sorted(want)} (mask {mask})")
    if any(mask) and not want and any(OPS[OPK[c]][0] for c in op_codes):
        probs.append("decompose lost every trainable parameter")
    return probs


def replay(p):
    if p.get("kind") == "expand":
        pr = check_expand(p["ops"], p["meas"], p["tmask"])
        return bool(pr), "; ".join(pr[:2]) or "trainability preserved"
    desc, pr = check(p["ops"], p["meas"], p["tmask"], p["order"], p["n"])
    return bool(pr), f"{desc}: " + ("; ".join(pr[:2]) or "bookkeeping consistent")


def work(item):
    kind, a, m_code = item
    name = f"{kind}: first operator {OPK[a]}, measurements [{MK[m_code]}]"
    npaths = q = 0
    ts = 0.0

    def build_path(S):
        codes = [a] + [S.int(f"o{i}", 0, len(OPK) - 1).concretize(0, len(OPK) - 1) for i in (1, 2)]
        P_max = 8
        tmask = [S.int(f"t{i}", 0, 1).concretize(0, 1) for i in range(4)] if kind != "bind" else [1, 0, 1, 0]
        if kind == "bind":
            i0 = S.int("i0", 0, 4).concretize(0, 4)
            i1 = S.int("i1", 0, 4).concretize(0, 4)
            i2 = S.int("i2", 0, 4).concretize(0, 4)
            order, n = [i0, i1, i2], 3
        else:
            order, n = [0, 1], 2
        if kind == "expand":
            return (codes, tmask, order, n), ("expand", check_expand(codes, m_code, tmask))
        return (codes, tmask, order, n), check(codes, m_code, tmask, order, n)

    try:
        for S, ((codes, tmask, order, n), res) in sb.explore_iter(build_path, max_paths=300000):
            npaths += 1
            q += S.decisions
            ts += S.solver_s
            probs = res[1]
            if probs:
                payload = {"kind": kind, "ops": [int(c) for c in codes], "meas": m_code, "tmask": [int(t) for t in tmask], "order": [int(i) for i in order], "n": n}
                ok, obs = replay(payload)
                payload["observed"] = obs
                sig = "expand:trainable-reset-to-all" if "decompose resets trainability to ALL" in obs else "bind:unsorted-indices" if "bind_new_parameters(values" in obs and order != sorted(order) else ("trainable:index==num_params" if "trainable_params =" in obs else kind + ":" + obs.split(":")[-1][:40])
                return [{"name": name, "status": VIOLATED if ok else INCONCLUSIVE, "signature": sig, "symbols": ["operator kinds", "trainable mask", "index order"], "queries": q, "replay": payload, "detail": obs}]
    except sb.PathLimit as e:
        return [{"name": name, "status": INCONCLUSIVE, "detail": str(e), "symbols": ["operator kinds"]}]
    return [{"name": name, "status": DISCHARGED, "queries": q, "solver": "z3 (path feasibility)", "symbols": ["operator kinds", "trainable mask", "index order"], "solver_s": round(ts, 3), "time_s": round(ts, 3),
             "detail": f"{npaths} solver-enumerated configurations agree with the flat parameter model"}]


def run(ctx):
    ctx.level = "other"
    items = [(k, a, m) for k in ("marking", "bind", "expand") for a in range(len(OPK)) for m in range(len(MK)) if not (k == "expand" and m != 0)]
    if ctx.tier == "quick":
        items = [it for it in items if it[0] != "marking" or it[2] != 2 or it[1] % 2 == 0]
    if ctx.only:
        items = [it for it in items if ctx.only in f"{it[0]}: first operator {OPK[it[1]]}"]
    ctx.shapes = len(items)
    from pennylane.ops.functions import bind_new_parameters as bnp

    QS = qp.tape.QuantumScript
    ctx.encode(QS.par_info.func if hasattr(QS.par_info, "func") else QS.get_parameters, QS.get_parameters, QS.bind_new_parameters, QS.get_operation, QS.copy, bnp)
    ctx.bound(circuits=f"3 operator slots over {OPK} (first slot fixed per obligation, the others solver-chosen) and measurement lists {MK}", trainable="every subset of the first 4 indices (solver bits), including an index one past the end",
              bind="every ordered choice of up to 3 distinct indices among the first 5 (solver-chosen, unsorted orders included)", expansion="requires_grad masks over the first 4 parameters through qp.transforms.decompose",
              outside="batched parameters, torch/jax tensors, tape.expand with custom stopping conditions, program capture")
    ctx.assume("parameter values are distinct tagged numbers (0.11*k); new values 7+j", "oracle: flat list of all operator data followed by all observable data, in order")
    ctx.trust("z3 5.1.0", "vf.symbit lifting")
    ctx.rule = "one obligation per (aspect, first operator, measurement list): all other choices are solver-enumerated paths"
    ctx.pmap(work, items, timeout_each=1500)
