"""C23 Compile pipelines compose transforms and route results correctly (vf.symbit).

(a) Routing.  Synthetic transforms are stacked in a REAL CompilePipeline and applied to a batch of tagged circuits.  Every
    transform call splits its circuit into k circuits, k in 0..2 chosen by the solver (every fan-out pattern, including
    "into none" and uneven patterns that happen to sum to the batch size), and its post-processing is sum_j w_j * results[j] + c
    with SYMBOLIC integer weights.  The executed results are symbolic integers named after the circuit's tag path.  z3 proves
    that the value the REAL post-processing returns for each input circuit, in input order, equals the value obtained by
    composing the transforms by hand along the tag tree (which never looks at slices).
(b) List API.  Histories of pipeline edit operations (append / insert / pop / + / * / slicing / add_marker / remove_marker) with
    solver-chosen indices on pipelines of distinguishable transforms are compared with a Python list model; markers follow a
    reference model in which a marker sits at a boundary between elements (level = number of transforms before it).
"""
from __future__ import annotations

import itertools

import z3

import pennylane as qp
from pennylane.core.transforms.compile_pipeline import CompilePipeline
from pennylane.transforms.core import BoundTransform
from pennylane.exceptions import TransformError

from vf import symbit as sb
from vf.common import DISCHARGED, VIOLATED, INCONCLUSIVE, HARNESS_ERROR


class Tagged(qp.tape.QuantumScript):
    """circuit carrying its path in the fan-out tree"""

    def __init__(self, tag):
        super().__init__([], [])
        self.tag = tuple(tag)


def make_transform(level, fanout_of, weights_of, const_of, log):
    @qp.transform
    def t(tape):
        k = fanout_of(level, tape.tag)
        kids = [Tagged(tape.tag + (j,)) for j in range(k)]
        log.append((level, tape.tag, k))
        ws = [weights_of(level, j) for j in range(k)]
        c = const_of(level)

        def fn(results):
            if len(results) != k:
                raise IndexError(f"post-processing of level {level} for {tape.tag} received {len(results)} results, expected {k}")
            tot = c
            for w, r in zip(ws, results):
                tot = tot + w * r
            return tot

        return kids, fn

    return t


def routing_work(item):
    nlevels, batch, kmax = item
    name = f"routing: {nlevels} stacked transforms, batch of {batch}, fan-out 0..{kmax}"

    def build(S):
        fan = {}
        counter = [0]

        def fanout_of(level, tag):
            key = (level, tag)
            if key not in fan:
                counter[0] += 1
                fan[key] = S.int(f"k{counter[0]}", 0, kmax).concretize(0, kmax)
            return fan[key]

        W = {}

        def weights_of(level, j):
            return W.setdefault((level, j), S.int(f"w{level}_{j}"))

        C = {}

        def const_of(level):
            return C.setdefault(level, S.int(f"c{level}"))

        log = []
        pipe = CompilePipeline(*[make_transform(l, fanout_of, weights_of, const_of, log) for l in range(nlevels)])
        tapes = tuple(Tagged((b,)) for b in range(batch))
        try:
            out_tapes, post = pipe(tapes)
            R = {}
            results = tuple(R.setdefault(t.tag, S.int("r_" + "_".join(map(str, t.tag)))) for t in out_tapes)
            got = post(results)
            err = None
        except (IndexError, ValueError, TypeError) as e:
            got, err = None, repr(e)
            R = {}

        def value(tag, level):
            if level == nlevels:
                return R.setdefault(tag, S.int("r_" + "_".join(map(str, tag))))
            k = fan[(level, tag)]
            tot = const_of(level)
            for j in range(k):
                tot = tot + weights_of(level, j) * value(tag + (j,), level + 1)
            return tot

        exp = [value((b,), 0) for b in range(batch)] if err is None else None
        pattern = sorted((lv, tg, k) for (lv, tg), k in fan.items())
        return got, exp, err, pattern, [t.tag for t in out_tapes] if err is None else None

    try:
        paths = sb.explore(build, max_paths=20000)
    except sb.PathLimit as e:
        return [{"name": name, "status": INCONCLUSIVE, "detail": str(e), "symbols": ["fan-outs", "weights", "results"]}]
    q, ts = 0, 0.0
    for S, (got, exp, err, pattern, order) in paths:
        ts += S.solver_s
        if err is not None:
            payload = {"kind": "routing", "item": list(item), "pattern": [[lv, list(tg), k] for lv, tg, k in pattern], "observed": err}
            return [{"name": name, "status": VIOLATED, "signature": "routing:raises", "symbols": ["fan-outs"], "queries": q, "replay": payload,
                     "detail": f"the real pipeline / post-processing raised for fan-out pattern {pattern}: {err}"}]
        claims = [("one result per input circuit", z3.BoolVal(len(got) == len(exp)))]
        claims += [(f"result for input circuit {b} == manual composition", sb.zi(g) == sb.zi(e)) for b, (g, e) in enumerate(zip(got, exp))]
        for label, claim in claims:
            st, model, dt = S.prove(claim)
            q += 1
            ts += dt
            if st == "sat":
                vals = S.model_values(model)
                payload = {"kind": "routing", "item": list(item), "pattern": [[lv, list(tg), k] for lv, tg, k in pattern], "values": vals}
                ok, obs = replay(payload)
                payload["observed"] = obs
                if ok:
                    return [{"name": name, "status": VIOLATED, "signature": "routing:value", "symbols": sorted(vals)[:12], "queries": q, "replay": payload, "solver": "z3:sat",
                             "detail": f"{label} fails for fan-out pattern {pattern}: {obs}"}]
                return [{"name": name, "status": INCONCLUSIVE, "symbols": sorted(vals)[:12], "detail": f"model does not reproduce: {obs}"}]
            if st != "unsat":
                return [{"name": name, "status": INCONCLUSIVE, "symbols": ["weights"], "detail": "z3 unknown"}]
    return [{"name": name, "status": DISCHARGED, "queries": q, "solver": "z3:unsat", "solver_s": round(ts, 3), "time_s": round(ts, 3),
             "symbols": ["fan-out of every transform call", "post-processing weights and constants", "executed results"],
             "detail": f"{len(paths)} fan-out patterns (solver-enumerated), {q} z3 queries over symbolic weights/results, all unsat"}]


def _replay_routing(p):
    nlevels, batch, kmax = p["item"]
    fan = {(lv, tuple(tg)): k for lv, tg, k in p["pattern"]}
    vals = p.get("values", {})
    log = []

    def fanout_of(level, tag):
        return fan.get((level, tag), 0)

    def weights_of(level, j):
        return vals.get(f"w{level}_{j}", 1 + level + 2 * j)

    def const_of(level):
        return vals.get(f"c{level}", 3 + level)

    def res_of(tag):
        return vals.get("r_" + "_".join(map(str, tag)), 7 + sum((i + 2) * t for i, t in enumerate(tag)))

    pipe = CompilePipeline(*[make_transform(l, fanout_of, weights_of, const_of, log) for l in range(nlevels)])
    tapes = tuple(Tagged((b,)) for b in range(batch))
    try:
        out_tapes, post = pipe(tapes)
        got = post(tuple(res_of(t.tag) for t in out_tapes))
    except Exception as e:
        return True, f"raised {e!r} for pattern {p['pattern']}"

    def value(tag, level):
        if level == nlevels:
            return res_of(tag)
        return const_of(level) + sum(weights_of(level, j) * value(tag + (j,), level + 1) for j in range(fanout_of(level, tag)))

    exp = tuple(value((b,), 0) for b in range(batch))
    return tuple(got) != exp, f"pipeline returned {tuple(got)}, manual composition gives {exp} (fan-out pattern {p['pattern']})"


# ------------------------------------------------------------------ list API
NAMES = ["A", "B", "C", "D", "E", "F"]
_T = {}


def T(name):
    if name not in _T:
        @qp.transform
        def t(tape):
            return (tape,), lambda r: r[0]

        t.__name__ = name
        _T[name] = BoundTransform(t, kwargs={"name": name})
    return _T[name]


_TX = {}


def TX(name):
    """a transform that carries an expand transform: the pipeline stores [expand, transform] as one unit"""
    if name not in _TX:
        def e(tape):
            return (tape,), lambda r: r[0]

        def f(tape):
            return (tape,), lambda r: r[0]

        e.__name__ = "e" + name
        f.__name__ = name
        _TX[name] = BoundTransform(qp.transform(f, expand_transform=e), kwargs={"name": name})
    return _TX[name]


def names_of(pipe):
    return [("e:" if bt.tape_transform.__name__.startswith("e") else "") + bt.kwargs["name"] for bt in pipe]


class Model:
    """Python list + markers as boundaries (level = number of transforms before the marker)"""

    def __init__(self, items, markers=None):
        self.items = list(items)
        self.markers = dict(markers or {})

    def insert(self, i, x, with_expand=False):
        n = len(self.items)
        pos = i if i >= 0 else max(0, n + i)
        pos = min(pos, n)
        new = ["e:" + x, x] if with_expand else [x]
        self.items[pos:pos] = new
        self.markers = {k: (v + len(new) if v >= pos else v) for k, v in self.markers.items()}

    def pop(self, i):
        n = len(self.items)
        if not -n <= i < n:
            raise IndexError
        pos = i if i >= 0 else n + i
        x = self.items.pop(i)
        self.markers = {k: (v - 1 if v > pos else v) for k, v in self.markers.items()}
        if pos > 0 and self.items[pos - 1] == "e:" + x:  # the unit [expand, transform] leaves together
            self.items.pop(pos - 1)
            self.markers = {k: (v - 1 if v > pos - 1 else v) for k, v in self.markers.items()}
        return x

    def append(self, x):
        self.items.append(x)

    def add_marker(self, label, level):
        if label in self.markers or not 0 <= level <= len(self.items):
            raise ValueError
        self.markers[label] = level


OPS = ["insert", "pop", "append", "add_marker", "remove_marker", "insert_with_expand"]


def api_work(item):
    n0, nsteps, first = (tuple(item) + (None,))[:3]
    name = f"list API: {nsteps} edit operations on a pipeline of {n0} transforms with one marker" + (f", first operation {OPS[first]}" if first is not None else "")

    def build(S):
        pipe = CompilePipeline(*[T(NAMES[k]) for k in range(n0)])
        model = Model(NAMES[:n0])
        m0 = S.int("m0", 0, n0).concretize(0, n0)
        pipe.add_marker("m", m0)
        model.add_marker("m", m0)
        hist = [("add_marker", m0)]
        fresh = iter(NAMES[n0:])
        for step in range(nsteps):
            opv = S.int(f"op{step}", 0, len(OPS) - 1)
            if step == 0 and first is not None:
                S.assume(sb.zi(opv) == first)
            opi = opv.concretize(0, len(OPS) - 1)
            op = OPS[opi]
            if op in ("insert", "pop", "add_marker", "insert_with_expand"):
                idx = S.int(f"i{step}", -4, 4).concretize(-4, 4)
            else:
                idx = None
            hist.append((op, idx))
            real_err = model_err = None
            if op in ("insert", "insert_with_expand"):
                x = next(fresh)
                try:
                    pipe.insert(idx, T(x) if op == "insert" else TX(x))
                except Exception as e:
                    real_err = type(e).__name__
                model.insert(idx, x, op != "insert")
            elif op == "append":
                x = next(fresh)
                pipe.append(T(x))
                model.append(x)
            elif op == "pop":
                try:
                    got = names_of([pipe.pop(idx)])[0]
                except IndexError:
                    real_err, got = "IndexError", None
                try:
                    exp = model.pop(idx)
                except IndexError:
                    model_err, exp = "IndexError", None
                if real_err != model_err or got != exp:
                    return hist, f"pop({idx}) returned {got!r}/{real_err}, list model {exp!r}/{model_err}"
            elif op == "add_marker":
                try:
                    pipe.add_marker("n", idx)
                except ValueError:
                    real_err = "ValueError"
                try:
                    model.add_marker("n", idx)
                except ValueError:
                    model_err = "ValueError"
                if real_err != model_err:
                    return hist, f"add_marker('n', {idx}) raised {real_err}, model {model_err}"
            elif op == "remove_marker":
                if "n" in model.markers:
                    pipe.remove_marker("n")
                    del model.markers["n"]
            if names_of(pipe) != model.items:
                return hist, f"contents {names_of(pipe)} != list model {model.items}"
            real_markers = {k: pipe.get_marker_level(k) for k in pipe.markers}
            if real_markers != model.markers:
                return hist, f"markers {real_markers} != boundary model {model.markers} (contents {model.items})"
            if len(pipe) != len(model.items) or names_of(pipe[:]) != model.items:
                return hist, "len / full slice disagree with the list model"
        # derived operations on the final pipeline: every slice with bounds -3..5 (concrete loop: no dependence on the history)
        for a, b in itertools.product([None] + list(range(-3, 6)), repeat=2):
            if names_of(pipe[a:b]) != model.items[a:b]:
                return hist + [("slice", (a, b))], f"pipe[{a}:{b}] = {names_of(pipe[a:b])} != {model.items[a:b]}"
        for k in range(len(model.items)):
            if names_of([pipe[k]]) != [model.items[k]] or names_of([pipe[k - len(model.items)]]) != [model.items[k]]:
                return hist, f"pipe[{k}] disagrees with the list model"
        if names_of(pipe + pipe) != model.items + model.items or names_of(pipe * 2) != model.items * 2:
            return hist, "+ / * disagree with list concatenation / repetition"
        return hist, None

    npaths = q = 0
    ts = 0.0
    try:
        for S, (hist, problem) in sb.explore_iter(build, max_paths=400000):
            npaths += 1
            q += S.decisions
            ts += S.solver_s
            if problem:
                payload = {"kind": "api", "item": list(item), "history": [[h[0], h[1]] for h in hist], "observed": problem}
                ok, obs = replay(payload)
                payload["observed"] = obs
                st = VIOLATED if ok else INCONCLUSIVE
                kind = "markers" if "markers" in problem else "contents"
                neg = any(h[0].startswith("insert") and h[1] is not None and h[1] < 0 for h in hist)
                exp_ = any(h[0] == "insert_with_expand" for h in hist)
                return [{"name": name, "status": st, "signature": f"api:{kind}:{'expand-transform' if exp_ else 'negative-insert-index' if neg else 'other'}", "symbols": ["operation codes", "indices"],
                         "replay": payload, "queries": q, "detail": f"history {hist}: {obs}"}]
    except sb.PathLimit as e:
        return [{"name": name, "status": INCONCLUSIVE, "detail": str(e), "symbols": ["operation codes", "indices"]}]
    return [{"name": name, "status": DISCHARGED, "queries": q, "solver": "z3 (path feasibility)", "symbols": ["operation codes", "indices", "marker level"],
             "detail": f"{npaths} solver-enumerated histories agree with the list / boundary-marker model", "time_s": round(ts, 3), "solver_s": round(ts, 3)}]


def _replay_api(p):
    n0, nsteps = p["item"][:2]
    pipe = CompilePipeline(*[T(NAMES[k]) for k in range(n0)])
    model = Model(NAMES[:n0])
    fresh = iter(NAMES[n0:])
    for op, idx in p["history"]:
        if op == "add_marker":
            label = "m" if "m" not in model.markers and "m" not in pipe.markers else "n"
            r = m = None
            try:
                pipe.add_marker(label, idx)
            except ValueError:
                r = "ValueError"
            try:
                model.add_marker(label, idx)
            except ValueError:
                m = "ValueError"
            if r != m:
                return True, f"add_marker({label!r}, {idx}) raised {r}, model {m}"
        elif op in ("insert", "insert_with_expand"):
            x = next(fresh)
            pipe.insert(idx, T(x) if op == "insert" else TX(x))
            model.insert(idx, x, op != "insert")
        elif op == "append":
            x = next(fresh)
            pipe.append(T(x))
            model.append(x)
        elif op == "pop":
            r = m = got = exp = None
            try:
                got = names_of([pipe.pop(idx)])[0]
            except IndexError:
                r = "IndexError"
            try:
                exp = model.pop(idx)
            except IndexError:
                m = "IndexError"
            if r != m or got != exp:
                return True, f"pop({idx}) -> {got}/{r}, model {exp}/{m}"
        elif op == "remove_marker":
            if "n" in model.markers:
                pipe.remove_marker("n")
                del model.markers["n"]
        elif op == "slice":
            a, b = idx
            if names_of(pipe[a:b]) != model.items[a:b]:
                return True, f"pipe[{a}:{b}] = {names_of(pipe[a:b])} != {model.items[a:b]}"
        real_markers = {k: pipe.get_marker_level(k) for k in pipe.markers}
        if names_of(pipe) != model.items or real_markers != model.markers:
            return True, f"after {op}({idx}): contents {names_of(pipe)} markers {real_markers}; list/boundary model: {model.items} {model.markers}"
    return False, "history agrees with the model"


def replay(p):
    return _replay_routing(p) if p["kind"] == "routing" else _replay_api(p)


def _dispatch(it):
    return routing_work(it[1]) if it[0] == "routing" else api_work(it[1])


def run(ctx):
    ctx.level = "proof"
    routing = [(1, 1, 2), (1, 2, 2), (1, 3, 2), (2, 1, 2), (2, 2, 2), (2, 3, 1), (3, 1, 2)] + ([(2, 3, 2), (3, 2, 1), (2, 2, 3), (4, 1, 1)] if ctx.tier == "thorough" else [])
    api = [(1, 2), (2, 2), (3, 2)] + ([(n, 3, f) for n in (1, 2, 3) for f in range(len(OPS))] if ctx.tier == "thorough" else [])
    items = [("routing", r) for r in routing] + [("api", a) for a in api]
    if ctx.only:
        items = [it for it in items if ctx.only in it[0]]
    ctx.shapes = len(items)
    ctx.encode(CompilePipeline.insert, CompilePipeline.pop, CompilePipeline.add_marker, CompilePipeline.__getitem__, CompilePipeline.__add__, CompilePipeline.__mul__, CompilePipeline.__call__)
    ctx.bound(routing="<= 3 stacked transforms (thorough 4), batches of <= 3 circuits, fan-out 0..2 per transform call (all patterns, solver-enumerated), symbolic integer weights / constants / executed results",
              list_api="pipelines of 1-3 distinguishable transforms, <= 2 edit operations (thorough 3) chosen by the solver from insert / pop / append / add_marker / remove_marker with indices -4..4, then slicing with bounds -3..5, + and *2",
              outside="real gradient transforms with classical cotransforms (cotransform cache), expand_transform bookkeeping of insert/pop, qnode-level application")
    ctx.assume("synthetic transforms: fan-out and post-processing as described; circuits carry their tag path",
               "marker reference model: a marker is a boundary between elements (level = number of transforms before it); insert at a boundary puts the new transform before the marker")
    ctx.trust("z3 5.1.0", "vf.symbit lifting")
    ctx.rule = "one obligation per (configuration); non-trivial = symbolic weights/results (routing) or solver-chosen operation codes and indices (list API)"
    ctx.pmap(_dispatch, items, timeout_each=1500)
