"""C13 Measurement-based decompositions act deterministically (E1 with SYMBOLIC measurement outcomes).

Every registered decomposition rule (qp.list_decomps over a candidate list of operators, control-value variants included) whose
emitted circuit contains a mid-circuit measurement (MidMeasure or Pauli-product measurement) is collected automatically.  The
emitted circuit is run by the branch interpreter vf.dynsim.general_branch with the measurement OUTCOMES AS SOLVER VARIABLES
m_i (m_i * (m_i - 1) == 0): a computational measurement projects with (1-m) P0 + m P1 (+ reset), a Pauli-product measurement with
(1 + (1-2m) P)/2, a classically controlled operation is applied iff its condition holds - a solver-decided fork.  Dynamically
allocated work wires start in |0> when requested in the zero state and in an ARBITRARY (symbolic) state when requested in any state.  With K(m) the resulting linear map from the operator's wires to operator wires x work wires,
z3 proves for ALL outcome vectors m:
    K(m)[r, a, c] * U[r0, c0] == U[r, c] * K(m)[r0, a, c0]     (same unitary U on every branch, times a work-wire vector v(m)),
    v(m) is proportional to v(0...0)                            (work wires end in one known state, whatever the outcomes),
    2^k * sum_a |K(m)[r0, a, c0]|^2 == |U[r0, c0]|^2           (every outcome pattern has probability 2^-k: none is impossible),
on the operator's documented input domain (for Adjoint(TemporaryAND): target equal to the AND of the controls).
"""
from __future__ import annotations

import itertools

import numpy as np
import pennylane as qp

from vf import symx as sx, obl, dynsim
from checks import c10

CANDIDATES = {
    "Adjoint(TemporaryAND)": lambda: qp.adjoint(qp.TemporaryAND([0, 1, 2])),
    "Adjoint(TemporaryAND, control_values=(0,1))": lambda: qp.adjoint(qp.TemporaryAND([0, 1, 2], control_values=(0, 1))),
    "Adjoint(TemporaryAND, control_values=(1,0))": lambda: qp.adjoint(qp.TemporaryAND([0, 1, 2], control_values=(1, 0))),
    "Adjoint(TemporaryAND, control_values=(0,0))": lambda: qp.adjoint(qp.TemporaryAND([0, 1, 2], control_values=(0, 0))),
    "Adjoint(TemporaryAND) on wires (2,0,1)": lambda: qp.adjoint(qp.TemporaryAND([2, 0, 1])),
    "Hadamard": lambda: qp.Hadamard(0), "S": lambda: qp.S(0), "T": lambda: qp.T(0), "PauliX": lambda: qp.PauliX(0), "SX": lambda: qp.SX(0),
    "CNOT": lambda: qp.CNOT([0, 1]), "CNOT(1,0)": lambda: qp.CNOT([1, 0]), "CZ": lambda: qp.CZ([0, 1]), "CY": lambda: qp.CY([0, 1]), "CH": lambda: qp.CH([0, 1]), "SWAP": lambda: qp.SWAP([0, 1]),
    "ISWAP": lambda: qp.ISWAP([0, 1]), "Toffoli": lambda: qp.Toffoli([0, 1, 2]), "CCZ": lambda: qp.CCZ([0, 1, 2]), "CSWAP": lambda: qp.CSWAP([0, 1, 2]),
    "MultiControlledX(3 controls)": lambda: qp.MultiControlledX(wires=[0, 1, 2, 3]),
    "TemporaryAND": lambda: qp.TemporaryAND([0, 1, 2]),
}


def mcm_rules():
    """[(candidate name, rule name)] for every rule whose emission contains a measurement"""
    out = []
    for k, mk in CANDIDATES.items():
        op = mk()
        try:
            rules = qp.list_decomps(op)
        except Exception:  # noqa: BLE001
            continue
        for r in rules:
            try:
                em = c10.apply_rule(op, r)
            except Exception:  # noqa: BLE001
                continue
            if em and any(dynsim.is_mcm(o) for o in em):
                out.append((k, r.name))
    return out


def emitted(cname, rname):
    op = CANDIDATES[cname]()
    rule = [r for r in qp.list_decomps(op) if r.name == rname][0]
    em = c10.apply_rule(op, rule)
    t = qp.tape.QuantumScript(em)
    any_state = []
    if any(o.name in ("Allocate", "Deallocate") for o in em):
        # the declared allocation state is part of the rule's contract: a wire requested in "any" state may hold an arbitrary state
        flags = [str(o.hyperparameters.get("state")).lower().endswith("zero") for o in em if o.name == "Allocate" for _ in o.wires]
        (t,), _ = qp.transforms.resolve_dynamic_wires(t, min_int=100)
        aux = [w for w in t.wires if w not in op.wires]
        any_state = [w for w, z in zip(aux, flags + [True] * len(aux)) if not z]
    t._verif_any_state = any_state
    return op, t


def kraus(op, t, assignment, aux_amps=None):
    """aux_amps: {work wire: (alpha, beta)} for work wires allocated in an arbitrary state (default |0>)"""
    wo = list(op.wires)
    aux = [w for w in t.wires if w not in wo]
    Wt = wo + aux
    n, d = 2 ** len(wo), 2 ** len(aux)
    cols = c10.domain_columns(op, n) or list(range(n))
    K = np.zeros((n * d, n), dtype=object)
    aux_vec = np.array([1], dtype=object)
    for w in aux:
        a, b = (aux_amps or {}).get(w, (1, 0))
        aux_vec = np.kron(aux_vec, np.array([a, b], dtype=object))
    for c in cols:
        psi0 = np.zeros(n * d, dtype=object)
        psi0[c * d:(c + 1) * d] = aux_vec
        K[:, c] = dynsim.general_branch(t, Wt, assignment, psi0=psi0)
    return K.reshape(n, d, n), cols, n, d


def _num(cname, rname, bits):
    op, t = emitted(cname, rname)
    ms = dynsim.mcms_of(t)
    asg = dict(zip(ms, [int(b) for b in bits]))
    amps = {w: (0.6, 0.8j) for w in getattr(t, "_verif_any_state", [])}
    K, cols, n, d = kraus(op, t, asg, amps)
    K = np.asarray(K, dtype=complex)
    U = np.asarray(qp.matrix(op, wire_order=list(op.wires)), dtype=complex)
    K0 = np.asarray(kraus(op, t, dict(zip(ms, [0] * len(ms))), amps)[0], dtype=complex)
    r0, c0 = next((r, c) for c in cols for r in range(n) if abs(U[r, c]) > 1e-9)
    v = K[r0, :, c0] / U[r0, c0]
    v0 = K0[r0, :, c0] / U[r0, c0]
    dev = max(float(np.max(np.abs(K[:, :, c] - np.einsum("r,a->ra", U[:, c], v)))) for c in cols)
    prop = float(np.max(np.abs(np.outer(v, v0) - np.outer(v0, v))))
    w = float(np.sum(np.abs(K[r0, :, c0]) ** 2) * 2 ** len(ms) - abs(U[r0, c0]) ** 2)
    bad = dev > 1e-9 or prop > 1e-9 or abs(w) > 1e-9
    return bad, f"rule {rname} of {cname}, outcomes {list(bits)}: deviation from U (x) v = {dev:.3g}, work-wire state differs from the all-zero-outcome branch by {prop:.3g}, branch weight * 2^k - 1 = {w:.3g}"


def replay(p):
    return _num(p["op"], p["rule"], p["bits"])


def work(item):
    cname, rname = item
    name = f"rule {rname} of {cname}"
    sx.install_shims()

    def b(S):
        op, t = emitted(cname, rname)
        ms = dynsim.mcms_of(t)
        bits = []
        for i, m in enumerate(ms):
            v = S.real(f"m{i}")
            S.constrain("==0", sx.P.sub(sx.P.mul(v.p, v.p, S.V), v.p))
            bits.append(v)
        amps = {w: (S.cplx(f"w{w}_0"), S.cplx(f"w{w}_1")) for w in getattr(t, "_verif_any_state", [])}
        K, cols, n, d = kraus(op, t, dict(zip(ms, bits)), amps)
        K0 = kraus(op, t, dict(zip(ms, [0] * len(ms))), {w: (0.6, 0.8j) for w in amps})[0]
        U = sx.arr(np.asarray(qp.matrix(op, wire_order=list(op.wires)), dtype=object), S)
        return op, K, K0, U, cols, n, d, len(ms)

    def consume(S, v, i):
        op, K, K0, U, cols, n, d, k = v

        def rp(model):
            bits = [int(round(float(model.get("vars", {}).get(f"m{j}", 0)))) for j in range(k)]
            ok, obs = _num(cname, rname, bits)
            return ok, {"op": cname, "rule": rname, "bits": bits, "observed": obs}

        Un = np.asarray(qp.matrix(op, wire_order=list(op.wires)), dtype=complex)
        r0, c0 = next((r, c) for c in cols for r in range(n) if abs(Un[r, c]) > 1e-9)
        sig = f"{cname}:{rname}"
        Ks = sx.arr(K, S)
        lhs = [Ks[r, a, c] * U[r0, c0] for c in cols for r in range(n) for a in range(d)]
        rhs = [U[r, c] * Ks[r0, a, c0] for c in cols for r in range(n) for a in range(d)]
        out = [obl.prove(S, f"{name} (path {i}, {k} symbolic outcomes): every outcome applies the operator's unitary (x) a work-wire vector", lhs, rhs, replay=rp, signature=sig, timeout=120)]
        if d > 1:
            v0 = [complex(K0[r0, a, c0]) for a in range(d)]
            lhs2 = [Ks[r0, a, c0] * v0[a2] for a in range(d) for a2 in range(d)]
            rhs2 = [Ks[r0, a2, c0] * v0[a] for a in range(d) for a2 in range(d)]
            out.append(obl.prove(S, f"{name} (path {i}): work wires end in the same state for every outcome", lhs2, rhs2, replay=rp, signature=sig + ":work-wire-state", timeout=120))
        tot = sum((Ks[r0, a, c0] * (Ks[r0, a, c0].conjugate() if isinstance(Ks[r0, a, c0], sx.SymC) else np.conj(Ks[r0, a, c0])) for a in range(d)), 0)
        out.append(obl.prove(S, f"{name} (path {i}): every outcome pattern has weight 2^-{k}", [tot * (2 ** k)], [abs(Un[r0, c0]) ** 2], replay=rp, signature=sig + ":weight", timeout=120, tol=1e-9))
        return out

    try:
        return obl.run_instance(name, b, consume, max_paths=64)
    except (TypeError, AttributeError, IndexError, KeyError, ValueError, NotImplementedError) as e:
        import traceback

        tb = traceback.format_exc(limit=6)[-600:]
        k = len(dynsim.mcms_of(emitted(cname, rname)[1]))
        for bits in itertools.product([0, 1], repeat=k):
            ok, obs = _num(cname, rname, bits)
            if ok:
                return [{"name": name, "status": "violated", "symbols": ["outcomes"], "nontrivial": True, "queries": 0, "signature": f"{cname}:{rname}", "detail": obs, "replay": {"op": cname, "rule": rname, "bits": list(bits), "observed": obs}}]
        return [{"name": name, "status": "unsupported", "detail": f"{e!r} {tb}"}]


def run(ctx):
    ctx.level = "proof"
    items = mcm_rules()
    if ctx.only:
        items = [it for it in items if ctx.only in f"rule {it[1]} of {it[0]}"]
    ctx.shapes = len(items)
    ctx.encode(qp.list_decomps, dynsim.general_branch)
    ctx.bound(rules=[f"{r} ({c})" for c, r in items], outcomes="all outcome vectors (symbolic bits)", inputs="all basis inputs of the operator's documented domain, work wires in |0>",
              candidates=list(CANDIDATES), outside="measurement-based variants inside templates (QROM / QFT / QRAM uncomputation), rules that need more than 7 wires, parametrised measurement bases (ftqc, C74)")
    ctx.assume(*sx.SHIM_NOTES[:3], "interpreter: vf.dynsim.general_branch (projection per outcome, reset, classically controlled operations applied iff the condition holds)",
               "outcome variables m satisfy m*(m-1) == 0")
    ctx.rule = "per measurement-based rule: proportionality, work-wire state and weight obligations, each a z3 validity query over all outcome vectors"
    ctx.pmap(work, items, timeout_each=900)
