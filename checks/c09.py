"""C09 Declared parameter frequencies cover the true spectrum (E1).

For a gate parameter theta with declared frequency set F (read from the REAL `op.parameter_frequencies`), every expectation
value <psi| U(theta)^dagger O U(theta) |psi> is a linear combination of the products conj(U_ab) * U_cd.  Each such product must be
a trigonometric polynomial in theta with frequencies in F u {0}, i.e. it must be annihilated by the differential operator
        L_F = d/dtheta * prod_{f in F} (d^2/dtheta^2 + f^2).
(A finite trigonometric polynomial lies in the kernel of L_F iff all its frequencies lie in F u {0}.)  The matrix is obtained by
symbolic execution of the real compute_matrix (declared sets read from the REAL qp.gradients.parameter_frequencies), the derivatives by the symbolic differentiator, and z3 proves L_F[.] == 0 for
all parameter values (of all parameters).  Operators: every registry class with parameter_frequencies, controlled versions
(whose frequencies come from generator eigenvalues), PauliRot / MultiRZ, and custom operations whose frequencies are derived by
the library from an unequally spaced generator spectrum.
"""
from __future__ import annotations

import itertools

import numpy as np
import pennylane as qp

from vf import symx as sx, obl, registry

PN = ["a", "b", "g"]


class _Diag4(qp.operation.Operation):
    """exp(i theta G) with G = 1.5 Z0 + 0.5 Z1  (levels -2, -1, 1, 2: unequally spaced).  parameter_frequencies is NOT
    overridden: the library derives it from the generator's eigenvalues."""

    num_wires = 2
    num_params = 1
    ndim_params = (0,)

    def generator(self):
        return qp.Hamiltonian([1.5, 0.5], [qp.PauliZ(self.wires[0]), qp.PauliZ(self.wires[1])])

    @staticmethod
    def compute_matrix(theta):
        lam = [2.0, 1.0, -1.0, -2.0]
        return qp.math.stack([[qp.math.exp(1j * theta * l) if i == j else 0 * theta for j, l2 in enumerate(lam)] for i, l in enumerate(lam)])


class _Diag3Levels(qp.operation.Operation):
    """generator diag(0, 1, 3, 3) (levels 0, 1, 3): differences 1, 2, 3"""

    num_wires = 2
    num_params = 1
    ndim_params = (0,)

    def generator(self):
        # diag(0,1,3,3) = 1.75 I - 1.25 Z0 - 0.25 Z1 + ... solve: use Hermitian
        return qp.Hermitian(np.diag([0.0, 1.0, 3.0, 3.0]), wires=self.wires)

    @staticmethod
    def compute_matrix(theta):
        lam = [0.0, 1.0, 3.0, 3.0]
        return qp.math.stack([[qp.math.exp(1j * theta * l) if i == j else 0 * theta for j, l2 in enumerate(lam)] for i, l in enumerate(lam)])


EXTRA = {
    "ctrl(SingleExcitation)": (1, 3, lambda p, w: qp.ctrl(qp.SingleExcitation(p[0], wires=w[1:]), control=w[0])),
    "ctrl(SingleExcitationPlus)": (1, 3, lambda p, w: qp.ctrl(qp.SingleExcitationPlus(p[0], wires=w[1:]), control=w[0])),
    "ctrl(IsingXX,cv=0)": (1, 3, lambda p, w: qp.ctrl(qp.IsingXX(p[0], wires=w[1:]), control=w[0], control_values=[0])),
    "ctrl(RX,2 controls)": (1, 3, lambda p, w: qp.ctrl(qp.RX(p[0], wires=w[2]), control=w[:2])),
    "ctrl(PhaseShift)": (1, 2, lambda p, w: qp.ctrl(qp.PhaseShift(p[0], wires=w[1]), control=w[0])),
    "ctrl(DoubleExcitationPlus)": (1, 5, lambda p, w: qp.ctrl(qp.DoubleExcitationPlus(p[0], wires=w[1:]), control=w[0])),
    "ctrl(DoubleExcitationMinus,cv=0)": (1, 5, lambda p, w: qp.ctrl(qp.DoubleExcitationMinus(p[0], wires=w[1:]), control=w[0], control_values=[0])),
    "custom generator levels (-2,-1,1,2)": (1, 2, lambda p, w: _Diag4(p[0], wires=w)),
    "custom generator levels (0,1,3,3)": (1, 2, lambda p, w: _Diag3Levels(p[0], wires=w)),
    "adjoint(CRX)": (1, 2, lambda p, w: qp.adjoint(qp.CRX(p[0], wires=w))),
    "pow(IsingZZ,2)": (1, 2, lambda p, w: qp.pow(qp.IsingZZ(p[0], wires=w), 2, lazy=True)),
}


def instances():
    out = []
    for inst in registry.instances():
        if inst.nparams >= 1:
            out.append((inst.key, inst.nparams, inst.nwires, lambda p, w, inst=inst: inst.build(p, w)))
    for k, (npar, nw, fn) in EXTRA.items():
        out.append((k, npar, nw, fn))
    return {k: (npar, nw, fn) for k, npar, nw, fn in out}


INST = None


def get_inst():
    global INST
    if INST is None:
        INST = instances()
    return INST


def declared(op):
    """the library's answer: the functional API qp.gradients.parameter_frequencies (dispatch handlers for Operator2 classes, the
    `parameter_frequencies` property / generator eigenvalues for legacy Operations)"""
    try:
        return qp.gradients.parameter_frequencies(op)
    except Exception as e:  # ParameterFrequenciesUndefinedError and friends
        return e


def annihilate(S, x, name, F):
    """L_F applied to the object array x w.r.t. parameter `name`"""
    y = sx.d_dparam(S, x, name)
    for f in F:
        y = sx.d_dparam(S, sx.d_dparam(S, y, name), name) + y * (float(f) ** 2)
    return y


def _num(key, k, params):
    """numeric check: FFT support of the products conj(U_ab) U_cd over one common period"""
    npar, nw, fn = get_inst()[key]
    op0 = fn(list(params), list(range(nw)))
    F = declared(op0)
    if isinstance(F, Exception):
        return False, "frequencies undefined"
    F = sorted(float(f) for f in F[k])
    # sample on a grid over a window of length T = 2*pi*Q where all declared frequencies * Q are integers (Q <= 8)
    Q = next((q for q in range(1, 9) if all(abs(f * q - round(f * q)) < 1e-4 for f in F)), None) if F else 1
    if Q is None:
        return False, f"declared frequencies {F} not commensurate (replay by FFT impossible)"
    N = 64 * Q
    ts = [2 * np.pi * Q * j / N for j in range(N)]
    mats = []
    for t in ts:
        p = list(params)
        p[k] = t
        mats.append(np.asarray(qp.matrix(fn(p, list(range(nw))), wire_order=list(range(nw))), dtype=complex))
    mats = np.array(mats)
    # like the symbolic side: the distinct parameter-dependent entries, plus one constant entry
    nz, sigs, const = [], [], None
    for a in range(mats.shape[1]):
        for b in range(mats.shape[2]):
            col = mats[:, a, b]
            if np.max(np.abs(col)) <= 1e-9:
                continue
            if np.max(np.abs(col - col[0])) < 1e-9:
                const = const or (a, b)
            elif not any(np.max(np.abs(col - s_)) < 1e-9 for s_ in sigs):
                sigs.append(col)
                nz.append((a, b))
    nz = nz[:10] + ([const] if const else [])
    allowed = {round(f * Q) for f in F} | {0}
    worst, where = 0.0, None
    for (a, b), (c, d) in itertools.product(nz, repeat=2):
        sig = np.conj(mats[:, a, b]) * mats[:, c, d]
        ft = np.fft.fft(sig) / N
        for idx in range(N):
            fr = idx if idx <= N // 2 else idx - N
            if abs(fr) not in allowed and abs(ft[idx]) > worst:
                worst, where = abs(ft[idx]), (fr / Q, (a, b), (c, d))
    return worst > 1e-6, f"{key} parameter {k}: declared {F}; spectrum of conj(U_ab)*U_cd contains frequency {where[0] if where else None} with amplitude {worst:.3g} (entries {where[1:] if where else None})"


def replay(p):
    return _num(p["key"], p["k"], p["params"])


def work(key):
    npar, nw, fn = get_inst()[key]
    names = PN[:npar]
    op0 = fn([0.37, -1.21, 2.53][:npar], list(range(nw)))
    F = declared(op0)
    if isinstance(F, Exception):
        return [{"name": f"{key}: parameter_frequencies", "status": "unsupported", "detail": f"frequencies undefined for this operator: {F!r}"[:200]}]

    def b(S):
        ps = [S.param(x) for x in names]
        op = fn(ps, list(range(nw)))
        M = sx.arr(qp.matrix(op, wire_order=list(range(nw))))
        return M

    def consume(S, M, i):
        # distinct non-zero entries (up to 10) and all their conj-products
        ent, seen = [], set()
        for v in M.ravel():
            kx = repr(v)
            if isinstance(v, sx.SymC) and not v.is_const() and kx not in seen:
                seen.add(kx)
                ent.append(v)
        def _nonzero_const(v):
            if isinstance(v, sx.SymC):
                c = v.const_complex()
                return c is not None and abs(c) > 1e-12
            return abs(complex(v)) > 1e-12

        if any(_nonzero_const(v) for v in M.ravel()):  # e.g. the identity block of a controlled gate: conj(1) * U_cd occurs in expectation values
            ent.append(S.lift(1.0))
        ent = ent[:10]
        prods = np.array([x.conjugate() * y for x in ent for y in ent], dtype=object)
        out = []
        for k, nm in enumerate(names):
            Fk = sorted(float(f) for f in F[k])

            def rp(model, k=k):
                p = [model["params"].get(x, 0.0) for x in names]
                ok, obs = _num(key, k, p)
                return ok, {"key": key, "k": k, "params": p, "observed": obs}

            res = annihilate(S, prods, nm, Fk)
            out.append(obl.prove(S, f"{key}: parameter {k} declared frequencies {Fk}: L_F annihilates every product conj(U_ab)*U_cd ({len(prods)} products)", res, np.zeros(res.shape, dtype=object),
                                 replay=rp, signature=f"{key}:param{k}", timeout=120, over=[x for x in prods.ravel() if isinstance(x, sx.SymC)], tol=1e-9 if any(abs(f - round(f)) > 1e-12 and abs(2 * f - round(2 * f)) > 1e-12 for f in Fk) else None))
        return out

    try:
        return obl.run_instance(key, b, consume)
    except (TypeError, AttributeError, ValueError, NotImplementedError) as e:
        return [obl.unsupported(key, e)]


def run(ctx):
    ctx.level = "proof"
    keys = list(get_inst())
    if ctx.tier == "quick":
        keys = [k for k in keys if get_inst()[k][1] <= 4 or "ctrl(DoubleExcitationPlus)" in k]
    if ctx.only:
        keys = [k for k in keys if ctx.only in k]
    ctx.shapes = len(keys)
    from pennylane.gradients.general_shift_rules import eigvals_to_frequencies
    ctx.encode(qp.gradients.parameter_frequencies, eigvals_to_frequencies, qp.operation.Operation, qp.ops.op_math.Controlled)
    ctx.bound(parameters="all real values of all parameters", operators=f"{len(keys)} instances: registry gates with parameters, controlled versions, custom operations with unequally spaced generator spectra",
              entries="up to 10 distinct symbolic matrix entries and all their conj-products per instance",
              outside="operators whose matrix needs expm / numeric eigendecomposition (qp.evolve with generic Hamiltonians, SpecialUnitary), the parameter_frequencies transform on QNodes/tapes (classical preprocessing)")
    ctx.assume(*sx.SHIM_NOTES, "kernel argument: a finite trigonometric polynomial is annihilated by d/dtheta prod_f (d^2/dtheta^2 + f^2) iff its frequencies lie in F u {0}")
    ctx.rule = "one obligation per (operator instance, parameter); non-trivial = mentions the symbolic parameter"
    ctx.pmap(work, keys, timeout_each=600)
