"""Shared harness for C17 (optimisation passes preserve semantics) and C18 (transforms never modify their input).

Circuit skeletons with symbolic angles are pushed through the REAL passes in forking mode (value-dependent branches such as the
zero-angle shortcut of merge_rotations are explored through the solver, tolerance comparisons modelled as equalities).  On every
path: (C17) the unitary of the output circuit equals the unitary of the input (exactly; for undo_swaps the measurement results are
compared instead, since it relabels wires); (C18) the input tape is structurally identical to a snapshot taken before the call."""
from __future__ import annotations

import itertools

import numpy as np
import pennylane as qp

from vf import symx as sx, obl, simx

PN = ["a", "b", "g"]

# gate alphabet: key -> builder(ps)
G = {
    "RX(a)0": lambda p: qp.RX(p[0], 0), "RX(b)0": lambda p: qp.RX(p[1], 0), "RX(-a)0": lambda p: qp.RX(-p[0], 0), "RY(a)1": lambda p: qp.RY(p[0], 1), "RY(g)1": lambda p: qp.RY(p[2], 1),
    "RZ(g)0": lambda p: qp.RZ(p[2], 0), "RZ(b)1": lambda p: qp.RZ(p[1], 1), "RZ(a)0": lambda p: qp.RZ(p[0], 0), "PS(a)0": lambda p: qp.PhaseShift(p[0], 0), "PS(b)0": lambda p: qp.PhaseShift(p[1], 0),
    "H0": lambda p: qp.Hadamard(0), "H1": lambda p: qp.Hadamard(1), "X0": lambda p: qp.PauliX(0), "X1": lambda p: qp.PauliX(1), "Z0": lambda p: qp.PauliZ(0), "Y1": lambda p: qp.PauliY(1),
    "S0": lambda p: qp.S(0), "S0^": lambda p: qp.adjoint(qp.S(0)), "T1": lambda p: qp.T(1), "T1^": lambda p: qp.adjoint(qp.T(1)), "SX0": lambda p: qp.SX(0),
    "CNOT01": lambda p: qp.CNOT([0, 1]), "CNOT10": lambda p: qp.CNOT([1, 0]), "CNOT12": lambda p: qp.CNOT([1, 2]), "CZ01": lambda p: qp.CZ([0, 1]), "CZ10": lambda p: qp.CZ([1, 0]),
    "CY01": lambda p: qp.CY([0, 1]), "SWAP01": lambda p: qp.SWAP([0, 1]), "SWAP10": lambda p: qp.SWAP([1, 0]), "SWAP12": lambda p: qp.SWAP([1, 2]),
    "Tof012": lambda p: qp.Toffoli([0, 1, 2]), "Tof102": lambda p: qp.Toffoli([1, 0, 2]), "CRX(a)01": lambda p: qp.CRX(p[0], [0, 1]), "CRX(b)01": lambda p: qp.CRX(p[1], [0, 1]),
    "CRZ(b)10": lambda p: qp.CRZ(p[1], [1, 0]), "CRY(g)01": lambda p: qp.CRY(p[2], [0, 1]), "IsingXX(a)01": lambda p: qp.IsingXX(p[0], [0, 1]), "IsingXX(b)01": lambda p: qp.IsingXX(p[1], [0, 1]),
    "IsingZZ(a)01": lambda p: qp.IsingZZ(p[0], [0, 1]), "GP(g)": lambda p: qp.GlobalPhase(p[2], wires=0), "GP(a)": lambda p: qp.GlobalPhase(p[0], wires=1), "Barrier": lambda p: qp.Barrier([0, 1]),
    "CPS(a)01": lambda p: qp.ControlledPhaseShift(p[0], [0, 1]), "CPS(b)01": lambda p: qp.ControlledPhaseShift(p[1], [0, 1]), "RX(a)2": lambda p: qp.RX(p[0], 2), "X2": lambda p: qp.PauliX(2),
    "CZ02": lambda p: qp.CZ([0, 2]), "CNOT02": lambda p: qp.CNOT([0, 2]), "CNOT21": lambda p: qp.CNOT([2, 1]), "RX(a)1": lambda p: qp.RX(p[0], 1), "RX(b)1": lambda p: qp.RX(p[1], 1),
    "Z1": lambda p: qp.PauliZ(1), "CRZ(b)02": lambda p: qp.CRZ(p[1], [0, 2]), "CRX(b)21": lambda p: qp.CRX(p[1], [2, 1]), "RY(g)0": lambda p: qp.RY(p[2], 0),
    "MultiRZ(a)01": lambda p: qp.MultiRZ(p[0], [0, 1]), "ISWAP01": lambda p: qp.ISWAP([0, 1]), "adj(RX(a))0": lambda p: qp.adjoint(qp.RX(p[0], 0)), "U1(a)0": lambda p: qp.U1(p[0], 0), "U1(b)0": lambda p: qp.U1(p[1], 0),
}

# pass name -> (callable(tape) -> (tapes, fn), alphabet bias)
_SINGLE = ["RX(a)0", "RX(b)0", "RX(-a)0", "RZ(g)0", "RZ(a)0", "PS(a)0", "PS(b)0", "H0", "X0", "Z0", "S0", "S0^", "SX0", "U1(a)0", "U1(b)0", "adj(RX(a))0"]
_TWO = ["CNOT01", "CNOT10", "CZ01", "CZ10", "SWAP01", "SWAP10", "CRX(a)01", "CRX(b)01", "CRZ(b)10", "IsingXX(a)01", "IsingXX(b)01", "CPS(a)01", "CPS(b)01", "CY01", "ISWAP01"]
_OTHER = ["RY(a)1", "RY(g)1", "RZ(b)1", "X1", "Y1", "H1", "T1", "T1^", "Tof012", "Tof102", "CNOT12", "SWAP12", "GP(g)", "GP(a)", "Barrier", "RX(a)2", "X2", "IsingZZ(a)01", "MultiRZ(a)01", "CRY(g)01"]

PASSES = {
    "cancel_inverses": lambda t: qp.transforms.cancel_inverses(t),
    "cancel_inverses(recursive=False)": lambda t: qp.transforms.cancel_inverses(t, recursive=False),
    "merge_rotations": lambda t: qp.transforms.merge_rotations(t),
    "merge_rotations(include_gates=[RX,CRX])": lambda t: qp.transforms.merge_rotations(t, include_gates=["RX", "CRX"]),
    "commute_controlled(right)": lambda t: qp.transforms.commute_controlled(t, direction="right"),
    "commute_controlled(left)": lambda t: qp.transforms.commute_controlled(t, direction="left"),
    "undo_swaps": lambda t: qp.transforms.undo_swaps(t),
    "combine_global_phases": lambda t: qp.transforms.combine_global_phases(t),
    "remove_barrier": lambda t: qp.transforms.remove_barrier(t),
    "compile(default)": lambda t: qp.compile(t),
    "compile(commute,cancel,merge x2)": lambda t: qp.compile(t, pipeline=[qp.transforms.commute_controlled, qp.transforms.cancel_inverses, qp.transforms.merge_rotations], num_passes=2),
}
EXCLUDE = {  # gates a pass documents it cannot handle / that are irrelevant
    "commute_controlled(right)": {"Barrier"}, "commute_controlled(left)": {"Barrier"},
}


def commute_chains(tier):
    """a single-qubit gate that must travel through SEVERAL controlled gates it commutes with, with and without a non-commuting
    blocker in between (left: mover last, right: mover first).  Run with the commute_controlled passes and compile only."""
    if tier == "quick":
        ctl = (["Z0", "RZ(a)0"], ["CNOT01", "CZ02", "CNOT02"], ["H0", "RY(g)0"])
        tgt = (["X1", "RX(a)1"], ["CNOT01", "CNOT21"], ["H1", "RZ(b)1"])
    else:
        ctl = (["Z0", "RZ(a)0", "S0", "PS(a)0"], ["CNOT01", "CZ02", "CNOT02", "CZ01", "CRZ(b)02", "CRX(b)01"], ["H0", "RY(g)0", "X0", "SX0"])
        tgt = (["X1", "RX(a)1", "SX0"], ["CNOT01", "CNOT21", "CRX(b)21", "CRX(b)01"], ["H1", "RZ(b)1", "Z1", "T1"])
    out = []
    # unrelated gates before (left) / after (right) the chain shift every list index the pass computes
    pads = {id(ctl): ([], ["RY(g)1"], ["RY(g)1", "RX(b)0"]), id(tgt): ([], ["RY(g)0"], ["RY(g)0", "RX(b)1"])}
    for grp in (ctl, tgt):
        movers, gates, blockers = grp
        for m, A, B in itertools.product(movers, gates, gates):
            for pad in pads[id(grp)]:
                out += [pad + [A, B, m], [m, A, B] + pad[::-1]]
                for blk in blockers:
                    out += [pad + [A, blk, B, m], [m, A, blk, B] + pad[::-1]]
    if tier != "quick":
        for movers, gates, blockers in (ctl, tgt):
            for m, A, B, C in itertools.product(movers[:2], gates[:3], gates[:3], gates[:3]):
                for blk in blockers[:2]:
                    out += [[A, blk, B, C, m], [A, B, blk, C, m], [m, A, blk, B, C], [m, A, B, blk, C]]
    return out


CHAIN_PASSES = ["commute_controlled(right)", "commute_controlled(left)", "compile(commute,cancel,merge x2)"]


def family(tier, seed=0):
    """list of gate-key sequences"""
    seqs = []
    hand = [
        ["RX(a)0", "RX(b)0"], ["RX(a)0", "RX(-a)0"], ["RX(a)0", "adj(RX(a))0"], ["H0", "H0"], ["S0", "S0^"], ["S0^", "S0"], ["X0", "CNOT10", "X0"], ["CNOT01", "CNOT01"], ["CNOT01", "CNOT10"],
        ["CNOT01", "X1", "CNOT01"], ["CNOT01", "Z0", "CNOT01"], ["CZ01", "CZ10"], ["SWAP01", "SWAP10"], ["Tof012", "Tof102"], ["Tof012", "X2", "Tof012"], ["RZ(g)0", "CNOT01", "RZ(a)0"],
        ["RX(a)0", "CNOT10", "RX(b)0"], ["RX(a)0", "CNOT01", "RX(b)0"], ["RY(a)1", "CNOT01", "RY(g)1"], ["CRX(a)01", "CRX(b)01"], ["CRX(a)01", "RX(a)2", "CRX(b)01"], ["CRZ(b)10", "RZ(g)0", "CRZ(b)10"],
        ["IsingXX(a)01", "IsingXX(b)01"], ["IsingXX(a)01", "X0", "IsingXX(b)01"], ["PS(a)0", "PS(b)0", "Z0"], ["PS(a)0", "CZ01", "PS(b)0"], ["CPS(a)01", "CPS(b)01"], ["CPS(a)01", "S0", "CPS(b)01"],
        ["SWAP01", "RX(a)0", "CNOT01"], ["RX(a)0", "SWAP01", "RY(g)1", "SWAP01"], ["SWAP01", "SWAP12", "RX(a)0", "X2"], ["H0", "SWAP01", "CNOT01", "SWAP10"], ["GP(g)", "RX(a)0", "GP(a)"],
        ["GP(g)", "GP(a)"], ["RX(a)0", "Barrier", "RX(b)0"], ["Barrier", "H0", "Barrier", "H0"], ["H0", "Barrier", "H0"], ["T1", "T1^", "T1"], ["SX0", "SX0"], ["U1(a)0", "U1(b)0"],
        ["RX(a)0", "RZ(g)0", "RX(b)0"], ["CNOT01", "RX(a)0", "RX(b)0", "CNOT01"], ["X1", "CNOT01", "X1", "CNOT01"], ["CY01", "Y1", "CY01"], ["Z0", "CNOT01", "Z0", "H0", "H0"],
        ["RZ(a)0", "CRZ(b)10", "RZ(g)0", "CNOT01"], ["MultiRZ(a)01", "RZ(g)0", "MultiRZ(a)01"], ["IsingZZ(a)01", "RZ(b)1", "IsingZZ(a)01"], ["ISWAP01", "SWAP01"], ["CRY(g)01", "RY(a)1", "CRY(g)01"],
        ["RX(a)0", "RX(b)0", "RX(-a)0"], ["RX(a)0", "H0", "H0", "RX(-a)0"], ["X0", "RX(a)0", "X0"], ["Tof012", "CNOT12", "Tof012"], ["CNOT12", "X1", "CNOT12", "X1"],
    ]
    seqs += hand
    pool = _SINGLE + _TWO + _OTHER
    import random

    rnd = random.Random(1234)
    n_rand = 60 if tier == "quick" else 600
    for _ in range(n_rand):
        L = rnd.choice([3, 4, 4, 5, 6])
        # bias: repeat/neighbouring gates so that the passes have something to do
        s = []
        while len(s) < L:
            g = rnd.choice(pool)
            s.append(g)
            if rnd.random() < 0.35 and len(s) < L:
                s.append(rnd.choice([g, g, rnd.choice(_SINGLE), rnd.choice(_TWO)]))
        seqs.append(s)
    if tier == "thorough":
        for a, b in itertools.product(_SINGLE[:10] + _TWO[:10], repeat=2):
            seqs.append([a, b])
        for a, b, c in itertools.product(["RX(a)0", "RZ(g)0", "X0", "H0", "CNOT01", "CNOT10", "CZ01", "SWAP01", "CRX(a)01", "PS(a)0"], repeat=3):
            seqs.append([a, b, c])
    uniq, seen = [], set()
    for s in seqs:
        if tuple(s) not in seen:
            seen.add(tuple(s))
            uniq.append(s)
    return uniq


MPS = lambda: [qp.expval(qp.PauliZ(0) @ qp.PauliX(1)), qp.probs(wires=[0, 1, 2]), qp.expval(qp.PauliY(2)), qp.var(qp.PauliZ(1))]
W = [0, 1, 2]


def unitary(ops):
    U = np.eye(8, dtype=object)
    for op in ops:
        if op.name in ("Barrier", "WireCut", "Snapshot"):
            continue
        ws = list(op.wires)
        U = np.dot(sx.embed(sx.arr(qp.matrix(op, wire_order=ws)), ws, W), U)
    return U


def snapshot(tape):
    return dict(ops=list(tape.operations), n=len(tape.operations), data=[tuple(id(d) for d in op.data) for op in tape.operations], datav=[[sx.arr(d) for d in op.data] for op in tape.operations],
                wires=[tuple(op.wires) for op in tape.operations], names=[op.name for op in tape.operations], mps=list(tape.measurements), nm=len(tape.measurements),
                trainable=list(tape.trainable_params), shots=tape.shots, hyper=[repr(sorted(op.hyperparameters.items(), key=lambda kv: kv[0])) if op.hyperparameters else "" for op in tape.operations])


def immutability_problems(S, tape, snap):
    """concrete structural comparison; symbolic data compared by identity of the carried term objects"""
    probs = []
    ops = tape.operations
    if len(ops) != snap["n"]:
        return [f"number of operations changed {snap['n']} -> {len(ops)}"]
    for k, (op, old) in enumerate(zip(ops, snap["ops"])):
        if op is not old:
            probs.append(f"operation {k} replaced")
        if op.name != snap["names"][k] or tuple(op.wires) != snap["wires"][k]:
            probs.append(f"operation {k} name/wires changed")
        if tuple(id(d) for d in op.data) != snap["data"][k]:
            probs.append(f"operation {k} data objects replaced")
        for d, dv in zip(op.data, snap["datav"][k]):
            if sx.arr(d).shape != dv.shape or any(x is not y and not (not isinstance(x, sx.SymC) and not isinstance(y, sx.SymC) and x == y) for x, y in zip(sx.arr(d).ravel(), dv.ravel())):
                probs.append(f"operation {k} data values changed")
    if len(tape.measurements) != snap["nm"] or any(m is not o for m, o in zip(tape.measurements, snap["mps"])):
        probs.append("measurements changed")
    if list(tape.trainable_params) != snap["trainable"]:
        probs.append("trainable_params changed")
    if tape.shots != snap["shots"]:
        probs.append("shots changed")
    return probs


def _num(seq, pname, params, what):
    ops = [G[g](params) for g in seq]
    tape = qp.tape.QuantumScript(ops, MPS())
    snap_n, snap_names = len(tape.operations), [o.name for o in tape.operations]
    before = qp.devices.qubit.simulate(qp.tape.QuantumScript(list(ops), MPS()))
    tapes, fn = PASSES[pname](tape)
    if what == "immut":
        after_n = len(tape.operations)
        bad = after_n != snap_n or [o.name for o in tape.operations] != snap_names
        return bad, f"{pname} on {seq} at {params}: input tape had {snap_n} operations, has {after_n} after the transform"
    res = fn(tuple(qp.devices.qubit.simulate(t) for t in tapes))
    worst = 0.0
    for r, b in zip(res, before):
        worst = max(worst, float(np.max(np.abs(np.asarray(r, dtype=complex) - np.asarray(b, dtype=complex)))))
    if pname != "undo_swaps" and len(tapes) == 1:
        U1 = np.asarray(unitary([G[g](params) for g in seq]), dtype=complex)
        U2 = np.asarray(unitary(tapes[0].operations), dtype=complex)
        k = np.unravel_index(np.argmax(np.abs(U1)), U1.shape)
        ph = U2[k] / U1[k] if abs(U1[k]) > 1e-9 else 1.0
        dphase = float(np.max(np.abs(U2 - ph * U1)))
        dexact = float(np.max(np.abs(U2 - U1)))
        return (worst > 1e-6 or dphase > 1e-6), f"{pname} on {seq} at {params}: max|result difference|={worst:.3g}, max|U_out - phase*U_in|={dphase:.3g}, max|U_out-U_in|={dexact:.3g} -> {[o.name for o in tapes[0].operations]}"
    return worst > 1e-6, f"{pname} on {seq} at {params}: max|result difference|={worst:.3g}"


def replay(p):
    return _num(p["seq"], p["pass"], p["params"], p["what"])


def work(item):
    seq, pname = item
    name = f"{pname} on {'.'.join(seq)}"

    def build(S):
        ps = [S.param(x) for x in PN]
        ops = [G[g](ps) for g in seq]
        tape = qp.tape.QuantumScript(ops, MPS())
        snap = snapshot(tape)
        U_in = unitary(ops)
        try:
            tapes, fn = PASSES[pname](tape)
        except (sx.Unsupported, sx.Granularity, sx.PathLimit):
            raise
        out_ops = list(tapes[0].operations) if len(tapes) == 1 else None
        prob1 = immutability_problems(S, tape, snap)
        res_in = res_out = None
        if pname == "undo_swaps" or out_ops is None:
            psi_in = simx.oracle_state(ops, W)
            res_in = [sx.arr(simx.oracle_measure(psi_in, mp, W)) for mp in MPS()]
            outs = []
            for t in tapes:
                psi = simx.oracle_state(list(t.operations), W)
                outs.append(tuple(sx.arr(simx.oracle_measure(psi, mp, W)) for mp in t.measurements))
            res_out = fn(tuple(outs))
            U_out = None
        else:
            U_out = unitary(out_ops)
        prob2 = immutability_problems(S, tape, snap)
        return U_in, U_out, res_in, res_out, prob1 + prob2, [o.name for o in (out_ops or [])]

    def consume(S, v, i):
        U_in, U_out, res_in, res_out, probs, out_names = v

        def rp(what):
            def f(model):
                p = [model["params"].get(x, 0.0) for x in PN]
                ok, obs = _num(seq, pname, p, what)
                return ok, {"seq": seq, "pass": pname, "params": p, "what": what, "observed": obs}
            return f

        out = []
        if U_out is not None:
            rec = obl.prove(S, f"[semantics] {name} (path {i} -> {out_names}): U_out == U_in", U_out, U_in, replay=rp("sem"), signature=f"sem:{pname}:{'.'.join(seq)}", timeout=60)
            if rec["status"] == "inconclusive" and "does not reproduce" in rec.get("detail", ""):
                # exact equality failed only by a global phase: prove proportionality by cross-multiplication with a reference entry
                k = None
                Ui, Uo = sx.arr(U_in), sx.arr(U_out)
                lhs, rhs = [], []
                ref = (0, 0)
                for r_ in range(8):
                    for c_ in range(8):
                        lhs.append(Uo[r_, c_] * Ui[ref])
                        rhs.append(Ui[r_, c_] * Uo[ref])
                rec = obl.prove(S, f"[semantics] {name} (path {i} -> {out_names}): U_out proportional to U_in (cross-multiplied with entry 0,0)", lhs, rhs, replay=rp("sem"),
                                signature=f"sem:{pname}:{'.'.join(seq)}", timeout=60)
            out.append(rec)
        else:
            for j, (a, b) in enumerate(zip(res_out, res_in)):
                out.append(obl.prove(S, f"[semantics] {name} (path {i}): result {j} unchanged", sx.arr(np.asarray(a, dtype=object)).reshape(b.shape), b, replay=rp("sem"),
                                     signature=f"sem:{pname}:{'.'.join(seq)}", timeout=60))
        st = "violated" if probs else "discharged"
        rec = {"name": f"[immutability] {name} (path {i}): input tape unchanged after transform and post-processing", "status": st, "symbols": list(PN), "queries": 0,
               "solver": "structural comparison on the explored path", "nontrivial": True}
        if probs:
            pmodel = sx.solve_nonzero(S, [], timeout_s=5)  # any model of the path condition
            params = [0.37, -1.21, 2.53]
            try:
                s2 = sx.satisfiable(S)
            except Exception:
                s2 = None
            ok, obs = _num(seq, pname, params, "immut")
            rec.update(signature=f"immut:{pname.split('(')[0]}", detail=f"{probs[:3]}; concrete replay: {obs}", replay={"seq": seq, "pass": pname, "params": params, "what": "immut", "observed": obs})
            if not ok:
                rec["status"] = "inconclusive"
        out.append(rec)
        return out

    try:
        return obl.run_instance(name, build, consume, max_paths=48)
    except (TypeError, ValueError, AttributeError, NotImplementedError, qp.operation.MatrixUndefinedError) as e:
        return [obl.unsupported(name, e)]


def items_for(ctx):
    fam = family(ctx.tier)
    items = []
    for s in fam:
        names = {G[g]([0.1, 0.2, 0.3]).name for g in s}
        for pname in PASSES:
            if names & EXCLUDE.get(pname, set()):
                continue
            items.append((s, pname))
    if ctx.tier == "quick":
        # every hand-written circuit with every pass; random circuits with a rotating subset of passes
        nh = 56
        keep = []
        pn = list(PASSES)
        for idx, it in enumerate(items):
            si = fam.index(it[0])
            if si < nh or pn.index(it[1]) % 4 == si % 4:
                keep.append(it)
        items = keep
    seen = {(tuple(s), pn) for s, pn in items}
    for s in commute_chains(ctx.tier):
        for pname in CHAIN_PASSES:
            if (tuple(s), pname) not in seen:
                seen.add((tuple(s), pname))
                items.append((s, pname))
    if ctx.only:
        items = [it for it in items if ctx.only in f"{it[1]} on {'.'.join(it[0])}"]
    return items
