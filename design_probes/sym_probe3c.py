import sys, time, traceback
sys.argv=['x']
exec(open('/verif/design_probes/sym_probe2c.py').read().split("th = param('th')")[0])

import pennylane.core.operator.operator2 as _o2
_o2._init_arg_types = lambda op: None
def mat_of_ops(ops, wire_order):
    M = None
    for op in ops:
        m = qp.matrix(op, wire_order=wire_order)
        M = m if M is None else m @ M
    return M

def trial(label, f):
    t=time.time()
    try:
        f()
    except Exception as e:
        tb = traceback.extract_tb(e.__traceback__)
        print(label, "ERR", repr(e)[:300], "@", [(x.filename.split('/')[-1], x.lineno) for x in tb[-4:]])
    print(f"   [{time.time()-t:.2f}s]")

a, b, c = param('a'), param('b'), param('c')
def t1():
    M = qp.Rot.compute_matrix(a,b,c)
    U = np.asarray(M, dtype=object); check_eq(np.conj(U).T@U, np.eye(2), "Rot unitary")
    ref = qp.RZ.compute_matrix(c) @ qp.RY.compute_matrix(b) @ qp.RZ.compute_matrix(a)
    check_eq(M, ref, "Rot == RZ RY RZ")
trial("Rot", t1)
def t2():
    op = qp.Rot(a,b,c,wires=0)
    print("   op ok:", op.num_params, op.batch_size, op.ndim_params)
    M = op.matrix()
    dec = op.decomposition()
    print("   decomp:", dec)
    check_eq(M, mat_of_ops(dec, [0]), "Rot.matrix == decomposition")
trial("Rot instance", t2)
def t3():
    op = qp.CRot(a,b,c,wires=[0,1])
    M = op.matrix()
    dec = op.decomposition(); print("   decomp:", [d.name for d in dec])
    check_eq(M, mat_of_ops(dec, [0,1]), "CRot.matrix == decomposition")
trial("CRot", t3)
def t4():
    for cls in (qp.IsingXX, qp.IsingYY, qp.IsingZZ, qp.IsingXY, qp.SingleExcitation, qp.SingleExcitationPlus, qp.SingleExcitationMinus, qp.CRX, qp.CRY, qp.CRZ, qp.ControlledPhaseShift, qp.PSWAP):
        def g():
            op = cls(a, wires=[0,1]); M = op.matrix(); dec = op.decomposition()
            check_eq(M, mat_of_ops(dec,[0,1]), f"{cls.__name__} == decomp {[d.name for d in dec]}")
            M2 = qp.matrix(op, wire_order=[1,0])
        trial(cls.__name__, g)
trial("two-qubit", t4)
def t5():
    op = qp.DoubleExcitation(a, wires=[0,1,2,3]); M = op.matrix(); dec = op.decomposition()
    check_eq(M, mat_of_ops(dec,[0,1,2,3]), "DoubleExcitation == decomp")
trial("DoubleExcitation", t5)
def t6():
    op = qp.adjoint(qp.RX(a, 0)); check_eq(op.matrix(), qp.RX.compute_matrix(-a), "adjoint RX")
    op = qp.ctrl(qp.RX(a, 0), control=1); print("  ", type(op)); check_eq(op.matrix(), qp.CRX.compute_matrix(a), "ctrl RX")
    op = qp.prod(qp.RX(a,0), qp.RY(b,0)); check_eq(op.matrix(), qp.RX.compute_matrix(a)@qp.RY.compute_matrix(b), "prod")
    op = qp.pow(qp.RX(a, 0), 2); check_eq(op.matrix(), qp.RX.compute_matrix(2*a), "pow RX 2")
    op = qp.ctrl(qp.Rot(a,b,c, 0), control=[1,2], control_values=[0,1]); M = op.matrix(); print("   ctrl Rot 2c", np.shape(M))
trial("op math", t6)
def t7():
    # generator: exp(i a G) == matrix
    op = qp.IsingXX(a, wires=[0,1])
    G = qp.generator(op, format="observable"); print("   gen", G)
trial("generator", t7)
