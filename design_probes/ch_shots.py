from typing import List, Tuple, Union
from pennylane.measurements import Shots

def expand(spec):
    out = []
    for s in spec:
        if isinstance(s, tuple): out += [s[0]]*s[1]
        else: out.append(s)
    return out

def shots_sem(a: List[Tuple[int,int]]) -> bool:
    """
    pre: 1 <= len(a) <= 3
    pre: all(1 <= s <= 5 and 1 <= c <= 3 for s, c in a)
    post: _
    """
    sh = Shots(a)
    ex = expand(a)
    bins = list(sh.bins())
    pref = [0]
    for v in ex: pref.append(pref[-1]+v)
    ok_bins = bins == [(pref[i], pref[i+1]) for i in range(len(ex))]
    # merged adjacent equal
    merged_ok = all(sh.shot_vector[i].shots != sh.shot_vector[i+1].shots for i in range(len(sh.shot_vector)-1))
    return sh.total_shots == sum(ex) and list(sh) == ex and ok_bins and merged_ok and sh.num_copies == len(ex) and sh.has_partitioned_shots == (len(ex) > 1)

def shots_add(a: List[int], b: List[int]) -> bool:
    """
    pre: 1 <= len(a) <= 3 and 1 <= len(b) <= 3
    pre: all(1 <= s <= 5 for s in a) and all(1 <= s <= 5 for s in b)
    post: _
    """
    return list(Shots(a) + Shots(b)) == a + b and list(Shots(a) * 2) == [2*x for x in a]
