from pennylane.ops.op_math.decompositions.norm_solver import _primality_test
from pennylane.ops.op_math.decompositions.rings import ZSqrtTwo, ZOmega

def prime_ok(n:int) -> bool:
    """
    pre: 0 <= n <= 300
    post: _
    """
    ref = n >= 2 and all(n % d != 0 for d in range(2, 18) if d < n)
    return _primality_test.__wrapped__(n) == ref

def mod_congruent(a:int,b:int,c:int,d:int) -> bool:
    """
    pre: -4 <= a <= 4 and -4 <= b <= 4 and -4 <= c <= 4 and -4 <= d <= 4
    pre: c*c - 2*d*d != 0
    post: _
    """
    x = ZSqrtTwo(a,b); y = ZSqrtTwo(c,d)
    r = x % y
    # r == ±(x - q*y) for some q: check (x - r) or (x + r) divisible by y:  (x∓r)*adj2(y) divisible by N(y)
    n = abs(y)
    ok = False
    for sgn in (1,-1):
        z = (x - r*sgn) * y.adj2()
        if z.a % n == 0 and z.b % n == 0:
            ok = True
    return ok
