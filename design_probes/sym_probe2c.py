import numpy as np, z3, autoray, sys
from fractions import Fraction
import pennylane as qp

# --- minimal trig-polynomial symbolic scalar over z3 reals -----------------
R2 = z3.Real('r2')          # sqrt(2)
CONSTR = [R2*R2 == 2, R2 > 0]
ATOMS = {}
D = 4
def atom(name):
    if name not in ATOMS:
        c_, s_ = z3.Real('c_'+name), z3.Real('s_'+name)
        CONSTR.append(c_*c_ + s_*s_ == 1)
        ATOMS[name] = (c_, s_, None)
    return ATOMS[name]

def q(x):
    x = float(x)
    f = Fraction(x).limit_denominator(64)
    if abs(float(f) - x) < 1e-12: return z3.RealVal(str(f))
    g = Fraction(x / 2**0.5).limit_denominator(64)
    if abs(float(g) * 2**0.5 - x) < 1e-12: return z3.RealVal(str(g)) * R2
    raise AssertionError(("unrecognised constant", x))

class Ang:
    """linear form sum coef*param + const (const in units of pi)"""
    def __init__(s, lin, c=Fraction(0)): s.lin=dict(lin); s.c=c
class S:
    __array_priority__ = 1000
    def __init__(s, re, im=None, ang=None):
        s.re = re if z3.is_expr(re) else q(re)
        s.im = z3.RealVal(0) if im is None else (im if z3.is_expr(im) else q(im))
        s.ang = ang   # (Fraction lin dict, const) meaning this value == real angle OR i*angle handled separately
        s.iang = None
    @staticmethod
    def lift(x):
        if isinstance(x, S): return x
        if isinstance(x, (bool, np.bool_)): return S(int(x))
        if isinstance(x, (int, float, np.integer, np.floating)):
            return S(x, ang=({}, Fraction(float(x)/np.pi).limit_denominator(64)))
        if isinstance(x, (complex, np.complexfloating)):
            r = S(x.real, x.imag)
            return r
        return NotImplemented
    # angle bookkeeping: value = a (real) [ang] ; or value = i*a [iang]
    def __add__(a, b):
        b = S.lift(b)
        if b is NotImplemented: return b
        r = S(a.re+b.re, a.im+b.im)
        for attr in ('ang','iang'):
            x, y = getattr(a,attr), getattr(b,attr)
            if x is not None and y is not None:
                lin = dict(x[0])
                for k,v in y[0].items(): lin[k] = lin.get(k,0)+v
                setattr(r, attr, (lin, x[1]+y[1]))
        return r
    __radd__ = __add__
    def __neg__(a): return a*(-1)
    def __sub__(a, b): return a + (-S.lift(b))
    def __rsub__(a, b): return (-a) + b
    def __mul__(a, b):
        if isinstance(b, np.ndarray): return NotImplemented
        bc = b
        b = S.lift(b)
        if b is NotImplemented: return b
        r = S(a.re*b.re - a.im*b.im, a.re*b.im + a.im*b.re)
        # scaling of an angle by a concrete number
        for (x, y) in ((a, bc), (b, None)):
            pass
        def scal(v):
            # returns (real_factor, imag_factor) if v is concrete
            if isinstance(v, (int,float,np.integer,np.floating)): return Fraction(float(v)).limit_denominator(1<<20), 0
            if isinstance(v, (complex,np.complexfloating)):
                return Fraction(v.real).limit_denominator(1<<20), Fraction(v.imag).limit_denominator(1<<20)
            return None
        for sym, con in ((a, bc),):
            f = scal(con) if not isinstance(con, S) else None
            if f is not None:
                fr, fi = f
                if sym.ang is not None:
                    if fi == 0: r.ang = ({k:v*fr for k,v in sym.ang[0].items()}, sym.ang[1]*fr)
                    elif fr == 0: r.iang = ({k:v*fi for k,v in sym.ang[0].items()}, sym.ang[1]*fi)
                if sym.iang is not None:
                    if fi == 0: r.iang = ({k:v*fr for k,v in sym.iang[0].items()}, sym.iang[1]*fr)
                    elif fr == 0: r.ang = ({k:-v*fi for k,v in sym.iang[0].items()}, -sym.iang[1]*fi)
        return r
    def __rmul__(a, b): return a.__mul__(b)
    def __truediv__(a, b):
        if isinstance(b,(int,float,np.integer,np.floating)): return a*(1/Fraction(float(b)).limit_denominator(1<<20)) if False else a.__mul__(1.0/b)
        raise NotImplementedError(type(b))
    def __pow__(a, n):
        if getattr(a, 'sq', None) is not None and n == 2: return a.sq
        assert isinstance(n, (int, np.integer)) and n >= 0, n
        r = S(1)
        for _ in range(int(n)): r = r * a
        return r
    def __abs__(a):
        r = S(z3.Real('abs_unsupported'))
        r.sq = S(a.re*a.re + a.im*a.im)
        return r
    absolute = __abs__
    @property
    def real(a): return S(a.re)
    @property
    def imag(a): return S(a.im)
    def conjugate(a): return S(a.re, -a.im)
    conj = conjugate
    def _phasor(a, form):
        lin, c = form
        re, im = z3.RealVal(1), z3.RealVal(0)
        for k, v in lin.items():
            n = v*D
            assert n.denominator == 1, ("granularity", k, v)
            n = int(n)
            cc, ss, _ = atom(k)
            if n < 0: ss = -ss; n = -n
            for _ in range(n):
                re, im = re*cc - im*ss, re*ss + im*cc
        # constant: multiple of pi/4
        m = c*4
        assert m.denominator == 1, ("const granularity", c)
        m = int(m) % 8
        tab = {0:(1,0),2:(0,1),4:(-1,0),6:(0,-1)}
        if m in tab: cr, ci = (z3.RealVal(v) for v in tab[m])
        else:
            sg = {1:(1,1),3:(-1,1),5:(-1,-1),7:(1,-1)}[m]
            cr, ci = sg[0]*R2/2, sg[1]*R2/2
        return re*cr - im*ci, re*ci + im*cr
    def cos(a):
        assert a.ang is not None, "cos of non-angle"
        return S(a._phasor(a.ang)[0])
    def sin(a):
        assert a.ang is not None, "sin of non-angle"
        return S(a._phasor(a.ang)[1])
    def exp(a):
        assert a.iang is not None, "exp of non-imag-angle"
        re, im = a._phasor(a.iang)
        return S(re, im)
    def __repr__(s): return f"S({z3.simplify(s.re)}, {z3.simplify(s.im)})"

def param(name):
    s = S(z3.Real(name), ang=({name: Fraction(1)}, Fraction(0)))
    return np.array(s, dtype=object)

import autoray
autoray.autoray._BACKEND_ALIASES['__main__'] = 'numpy'

def check_eq(A, B, label):
    A = np.asarray(A, dtype=object); B = np.asarray(B, dtype=object)
    assert A.shape == B.shape, (A.shape, B.shape)
    s = z3.Solver(); s.add(*CONSTR)
    dis = []
    for a, b in zip(A.ravel(), B.ravel()):
        a = S.lift(a); b = S.lift(b)
        dis.append(a.re != b.re); dis.append(a.im != b.im)
    s.add(z3.Or(*dis))
    import time; t=time.time()
    r = s.check()
    print(label, r, f"{time.time()-t:.2f}s", s.model() if str(r)=='sat' else '')

th = param('th')
for cls in (qp.RX, qp.RY, qp.RZ, qp.PhaseShift, qp.U1):
    try:
        M = cls.compute_matrix(th)
        U = np.asarray(M, dtype=object)
        UdU = np.conj(U).T @ U
        check_eq(UdU, np.eye(2), cls.__name__+" unitary")
    except Exception as e:
        import traceback; traceback.print_exc(limit=4)
        print(cls.__name__, "ERR", repr(e)[:200])
