import sys, time, traceback
exec(open('/verif/design_probes/sym_probe3c.py').read().split('a, b, c = param')[0])
a, b, c = param('a'), param('b'), param('c')
from pennylane.devices.qubit import simulate, get_final_state, measure_final_state
import importlib; simmod = importlib.import_module("pennylane.devices.qubit.simulate")
from pennylane.devices.qubit.apply_operation import apply_operation
from pennylane.devices.qubit.initialize_state import create_initial_state

# stub: astype on object arrays is identity
import autoray as ar
import pennylane.math as pm, pennylane.math.utils as pmu
_orig_cast = pmu.cast
def _cast(x, dtype):
    if isinstance(x, np.ndarray) and x.dtype == object: return x
    if isinstance(x, S): return x
    return _orig_cast(x, dtype)
pmu.cast = _cast; pm.cast = _cast
_orig_cis = simmod.create_initial_state
def _cis(*a_, **k):
    return np.asarray(_orig_cis(*a_, **k)).astype(object)
simmod.create_initial_state = _cis

def t1():
    ops_ = [qp.Hadamard(0), qp.RX(a, 0), qp.CNOT([0,1]), qp.RY(b, 1), qp.IsingXX(c, [0,1]), qp.T(1), qp.PhaseShift(a, 1), qp.Rot(a,b,c,0), qp.CRZ(b,[1,0]), qp.Toffoli([0,1,2]), qp.SWAP([0,2])]
    tape = qp.tape.QuantumScript(ops_, [qp.expval(qp.Z(0)), qp.probs(wires=[0,1]), qp.state(), qp.expval(qp.X(0)@qp.Y(1)), qp.var(qp.Z(1)), qp.expval(0.5*qp.X(0)+qp.Z(1))])
    st, is_batched = get_final_state(tape)
    print("  state dtype", st.dtype, st.shape)
    res = measure_final_state(tape, st, is_batched)
    print("  res types", [type(r) for r in res], [getattr(r,'dtype',None) for r in res])
    U = mat_of_ops(ops_, [0,1,2])
    psi = np.asarray(U, dtype=object)[:,0]
    check_eq(np.asarray(res[2]).reshape(-1), psi, "state == matrix-route state")
    Z0 = qp.matrix(qp.Z(0), wire_order=[0,1,2])
    ev = np.conj(psi) @ Z0 @ psi
    check_eq(np.array([res[0]]), np.array([ev]), "expval Z0")
trial("simulate", t1)
