import sys, time, traceback
exec(open('/verif/design_probes/sym_probe3c.py').read().split('a, b, c = param')[0])
a, b, c = param('a'), param('b'), param('c')
def t_xy():
    op = qp.IsingXY(a, wires=[0,1]); check_eq(op.matrix(), mat_of_ops(op.decomposition(),[0,1]), "IsingXY == decomp")
trial("IsingXY", t_xy)
def t_mut():
    op = qp.CRot(a,b,c,wires=[0,1]); dec = op.decomposition()
    dec[3] = qp.RY(dec[3].data[0]*(-1), wires=dec[3].wires)   # planted mutant: flip one angle
    check_eq(op.matrix(), mat_of_ops(dec,[0,1]), "CRot vs MUTATED decomp (expect sat)")
trial("mutant", t_mut)
def t_u3():
    M = qp.U3.compute_matrix(a,b,c); U=np.asarray(M,dtype=object); check_eq(np.conj(U).T@U, np.eye(2), "U3 unitary")
    ref = qp.PhaseShift.compute_matrix(b) @ qp.RY.compute_matrix(a) @ qp.PhaseShift.compute_matrix(c)  # U3 = PS(phi) RY? check known identity variant
trial("U3", t_u3)
def t_fsim():
    op = qp.ctrl(qp.Rot(a,b,c,2), control=[0,1], control_values=[1,0])
    M = op.matrix(); U=np.asarray(M,dtype=object); check_eq(np.conj(U).T@U, np.eye(8), "ctrl2 Rot unitary (8x8)")
trial("ctrlRot", t_fsim)
def t_comp():
    A = qp.IsingXX(a,[0,1]).matrix(); B = qp.IsingXX(b,[0,1]).matrix(); C = qp.IsingXX(a+b,[0,1]).matrix()
    check_eq(A@B, C, "IsingXX composable")
    A = qp.matrix(qp.RX(a,0), wire_order=[0,1]); B = qp.IsingXX(b,[0,1]).matrix()
    check_eq(A@B, B@A, "[RX(a)_0, IsingXX(b)] = 0")
    B = qp.IsingZZ(b,[0,1]).matrix()
    check_eq(A@B, B@A, "[RX(a)_0, IsingZZ(b)] = 0 (expect sat)")
trial("comp", t_comp)
