from typing import List, Union
from pennylane.wires import Wires
from pennylane.exceptions import WireError

def union_sem(a: List[int], b: List[int]) -> bool:
    """
    pre: len(a) <= 3 and len(b) <= 3
    pre: len(set(a)) == len(a) and len(set(b)) == len(b)
    post: _
    """
    w = Wires(a) | Wires(b)
    return set(w.labels) == set(a) | set(b) and len(w) == len(set(a)|set(b)) and list(w.labels)[:len(a)] == a

def dup_rejected(a: List[int]) -> bool:
    """
    pre: len(a) <= 4
    post: _
    """
    try:
        Wires(a)
        return len(set(a)) == len(a)
    except WireError:
        return len(set(a)) != len(a)

def index_sem(a: List[int], i: int) -> bool:
    """
    pre: 0 <= i < len(a) <= 4
    pre: len(set(a)) == len(a)
    post: _
    """
    w = Wires(a)
    return w.index(a[i]) == i and w.indices([a[i]]) == [i]

def bogus(a: List[int], b: List[int]) -> bool:
    """
    pre: len(a) <= 3 and len(b) <= 3
    pre: len(set(a)) == len(a) and len(set(b)) == len(b)
    post: _
    """
    w = Wires(a) - Wires(b)
    return len(w) != 2 or w[0] < w[1]
