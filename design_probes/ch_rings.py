from pennylane.ops.op_math.decompositions.rings import ZSqrtTwo, ZOmega

def mul_comm(a:int,b:int,c:int,d:int) -> bool:
    """
    post: _
    """
    x=ZSqrtTwo(a,b); y=ZSqrtTwo(c,d)
    return (x*y)==(y*x)

def norm_mult(a:int,b:int,c:int,d:int) -> bool:
    """
    post: _
    """
    x=ZSqrtTwo(a,b); y=ZSqrtTwo(c,d)
    return abs(x*y)==abs(x)*abs(y)

def zo_assoc(a:int,b:int,c:int,d:int,e:int,f:int,g:int,h:int,i:int,j:int,k:int,l:int) -> bool:
    """
    post: _
    """
    x=ZOmega(a,b,c,d); y=ZOmega(e,f,g,h); z=ZOmega(i,j,k,l)
    return ((x*y)*z)==(x*(y*z))

def zo_norm_mult(a:int,b:int,c:int,d:int,e:int,f:int,g:int,h:int) -> bool:
    """
    post: _
    """
    x=ZOmega(a,b,c,d); y=ZOmega(e,f,g,h)
    return abs(x*y)==abs(x)*abs(y)

def bogus(a:int,b:int) -> bool:
    """
    post: _
    """
    x=ZSqrtTwo(a,b)
    return not (abs(x) == 17)
