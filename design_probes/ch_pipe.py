import pennylane as qp
from pennylane.core.transforms.compile_pipeline import CompilePipeline
from pennylane.core.transforms.transform import BoundTransform
T = [qp.transforms.cancel_inverses, qp.transforms.merge_rotations, qp.transforms.commute_controlled, qp.transforms.undo_swaps, qp.transforms.remove_barrier]
def names(p): return [bt.tape_transform.__name__ if hasattr(bt,'tape_transform') else str(bt) for bt in p]

def insert_pop(n:int, i:int, j:int) -> bool:
    """
    pre: 0 <= n <= 4 and -5 <= i <= 5 and -5 <= j <= 5
    post: _
    """
    p = CompilePipeline(*T[:n])
    model = [t for t in T[:n]]
    p.insert(i, T[4]); model.insert(i, T[4])
    ok1 = [bt.tape_transform for bt in p] == [m.tape_transform for m in model]
    try:
        x = p.pop(j)
        y = model.pop(j)
    except IndexError:
        try:
            model2 = list(model); model2.pop(j); return False
        except IndexError:
            return ok1
    return ok1 and x.tape_transform == y.tape_transform and [bt.tape_transform for bt in p] == [m.tape_transform for m in model]

def marker_insert(n:int, lvl:int, i:int) -> bool:
    """
    pre: 1 <= n <= 4 and 0 <= lvl <= n and 0 <= i <= n
    post: _
    """
    p = CompilePipeline(*T[:n]); p.add_marker("m", lvl)
    # reference: marker sits before element lvl (or at end)
    ref_before = T[lvl].tape_transform if lvl < n else None
    p.insert(i, T[4])
    new = p.get_marker_level("m")
    got_before = p[new].tape_transform if new < len(p) else None
    # element insertion at i<=lvl pushes marker; marker must still sit before the same element
    exp_before = ref_before if not (i == lvl) else None
    return (i == lvl) or got_before == ref_before
