import pennylane as qp, numpy as np, warnings, itertools, random
warnings.filterwarnings("ignore")
rng=np.random.default_rng(77); random.seed(77)
print("== C71 snapshots")
bad=[]
for t in range(80):
    nw=int(rng.integers(1,4)); ops=[]; marks=[]
    for i in range(int(rng.integers(2,8))):
        w=[int(v) for v in rng.permutation(nw)]
        g=[lambda: qp.RX(float(rng.uniform(-3,3)),w[0]), lambda: qp.Hadamard(w[0]), lambda: qp.CNOT(w[:2]) if nw>1 else qp.T(w[0]), lambda: qp.RY(float(rng.uniform(-3,3)),w[0])][int(rng.integers(0,4))]()
        ops.append(g)
        if rng.random()<0.4:
            kind=int(rng.integers(0,3)); tag=f"s{len(marks)}" if rng.random()<0.6 else None
            if kind==0: ops.append(qp.Snapshot(tag)); marks.append((tag,len(ops)-1,'state'))
            elif kind==1: ops.append(qp.Snapshot(tag, measurement=qp.expval(qp.Z(0)))); marks.append((tag,len(ops)-1,'expZ'))
            else: ops.append(qp.Snapshot(tag, measurement=qp.probs(wires=[0]))); marks.append((tag,len(ops)-1,'probs'))
    dev=qp.device('default.qubit', wires=nw)
    def circ():
        for o in ops: qp.apply(o)
        return qp.expval(qp.X(0)), qp.probs(wires=list(range(nw)))
    qn=qp.QNode(circ, dev)
    try: snaps=qp.snapshots(qn)()
    except Exception as e: bad.append(('raise',repr(e)[:120])); continue
    plain=[o for o in ops if not isinstance(o, qp.Snapshot)]
    ref=qp.execute([qp.tape.QuantumScript(plain,[qp.expval(qp.X(0)), qp.probs(wires=list(range(nw)))])], dev)[0]
    ex=snaps['execution_results']
    if not (np.allclose(ex[0],ref[0]) and np.allclose(ex[1],ref[1])): bad.append(('final changed',))
    auto=0
    for tag,pos,kind in marks:
        key=tag if tag is not None else auto
        if tag is None: auto+=1
        pre=[o for o in ops[:pos] if not isinstance(o, qp.Snapshot)]
        m={'state':qp.state(),'expZ':qp.expval(qp.Z(0)),'probs':qp.probs(wires=[0])}[kind]
        r=qp.execute([qp.tape.QuantumScript(pre+[qp.Identity(w) for w in range(nw)],[m])], dev)[0]
        if key not in snaps: bad.append(('missing key',key,list(snaps))); continue
        if not np.allclose(snaps[key], r): bad.append(('snapshot wrong',kind))
print("  bad",len(bad), bad[:3])
print("== C46 Resources arithmetic")
from pennylane.resource import Resources
from pennylane.resource.resource import add_in_series, add_in_parallel, mul_in_series, mul_in_parallel
bad=[]
def rr():
    gt={k:int(rng.integers(1,5)) for k in random.sample(['RX','CNOT','H','T'], random.randint(0,3))}
    gs={}
    for k,v in gt.items(): 
        s_=1 if k!='CNOT' else 2; gs[s_]=gs.get(s_,0)+v
    return Resources(num_wires=int(rng.integers(1,5)), num_gates=sum(gt.values()), gate_types=gt, gate_sizes=gs, depth=int(rng.integers(0,6)))
for t in range(500):
    a,b=rr(),rr(); k=int(rng.integers(0,4))
    s=add_in_series(a,b); p=add_in_parallel(a,b); ms=mul_in_series(a,k); mp=mul_in_parallel(a,k)
    def gt(x): return dict(x.gate_types)
    merge=lambda x,y:{k_:x.get(k_,0)+y.get(k_,0) for k_ in set(x)|set(y)}
    if gt(s)!=merge(gt(a),gt(b)) or s.num_gates!=a.num_gates+b.num_gates or s.depth!=a.depth+b.depth or s.num_wires!=max(a.num_wires,b.num_wires): bad.append(('series',a,b,s))
    if gt(p)!=merge(gt(a),gt(b)) or p.num_gates!=a.num_gates+b.num_gates or p.depth!=max(a.depth,b.depth) or p.num_wires!=a.num_wires+b.num_wires: bad.append(('parallel',a,b,p))
    if {k_:v for k_,v in gt(ms).items() if v}!={k_:v*k for k_,v in gt(a).items() if v*k} or ms.num_gates!=k*a.num_gates or ms.depth!=k*a.depth or ms.num_wires!=a.num_wires: bad.append(('mul series',a,k,ms))
    if {k_:v for k_,v in gt(mp).items() if v}!={k_:v*k for k_,v in gt(a).items() if v*k} or mp.num_gates!=k*a.num_gates or mp.depth!=a.depth or mp.num_wires!=k*a.num_wires: bad.append(('mul parallel',a,k,mp))
from collections import Counter
print("  bad",len(bad),Counter(b[0] for b in bad)); print([str(b)[:300] for b in bad[:2]])
print("== C68 kernels")
from pennylane import kernels
bad=[]
for t in range(50):
    n=int(rng.integers(2,5)); X=rng.normal(size=(n,2)); Y=rng.normal(size=(int(rng.integers(1,4)),2))
    k=lambda a,b: float(np.exp(-np.sum((a-b)**2))+0.1*np.dot(a,b)*np.dot(b,a))
    K=kernels.square_kernel_matrix(X,k,assume_normalized_kernel=False); Kr=np.array([[k(a,b) for b in X] for a in X])
    if not np.allclose(K,Kr): bad.append(('square',))
    K2=kernels.kernel_matrix(X,Y,k); 
    if not np.allclose(K2,np.array([[k(a,b) for b in Y] for a in X])): bad.append(('rect',))
    kn=lambda a,b: float(np.exp(-np.sum((a-b)**2)))
    Kn=kernels.square_kernel_matrix(X,kn,assume_normalized_kernel=True)
    if not np.allclose(Kn,np.array([[kn(a,b) for b in X] for a in X])): bad.append(('square normalized',))
    y=rng.choice([-1,1],size=n)
    ta=kernels.target_alignment(X,y,kn,assume_normalized_kernel=True); T=np.outer(y,y); Km=np.array([[kn(a,b) for b in X] for a in X])
    if abs(ta-np.sum(Km*T)/(np.linalg.norm(Km)*np.linalg.norm(T)))>1e-9: bad.append(('alignment',))
    pol=kernels.polarity(X,y,kn,assume_normalized_kernel=True)
    if abs(pol-np.sum(Km*T))>1e-9: bad.append(('polarity',pol,np.sum(Km*T)))
    A=rng.normal(size=(n,n)); A=A+A.T
    for f in (kernels.threshold_matrix, kernels.displace_matrix, kernels.flip_matrix, kernels.closest_psd_matrix):
        try:
            B=f(A); ev=np.linalg.eigvalsh((B+B.T)/2)
            if ev.min()< -1e-7: bad.append((f.__name__,'not psd',ev.min()))
        except Exception as e: bad.append((f.__name__,'raise',repr(e)[:80]))
print("  bad",len(bad),Counter(b[0] for b in bad)); print([str(b)[:200] for b in bad[:3]])
