import pennylane as qp, numpy as np, warnings
warnings.filterwarnings("ignore")
rng=np.random.default_rng(21)
def ang(): return float(rng.uniform(-3,3))
def gate(W):
    w=[W[int(i)] for i in rng.permutation(len(W))]
    G=[lambda: qp.RX(ang(),w[0]), lambda: qp.RY(ang(),w[0]), lambda: qp.RZ(ang(),w[0]), lambda: qp.Hadamard(w[0]), lambda: qp.S(w[0]), lambda: qp.T(w[0]), lambda: qp.Rot(ang(),ang(),ang(),w[0]), lambda: qp.PhaseShift(ang(), w[0]), lambda: qp.X(w[0]), lambda: qp.SX(w[0])]
    if len(W)>=2: G+=[lambda: qp.CNOT(w[:2]), lambda: qp.CZ(w[:2]), lambda: qp.SWAP(w[:2]), lambda: qp.CRY(ang(),w[:2]), lambda: qp.IsingXX(ang(),w[:2]), lambda: qp.IsingZZ(ang(),w[:2]), lambda: qp.ISWAP(w[:2]), lambda: qp.ControlledPhaseShift(ang(), w[:2])]
    if len(W)>=3: G+=[lambda: qp.Toffoli(w[:3]), lambda: qp.CSWAP(w[:3]), lambda: qp.MultiRZ(ang(), w[:3])]
    return G[int(rng.integers(0,len(G)))]()
def flat(r): return np.concatenate([np.atleast_1d(np.asarray(x)).ravel() for x in (r if isinstance(r,(tuple,list)) else [r])])
stats={}; ex={}
for t in range(120):
    nw=int(rng.integers(1,4)); W=[['a',0,'b'],[0,1,2],[2,0,1]][int(rng.integers(0,3))][:nw]
    ops=[gate(W) for _ in range(int(rng.integers(1,8)))]
    ms=[qp.expval(qp.Z(W[0])), qp.probs(wires=W[:max(1,nw-1)]), qp.var(qp.X(W[-1])), qp.expval(qp.Hermitian(np.array([[1,.3],[.3,-2]]), W[0])), qp.expval(0.3*qp.X(W[0])+0.2*qp.Z(W[-1])), qp.purity(wires=W[:1])]
    tape=qp.tape.QuantumScript(ops, ms)
    ref=flat(qp.execute([tape], qp.device('default.qubit', wires=W))[0])
    for name in ('default.mixed','reference.qubit','default.tensor','null.qubit'):
        st=stats.setdefault(name,[0,0,0])
        try:
            if name=='default.tensor':
                dev=qp.device(name, wires=W, method='mps', max_bond_dim=64)
                t2=qp.tape.QuantumScript(ops, [m for m in ms if m.__class__.__name__ in ('ExpectationMP','VarianceMP')])
                r=flat(qp.execute([t2], dev)[0]); rr=np.concatenate([ref[0:1], ref[2**max(1,nw-1)+1:2**max(1,nw-1)+4]])
            elif name=='reference.qubit':
                dev=qp.device(name); t2=qp.tape.QuantumScript(ops, ms[:5]); r=flat(qp.execute([t2], dev)[0]); rr=ref[:-1]
            else:
                dev=qp.device(name, wires=W); r=flat(qp.execute([tape], dev)[0]); rr=ref
        except Exception as e:
            st[2]+=1; ex.setdefault((name,'raise'),(repr(e)[:150],)); continue
        st[0]+=1
        if name=='null.qubit':
            if r.shape!=rr.shape: st[1]+=1; ex.setdefault((name,'shape'),(r.shape,rr.shape))
        elif r.shape!=rr.shape or not np.allclose(r,rr,atol=1e-7): st[1]+=1; ex.setdefault((name,'wrong'),([str(o) for o in ops], np.round(rr,4).tolist(), np.round(r,4).tolist()))
print(stats)
for k,v in ex.items(): print(k,str(v)[:500])
