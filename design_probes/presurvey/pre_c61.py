import pennylane as qp, numpy as np, warnings
warnings.filterwarnings("ignore")
from pennylane import numpy as pnp
rng=np.random.default_rng(3); bad=[]
def cost(x,y): return pnp.sum(pnp.sin(x)*x) + pnp.sum(y**2*pnp.cos(x[0])) 
def grad(x,y):
    gx=np.sin(x)+x*np.cos(x); gx=gx.copy(); gx[0]+= -np.sum(y**2)*np.sin(x[0]); gy=2*y*np.cos(x[0]); return gx,gy
for trial in range(40):
    x0=rng.normal(size=3); y0=rng.normal(size=2); lr=float(rng.uniform(0.01,0.3))
    hp=dict(m=float(rng.uniform(0.5,0.95)), b1=float(rng.uniform(0.5,0.95)), b2=float(rng.uniform(0.9,0.999)), eps=1e-8, decay=float(rng.uniform(0.5,0.95)))
    opts={
     'gd': (qp.GradientDescentOptimizer(lr), 'gd'),
     'mom': (qp.MomentumOptimizer(lr, momentum=hp['m']), 'mom'),
     'nest': (qp.NesterovMomentumOptimizer(lr, momentum=hp['m']), 'nest'),
     'adagrad': (qp.AdagradOptimizer(lr, eps=hp['eps']), 'adagrad'),
     'rms': (qp.RMSPropOptimizer(lr, decay=hp['decay'], eps=hp['eps']), 'rms'),
     'adam': (qp.AdamOptimizer(lr, beta1=hp['b1'], beta2=hp['b2'], eps=hp['eps']), 'adam'),
    }
    for name,(opt,k) in opts.items():
        x=pnp.array(x0,requires_grad=True); y=pnp.array(y0,requires_grad=True)
        rx,ry=x0.copy(),y0.copy(); st={}
        for step in range(4):
            if step%2==0: (x,y),c=opt.step_and_cost(cost,x,y); 
            else: x,y=opt.step(cost,x,y); c=None
            # reference
            cref=float(cost(pnp.array(rx),pnp.array(ry)))
            if k=='nest':
                ax=st.get('ax',0*rx); ay=st.get('ay',0*ry)
                gx,gy=grad(rx-hp['m']*ax, ry-hp['m']*ay)
                ax=hp['m']*ax+lr*gx; ay=hp['m']*ay+lr*gy; st['ax'],st['ay']=ax,ay; rx,ry=rx-ax,ry-ay
            else:
                gx,gy=grad(rx,ry)
                new=[]
                for nm,p,g in (('x',rx,gx),('y',ry,gy)):
                    if k=='gd': p=p-lr*g
                    elif k=='mom': a=hp['m']*st.get('a'+nm,0*p)+lr*g; st['a'+nm]=a; p=p-a
                    elif k=='adagrad': a=st.get('a'+nm,0*p)+g*g; st['a'+nm]=a; p=p-lr*g/(np.sqrt(a)+hp['eps']) if False else p-lr*g/np.sqrt(a+hp['eps'])
                    elif k=='rms': a=hp['decay']*st.get('a'+nm,0*p)+(1-hp['decay'])*g*g; st['a'+nm]=a; p=p-lr*g/np.sqrt(a+hp['eps'])
                    elif k=='adam':
                        t_=step+1; fm=hp['b1']*st.get('fm'+nm,0*p)+(1-hp['b1'])*g; sm=hp['b2']*st.get('sm'+nm,0*p)+(1-hp['b2'])*g*g; st['fm'+nm],st['sm'+nm]=fm,sm
                        lr_t=lr*np.sqrt(1-hp['b2']**t_)/(1-hp['b1']**t_); p=p-lr_t*fm/(np.sqrt(sm)+hp['eps'])
                    new.append(p)
                rx,ry=new
            if c is not None and abs(float(c)-cref)>1e-9: bad.append((name,'cost',step))
            if not (np.allclose(x,rx,atol=1e-9) and np.allclose(y,ry,atol=1e-9)): bad.append((name,'update',step, np.abs(np.asarray(x)-rx).max())); break
from collections import Counter
print("bad",len(bad),Counter(b[:2] for b in bad)); print(bad[:5])
