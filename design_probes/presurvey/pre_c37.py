import pennylane as qp, numpy as np, warnings
warnings.filterwarnings("ignore")
from pennylane import numpy as pnp
rng=np.random.default_rng(9); bad=[]
def mkcirc(struct):
    def f(x):
        for k,w,pi in struct:
            a=x[pi[0]]*2+x[pi[1]] if k=='sh' else (x[pi[0]] if pi else None)
            if k=='RX': qp.RX(a,w[0])
            elif k=='RY': qp.RY(a,w[0])
            elif k=='RZ': qp.RZ(a,w[0])
            elif k=='CRX': qp.CRX(a,w[:2])
            elif k=='XX': qp.IsingXX(a,w[:2])
            elif k=='H': qp.Hadamard(w[0])
            elif k=='CNOT': qp.CNOT(w[:2])
            elif k=='sh': qp.RY(a,w[0])
            elif k=='SE': qp.SingleExcitation(a,w[:2])
    return f
for t in range(25):
    nw=int(rng.integers(2,4)); P=int(rng.integers(1,4))
    struct=[]
    for _ in range(int(rng.integers(2,6))):
        k=['RX','RY','RZ','CRX','XX','H','CNOT','sh','SE'][int(rng.integers(0,9))]
        w=[int(v) for v in rng.permutation(nw)]
        pi=[int(rng.integers(0,P)), int(rng.integers(0,P))] if k not in ('H','CNOT') else []
        struct.append((k,w,pi))
    f=mkcirc(struct); x0=rng.uniform(-2,2,size=P)
    dev=qp.device('default.qubit', wires=nw)
    @qp.qnode(dev, diff_method='backprop', max_diff=2)
    def cb(x): f(x); return qp.expval(qp.Z(0)@qp.X(1))
    @qp.qnode(dev, diff_method='parameter-shift', max_diff=2)
    def cp(x): f(x); return qp.expval(qp.Z(0)@qp.X(1))
    try:
        Hb=np.asarray(qp.jacobian(qp.grad(cb))(pnp.array(x0,requires_grad=True)))
        Hp=np.asarray(qp.jacobian(qp.grad(cp))(pnp.array(x0,requires_grad=True)))
        if not np.allclose(Hb,Hp,atol=1e-6): bad.append(('ps nested',struct))
        # param_shift_hessian on tape (gate params, not classical preprocessing): use qnode transform
        Hh=np.asarray(qp.gradients.param_shift_hessian(cp)(pnp.array(x0,requires_grad=True)))
        if Hh.shape!=Hb.shape or not np.allclose(Hh,Hb,atol=1e-6): bad.append(('hessian transform',struct, np.round(Hb,4).tolist(), np.round(Hh,4).tolist()))
        # metric tensor vs numerical Fubini-Study
        @qp.qnode(dev)
        def cs(x): f(x); return qp.state()
        def psi(x): return np.asarray(cs(pnp.array(x,requires_grad=False)))
        h=1e-5; p0=psi(x0); d=[(psi(x0+h*np.eye(P)[i])-psi(x0-h*np.eye(P)[i]))/(2*h) for i in range(P)]
        G=np.array([[np.real(np.vdot(d[i],d[j])-np.vdot(d[i],p0)*np.vdot(p0,d[j])) for j in range(P)] for i in range(P)])
        @qp.qnode(dev)
        def ce(x): f(x); return qp.expval(qp.Z(0))
        mt=np.asarray(qp.metric_tensor(ce, approx=None, aux_wire=None if False else None)(pnp.array(x0,requires_grad=True))) if False else None
        amt=np.asarray(qp.adjoint_metric_tensor(ce)(pnp.array(x0,requires_grad=True)))
        if amt.shape!=G.shape or not np.allclose(amt,G,atol=1e-5): bad.append(('adjoint_metric_tensor',struct,np.round(G,4).tolist(),np.round(amt,4).tolist()))
        dev2=qp.device('default.qubit', wires=nw+1)
        @qp.qnode(dev2)
        def ce2(x): f(x); return qp.expval(qp.Z(0))
        mt=np.asarray(qp.metric_tensor(ce2, approx=None, aux_wire=nw)(pnp.array(x0,requires_grad=True)))
        if mt.shape!=G.shape or not np.allclose(mt,G,atol=1e-5): bad.append(('metric_tensor full',struct,np.round(G,4).tolist(),np.round(mt,4).tolist()))
        qf=np.asarray(qp.gradients.quantum_fisher(ce2)(pnp.array(x0,requires_grad=True)))
        if not np.allclose(qf,4*G,atol=1e-4): bad.append(('quantum_fisher',struct))
    except Exception as e:
        bad.append(('raise',repr(e)[:200],struct))
from collections import Counter
print("bad",len(bad),Counter(b[0] for b in bad)); print([str(b)[:700] for b in bad[:4]])
