import pennylane as qp, numpy as np, warnings, random, copy
warnings.filterwarnings("ignore")
from pennylane.core.transforms.compile_pipeline import CompilePipeline
random.seed(5)
def make_t(k, wts, tag):
    @qp.transform
    def t(tape):
        outs=[qp.tape.QuantumScript(tape.operations+[qp.RX(0.01*tag+0.001*i, 0)], tape.measurements) for i in range(k)]
        def pp(res):
            assert len(res)==k, (len(res), k)
            return sum(w*r for w,r in zip(wts,res)) + tag
        return outs, pp
    t.__name__=f"t{tag}"
    return t
def ident(tape): 
    return float(sum(float(o.data[0]) if o.num_params else 0.5 for o in tape.operations))  # fake "execution" value
bad=[]
for trial in range(2000):
    nT=random.randint(1,4); ts=[]
    for j in range(nT):
        k=random.choice([0,1,1,2,3]); ts.append((k,[random.randint(1,5) for _ in range(k)], j+1))
    transforms=[make_t(*x) for x in ts]
    pipe=CompilePipeline(*transforms)
    batch=[qp.tape.QuantumScript([qp.RY(0.1*(b+1),0)]*random.randint(1,2),[qp.expval(qp.Z(0))]) for b in range(random.randint(1,3))]
    try:
        tapes, fn = pipe(batch)
        res = fn(tuple(ident(t) for t in tapes))
    except Exception as e:
        bad.append(('raise', repr(e)[:120], ts)); continue
    # manual
    def manual(tape, idx=0):
        if idx==nT: return ident(tape)
        outs, pp = transforms[idx](tape)
        return pp(tuple(manual(o, idx+1) for o in outs))
    exp=[manual(b) for b in batch]
    if len(res)!=len(exp) or not np.allclose(res, exp): bad.append(('wrong', ts, res, exp))
print("routing bad", len(bad)); print([str(b)[:300] for b in bad[:3]])
# list API vs model with markers
T=[qp.transforms.cancel_inverses, qp.transforms.merge_rotations, qp.transforms.commute_controlled, qp.transforms.undo_swaps, qp.transforms.remove_barrier, qp.transforms.combine_global_phases]
bad2=[]
for trial in range(5000):
    n=random.randint(0,4); p=CompilePipeline(*T[:n]); model=list(T[:n]); marks={}
    for step in range(random.randint(1,6)):
        op=random.choice(['insert','pop','append','add_marker','slice','mul','add'])
        try:
            if op=='insert':
                i=random.randint(0,len(model)); x=random.choice(T); p.insert(i,x); model.insert(i,x); marks={k:(v+1 if v>=i else v) for k,v in marks.items()}
            elif op=='pop' and model:
                i=random.randint(0,len(model)-1); a=p.pop(i); b=model.pop(i); marks={k:(v-1 if v>i else v) for k,v in marks.items()}
                if a.tape_transform!=b.tape_transform: bad2.append(('pop value',))
            elif op=='append':
                x=random.choice(T); p.append(x); model.append(x)
            elif op=='add_marker':
                lab=f"m{len(marks)}_{trial}_{step}"; lvl=random.randint(0,len(model)); p.add_marker(lab,lvl); marks[lab]=lvl
            elif op=='slice' and model:
                i=random.randint(0,len(model)); j=random.randint(i,len(model)); q=p[i:j]
                if [b.tape_transform for b in q]!=[m.tape_transform for m in model[i:j]]: bad2.append(('slice',))
            elif op=='mul':
                k=random.randint(0,2); q=p*k
                if [b.tape_transform for b in q]!=[m.tape_transform for m in model*k]: bad2.append(('mul',))
            elif op=='add':
                q=p+CompilePipeline(*T[:2])
                if [b.tape_transform for b in q]!=[m.tape_transform for m in model+T[:2]]: bad2.append(('add',))
        except Exception as e:
            bad2.append(('raise',op,repr(e)[:80])); break
        if [b.tape_transform for b in p]!=[m.tape_transform for m in model]: bad2.append(('content',op)); break
        got={k:p.get_marker_level(k) for k in marks}
        if got!=marks: bad2.append(('markers',op,got,marks)); break
from collections import Counter
print("list api bad", len(bad2), Counter(b[:2] for b in bad2)); print([str(b)[:200] for b in bad2[:4]])
