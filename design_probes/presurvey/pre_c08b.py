import pennylane as qp, numpy as np, warnings, itertools
warnings.filterwarnings("ignore")
cases = [
 (qp.SWAP([0,1]), qp.CSWAP([2,0,3])),
 (qp.CSWAP([0,1,2]), qp.CSWAP([0,1,3])),
 (qp.ctrl(qp.SWAP([0,1]), control=2), qp.ctrl(qp.SWAP([1,3]), control=2)),
 (qp.ctrl(qp.ISWAP([0,1]), control=2), qp.SWAP([1,3])),
 (qp.Permute([1,2,0],[0,1,2]), qp.SWAP([0,1])),
 (qp.Permute([1,2,0],[0,1,2]), qp.CSWAP([3,0,1])),
 (qp.SWAP([0,1]), qp.SWAP([1,2])),
 (qp.BasisState(np.array([1]), wires=[0]), qp.ctrl(qp.RX(0.3,0), control=1)),
 (qp.ctrl(qp.Hadamard(0), control=1), qp.ctrl(qp.Hadamard(0), control=2)),
 (qp.ctrl(qp.SX(0), control=1), qp.CRX(0.4, [2,0])),
 (qp.ctrl(qp.T(0), control=1), qp.ctrl(qp.MultiRZ(0.3,[0,2]), control=3)),
]
for a,b in cases:
    try:
        v = qp.is_commuting(a,b)
        wo = sorted(set(a.wires)|set(b.wires))
        A,B = qp.matrix(a,wire_order=wo), qp.matrix(b,wire_order=wo)
        print(f"{str(a)[:40]:42s} {str(b)[:40]:42s} is_commuting={v} actually={np.allclose(A@B,B@A)}")
    except Exception as e:
        print(a, b, "ERR", repr(e)[:80])
