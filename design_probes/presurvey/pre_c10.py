import pennylane as qp, numpy as np, warnings, re, itertools
warnings.filterwarnings("ignore")
from pennylane.decomposition import decomposition_rule as dr
rng=np.random.default_rng(44)
reg = dr._decompositions_private
def base_inst(name):
    cls=getattr(qp,name,None) or getattr(qp.ops,name,None)
    if cls is None: return None
    special={'MultiRZ':dict(nw=3),'PauliRot':dict(nw=2,kw={'pauli_word':'XZ'}),'PCPhase':dict(nw=2,kw={'dim':3}),'GlobalPhase':dict(nw=0),'Identity':dict(nw=1),
             'MultiControlledX':dict(nw=4,kw={'control_values':[1,0,1]}),'DiagonalQubitUnitary':dict(nw=2,params=[np.exp(1j*rng.uniform(-3,3,4))]),
             'QubitUnitary':dict(nw=2,params=[qp.matrix(qp.CRot(0.3,0.4,0.5,[0,1])@qp.IsingXY(0.7,[0,1]))]),'Permute':None,'BasisState':dict(nw=3,params=[np.array([1,0,1])])}
    sp=special.get(name,{})
    if sp is None: return None
    nw=sp.get('nw', cls.num_wires if isinstance(getattr(cls,'num_wires',None),int) else None)
    npar=cls.num_params if isinstance(getattr(cls,'num_params',None),int) else None
    if nw is None or (npar is None and 'params' not in sp): return None
    params=sp.get('params', list(rng.uniform(-3,3,size=npar or 0)))
    try: return cls(*params, wires=list(range(nw)), **sp.get('kw',{}))
    except Exception as e: return None
def inst(name):
    m=re.fullmatch(r"(Adjoint|Pow|C)\((.+)\)", name)
    if not m: 
        return [base_inst(name)]
    kind,inner=m.groups(); b=base_inst(inner)
    if b is None: return [None]
    if kind=='Adjoint': return [qp.adjoint(b, lazy=True) if True else None]
    if kind=='Pow': return [qp.pow(b, z, lazy=True) for z in (2,3,-1,0.5,-2)]
    if kind=='C':
        nb=len(b.wires); outs=[]
        for nc,cv in ((1,[1]),(1,[0]),(2,[1,0]),(3,[1,1,0])):
            c=list(range(nb,nb+nc))
            for ww in ([], [nb+nc, nb+nc+1]):
                try: outs.append(qp.ops.op_math.Controlled(b, control_wires=c, control_values=cv, work_wires=ww) if False else qp.ctrl(b, control=c, control_values=cv, work_wires=ww))
                except Exception as e: pass
        return outs
stats=dict(rules=0, applied=0, ok=0, wrong=0, skipped_names=0, notappl=0, raised=0, mcm=0); ex=[]
for name in sorted(reg.keys(), key=str):
    ops=[o for o in inst(str(name)) if o is not None]
    if not ops: stats['skipped_names']+=1; continue
    for op in ops:
        try: rules=qp.list_decomps(op)
        except Exception as e: continue
        try: M=qp.matrix(op); wo=list(op.wires)
        except Exception as e: continue
        for rule in rules:
            stats['rules']+=1
            from pennylane.transforms.decompose import _get_decomp_args
            try:
                rp, args_, kwargs_ = _get_decomp_args(op)
                if not rule.is_applicable(**rp): stats['notappl']+=1; continue
            except Exception as e:
                stats['raised']+=1; ex.append(('args raise',str(name),str(rule).strip().splitlines()[-1][:70],repr(e)[:120])); continue
            try:
                with qp.queuing.AnnotatedQueue() as q:
                    rule(*args_, **kwargs_)
                emitted=list(q.queue)
            except Exception as e:
                stats['raised']+=1; ex.append(('raise',str(name),str(rule).strip().splitlines()[-1][:70],repr(e)[:120])); continue
            if any(o.name in ('Allocate','MidMeasureMP','PauliMeasure') or 'Conditional' in type(o).__name__ for o in emitted):
                # work wires: resolve and check on zero aux
                if any(o.name in ('MidMeasureMP','PauliMeasure') or 'Conditional' in type(o).__name__ for o in emitted): stats['mcm']+=1; continue
                t=qp.tape.QuantumScript(emitted)
                (t2,),_=qp.transforms.resolve_dynamic_wires(t, min_int=100)
                aux=[w for w in t2.wires if w not in wo]
                if len(wo)+len(aux)>9: continue
                U=qp.matrix(t2, wire_order=wo+aux); d=2**len(aux)
                blk=U.reshape(2**len(wo),d,2**len(wo),d)[:,:,:,0]  # input aux=0
                ok=np.allclose(blk[:,0,:],M,atol=1e-7) and np.allclose(blk[:,1:,:],0,atol=1e-7)
            else:
                try:
                    extra=[w for w in qp.tape.QuantumScript(emitted).wires if w not in wo]
                    U=qp.matrix(qp.tape.QuantumScript(emitted), wire_order=wo+extra)
                    if extra:
                        d=2**len(extra); blk=U.reshape(2**len(wo),d,2**len(wo),d)[:,:,:,0]; ok=np.allclose(blk[:,0,:],M,atol=1e-7) and np.allclose(blk[:,1:,:],0,atol=1e-7)
                    else: ok=np.allclose(U,M,atol=1e-7)
                except Exception as e:
                    stats['raised']+=1; ex.append(('matrix raise',str(name),repr(e)[:100])); continue
            stats['applied']+=1
            if ok: stats['ok']+=1
            else:
                stats['wrong']+=1; ph = (not extra if 'extra' in dir() else True) and U.shape==M.shape and np.allclose(abs(np.trace(M.conj().T@U)),len(M),atol=1e-6)
                ex.append(('WRONG' if not ph else 'phase-only', str(op)[:80], str(rule).strip().splitlines()[-1][:80]))
print(stats)
seen=set()
for e in ex:
    k=(e[0],e[2])
    if k in seen: continue
    seen.add(k); print("  ",e)
