import pennylane as qp, numpy as np, warnings, sys
warnings.filterwarnings("ignore")
from pennylane import numpy as pnp
rng = np.random.default_rng(31)
dev = qp.device('default.qubit')
def ang(): return float(rng.uniform(-3,3))
def circ(nw, params):
    ops=[]; it=iter(params)
    def nxt():
        try: return next(it)
        except StopIteration: return ang()
    for _ in range(int(rng.integers(2,7))):
        w=[int(x) for x in rng.permutation(nw)]
        k=int(rng.integers(0,12))
        ops.append([lambda: qp.RX(nxt(),w[0]), lambda: qp.RY(nxt(),w[0]), lambda: qp.RZ(nxt(),w[0]), lambda: qp.Hadamard(w[0]), lambda: qp.CNOT(w[:2]) if nw>1 else qp.X(w[0]),
                    lambda: qp.CRY(nxt(),w[:2]) if nw>1 else qp.RY(nxt(), w[0]), lambda: qp.IsingXY(nxt(),w[:2]) if nw>1 else qp.T(w[0]), lambda: qp.Rot(nxt(),nxt(),nxt(),w[0]),
                    lambda: qp.PhaseShift(nxt(), w[0]), lambda: qp.SingleExcitation(nxt(), w[:2]) if nw>1 else qp.S(w[0]), lambda: qp.U3(nxt(),nxt(),nxt(), w[0]), lambda: qp.CRot(nxt(),nxt(),nxt(), w[:2]) if nw > 1 else qp.RZ(nxt(), w[0])][k]())
    return ops
def run(tape): return qp.execute([tape], dev)[0]
def flat(r): return np.concatenate([np.atleast_1d(np.asarray(x, dtype=float)).ravel() for x in (r if isinstance(r,(tuple,list)) else [r])])
def fd(ops_builder, x, ms, h=1e-6):
    J=[]
    for i in range(len(x)):
        xp=x.copy(); xm=x.copy(); xp[i]+=h; xm[i]-=h
        J.append((flat(run(qp.tape.QuantumScript(ops_builder(xp), ms)))-flat(run(qp.tape.QuantumScript(ops_builder(xm), ms))))/(2*h))
    return np.array(J).T
methods = {'param_shift': qp.gradients.param_shift, 'hadamard': qp.gradients.hadamard_grad}
stats={k:[0,0,0] for k in list(methods)+['adjoint','hessian']}; ex={}
for trial in range(120):
    nw=int(rng.integers(1,4)); seed=int(rng.integers(0,10**6))
    # build structure deterministically given params
    def builder(x, seed=seed, nw=nw):
        global rng
        saved=rng; rng=np.random.default_rng(seed); ops=circ(nw, list(x)); rng=saved; return ops
    x0=np.array([ang() for _ in range(12)])
    ops=builder(x0)
    npar=sum(o.num_params for o in ops)
    if npar==0: continue
    x=x0[:npar].copy()
    ms_choices=[[qp.expval(qp.Z(0))], [qp.expval(qp.Z(0)), qp.probs(wires=[0])], [qp.var(qp.X(0))], [qp.expval(qp.Y(0)@qp.Z(nw-1)) if nw>1 else qp.expval(qp.Y(0))]]
    ms=ms_choices[int(rng.integers(0,len(ms_choices)))]
    tape=qp.tape.QuantumScript(builder(x), ms); tape.trainable_params=list(range(npar))
    Jref=fd(builder, x, ms)
    for name,g in methods.items():
        if name=='hadamard' and any(isinstance(m.mv if hasattr(m,'mv') else None, object) and m.__class__.__name__=='VarianceMP' for m in ms): 
            pass
        try:
            tapes, fn = g(tape); res = fn(qp.execute(tapes, dev))
            # res structure: per measurement tuple of per param
            if len(ms)==1: J=np.stack([np.atleast_1d(np.asarray(r_,dtype=float)).ravel() for r_ in (res if isinstance(res,tuple) and npar>1 else [res])],axis=-1) if npar>1 else np.atleast_1d(np.asarray(res,dtype=float)).ravel()[:,None]
            else:
                rows=[]
                for mres in res:
                    rows.append(np.stack([np.atleast_1d(np.asarray(r_,dtype=float)).ravel() for r_ in (mres if isinstance(mres,tuple) and npar>1 else [mres])],axis=-1))
                J=np.concatenate(rows,axis=0)
        except Exception as e:
            stats[name][2]+=1; ex.setdefault((name,'raise'), (repr(e)[:120], [str(o) for o in ops], [str(m) for m in ms])); continue
        stats[name][0]+=1
        if J.shape!=Jref.shape or not np.allclose(J,Jref,atol=1e-5):
            stats[name][1]+=1; ex.setdefault((name,'wrong'), ([str(o) for o in ops],[str(m) for m in ms], np.round(Jref,4).tolist(), np.round(J,4).tolist()))
    # adjoint via device (expval only)
    if all(m.__class__.__name__=='ExpectationMP' for m in ms):
        try:
            from pennylane.devices.qubit import adjoint_jacobian
            Ja=np.atleast_2d(np.asarray(adjoint_jacobian(tape), dtype=float))
            stats['adjoint'][0]+=1
            if Ja.shape!=Jref.shape or not np.allclose(Ja,Jref,atol=1e-5): stats['adjoint'][1]+=1; ex.setdefault(('adjoint','wrong'), ([str(o) for o in ops], Jref.tolist(), Ja.tolist()))
        except Exception as e:
            stats['adjoint'][2]+=1; ex.setdefault(('adjoint','raise'), (repr(e)[:100], [str(o) for o in ops]))
print(stats)
for k,v in ex.items(): print(k, str(v)[:700])
