import pennylane as qp, numpy as np, warnings
warnings.filterwarnings("ignore")
rng=np.random.default_rng(33)
def ang(): return float(rng.uniform(-3,3))
stats={'deferred_vs_tree':[0,0,0]}; ex={}
for t in range(150):
    nw=3; seed=int(rng.integers(0,1<<30))
    def body(seed=seed):
        r=np.random.default_rng(seed); ms=[]
        for step in range(int(r.integers(2,8))):
            k=int(r.integers(0,7)); w=[int(v) for v in r.permutation(nw)]
            if k==0: qp.RX(float(r.uniform(-3,3)),w[0])
            elif k==1: qp.Hadamard(w[0])
            elif k==2: qp.CNOT(w[:2])
            elif k==3 or not ms: ms.append(qp.measure(w[0], reset=bool(r.integers(0,2)), postselect=[None,None,None,0,1][int(r.integers(0,5))]))
            elif k==4: qp.cond(ms[int(r.integers(0,len(ms)))], qp.RY)(float(r.uniform(-3,3)), w[0])
            elif k==5 and len(ms)>=2: qp.cond(ms[0]+ms[-1]==1, qp.X)(w[0])
            elif k==6: qp.cond(~ms[-1] if hasattr(ms[-1],'__invert__') else ms[-1]==0, qp.RZ, qp.RX)(float(r.uniform(-3,3)), w[1])
        out=[qp.expval(qp.Z(0)), qp.probs(wires=[1,2])]
        if ms: out.append(qp.expval(ms[0])); out.append(qp.probs(op=ms[-1]))
        return tuple(out)
    res={}
    for method in ('deferred','tree-traversal'):
        dev=qp.device('default.qubit', wires=12)
        qn=qp.QNode(body, dev, mcm_method=method)
        try: res[method]=np.concatenate([np.atleast_1d(np.asarray(x,dtype=float)).ravel() for x in qn()])
        except Exception as e: res[method]=repr(e)[:150]
    a,b=res['deferred'],res['tree-traversal']
    if isinstance(a,str) or isinstance(b,str):
        stats['deferred_vs_tree'][2]+=1; ex.setdefault('raise',(a if isinstance(a,str) else 'ok', b if isinstance(b,str) else 'ok')); continue
    stats['deferred_vs_tree'][0]+=1
    if np.isnan(a).any() or np.isnan(b).any(): stats.setdefault("nan",[0])[0]+=1; continue
    if a.shape!=b.shape or not np.allclose(a,b,atol=1e-7): stats['deferred_vs_tree'][1]+=1; ex.setdefault(('wrong',t),(seed,np.round(a,4).tolist(),np.round(b,4).tolist()))
print(stats); 
for k,v in list(ex.items())[:5]: print(k,str(v)[:500])
