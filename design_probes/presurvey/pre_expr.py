import random, itertools
from pennylane.resource.expression import Expression
random.seed(3); bad=[]
V=['a','b','c']
def rexpr():
    d={}
    for _ in range(random.randint(0,4)):
        mon=tuple(sorted(random.choices(V,k=random.randint(0,2)))); d[mon]=d.get(mon,0)+random.randint(-4,4)
    d={k:v for k,v in d.items() if v}
    if not d: return random.randint(-3,3)
    try: return Expression(d)
    except Exception as e: return random.randint(-3,3)
def ev(e,env):
    if isinstance(e,int): return e
    r=e.subs(env) if hasattr(e,'subs') else e
    return int(r) if not isinstance(r,int) else r
for t in range(3000):
    x,y,z=rexpr(),rexpr(),rexpr(); env={v:random.randint(-5,5) for v in V}
    try:
        if ev(x+y,env)!=ev(x,env)+ev(y,env): bad.append(('add',x,y,env))
        if ev(x*y,env)!=ev(x,env)*ev(y,env): bad.append(('mul',x,y,env))
        if ev((x+y)*z,env)!=ev(x*z+y*z,env): bad.append(('dist',))
        if ev(x*3,env)!=3*ev(x,env) or ev(2+x,env)!=2+ev(x,env): bad.append(('scalar',x))
        if (x+y)!=(y+x) or (x*y)!=(y*x): bad.append(('comm eq',x,y))
        if hash(x+y)!=hash(y+x): bad.append(('hash',))
    except Exception as e: bad.append(('raise',repr(e)[:100],str(x),str(y)))
from collections import Counter
print("expr bad",len(bad),Counter(b[0] for b in bad)); print([str(b)[:300] for b in bad[:3]])
