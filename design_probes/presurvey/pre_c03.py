import pennylane as qp, numpy as np, warnings, itertools, scipy.linalg as sla
warnings.filterwarnings("ignore")
rng = np.random.default_rng(5)
import sys
if len(sys.argv)>1: exec(open('/verif/design_probes/presurvey/prodfix.py').read())
W = [0,1,2,'a']
def r(): return float(rng.choice([rng.uniform(-3,3), 0.0, np.pi, -np.pi, 2*np.pi, np.pi/2]))
def leaf():
    k = rng.integers(0, 12); w = list(rng.permutation(len(W))[:2]); w = [W[i] for i in w]
    return [lambda: qp.RX(r(), w[0]), lambda: qp.RY(r(), w[0]), lambda: qp.RZ(r(), w[0]), lambda: qp.X(w[0]), lambda: qp.Y(w[0]), lambda: qp.Z(w[0]),
            lambda: qp.Hadamard(w[0]), lambda: qp.S(w[0]), lambda: qp.T(w[0]), lambda: qp.CNOT(w), lambda: qp.IsingXX(r(), w), lambda: qp.CRot(r(), r(), r(), w), lambda: qp.PhaseShift(r(), w[0])][k]()
def expr(d):
    if d == 0 or rng.random() < 0.2: return leaf()
    k = rng.integers(0, 7)
    if k == 0: return qp.adjoint(expr(d-1))
    if k == 1: return qp.pow(expr(d-1), int(rng.integers(-2, 4)))
    if k == 2:
        b = expr(d-1); free = [w for w in W + ['c1','c2'] if w not in b.wires]
        nc = int(rng.integers(1, 3)); c = free[:nc]
        return qp.ctrl(b, control=c, control_values=[int(x) for x in rng.integers(0,2,size=nc)])
    if k == 3: return qp.prod(expr(d-1), expr(d-1))
    if k == 4: return qp.sum(expr(d-1), expr(d-1))
    if k == 5: return qp.s_prod(complex(rng.uniform(-2,2), rng.uniform(-2,2)), expr(d-1))
    return qp.prod(expr(d-1), leaf(), expr(d-1))
def ref(op, wo):
    from pennylane.ops.op_math import Adjoint, Pow, Controlled, Prod, Sum, SProd
    n = len(wo); I = np.eye(2**n)
    if isinstance(op, Adjoint): return ref(op.base, wo).conj().T
    if isinstance(op, Pow):
        B = ref(op.base, wo); z = op.z
        return np.linalg.matrix_power(B, int(z)) if z >= 0 else np.linalg.matrix_power(np.linalg.inv(B), int(-z))
    if isinstance(op, Controlled) and hasattr(op, 'base') and type(op).__name__ in ('Controlled','ControlledOp','ControlledOp2','Controlled2'):
        B = ref(op.base, wo); P = np.ones(1)
        proj = I.copy()
        # projector onto control pattern
        Pm = np.eye(1)
        for w in wo:
            if w in op.control_wires:
                v = op.control_values[list(op.control_wires).index(w)]
                Pm = np.kron(Pm, np.diag([0,1]) if v else np.diag([1,0]))
            else: Pm = np.kron(Pm, np.eye(2))
        return Pm @ B + (I - Pm)
    if isinstance(op, Prod):
        M = I
        for o in op.operands: M = M @ ref(o, wo)
        return M
    if isinstance(op, Sum): return sum(ref(o, wo) for o in op.operands)
    if isinstance(op, SProd): return op.scalar * ref(op.base, wo)
    return qp.matrix(op, wire_order=wo)
bad = []; n=0; errs = {}
for t in range(1500):
    try:
        e = expr(3)
    except Exception as ex:
        errs[repr(ex)[:70]] = errs.get(repr(ex)[:70],0)+1; continue
    wo = list(e.wires); 
    if len(wo) > 6: continue
    try:
        M = qp.matrix(e, wire_order=wo); R = ref(e, wo); n += 1
        if not np.allclose(M, R, atol=1e-7): bad.append(('matrix', e))
        s = qp.simplify(e)
        wos = wo
        Ms = qp.matrix(s, wire_order=wo) if set(s.wires) <= set(wo) else None
        if Ms is None or not np.allclose(Ms, M, atol=1e-7): bad.append(('simplify', e, s))
        mp = {w: f"m{i}" for i, w in enumerate(wo)}
        em = qp.map_wires(e, mp)
        if not np.allclose(qp.matrix(em, wire_order=[mp[w] for w in wo]), M, atol=1e-7): bad.append(('map_wires', e))
    except Exception as ex:
        errs[repr(ex)[:90]] = errs.get(repr(ex)[:90],0)+1
print("checked", n, "bad", len(bad)); print("errors:", errs)
for b in bad[:12]: print("  ", b[0], str(b[1])[:200], '=>', str(b[2])[:120] if len(b)>2 else '')
