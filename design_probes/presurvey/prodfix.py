import pennylane as qp
from functools import reduce
from pennylane import math
from pennylane.ops.op_math.prod import Prod
from pennylane.wires import Wires
def matrix(self, wire_order=None):
    if self.pauli_rep:
        return self.pauli_rep.to_mat(wire_order=wire_order or self.wires)
    mats, batched, gw = [], [], []
    for ops in self.overlapping_ops:
        gen = ((op.matrix(), op.wires) for op in ops)
        reduced_mat, wires = math.reduce_matrices(gen, reduce_func=math.matmul)
        gw.append(wires)
        batched.append(any(op.batch_size is not None for op in ops) if self.batch_size is not None else False)
        mats.append(reduced_mat)
    if self.batch_size is None:
        full_mat = reduce(math.kron, mats)
    else:
        full_mat = qp.math.stack([reduce(math.kron, [m[i] if b else m for m, b in zip(mats, batched, strict=True)]) for i in range(self.batch_size)])
    return math.expand_matrix(full_mat, Wires.all_wires(gw), wire_order=wire_order or self.wires)
Prod.matrix = matrix
