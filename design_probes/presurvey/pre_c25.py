import pennylane as qp, numpy as np, warnings, itertools
warnings.filterwarnings("ignore")
rng = np.random.default_rng(3)
from pennylane.noise import fold_global
def ang(): return float(rng.uniform(-3,3))
bad=[]; n=0
for trial in range(200):
    nw=int(rng.integers(1,4)); ops=[]
    for _ in range(int(rng.integers(1,8))):
        w=[int(x) for x in rng.permutation(nw)]
        ops.append([lambda: qp.RX(ang(),w[0]), lambda: qp.Hadamard(w[0]), lambda: qp.CNOT(w[:2]) if nw>1 else qp.S(w[0]), lambda: qp.Rot(ang(),ang(),ang(),w[0]), lambda: qp.T(w[0]), lambda: qp.IsingXY(ang(), w[:2]) if nw>1 else qp.RZ(ang(), w[0])][int(rng.integers(0,6))]())
    tape=qp.tape.QuantumScript(ops,[qp.expval(qp.Z(0))])
    U0=qp.matrix(tape, wire_order=list(range(nw)))
    for s in (1, 1.5, 2, 2.3, 3, 3.7, 4.2, 5, 7/3):
        try:
            (out,),_=fold_global(tape, s)
        except Exception as e:
            bad.append(('raise', s, repr(e)[:80])); continue
        n+=1
        U1=qp.matrix(out, wire_order=list(range(nw)))
        d=len(ops); L=len(out.operations)
        # documented: n = (s-1)//2 full folds, then partial fold of s_ = round(((s-1) mod 2) * d/2) gates
        nf=int((s-1)//2); sp=int(np.round(((s-1)%2)*d/2)); exp=d*(2*nf+1)+2*sp
        if not np.allclose(U1,U0,atol=1e-8): bad.append(('unitary', s, [str(o) for o in ops]))
        if L!=exp: bad.append(('count', s, d, L, exp))
print(n, "bad", len(bad)); print(bad[:6])
# extrapolation exactness
from pennylane.noise import richardson_extrapolate, poly_extrapolate, exponential_extrapolate
for deg in (1,2,3):
    c=rng.normal(size=deg+1); x=np.array([1.,2.,3.,4.,5.][:deg+1]); y=np.polyval(c,x)
    print("richardson deg",deg, abs(richardson_extrapolate(x,y)-np.polyval(c,0)) , "poly", abs(poly_extrapolate(x,y,deg)-np.polyval(c,0)))
x=np.array([1.,2.,3.,4.]); A,B=1.3,-0.4; y=A*np.exp(B*x); print("exp", abs(exponential_extrapolate(x,y)-A))
