import pennylane as qp, numpy as np, warnings, itertools
warnings.filterwarnings("ignore")
from pennylane.allocation import allocate, deallocate, Allocate, Deallocate, AllocateState
from pennylane.transforms import resolve_dynamic_wires
from pennylane.exceptions import AllocationError
rng = np.random.default_rng(3)
stats = dict(ok=0, alloc_err=0, bad=0); ex = []
for trial in range(3000):
    static = [0, 1]
    ops = [qp.Hadamard(0), qp.RX(0.3, 1)]
    live = []  # (dynamic wire, state, restored)
    hist = []
    for step in range(int(rng.integers(1, 9))):
        k = rng.random()
        if k < 0.4 or not live:
            n = int(rng.integers(1, 3)); st = ['zero','any'][int(rng.integers(0,2))]; rs = bool(rng.integers(0,2))
            ws = allocate(n, state=st, restored=rs)
            # allocate() returns wires and queues if recording; here not recording → build op manually
            ops.append(Allocate(ws, state=AllocateState(st), restored=rs)); live += [(w, st, rs) for w in ws]; hist.append(('alloc', n, st, rs))
        elif k < 0.7:
            i = int(rng.integers(0, len(live))); w, st, rs = live[i]
            ops.append(qp.CNOT([static[int(rng.integers(0,2))], w])); hist.append(('use', i))
        else:
            i = int(rng.integers(0, len(live))); w, st, rs = live.pop(i)
            ops.append(Deallocate([w])); hist.append(('dealloc', i))
    nz, na = int(rng.integers(0,3)), int(rng.integers(0,3))
    zeroed = [f"z{i}" for i in range(nz)]; anys = [f"a{i}" for i in range(na)]
    min_int = [None, 2, 5][int(rng.integers(0,3))]; allow = bool(rng.integers(0,2))
    tape = qp.tape.QuantumScript(ops, [qp.expval(qp.Z(0))])
    try:
        (out,), _ = resolve_dynamic_wires(tape, zeroed=zeroed, any_state=anys, min_int=min_int, allow_resets=allow)
    except AllocationError:
        stats['alloc_err'] += 1; continue
    except Exception as e:
        stats['bad'] += 1; ex.append(('raise', repr(e)[:100], hist, nz, na, min_int, allow)); continue
    # replay: map each dynamic wire to concrete by walking both op lists
    it = iter(out.operations); cur = {}; livec = {}; problem = None
    allowed = set(zeroed) | set(anys)
    dirty = set(anys)  # wires possibly non-zero
    oi = 0; outops = out.operations
    for op in ops:
        if isinstance(op, Allocate):
            for w in op.wires:
                # consume optional reset measurement(s)
                reset_seen = None
                while oi < len(outops) and outops[oi].name == 'MidMeasureMP':
                    reset_seen = outops[oi].wires[0]; 
                    if not outops[oi].hyperparameters.get('reset', getattr(outops[oi], 'reset', False)): problem = 'mcm without reset'
                    dirty.discard(reset_seen); oi += 1
                cur[w] = None  # determined at first use
                livec[w] = dict(state=op.hyperparameters['state'], restored=op.hyperparameters['restored'], reset=reset_seen)
        elif isinstance(op, Deallocate):
            for w in op.wires:
                c = cur.pop(w, None); info = livec.pop(w)
                if c is not None and not info['restored']: dirty.add(c)
        else:
            o = outops[oi]; oi += 1
            for wd, wc in zip(op.wires, o.wires):
                if wd in cur or wd in livec:
                    if cur.get(wd) is None:
                        cur[wd] = wc
                        if wc in static: problem = f'dynamic landed on static wire {wc}'
                        if not (wc in allowed or (min_int is not None and isinstance(wc, int) and wc >= min_int)): problem = f'landed on non-handed wire {wc}'
                        if livec[wd]['state'] == AllocateState.ZERO and wc in dirty: problem = f'zero-requested wire {wc} is dirty'
                        others = [v for k_, v in cur.items() if k_ != wd and v is not None]
                        if wc in others: problem = f'alias on {wc}'
                        dirty.add(wc)
                    elif cur[wd] != wc: problem = 'inconsistent map'
    if problem:
        stats['bad'] += 1; ex.append((problem, hist, nz, na, min_int, allow, [str(o) for o in out.operations]))
    else: stats['ok'] += 1
print(stats)
seen=set()
for e in ex:
    if e[0] not in seen: seen.add(e[0]); print(e)
