import pennylane as qp, numpy as np, warnings, random
warnings.filterwarnings("ignore")
import pennylane.estimator as qre
random.seed(7)
opsF=[lambda: qre.Hadamard(), lambda: qre.CNOT(), lambda: qre.T(), lambda: qre.RX(), lambda: qre.Toffoli(), lambda: qre.QFT(3), lambda: qre.MultiControlledX(3,1),
      lambda: qre.Adjoint(qre.QFT(3)), lambda: qre.Controlled(qre.RX(), 2, 1), lambda: qre.Pow(qre.T(), 3), lambda: qre.SemiAdder(4), lambda: qre.CRY(), lambda: qre.SWAP()]
def counts(res): 
    gc = res.gate_counts if hasattr(res,'gate_counts') else res.clean_gate_counts
    return dict(gc)
bad=[]
def est(wf): 
    def f():
        for mk in wf: mk()
    return qre.estimate(f)()
for trial in range(200):
    A=[random.choice(opsF) for _ in range(random.randint(1,3))]; B=[random.choice(opsF) for _ in range(random.randint(1,3))]
    n,m=random.randint(1,3),random.randint(1,3)
    try:
        rA,rB,rAB=est(A),est(B),est(A*n+B*m)
    except Exception as e:
        bad.append(('raise',repr(e)[:120])); continue
    cA,cB,cAB=counts(rA),counts(rB),counts(rAB)
    keys=set(cA)|set(cB)|set(cAB)
    if any(cAB.get(k,0)!=n*cA.get(k,0)+m*cB.get(k,0) for k in keys): bad.append(('additivity',cA,cB,cAB,n,m))
    for r in (rA,rB,rAB):
        z,a,al=r.zeroed_wires,r.any_state_wires,r.algo_wires
        if z<0 or a<0 or al<0: bad.append(('negative',z,a,al))
print("estimate bad",len(bad)); print([str(b)[:300] for b in bad[:3]])
from pennylane.estimator import WireResourceManager
bad2=[]
for t in range(20000):
    w=WireResourceManager(random.randint(0,5), random.randint(0,5), random.randint(0,5), tight_budget=random.random()<0.5)
    tot0=w.total_wires
    for s in range(random.randint(1,6)):
        n=random.randint(0,6); before=(w.zeroed,w.any_state,w.total_wires)
        try:
            if random.random()<0.5: w.grab_zeroed(n); kind='grab'
            else: w.free_wires(n); kind='free'
        except ValueError: 
            if (w.zeroed,w.any_state,w.total_wires)!=before: bad2.append(('state changed on error',))
            continue
        if w.zeroed<0 or w.any_state<0: bad2.append(('negative',kind,n,before,(w.zeroed,w.any_state)))
        if w.total_wires<before[2]: bad2.append(('total decreased',kind,n,before))
        if kind=='free' and w.total_wires!=before[2]: bad2.append(('free changed total',))
        if kind=='grab' and w.total_wires!=before[2]+max(0,n-before[0]): bad2.append(('grab accounting',kind,n,before,w.total_wires))
print("wire mgr bad",len(bad2)); print(bad2[:3])
