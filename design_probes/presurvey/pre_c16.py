import numpy as np, itertools, random, math, warnings
warnings.filterwarnings("ignore")
from pennylane.ops.op_math.decompositions.rings import ZSqrtTwo, ZOmega, DyadicMatrix, SO3Matrix
from pennylane.ops.op_math.decompositions import norm_solver as ns
random.seed(1)
def rz(B): return ZSqrtTwo(random.randint(-B,B), random.randint(-B,B))
def ro(B): return ZOmega(*[random.randint(-B,B) for _ in range(4)])
bad=[]
def law(name, cond, info):
    if not cond: bad.append((name, info))
for B in (3, 10**6, 10**30):
    for _ in range(300):
        x,y,z=rz(B),rz(B),rz(B)
        law('zs assoc*', (x*y)*z==x*(y*z), (x,y,z)); law('zs comm*', x*y==y*x,(x,y)); law('zs dist', x*(y+z)==x*y+x*z,(x,y,z))
        law('zs norm mult', abs(x*y)==abs(x)*abs(y),(x,y)); law('zs adj2 hom', (x*y).adj2()==x.adj2()*y.adj2(),(x,y)); law('zs sub', x-y==x+(-y),(x,y))
        law('zs id', x*1==x and x+0==x and x*ZSqrtTwo(1,0)==x, x); law('zs pow', x**3==x*x*x, x)
        law('zs to_omega hom', (x*y).to_omega()==x.to_omega()*y.to_omega(), (x,y))
        law('zs to_omega roundtrip', x.to_omega().to_sqrt_two()==x, x)
        a,b,c=ro(B),ro(B),ro(B)
        law('zo assoc*', (a*b)*c==a*(b*c),(a,b,c)); law('zo comm*', a*b==b*a,(a,b)); law('zo dist', a*(b+c)==a*b+a*c,(a,b,c))
        law('zo conj hom', (a*b).conj()==a.conj()*b.conj(),(a,b)); law('zo adj2 hom', (a*b).adj2()==a.adj2()*b.adj2(),(a,b)); law('zo conj inv', a.conj().conj()==a, a)
        law('zo abs mult', abs(a*b)==abs(a)*abs(b),(a,b)); 
        n=a.norm(); law('zo norm real', n.b==0 and n.a+n.c==0, a)
        law('zo abs = N(norm)', abs(a)==abs(a.norm().to_sqrt_two()), a)
        if B<=10**6:
            cz=complex(a)*complex(b); law('zo complex hom', abs(complex(a*b)-cz)<=1e-6*max(1,abs(cz)), (a,b))
            law('zs float hom', abs(float(x*y)-float(x)*float(y))<=1e-6*max(1,abs(float(x)*float(y))), (x,y))
        for k in (2,3,-5):
            law('zo truediv', (a*k)/k==a, (a,k))
            law('zs truediv', (x*k)/k==x, (x,k))
        if abs(y)!=0:
            r=x%y; law('zs mod congr', any(((x-r*s)*y.adj2()).a%abs(y)==0 and ((x-r*s)*y.adj2()).b%abs(y)==0 for s in (1,-1)), (x,y,r))
        if abs(b)!=0:
            r=a%b; d=abs(b); q=(a-r)*b.conj()*(b*b.conj()).adj2(); q2=(a+r)*b.conj()*(b*b.conj()).adj2()
            law('zo mod congr', all(v%d==0 for v in q.flatten) or all(v%d==0 for v in q2.flatten), (a,b,r))
# dyadic matrices
def rd(B,k=None): return DyadicMatrix(ro(B),ro(B),ro(B),ro(B), random.randint(0,4) if k is None else k)
for _ in range(300):
    A,Bm,C=rd(4),rd(4),rd(4)
    law('dy assoc@', (A@Bm)@C==A@(Bm@C),(A,Bm,C))
    law('dy ndarray hom', np.allclose((A@Bm).ndarray, A.ndarray@Bm.ndarray),(A,Bm))
    law('dy add ndarray', np.allclose((A+Bm).ndarray, A.ndarray+Bm.ndarray),(A,Bm))
    law('dy conj', np.allclose(A.conj().ndarray, A.ndarray.conj()), A)
    law('dy dist', (A@(Bm+C))==(A@Bm+A@C), (A,Bm,C))
# SO3 from clifford+T generators
Tm=DyadicMatrix(ZOmega(d=1),ZOmega(),ZOmega(),ZOmega(c=1)); Hm=DyadicMatrix(ZOmega(d=1),ZOmega(d=1),ZOmega(d=1),ZOmega(d=-1),k=1); Sm=DyadicMatrix(ZOmega(d=1),ZOmega(),ZOmega(),ZOmega(b=1))
gens=[Tm,Hm,Sm]
for _ in range(200):
    w1=[random.choice(gens) for _ in range(random.randint(1,8))]; w2=[random.choice(gens) for _ in range(random.randint(1,8))]
    from functools import reduce
    M1=reduce(lambda a,b:a@b,w1); M2=reduce(lambda a,b:a@b,w2)
    S1,S2,S12=SO3Matrix(M1),SO3Matrix(M2),SO3Matrix(M1@M2)
    law('so3 hom', np.allclose((S1@S2).ndarray, S12.ndarray), None)
    law('so3 orth', np.allclose(S1.ndarray@S1.ndarray.T, np.eye(3)), None)
    law('so3 matmul eq', (S1@S2)==S12, (S1@S2, S12))
# primality & diophantine
def isprime(n):
    if n<2: return False
    return all(n%d for d in range(2,int(math.isqrt(n))+1))
for n in range(0,30000): 
    if ns._primality_test(n)!=isprime(n): bad.append(('prime',n))
for n in [random.randint(10**6,10**9) for _ in range(300)]:
    if ns._primality_test(n)!=isprime(n): bad.append(('prime',n))
sols=0
for a in range(-40,41):
    for b in range(-30,31):
        xi=ZSqrtTwo(a,b)
        try: t=ns._solve_diophantine(xi)
        except Exception as e: bad.append(('dioph raise',(a,b),repr(e)[:60])); continue
        if t is not None:
            sols+=1
            if not (t.conj()*t==xi.to_omega()): bad.append(('dioph wrong',(a,b),t))
print("diophantine solutions found",sols)
from collections import Counter
print("bad",len(bad), Counter(b[0] for b in bad)); 
seen=set()
for b in bad:
    if b[0] not in seen: seen.add(b[0]); print("  ",str(b)[:300])
