import pennylane as qp, numpy as np, warnings, itertools
warnings.filterwarnings("ignore")
from pennylane.ops.qubit import attributes as A
rng = np.random.default_rng(0)
def make(name, params=None, batch=None):
    cls = getattr(qp, name)
    nw = cls.num_wires if isinstance(getattr(cls,'num_wires',None), int) else None
    spec = {'MultiRZ': 3, 'PauliRot': 2, 'PCPhase': 2, 'DiagonalQubitUnitary': 2, 'GlobalPhase': 1, 'Identity':2}
    if nw is None: nw = spec.get(name, 2)
    kw = {}
    if name == 'PauliRot': kw['pauli_word'] = 'XY'
    if name == 'PCPhase': kw['dim'] = 3
    npar = cls.num_params if isinstance(cls.num_params, int) else 1
    if params is None:
        params = rng.uniform(-3, 3, size=npar)
    if name == 'DiagonalQubitUnitary':
        params = [np.exp(1j*rng.uniform(-3,3,size=4))]
    return cls(*params, wires=list(range(nw)), **kw)
res = {}
def rec(attr, name, ok, note=""):
    res.setdefault(attr, []).append((name, ok, note))
for name in sorted(A.self_inverses):
    try:
        op = make(name); M = qp.matrix(op); rec('self_inverses', name, np.allclose(M@M, np.eye(len(M))))
    except Exception as e: rec('self_inverses', name, None, repr(e)[:80])
for name in sorted(A.symmetric_over_all_wires):
    try:
        op = make(name); w = list(op.wires); M = qp.matrix(op, wire_order=w)
        ok = all(np.allclose(M, qp.matrix(op, wire_order=list(p))) for p in itertools.permutations(w))
        rec('symmetric_over_all_wires', name, ok)
    except Exception as e: rec('symmetric_over_all_wires', name, None, repr(e)[:80])
for name in sorted(A.symmetric_over_control_wires):
    op = make(name); w = list(op.wires); M = qp.matrix(op, wire_order=w)
    rec('symmetric_over_control_wires', name, np.allclose(M, qp.matrix(op, wire_order=[w[1],w[0]]+w[2:])))
for name in sorted(A.diagonal_in_z_basis):
    try:
        op = make(name); M = qp.matrix(op); rec('diagonal_in_z_basis', name, np.allclose(M, np.diag(np.diag(M))))
    except Exception as e: rec('diagonal_in_z_basis', name, None, repr(e)[:80])
for name in sorted(A.composable_rotations):
    try:
        cls = getattr(qp, name); npar = cls.num_params
        a, b = rng.uniform(-3,3,size=npar), rng.uniform(-3,3,size=npar)
        Ma, Mb, Mab = (qp.matrix(make(name, p)) for p in (a, b, a+b))
        rec('composable_rotations', name, np.allclose(Ma@Mb, Mab), f"npar={npar}")
    except Exception as e: rec('composable_rotations', name, None, repr(e)[:80])
for name in sorted(A.has_unitary_generator):
    try:
        op = make(name); G = qp.matrix(qp.generator(op, format='observable'), wire_order=op.wires)
        GG = G.conj().T@G; lam = GG[0,0]
        rec('has_unitary_generator', name, np.allclose(GG, lam*np.eye(len(G))) and abs(lam) > 1e-9)
    except Exception as e: rec('has_unitary_generator', name, None, repr(e)[:80])
for name in sorted(A.supports_broadcasting):
    try:
        cls = getattr(qp, name, None)
        if cls is None: rec('supports_broadcasting', name, None, 'no class'); continue
        npar = cls.num_params if isinstance(cls.num_params, int) else None
        if npar is None or name in ('QubitUnitary','ControlledQubitUnitary','StatePrep','AmplitudeEmbedding','AngleEmbedding','IQPEmbedding','QAOAEmbedding','SpecialUnitary','DiagonalQubitUnitary'):
            rec('supports_broadcasting', name, None, 'skipped (array-param)'); continue
        P = rng.uniform(-3,3,size=(3,npar))
        Mb = qp.matrix(make(name, [P[:,k] for k in range(npar)]))
        Ms = np.stack([qp.matrix(make(name, P[i])) for i in range(3)])
        rec('supports_broadcasting', name, Mb.shape == Ms.shape and np.allclose(Mb, Ms))
    except Exception as e: rec('supports_broadcasting', name, None, repr(e)[:80])
for attr, rows in res.items():
    bad = [r for r in rows if r[1] is not True]
    print(attr, f"{sum(1 for r in rows if r[1] is True)}/{len(rows)} ok;", "not-ok:", bad)
